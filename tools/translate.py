#!/usr/bin/env python3
"""Rust-subset -> Lean translator (DESIGN 1.2 a). Regenerates lean/FlacVerif/Gen/*.lean from
/repo's working tree on every run:

  Gen/Constants.lean  every numeric `const` of src/constant.rs
  Gen/Config.lean     the config structs/enums of src/config.rs, their `Default` impls, their
                      `Verify` impls (ranges AND which nested verifies are chained), their serde
                      shape (container defaults, tagged enums, per-field defaults) as toT/fromT/resetFields
  Gen/Tables.lean     CRC parameters named by CRC_8_FLAC / CRC_16_FLAC (crc-catalog in the cargo registry),
                      FIXED_LPC_COEFS of decode.rs
  Gen/Headers.lean    the frame-header code functions of src/component/datatype.rs (BlockSizeSpec, SampleSizeSpec,
                      SampleRateSpec, ChannelAssignment: enums, `match` tables, discriminants) and the
                      ChannelAssignment writer of bitrepr.rs, parsed and mirrored arm by arm (part `headers`)

  Gen/Writer.lean     the `impl BitRepr` bodies of src/component/bitrepr.rs (part `writer`)
  Gen/Verify.lean     the `impl Verify` bodies of src/component/verify.rs, the helper macros they use (`macro_rules!`
                      definitions of verify.rs and src/error.rs, expanded by a macro-by-example engine), `verify_macro_impl`,
                      and the public constructors / setters of src/component/datatype.rs (part `verify`)

It accepts a deliberately tiny Rust subset and FAILS CLOSED: any construct it does not recognise inside
a translated item aborts with "translator cannot read <item>" (exit 1) — it never guesses.
"""
import os, re, struct, sys, glob

# FV_REPO (or the older VERIF_REPO) = root of the Rust crate to read; FV_ROOT = root of the verification
# tree to write into (lean/FlacVerif/Gen/*.lean, .cache/translate_status.json). Defaults: /repo and the
# parent directory of this script's directory.
REPO = os.environ.get("FV_REPO") or os.environ.get("VERIF_REPO") or "/repo"
ROOT = os.environ.get("FV_ROOT") or os.path.dirname(os.path.dirname(os.path.abspath(__file__)))
OUT = os.path.join(ROOT, "lean", "FlacVerif", "Gen")


class Unreadable(Exception):
    pass


def fail(what):
    raise Unreadable(what)


def strip_comments(src):
    src = re.sub(r"/\*.*?\*/", "", src, flags=re.S)
    out = []
    for line in src.splitlines():
        # remove // comments (no string literal in the translated items contains //)
        i = line.find("//")
        if i >= 0:
            line = line[:i]
        out.append(line)
    return "\n".join(out)


def f32_bits(x):
    return struct.unpack(">I", struct.pack(">f", x))[0]


# ------------------------------------------------------------------ constants

INT_TYPES = {"usize", "u8", "u16", "u32", "u64", "i8", "i16", "i32", "i64", "isize"}


def parse_constants():
    src = strip_comments(open(os.path.join(REPO, "src", "constant.rs")).read())
    # cut the test module if any
    toks = re.findall(r"[A-Za-z_][A-Za-z0-9_]*|\d[0-9A-Za-z_.]*|\"[^\"]*\"|::|<<|>>|[{}();:=+\-*/<>&!,.\[\]#]", src)
    consts = {}   # full name (mod.NAME) -> (type, expr tokens, module path)
    order = []
    stack = []
    i = 0
    depth_stack = []  # brace depth at which each module was opened
    depth = 0
    while i < len(toks):
        t = toks[i]
        if t == "mod" and i + 2 < len(toks) and toks[i + 2] == "{":
            stack.append(toks[i + 1]); depth_stack.append(depth); depth += 1; i += 3; continue
        if t == "{":
            depth += 1
        elif t == "}":
            depth -= 1
            if depth_stack and depth == depth_stack[-1]:
                stack.pop(); depth_stack.pop()
        elif t == "const" and toks[i + 2] == ":":
            name = toks[i + 1]
            j = i + 3
            ty = []
            while toks[j] != "=":
                ty.append(toks[j]); j += 1
            k = j + 1
            expr = []
            while toks[k] != ";":
                expr.append(toks[k]); k += 1
            full = ".".join(stack + [name])
            consts[full] = ("".join(ty), expr, list(stack))
            order.append(full)
            i = k
        i += 1
    values = {}

    def lookup(name, mods):
        for cut in range(len(mods), -1, -1):
            full = ".".join(mods[:cut] + [name])
            if full in consts:
                return ev(full)
        fail(f"constant.rs: reference to unknown constant {name}")

    def ev(full):
        if full in values:
            return values[full]
        ty, expr, mods = consts[full]
        if ty.startswith("&"):
            values[full] = None
            return None
        if ty == "f32":
            if len(expr) != 1 or not re.fullmatch(r"\d+\.\d+", expr[0]):
                fail(f"constant.rs: f32 constant {full} is not a plain literal")
            values[full] = ("f32", float(expr[0]))
            return values[full]
        if ty not in INT_TYPES:
            fail(f"constant.rs: constant {full} of unsupported type {ty}")
        # integer expression: literals with optional type suffix, names, ( ) << >> + - *
        py = []
        for t in expr:
            if re.fullmatch(r"\d[0-9A-Za-z_]*", t):
                m = re.fullmatch(r"(0x[0-9A-Fa-f_]+|\d[\d_]*)(usize|u8|u16|u32|u64|i8|i16|i32|i64|isize)?", t)
                if not m:
                    fail(f"constant.rs: literal {t} in {full}")
                py.append(str(int(m.group(1).replace("_", ""), 0)))
            elif re.fullmatch(r"[A-Za-z_][A-Za-z0-9_]*", t):
                v = lookup(t, mods)
                if not isinstance(v, int):
                    fail(f"constant.rs: non-integer reference {t} in {full}")
                py.append(str(v))
            elif t in ("(", ")", "<<", ">>", "+", "-", "*"):
                py.append(t)
            else:
                fail(f"constant.rs: token {t!r} in {full}")
        values[full] = int(eval(" ".join(py), {"__builtins__": {}}))
        return values[full]

    for full in order:
        if any(m == "built" or m == "build_info" for m in consts[full][2]):
            values[full] = None
            continue
        ev(full)
    return order, consts, values


def emit_constants(order, consts, values):
    lines = ["-- GENERATED by tools/translate.py from src/constant.rs — do not edit", "namespace FlacVerif.Gen.Const", ""]
    for full in order:
        v = values[full]
        name = full.replace(".", "_")
        if v is None:
            lines.append(f"-- {full}: not numeric (skipped)")
        elif isinstance(v, tuple):
            lines.append(f"/-- f32 {v[1]} as its IEEE-754 bit pattern -/")
            lines.append(f"def {name}_bits : Nat := 0x{f32_bits(v[1]):08X}")
        elif v < 0:
            lines.append(f"def {name} : Int := {v}")
        else:
            lines.append(f"def {name} : Nat := {v}")
    lines += ["", "end FlacVerif.Gen.Const", ""]
    return "\n".join(lines)


# ------------------------------------------------------------------ config.rs

def tokenize(src):
    return re.findall(r"[A-Za-z_][A-Za-z0-9_]*|\d+\.\d+|\d+|\"[^\"]*\"|::|\.\.=|\.\.|=>|==|!=|<=|>=|&&|\|\||[{}()\[\];:=+\-*/<>&!,.#|?]", src)


class Cfg:
    def __init__(self):
        self.aliases = {}     # local name -> constant full name
        self.structs = {}     # name -> {"fields": [(name, type)], "container_default": bool}
        self.enums = {}       # name -> {"tag": str|None, "variants": [(name, [(field, type, default_fn)])]}
        self.default_fns = {}  # fn name -> constant local name
        self.defaults = {}    # type name -> ("struct", {field: expr tokens}) | ("variant", vname, {field: expr})
        self.verifies = {}    # type name -> AST
        self.order = []


def parse_config(const_values):
    src = strip_comments(open(os.path.join(REPO, "src", "config.rs")).read())
    # drop the test module
    m = re.search(r"#\[cfg\(test\)\]\s*mod tests", src)
    if m:
        src = src[:m.start()]
    cfg = Cfg()
    # --- use lines
    for um in re.finditer(r"use\s+super::constant((?:::[A-Za-z_0-9]+)*)(?:\s+as\s+([A-Za-z_0-9]+))?\s*;", src):
        path = [p for p in um.group(1).split("::") if p]
        if not path:
            continue  # `use super::constant;` (module import)
        local = um.group(2) or path[-1]
        cfg.aliases[local] = ".".join(path)
    toks = tokenize(src)
    i = 0
    pending_attrs = []

    def skip_group(i):
        """toks[i] is an opening bracket; returns index after the matching close."""
        open_t = toks[i]
        close_t = {"(": ")", "[": "]", "{": "}"}[open_t]
        d = 0
        while True:
            if toks[i] == open_t:
                d += 1
            elif toks[i] == close_t:
                d -= 1
                if d == 0:
                    return i + 1
            i += 1

    def attr_text(i):
        j = skip_group(i + 1)
        return "".join(toks[i:j]), j

    def check_serde_attr(a, where, allowed):
        """every `serde(..)` inside an attribute must be one of the shapes this part gives a meaning to; anything else
        (rename, skip, skip_serializing_if, flatten, with, alias, ...) changes the serialised shape and fails closed"""
        for inner in re.findall(r"serde\(([^()]*(?:\([^()]*\))?[^()]*)\)", a):
            if not any(re.fullmatch(pat, inner) for pat in allowed):
                fail(f"config.rs: {where}: serde attribute `serde({inner})` has no reading")
        if "serde" in a and "serde(" not in a and "derive(" not in a:
            fail(f"config.rs: {where}: attribute `{a}` mentions serde in a form that has no reading")

    def parse_type(i):
        # usize | bool | f32 | Ident | Option<NonZeroUsize>
        t = toks[i]
        if t == "Option":
            if toks[i + 1:i + 4] != ["<", "NonZeroUsize", ">"]:
                fail("config.rs: Option<...> of a type other than NonZeroUsize")
            return "Option<NonZeroUsize>", i + 4
        return t, i + 1

    while i < len(toks):
        t = toks[i]
        if t == "#" and toks[i + 1] == "[":
            a, i = attr_text(i)
            pending_attrs.append(a)
            continue
        if t == "pub" and toks[i + 1] == "struct":
            name = toks[i + 2]
            assert toks[i + 3] == "{"
            j = i + 4
            fields = []
            for a in pending_attrs:
                check_serde_attr(a, f"struct {name}", [r"default"])
            while toks[j] != "}":
                if toks[j] == "#":
                    a, j = attr_text(j)
                    check_serde_attr(a, f"struct {name}: field attribute", [])  # no field-level serde attribute has a reading
                    continue
                if toks[j] != "pub":
                    fail(f"config.rs: struct {name}: non-pub field")
                fname = toks[j + 1]
                if toks[j + 2] != ":":
                    fail(f"config.rs: struct {name}: field syntax")
                ty, j = parse_type(j + 3)
                fields.append((fname, ty))
                if toks[j] == ",":
                    j += 1
            cdef = any("serde(default)" in a for a in pending_attrs)
            cfg.structs[name] = {"fields": fields, "container_default": cdef}
            cfg.order.append(name)
            pending_attrs = []
            i = j + 1
            continue
        if t == "pub" and toks[i + 1] == "enum":
            name = toks[i + 2]
            j = i + 4
            variants = []
            while toks[j] != "}":
                vname = toks[j]
                j += 1
                vfields = []
                if toks[j] == "{":
                    j += 1
                    fdefault = None
                    while toks[j] != "}":
                        if toks[j] == "#":
                            a, j = attr_text(j)
                            check_serde_attr(a, f"enum {name}::{vname}: field attribute", [r'default="[A-Za-z_0-9]+"'])
                            dm = re.search(r"serde\(default=\"([A-Za-z_0-9]+)\"\)", a)
                            if dm:
                                fdefault = dm.group(1)
                            continue
                        fname = toks[j]
                        if toks[j + 1] != ":":
                            fail(f"config.rs: enum {name}::{vname}: field syntax")
                        ty, j = parse_type(j + 2)
                        vfields.append((fname, ty, fdefault))
                        fdefault = None
                        if toks[j] == ",":
                            j += 1
                    j += 1
                elif toks[j] == "(":
                    fail(f"config.rs: enum {name}::{vname}: tuple variant")
                if toks[j] == ",":
                    j += 1
                variants.append((vname, vfields))
            tag = None
            for a in pending_attrs:
                check_serde_attr(a, f"enum {name}", [r'tag="[a-z_]+"'])
                tm = re.search(r"serde\(tag=\"([a-z_]+)\"\)", a)
                if tm:
                    tag = tm.group(1)
            cfg.enums[name] = {"tag": tag, "variants": variants}
            cfg.order.append(name)
            pending_attrs = []
            i = j + 1
            continue
        if t == "const" and toks[i + 1] == "fn":
            fname = toks[i + 2]
            # const fn NAME() -> T { CONST }
            j = i + 3
            while toks[j] != "{":
                j += 1
            body = toks[j + 1:skip_group(j) - 1]
            if len(body) != 1:
                fail(f"config.rs: const fn {fname}: body is not a single constant")
            cfg.default_fns[fname] = body[0]
            pending_attrs = []
            i = skip_group(j)
            continue
        if t == "impl":
            # impl Default for X / impl Verify for X / impl Eq for X {}
            trait = toks[i + 1]
            if toks[i + 2] != "for":
                i += 1
                continue
            ty = toks[i + 3]
            j = i + 4
            assert toks[j] == "{", f"impl {trait} for {ty}"
            end = skip_group(j)
            body = toks[j + 1:end - 1]
            if trait == "Default":
                cfg.defaults[ty] = parse_default(ty, body)
            elif trait == "Verify":
                cfg.verifies[ty] = parse_verify(ty, body)
            elif trait == "Eq":
                pass
            else:
                fail(f"config.rs: impl {trait} for {ty}")
            pending_attrs = []
            i = end
            continue
        if t in ("use",):
            while toks[i] != ";":
                i += 1
            i += 1
            pending_attrs = []
            continue
        i += 1
    return cfg


def parse_default(ty, body):
    # fn default ( ) -> Self { Self { f : expr , ... } }  |  { Self :: V { f : expr } }
    try:
        k = body.index("{")
    except ValueError:
        fail(f"config.rs: Default for {ty}")
    inner = body[k + 1:-1]
    if inner[0] != "Self":
        fail(f"config.rs: Default for {ty}: body does not start with Self")
    p = 1
    variant = None
    if inner[p] == "::":
        variant = inner[p + 1]
        p += 2
    if inner[p] != "{":
        fail(f"config.rs: Default for {ty}: expected struct literal")
    fields = {}
    p += 1
    while inner[p] != "}":
        fname = inner[p]
        if inner[p + 1] != ":":
            fail(f"config.rs: Default for {ty}: field init shorthand")
        q = p + 2
        expr = []
        depth = 0
        while not (inner[q] == "," and depth == 0) and not (inner[q] == "}" and depth == 0):
            if inner[q] in "({[":
                depth += 1
            elif inner[q] in ")}]":
                depth -= 1
            expr.append(inner[q])
            q += 1
        fields[fname] = expr
        p = q + (1 if inner[q] == "," else 0)
    return (variant, fields)


def parse_verify(ty, body):
    """Returns a list of conjunct ASTs:
       ("range", expr, lo|None, hi|None, hi_inclusive), ("true", cond-expr), ("chain", field),
       ("unless_experimental", [conjuncts]), ("match", [(variant, [bound fields], [conjuncts])])"""
    try:
        k = body.index("{")
    except ValueError:
        fail(f"config.rs: Verify for {ty}")
    head = body[:k]
    if head[:2] != ["fn", "verify"]:
        fail(f"config.rs: Verify for {ty}: unexpected item {head[:3]}")
    toks = body[k + 1:-1]
    pos = [0]

    def peek(n=0):
        return toks[pos[0] + n] if pos[0] + n < len(toks) else None

    def eat(t):
        if peek() != t:
            fail(f"config.rs: Verify for {ty}: expected {t!r}, found {peek()!r} near {' '.join(toks[max(0,pos[0]-6):pos[0]+6])}")
        pos[0] += 1

    def parse_atom():
        # bound: ident | int | (path)
        t = peek()
        if t == "(":
            eat("(")
            a = parse_atom()
            eat(")")
            return a
        if re.fullmatch(r"\d+\.\d+", t):
            pos[0] += 1
            return ("float", float(t))
        if re.fullmatch(r"\d+", t):
            pos[0] += 1
            return ("int", int(t))
        # path a::b::C
        parts = [t]
        pos[0] += 1
        while peek() == "::":
            pos[0] += 1
            parts.append(peek())
            pos[0] += 1
        return ("path", parts)

    def parse_expr_until(stops):
        # a very small expression language: [!] self . f [== INT] | ident
        neg = False
        if peek() == "!":
            neg = True
            pos[0] += 1
        if peek() == "self":
            eat("self"); eat(".")
            e = ("field", peek()); pos[0] += 1
        elif re.fullmatch(r"[a-z_][a-z0-9_]*", peek() or ""):
            e = ("var", peek()); pos[0] += 1
        else:
            fail(f"config.rs: Verify for {ty}: expression starting with {peek()!r}")
        if peek() == "==":
            pos[0] += 1
            rhs = parse_atom()
            e = ("eq", e, rhs)
        if neg:
            e = ("not", e)
        if peek() not in stops:
            fail(f"config.rs: Verify for {ty}: unsupported expression tail {peek()!r}")
        return e

    def parse_range():
        lo = hi = None
        incl = False
        if peek() not in ("..", "..="):
            lo = parse_atom()
        if peek() == "..=":
            pos[0] += 1; incl = True; hi = parse_atom()
        elif peek() == "..":
            pos[0] += 1
            if peek() not in (")",):
                hi = parse_atom()
        else:
            fail(f"config.rs: Verify for {ty}: range syntax near {peek()!r}")
        return lo, hi, incl

    def parse_macro_call():
        name = peek(); pos[0] += 1
        eat("!"); eat("(")
        if not (peek() or "").startswith('"'):
            fail(f"config.rs: Verify for {ty}: {name}! without a literal name")
        pos[0] += 1; eat(",")
        if name == "verify_range":
            e = parse_expr_until([","])
            eat(",")
            lo, hi, incl = parse_range()
            eat(")")
            return ("range", e, lo, hi, incl)
        if name == "verify_true":
            e = parse_expr_until([","])
            eat(",")
            if not (peek() or "").startswith('"'):
                fail(f"config.rs: Verify for {ty}: verify_true! message")
            pos[0] += 1
            eat(")")
            return ("true", e)
        fail(f"config.rs: Verify for {ty}: macro {name}!")

    def parse_stmts(until):
        out = []
        while peek() != until:
            t = peek()
            if t in ("verify_range", "verify_true"):
                c = parse_macro_call()
                if peek() == "?":
                    eat("?"); eat(";")
                elif peek() == until:
                    pass  # final expression
                else:
                    fail(f"config.rs: Verify for {ty}: result of {t}! is neither `?`-propagated nor the final value")
                out.append(c)
            elif t == "self" and peek(2) != "verify":
                # self . f . verify ( ) . map_err ( | err | err . within ( "f" ) ) ? ;
                eat("self"); eat(".")
                f = peek(); pos[0] += 1
                eat("."); eat("verify"); eat("("); eat(")")
                eat("."); eat("map_err"); eat("(")
                d = 1
                while d > 0:
                    if peek() == "(":
                        d += 1
                    elif peek() == ")":
                        d -= 1
                    pos[0] += 1
                eat("?"); eat(";")
                out.append(("chain", f))
            elif t == "if" and peek(1) == "cfg":
                # if cfg ! ( not ( feature = "experimental" ) ) { ... }
                seq = ["if", "cfg", "!", "(", "not", "(", "feature", "=", '"experimental"', ")", ")", "{"]
                for s in seq:
                    eat(s)
                inner = parse_stmts("}")
                eat("}")
                out.append(("unless_experimental", inner))
            elif t == "Ok":
                eat("Ok"); eat("("); eat("("); eat(")"); eat(")")
                if peek() not in (until,):
                    fail(f"config.rs: Verify for {ty}: code after Ok(())")
            elif t == "match":
                eat("match"); eat("*"); eat("self"); eat("{")
                arms = []
                while peek() != "}":
                    eat("Self"); eat("::")
                    v = peek(); pos[0] += 1
                    bound = []
                    if peek() == "{":
                        eat("{")
                        while peek() != "}":
                            bound.append(peek()); pos[0] += 1
                            if peek() == ",":
                                eat(",")
                        eat("}")
                    eat("=>")
                    if peek() == "{":
                        eat("{")
                        if peek() == "if":
                            # if ( A ..= B ) . contains ( & x ) { Ok(()) } else { Err ( ... ) }
                            eat("if"); eat("(")
                            lo = parse_atom(); eat("..="); hi = parse_atom(); eat(")")
                            eat("."); eat("contains"); eat("("); eat("&")
                            x = peek(); pos[0] += 1; eat(")")
                            eat("{"); eat("Ok"); eat("("); eat("("); eat(")"); eat(")"); eat("}")
                            eat("else"); eat("{"); eat("Err"); eat("(")
                            d = 1
                            while d > 0:
                                if peek() == "(":
                                    d += 1
                                elif peek() == ")":
                                    d -= 1
                                pos[0] += 1
                            eat("}")
                            conj = [("frange", ("var", x), lo, hi)]
                        else:
                            conj = parse_stmts("}")
                        eat("}")
                    else:
                        eat("Ok"); eat("("); eat("("); eat(")"); eat(")")
                        conj = []
                    if peek() == ",":
                        eat(",")
                    arms.append((v, bound, conj))
                eat("}")
                out.append(("match", arms))
            else:
                fail(f"config.rs: Verify for {ty}: statement starting with {t!r}")
        return out

    return parse_stmts(None)


LEAN_TYPES = {"usize": "Nat", "bool": "Bool", "f32": "Nat", "Option<NonZeroUsize>": "Option Nat"}


def lean_type(t):
    return LEAN_TYPES.get(t, t)


def emit_config(cfg, const_values):
    def const_ref(parts):
        # path parts like ['MAX_BLOCK_SIZE'] or ['constant','fixed','MAX_LPC_ORDER']
        if parts[0] == "constant":
            full = ".".join(parts[1:])
        else:
            if parts[0] not in cfg.aliases:
                fail(f"config.rs: unknown constant {'::'.join(parts)}")
            full = cfg.aliases[parts[0]]
        if full not in const_values or const_values[full] is None:
            fail(f"config.rs: constant {full} has no numeric value")
        return full

    def atom_lean(a, as_f32=False):
        if a[0] == "int":
            return str(a[1])
        if a[0] == "float":
            return f"0x{f32_bits(a[1]):08X}"
        full = const_ref(a[1])
        v = const_values[full]
        name = "Const." + full.replace(".", "_")
        return name + ("_bits" if isinstance(v, tuple) else "")

    def expr_lean(e, recv):
        k = e[0]
        if k == "field":
            return f"{recv}.{e[1]}"
        if k == "var":
            return e[1]
        if k == "not":
            return f"(!{expr_lean(e[1], recv)})"
        if k == "eq":
            return f"({expr_lean(e[1], recv)} == {atom_lean(e[2])})"
        fail(f"expression kind {k}")

    def conj_lean(c, recv):
        k = c[0]
        if k == "range":
            e = expr_lean(c[1], recv)
            parts = []
            if c[2] is not None:
                parts.append(f"decide ({atom_lean(c[2])} ≤ {e})")
            if c[3] is not None:
                parts.append(f"decide ({e} {'≤' if c[4] else '<'} {atom_lean(c[3])})")
            return " && ".join(parts) if parts else "true"
        if k == "true":
            return expr_lean(c[1], recv)
        if k == "chain":
            fty = None
            return ("CHAIN", c[1])
        if k == "unless_experimental":
            inner = conjs_lean(c[1], recv)
            return f"(exp || ({inner}))"
        if k == "frange":
            return f"F32.inRange {atom_lean(c[2])} {atom_lean(c[3])} {expr_lean(c[1], recv)}"
        fail(f"conjunct kind {k}")

    field_types = {}
    for s, d in cfg.structs.items():
        for f, t in d["fields"]:
            field_types[(s, f)] = t

    def conjs_lean(cs, recv, owner=None):
        parts = []
        for c in cs:
            if c[0] == "chain":
                t = field_types.get((owner, c[1]))
                if t is None:
                    fail(f"config.rs: Verify for {owner}: chained verify of unknown field {c[1]}")
                parts.append(f"{t}.verify exp {recv}.{c[1]}")
            elif c[0] == "unless_experimental":
                parts.append(f"(exp || ({conjs_lean(c[1], recv, owner)}))")
            else:
                parts.append(conj_lean(c, recv))
        return " && ".join(parts) if parts else "true"

    L = ["-- GENERATED by tools/translate.py from src/config.rs — do not edit",
         "import FlacVerif.Gen.Constants", "import FlacVerif.Model.TVal",
         "set_option linter.unusedVariables false",
         "namespace FlacVerif.Gen", "open FlacVerif", ""]
    # type declarations in dependency order: leaves first
    deps = {}
    for n in cfg.order:
        if n in cfg.structs:
            deps[n] = [t for _, t in cfg.structs[n]["fields"] if t in cfg.structs or t in cfg.enums]
        else:
            deps[n] = []
    done, order = set(), []

    def visit(n):
        if n in done:
            return
        for d in deps[n]:
            visit(d)
        done.add(n); order.append(n)
    for n in cfg.order:
        visit(n)

    def default_expr(toks, ty):
        # literal true/false/int/float, CONST alias, constant::PATH, X::default(), cfg!(feature="par"), None
        s = "".join(toks)
        if s in ("true", "false"):
            return s
        if s == "None":
            return "none"
        if re.fullmatch(r"\d+", s):
            return s
        if s == 'cfg!(feature="par")':
            return "par"
        m = re.fullmatch(r"([A-Za-z_0-9]+)::default\(\)", s)
        if m:
            return f"{m.group(1)}.default par"
        if re.fullmatch(r"[A-Za-z_0-9:]+", s):
            return atom_lean(("path", [p for p in s.split("::") if p]))
        fail(f"config.rs: default expression `{s}`")

    for n in order:
        if n in cfg.structs:
            d = cfg.structs[n]
            L.append(f"structure {n} where")
            for f, t in d["fields"]:
                L.append(f"  {f} : {lean_type(t)}")
            L.append("  deriving Repr, DecidableEq")
            L.append("")
            if n not in cfg.defaults:
                fail(f"config.rs: no Default impl for {n}")
            variant, fields = cfg.defaults[n]
            if variant is not None or set(fields) != {f for f, _ in d["fields"]}:
                fail(f"config.rs: Default for {n} does not initialise exactly its fields")
            L.append(f"/-- `impl Default for {n}` (`par` = cfg!(feature = \"par\")). -/")
            L.append(f"def {n}.default (par : Bool) : {n} :=")
            inits = ", ".join(f"{f} := {default_expr(fields[f], t)}" for f, t in d["fields"])
            L.append("  { " + inits + " }")
            L.append("")
            if n not in cfg.verifies:
                fail(f"config.rs: no Verify impl for {n}")
            L.append(f"/-- `impl Verify for {n}` (`exp` = cfg!(feature = \"experimental\")). -/")
            L.append(f"def {n}.verify (exp : Bool) (c : {n}) : Bool :=")
            L.append("  " + conjs_lean(cfg.verifies[n], "c", n))
            L.append("")
            # serde: toT / fromT / resetFields
            L.append(f"def {n}.toT (c : {n}) : TVal :=")
            items = []
            for f, t in d["fields"]:
                if t == "Option<NonZeroUsize>":
                    items.append(f'(match c.{f} with | some v => [("{f}", TVal.int v)] | none => [])')
                else:
                    items.append(f'[("{f}", {to_t(t, "c." + f)})]')
            L.append("  .table (" + " ++ ".join(items) + ")")
            L.append("")
            L.append(f"def {n}.fromT (par : Bool) (t : TVal) : Except String {n} :=")
            L.append("  match t with")
            L.append("  | .table kv => do")
            for f, t in d["fields"]:
                missing = f"pure ({n}.default par).{f}" if d["container_default"] else (
                    "pure none" if t == "Option<NonZeroUsize>" else f'throw "missing field `{f}`"')
                L.append(f'    let {f} ← match kv.lookup "{f}" with')
                L.append(f"      | some v => {from_t(t, 'v')}")
                L.append(f"      | none => {missing}")
            L.append("    pure { " + ", ".join(f"{f} := {f}" for f, _ in d["fields"]) + " }")
            L.append(f'  | _ => throw "expected a table for {n}"')
            L.append("")
            L.append(f"/-- `c` with the fields named in `ks` reset to their defaults. -/")
            L.append(f"def {n}.resetFields (par : Bool) (ks : List String) (c : {n}) : {n} :=")
            L.append("  { " + ", ".join(f'{f} := if ks.contains "{f}" then ({n}.default par).{f} else c.{f}' for f, _ in d["fields"]) + " }")
            L.append("")
        else:
            e = cfg.enums[n]
            L.append(f"inductive {n} where")
            for v, fs in e["variants"]:
                args = " ".join(f"({f} : {lean_type(t)})" for f, t, _ in fs)
                L.append(f"  | {v} {args}".rstrip())
            L.append("  deriving Repr, DecidableEq")
            L.append("")
            variant, fields = cfg.defaults.get(n, (None, None))
            if variant is None:
                fail(f"config.rs: Default for enum {n}")
            vf = dict((v, fs) for v, fs in e["variants"])[variant]
            L.append(f"def {n}.default (par : Bool) : {n} :=")
            L.append(f"  let _ := par; .{variant} " + " ".join(default_expr(fields[f], t) for f, t, _ in vf))
            L.append("")
            ast = cfg.verifies.get(n)
            if not ast or ast[0][0] != "match" or len(ast) != 1:
                fail(f"config.rs: Verify for enum {n} is not a single match")
            arms = ast[0][1]
            if [a[0] for a in arms] != [v for v, _ in e["variants"]]:
                fail(f"config.rs: Verify for enum {n}: arms do not cover the variants in order")
            L.append(f"def {n}.verify (exp : Bool) : {n} → Bool")
            for (v, bound, conj), (_, fs) in zip(arms, e["variants"]):
                if bound != [f for f, _, _ in fs]:
                    fail(f"config.rs: Verify for {n}::{v}: bound fields differ from the variant's")
                pat = f".{v} " + " ".join(bound)
                L.append(f"  | {pat.strip()} => let _ := exp; " + (conjs_lean(conj, "c", n) if conj else "true"))
            L.append("")
            if e["tag"] is None:
                fail(f"config.rs: enum {n} is not internally tagged")
            tag = e["tag"]
            L.append(f"def {n}.toT : {n} → TVal")
            for v, fs in e["variants"]:
                pat = f".{v} " + " ".join(f for f, _, _ in fs)
                items = "".join(f', ("{f}", {to_t(t, f)})' for f, t, _ in fs)
                L.append(f'  | {pat.strip()} => .table [("{tag}", .str "{v}"){items}]')
            L.append("")
            L.append(f"def {n}.fromT (par : Bool) (t : TVal) : Except String {n} :=")
            L.append("  let _ := par")
            L.append("  match t with")
            L.append("  | .table kv =>")
            L.append(f'    match kv.lookup "{tag}" with')
            for v, fs in e["variants"]:
                L.append(f'    | some (.str "{v}") => do')
                for f, t, dfn in fs:
                    if dfn is not None:
                        if dfn not in cfg.default_fns:
                            fail(f"config.rs: serde default fn {dfn} not found")
                        dflt = "pure " + atom_lean(("path", [cfg.default_fns[dfn]]))
                    else:
                        dflt = f'throw "missing field `{f}`"'
                    L.append(f'      let {f} ← match kv.lookup "{f}" with')
                    L.append(f"        | some v => {from_t(t, 'v')}")
                    L.append(f"        | none => {dflt}")
                L.append(f"      pure (.{v} " + " ".join(f for f, _, _ in fs) + ")")
            L.append(f'    | _ => throw "unknown or missing `{tag}` for {n}"')
            L.append(f'  | _ => throw "expected a table for {n}"')
            L.append("")
    L += ["end FlacVerif.Gen", ""]
    return "\n".join(L)


def to_t(t, e):
    if t == "usize":
        return f"TVal.int {e}"
    if t == "bool":
        return f"TVal.bool {e}"
    if t == "f32":
        return f"TVal.f32 {e}"
    return f"{t}.toT {e}"


def from_t(t, v):
    if t == "usize":
        return f'(match {v} with | .int n => pure n | _ => throw "expected an integer")'
    if t == "bool":
        return f'(match {v} with | .bool b => pure b | _ => throw "expected a boolean")'
    if t == "f32":
        return f'(match {v} with | .f32 b => pure b | .int n => pure (F32.ofNat n) | _ => throw "expected a float")'
    if t == "Option<NonZeroUsize>":
        return f'(match {v} with | .int n => if n = 0 then throw "expected a non-zero integer" else pure (some n) | _ => throw "expected an integer")'
    return f"{t}.fromT par {v}"


# ------------------------------------------------------------------ tables

def emit_tables():
    L = ["-- GENERATED by tools/translate.py — do not edit", "namespace FlacVerif.Gen.Tables", ""]
    # which catalog entries the code names: `const CRC_8_FLAC: crc::Algorithm<u8> = crc::CRC_8_SMBUS;`
    # used as `...::new(&CRC_8_FLAC)` for HEADER_CRC and `&CRC_16_FLAC` for FRAME_CRC
    br = strip_comments(open(os.path.join(REPO, "src", "component", "bitrepr.rs")).read())
    names = {}
    for width, static in ((8, "HEADER_CRC"), (16, "FRAME_CRC")):
        m = re.search(r"static\s+" + static + r"\s*:[^=]*=[^;]*?new\(\s*&\s*([A-Z0-9_]+)\s*\)\s*;", br, re.S)
        if not m:
            fail(f"bitrepr.rs: static {static}")
        local = m.group(1)
        m2 = re.search(r"const\s+" + local + r"\s*:\s*crc::Algorithm<u\d+>\s*=\s*crc::([A-Z0-9_]+)\s*;", br)
        if not m2:
            fail(f"bitrepr.rs: const {local}")
        names[width] = m2.group(1)
    lock = open(os.path.join(REPO, "Cargo.lock")).read()
    vm = re.search(r'name = "crc-catalog"\nversion = "([0-9.]+)"', lock)
    if not vm:
        fail("Cargo.lock: crc-catalog version")
    cat = sorted(glob.glob(os.path.expanduser(f"~/.cargo/registry/src/*/crc-catalog-{vm.group(1)}/src/algorithm.rs")))
    if not cat:
        fail("crc-catalog source not found in the cargo registry")
    src = open(cat[-1]).read()
    for width, nm in names.items():
        m = re.search(r"pub const " + nm + r": Algorithm<u\d+> = Algorithm \{(.*?)\};", src, re.S)
        if not m:
            fail(f"crc-catalog: {nm}")
        body = m.group(1)
        def fld(k):
            fm = re.search(r"\b" + k + r":\s*([0-9a-fx_A-Ftrue ls]+?)\s*,", body)
            if not fm:
                fail(f"crc-catalog: {nm}.{k}")
            v = fm.group(1).strip()
            if v in ("true", "false"):
                return v
            return str(int(v.replace("_", ""), 0))
        L.append(f"/-- `{nm}` (crc-catalog): width, poly, init, refin, refout, xorout -/")
        L.append(f"def crc{width} : Nat × Nat × Nat × Bool × Bool × Nat := ({fld('width')}, {fld('poly')}, {fld('init')}, {fld('refin')}, {fld('refout')}, {fld('xorout')})")
    # FIXED_LPC_COEFS of decode.rs
    dec = strip_comments(open(os.path.join(REPO, "src", "component", "decode.rs")).read())
    m = re.search(r"const FIXED_LPC_COEFS[^=]*=\s*\[(.*?)\];", dec, re.S)
    if not m:
        fail("decode.rs: FIXED_LPC_COEFS")
    rows = re.findall(r"\[([^\[\]]*)\]", m.group(1))
    rows = [[int(x) for x in r.replace(" ", "").split(",") if x] for r in rows]
    L.append("/-- `FIXED_LPC_COEFS` of decode.rs -/")
    L.append("def fixedLpcCoefs : List (List Int) := [" + ", ".join("[" + ", ".join(str(x) for x in r) + "]" for r in rows) + "]")
    L += ["", "end FlacVerif.Gen.Tables", ""]
    return "\n".join(L)


# ------------------------------------------------------------------ headers (datatype.rs, bitrepr.rs)
#
# Part `headers`: the frame-header code tables.  The enums `ChannelAssignment`, `BlockSizeSpec`,
# `SampleSizeSpec`, `SampleRateSpec` of src/component/datatype.rs and the functions listed in HDR_SPEC
# are PARSED (lexer -> recursive-descent parser for a Rust expression subset -> typed translation) and
# mirrored arm by arm, in source order, in Gen/Headers.lean.  Nothing about the table contents is known
# to this file: literals, arm order, guards, variant names, payload types and discriminants all come from
# the source text.  Any token, item, statement, pattern or expression shape that is not understood
# raises `fail("datatype.rs: ...")`.

HDR_BITS = {"u8": 8, "u16": 16, "u32": 32, "u64": 64, "usize": int(os.environ.get("FV_USIZE_BITS", "64"))}

# (file, trait or None, type or None (free fn), [functions that MUST be translated])
HDR_SPEC = [
    ("datatype.rs", None, None, ["ilog2"]),
    ("datatype.rs", None, "ChannelAssignment", ["from_tag", "bits_per_sample_offset", "channels"]),
    ("datatype.rs", None, "BlockSizeSpec", ["from_size", "count_extra_bits", "block_size", "tag", "write_extra_bits"]),
    ("datatype.rs", None, "SampleSizeSpec", ["from_tag", "into_tag", "from_bits", "into_bits"]),
    ("datatype.rs", None, "SampleRateSpec", ["from_freq", "from_tag_and_data", "count_extra_bits", "tag", "write_extra_bits"]),
    ("bitrepr.rs", "BitRepr", "ChannelAssignment", ["count_bits", "write"]),
]
HDR_ENUMS = ["ChannelAssignment", "BlockSizeSpec", "SampleSizeSpec", "SampleRateSpec"]
# lean name -> (param types, return type, has `_exact`) of every function emitted into Gen/Headers.lean (read by part `writer`)
HDR_DONE = {}
# (owner, fn) -> record of every function emitted into Gen/Writer.lean (read by part `verify`)
WR_DONE = {}


def hdr_lex(src, where):
    """Rust lexer (comments, string/char literals, lifetimes, numbers, identifiers, punctuation)."""
    toks = []
    i, n = 0, len(src)
    p3 = ("..=", "<<=", ">>=", "...")
    p2 = ("::", "->", "=>", "==", "!=", "<=", ">=", "&&", "||", "<<", ">>", "..", "+=", "-=", "*=", "/=", "%=", "|=", "&=", "^=")
    raw_re = re.compile(r'b?r(#*)"')
    chr_re = re.compile(r"'(\\(?:u\{[0-9a-fA-F_]+\}|x[0-9a-fA-F]{2}|.)|[^\\'])'", re.S)
    life_re = re.compile(r"'[A-Za-z_][A-Za-z0-9_]*")
    id_re = re.compile(r"[A-Za-z_][A-Za-z0-9_]*")
    num_re = re.compile(r"\d[0-9A-Za-z_]*(?:\.\d[0-9A-Za-z_]*)?")
    while i < n:
        c = src[i]
        if c.isspace():
            i += 1
            continue
        if src.startswith("//", i):
            j = src.find("\n", i)
            i = n if j < 0 else j
            continue
        if src.startswith("/*", i):
            d, i = 1, i + 2
            while i < n and d:
                if src.startswith("/*", i):
                    d, i = d + 1, i + 2
                elif src.startswith("*/", i):
                    d, i = d - 1, i + 2
                else:
                    i += 1
            if d:
                fail(f"{where}: unterminated block comment")
            continue
        m = raw_re.match(src, i)
        if m:
            close = '"' + m.group(1)
            j = src.find(close, m.end())
            if j < 0:
                fail(f"{where}: unterminated raw string")
            toks.append('"<raw>"')
            i = j + len(close)
            continue
        if c == '"' or (c == "b" and src[i + 1:i + 2] == '"'):
            j = i + (2 if c == "b" else 1)
            while j < n and src[j] != '"':
                j += 2 if src[j] == "\\" else 1
            if j >= n:
                fail(f"{where}: unterminated string literal")
            toks.append(src[i:j + 1])
            i = j + 1
            continue
        if c == "'" or (c == "b" and src[i + 1:i + 2] == "'"):
            k = i + (1 if c == "b" else 0)
            m = chr_re.match(src, k)
            if m:
                toks.append(m.group(0))
                i = m.end()
                continue
            m = life_re.match(src, k)
            if m and c == "'":
                toks.append(m.group(0))
                i = m.end()
                continue
            fail(f"{where}: cannot lex quote at offset {i}")
        m = id_re.match(src, i)
        if m:
            toks.append(m.group(0))
            i = m.end()
            continue
        m = num_re.match(src, i)
        if m:
            toks.append(m.group(0))
            i = m.end()
            continue
        for ps in (p3, p2):
            for p in ps:
                if src.startswith(p, i):
                    toks.append(p)
                    i += len(p)
                    break
            else:
                continue
            break
        else:
            if c in "{}()[];:=+-*/%<>&!,.#|?^@$~":
                toks.append(c)
                i += 1
            else:
                fail(f"{where}: cannot lex character {c!r} at offset {i}")
    return toks


def hdr_int_literal(t, where):
    m = re.fullmatch(r"(0x[0-9A-Fa-f_]+|0b[01_]+|0o[0-7_]+|\d[\d_]*)(usize|u8|u16|u32|u64|i8|i16|i32|i64|isize)?", t)
    if not m:
        fail(f"{where}: numeric literal {t!r}")
    if m.group(2) is not None and m.group(2) not in HDR_BITS:
        fail(f"{where}: signed literal {t!r}")
    return int(m.group(1).replace("_", ""), 0), m.group(2)


class HdrItems:
    """Index of the top-level items of one file: enums, impl blocks, free functions."""

    def __init__(self, fname, toks):
        self.fname = fname
        self.toks = toks
        self.enums = {}    # name -> [(variant, [payload type], discriminant | None)]
        self.impls = {}    # (trait | None, type) -> {fn name -> fn record}
        self.fns = {}      # free functions
        self.scan()

    def group_end(self, i):
        """toks[i] opens a bracket; index after its matching close."""
        t = self.toks
        pairs = {"(": ")", "[": "]", "{": "}"}
        stack = []
        while i < len(t):
            if t[i] in pairs:
                stack.append(pairs[t[i]])
            elif t[i] in pairs.values():
                if not stack or stack.pop() != t[i]:
                    fail(f"{self.fname}: unbalanced bracket {t[i]!r}")
                if not stack:
                    return i + 1
            i += 1
        fail(f"{self.fname}: unbalanced brackets")

    def scan(self):
        t = self.toks
        i = 0
        attrs = []
        while i < len(t):
            x = t[i]
            if x == "#" and t[i + 1:i + 2] == ["["]:
                j = self.group_end(i + 1)
                attrs.append("".join(t[i:j]))
                i = j
                continue
            if x == "#" and t[i + 1:i + 3] == ["!", "["]:
                i = self.group_end(i + 2)
                continue
            if x == "enum" and t[i + 1] in HDR_ENUMS:
                name = t[i + 1]
                if t[i + 2] != "{":
                    fail(f"{self.fname}: enum {name}: generic or unexpected header")
                end = self.group_end(i + 2)
                if name in HDR_ENUMS:
                    self.enums[name] = self.parse_enum(name, i + 3, end - 1)
                i, attrs = end, []
                continue
            if x == "impl":
                j = i + 1
                while t[j] != "{":
                    if t[j] == ";":
                        fail(f"{self.fname}: impl header")
                    j = self.group_end(j) if t[j] in ("(", "[") else j + 1
                head = t[i + 1:j]
                end = self.group_end(j)
                key = None
                if len(head) == 1:
                    key = (None, head[0])
                elif len(head) == 3 and head[1] == "for":
                    key = (head[0], head[2])
                if key is not None:
                    if key in self.impls:
                        # several inherent impl blocks: merge
                        self.scan_fns(j + 1, end - 1, self.impls[key], f"impl {' '.join(head)}")
                    else:
                        self.impls[key] = {}
                        self.scan_fns(j + 1, end - 1, self.impls[key], f"impl {' '.join(head)}")
                i, attrs = end, []
                continue
            if x == "fn":
                rec, i = self.parse_fn(i, attrs, "")
                self.fns[rec["name"]] = rec
                attrs = []
                continue
            if x in ("{", "(", "["):
                i = self.group_end(i)
                if x == "{":
                    attrs = []
                continue
            if x == ";":
                attrs = []
            i += 1

    def parse_enum(self, name, i, end):
        t = self.toks
        out = []
        nxt = 0
        while i < end:
            if t[i] == "#":
                i = self.group_end(i + 1)
                continue
            v = t[i]
            if not re.fullmatch(r"[A-Za-z_][A-Za-z0-9_]*", v):
                fail(f"{self.fname}: enum {name}: variant name {v!r}")
            i += 1
            payload = []
            disc = None
            if i < end and t[i] == "(":
                j = self.group_end(i)
                inner = t[i + 1:j - 1]
                cur = []
                for z in inner + [","]:
                    if z == ",":
                        if cur:
                            if len(cur) != 1 or cur[0] not in HDR_BITS:
                                fail(f"{self.fname}: enum {name}::{v}: payload type {' '.join(cur)!r}")
                            payload.append(cur[0])
                        cur = []
                    else:
                        cur.append(z)
                i = j
            elif i < end and t[i] == "{":
                fail(f"{self.fname}: enum {name}::{v}: struct-like variant")
            if i < end and t[i] == "=":
                val, suf = hdr_int_literal(t[i + 1], f"{self.fname}: enum {name}::{v} discriminant")
                disc = val
                i += 2
            if disc is None:
                disc = nxt
                explicit = False
            else:
                explicit = True
            nxt = disc + 1
            out.append((v, payload, disc, explicit))
            if i < end:
                if t[i] != ",":
                    fail(f"{self.fname}: enum {name}: expected `,` after {v}, found {t[i]!r}")
                i += 1
        if len({v for v, _, _, _ in out}) != len(out):
            fail(f"{self.fname}: enum {name}: duplicate variant")
        return out

    def scan_fns(self, i, end, dest, where):
        t = self.toks
        attrs = []
        while i < end:
            x = t[i]
            if x == "#" and t[i + 1] == "[":
                j = self.group_end(i + 1)
                attrs.append("".join(t[i:j]))
                i = j
                continue
            if x == "fn":
                rec, i = self.parse_fn(i, attrs, where)
                if rec["name"] in dest:
                    fail(f"{self.fname}: {where}: duplicate fn {rec['name']}")
                dest[rec["name"]] = rec
                attrs = []
                continue
            if x in ("{", "(", "["):
                i = self.group_end(i)
                continue
            if x == ";":
                attrs = []
            i += 1

    def parse_fn(self, i, attrs, where):
        t = self.toks
        name = t[i + 1]
        j = i + 2
        generics = []
        if t[j] == "<":
            d = 0
            while True:
                if t[j] == "<":
                    d += 1
                elif t[j] == ">":
                    d -= 1
                elif t[j] == ">>":
                    d -= 2
                generics.append(t[j])
                j += 1
                if d <= 0:
                    break
        if t[j] != "(":
            fail(f"{self.fname}: {where} fn {name}: parameter list")
        pe = self.group_end(j)
        ptoks = t[j + 1:pe - 1]
        params = []
        cur, d = [], 0
        for z in ptoks + [","]:
            if z in ("(", "[", "{", "<"):
                d += 1
            elif z in (")", "]", "}", ">"):
                d -= 1
            elif z == ">>":
                d -= 2
            if z == "," and d == 0:
                if cur:
                    params.append(cur)
                cur = []
            else:
                cur.append(z)
        j = pe
        ret = []
        if t[j] == "->":
            j += 1
            while t[j] not in ("{", "where", ";"):
                if t[j] in ("(", "["):      # `-> &[u8; 16]`, `-> (A, B)`: the `;` / `,` inside belong to the type
                    k = self.group_end(j)
                    ret += t[j:k]
                    j = k
                    continue
                ret.append(t[j])
                j += 1
        if t[j] == "where":
            while t[j] not in ("{", ";"):
                j += 1
        if t[j] == ";":
            return {"name": name, "params": params, "ret": ret, "body": None, "attrs": list(attrs), "generics": generics}, j + 1
        be = self.group_end(j)
        return {"name": name, "params": params, "ret": ret, "body": (j, be), "attrs": list(attrs), "generics": generics}, be


# ---- expression parser (Rust subset) -> AST of tuples

HDR_BINOPS = [["||"], ["&&"], ["==", "!=", "<", ">", "<=", ">="], ["|"], ["^"], ["&"], ["<<", ">>"], ["+", "-"], ["*", "/", "%"]]
HDR_KEYWORDS = {"match", "if", "else", "let", "return", "fn", "for", "while", "loop", "as", "mut", "ref", "move", "in",
                "break", "continue", "struct", "enum", "impl", "use", "unsafe", "where", "pub", "const", "static", "dyn", "type"}


class HdrParser:
    def __init__(self, toks, lo, hi, where):
        self.t = toks
        self.p = lo
        self.hi = hi
        self.where = where

    def err(self, msg):
        ctx = " ".join(self.t[max(self.p - 5, 0):min(self.p + 6, self.hi)])
        fail(f"{self.where}: {msg} (near `{ctx}`)")

    def peek(self, k=0):
        return self.t[self.p + k] if self.p + k < self.hi else None

    def eat(self, x):
        if self.peek() != x:
            self.err(f"expected {x!r}, found {self.peek()!r}")
        self.p += 1

    def skip_attrs(self):
        # only lint / formatting attributes may be ignored inside a body; `#[cfg(..)]` on a statement or a match
        # arm would make the arm conditional, which this translator does not model
        while self.peek() == "#" and self.peek(1) == "[":
            if self.peek(2) not in ("allow", "expect", "warn", "deny", "inline", "rustfmt", "doc", "must_use"):
                self.err(f"attribute #[{self.peek(2)}..] inside a function body")
            d = 0
            self.p += 1
            while True:
                if self.peek() == "[":
                    d += 1
                elif self.peek() == "]":
                    d -= 1
                elif self.peek() is None:
                    self.err("attribute")
                self.p += 1
                if d == 0:
                    break

    def is_ident(self, x):
        return x is not None and re.fullmatch(r"[A-Za-z_][A-Za-z0-9_]*", x) is not None and x not in HDR_KEYWORDS

    # block := { stmt* tail? }   -> ("block", [stmt], tail | None); stmt = expression (value discarded)
    def block(self):
        self.eat("{")
        stmts = []
        tail = None
        while True:
            self.skip_attrs()
            if self.peek() == "}":
                self.p += 1
                break
            if self.peek() == "let":
                self.err("`let` statement")
            if self.peek() == ";":
                self.p += 1
                continue
            e = self.expr()
            if self.peek() == ";":
                self.p += 1
                stmts.append(e)
            elif self.peek() == "}":
                tail = e
            elif e[0] in ("if", "iflet", "match", "block"):
                stmts.append(e)   # block-like expression statement
            else:
                self.err(f"expected `;` or `}}` after expression, found {self.peek()!r}")
        return ("block", stmts, tail)

    def expr(self, level=0):
        if level == len(HDR_BINOPS):
            return self.cast()
        l = self.expr(level + 1)
        while self.peek() in HDR_BINOPS[level]:
            op = self.peek()
            self.p += 1
            r = self.expr(level + 1)
            if level == 2 and self.peek() in HDR_BINOPS[2]:
                self.err("chained comparison")
            l = ("bin", op, l, r)
        return l

    def cast(self):
        e = self.unary()
        while self.peek() == "as":
            self.p += 1
            ty = self.peek()
            if ty not in HDR_BITS:
                self.err(f"cast to unsupported type {ty!r}")
            self.p += 1
            e = ("cast", e, ty)
        return e

    def unary(self):
        x = self.peek()
        if x in ("*", "!", "-", "&"):
            self.p += 1
            if x == "&" and self.peek() == "mut":
                self.p += 1
            return ("un", x, self.unary())
        if x == "&&":
            self.p += 1
            return ("un", "&", ("un", "&", self.unary()))
        return self.postfix()

    def args(self):
        self.eat("(")
        out = []
        while self.peek() != ")":
            out.append(self.expr())
            if self.peek() == ",":
                self.p += 1
            elif self.peek() != ")":
                self.err("argument list")
        self.p += 1
        return out

    def postfix(self):
        e = self.primary()
        while True:
            x = self.peek()
            if x == "(":
                e = ("call", e, self.args())
            elif x == "." and self.is_ident(self.peek(1)):
                name = self.peek(1)
                self.p += 2
                if self.peek() == "::":
                    self.p += 1
                    self.generic_args()
                if self.peek() != "(":
                    self.err(f"field access .{name}")
                e = ("mcall", e, name, self.args())
            elif x == "?":
                self.p += 1
                e = ("try", e)
            else:
                return e

    def generic_args(self):
        if self.peek() != "<":
            self.err("generic arguments")
        d = 0
        while True:
            x = self.peek()
            if x == "<":
                d += 1
            elif x == ">":
                d -= 1
            elif x == ">>":
                d -= 2
            elif x is None or x in ("{", "}", ";"):
                self.err("generic arguments")
            self.p += 1
            if d <= 0:
                return

    def path(self):
        segs = [self.peek()]
        self.p += 1
        while self.peek() == "::":
            self.p += 1
            if self.peek() == "<":
                self.generic_args()
                continue
            if not self.is_ident(self.peek()):
                self.err("path segment")
            segs.append(self.peek())
            self.p += 1
        return segs

    def primary(self):
        x = self.peek()
        if x is None:
            self.err("unexpected end of input")
        if x == "(":
            self.p += 1
            if self.peek() == ")":
                self.p += 1
                return ("unit",)
            e = self.expr()
            if self.peek() == ",":
                self.err("tuple expression")
            self.eat(")")
            return ("paren", e)
        if x == "{":
            return self.block()
        if x == "match":
            return self.match()
        if x == "if":
            return self.if_()
        if x == "return":
            self.p += 1
            if self.peek() in (";", "}", ","):
                return ("return", None)
            return ("return", self.expr())
        if x == "||":
            self.p += 1
            return ("closure", [], self.expr())
        if x == "|":
            self.p += 1
            ps = []
            while self.peek() != "|":
                if not self.is_ident(self.peek()):
                    self.err("closure parameter")
                ps.append(self.peek())
                self.p += 1
                if self.peek() == ",":
                    self.p += 1
            self.p += 1
            return ("closure", ps, self.expr())
        if re.fullmatch(r"\d.*", x):
            if "." in x:
                self.err(f"float literal {x}")
            v, suf = hdr_int_literal(x, self.where)
            self.p += 1
            return ("int", v, suf)
        if x.startswith('"'):
            self.p += 1
            return ("str", x)
        if x in ("true", "false"):
            self.p += 1
            return ("boollit", x == "true")
        if self.is_ident(x) or x in ("Self", "self"):
            if self.peek(1) == "!":
                if self.peek(2) != "(":
                    self.err(f"macro {x}!")
                self.p += 2
                d = 0
                start = self.p
                while True:
                    if self.peek() == "(":
                        d += 1
                    elif self.peek() == ")":
                        d -= 1
                    elif self.peek() is None:
                        self.err(f"macro {x}!")
                    self.p += 1
                    if d == 0:
                        break
                return ("macro", x, self.t[start + 1:self.p - 1])
            segs = self.path()
            if self.peek() == "{" and len(segs) > 1 and not self.no_struct:
                self.err("struct literal")
            if len(segs) == 1:
                return ("var", segs[0])
            return ("path", segs)
        self.err(f"unexpected token {x!r}")

    no_struct = True  # struct literals are never accepted; `{` after a path ends the expression

    def pattern(self):
        x = self.peek()
        if x == "_":
            self.p += 1
            return ("wild",)
        if x is not None and re.fullmatch(r"\d.*", x):
            v, suf = hdr_int_literal(x, self.where)
            self.p += 1
            if self.peek() in ("..", "..=", "..."):
                self.err("range pattern")
            return ("lit", v, suf)
        if x == "-":
            self.err("negative literal pattern")
        if x in ("&", "ref", "mut", "(", "["):
            self.err(f"pattern starting with {x!r}")
        if self.is_ident(x) or x == "Self":
            segs = self.path()
            if len(segs) == 1:
                if self.peek() in ("(", "{", "@"):
                    self.err(f"pattern {segs[0]}{self.peek()}")
                if not re.fullmatch(r"[a-z_][a-z0-9_]*", segs[0]):
                    self.err(f"pattern {segs[0]!r} is neither a lower-case binding nor a path")
                return ("bind", segs[0])
            sub = []
            if self.peek() == "(":
                self.p += 1
                while self.peek() != ")":
                    y = self.peek()
                    if y == "_":
                        sub.append(("wild",))
                    elif self.is_ident(y) and re.fullmatch(r"[a-z_][a-z0-9_]*", y):
                        sub.append(("bind", y))
                    else:
                        self.err(f"sub-pattern {y!r}")
                    self.p += 1
                    if self.peek() == ",":
                        self.p += 1
                    elif self.peek() != ")":
                        self.err("sub-pattern list")
                self.p += 1
            elif self.peek() == "{":
                self.err("struct pattern")
            return ("variant", segs, sub)
        self.err(f"pattern starting with {x!r}")

    def match(self):
        self.eat("match")
        scrut = self.expr()
        self.eat("{")
        arms = []
        while True:
            self.skip_attrs()
            if self.peek() == "}":
                self.p += 1
                break
            if self.peek() == "|":
                self.p += 1
            alts = [self.pattern()]
            while self.peek() == "|":
                self.p += 1
                alts.append(self.pattern())
            guard = None
            if self.peek() == "if":
                self.p += 1
                guard = self.expr()
            self.eat("=>")
            if self.peek() == "{":
                body = self.block()
                if self.peek() == ",":
                    self.p += 1
                elif self.peek() in (".", "?"):
                    self.err("method call on a block arm")
            else:
                body = self.expr()
                if self.peek() == ",":
                    self.p += 1
                elif self.peek() != "}":
                    self.err(f"expected `,` or `}}` after match arm, found {self.peek()!r}")
            arms.append((alts, guard, body))
        if not arms:
            self.err("match without arms")
        return ("match", scrut, arms)

    def if_(self):
        self.eat("if")
        if self.peek() == "let":
            self.p += 1
            pat = self.pattern()
            if self.peek() == "|":
                self.err("or-pattern in if-let")
            self.eat("=")
            scrut = self.expr()
            then = self.block()
            els = None
            if self.peek() == "else":
                self.p += 1
                els = self.if_() if self.peek() == "if" else self.block()
            return ("iflet", pat, scrut, then, els)
        cond = self.expr()
        then = self.block()
        els = None
        if self.peek() == "else":
            self.p += 1
            els = self.if_() if self.peek() == "if" else self.block()
        return ("if", cond, then, els)


# ---- typed translation AST -> Lean

class HV:
    """Translated value: Lean text, Rust type, exactness condition (Lean Bool text or None = true), literal value."""
    __slots__ = ("lean", "ty", "ex", "lit")

    def __init__(self, lean, ty, ex=None, lit=None):
        self.lean, self.ty, self.ex, self.lit = lean, ty, ex, lit


def hdr_and(*xs):
    xs = [x for x in xs if x is not None]
    if not xs:
        return None
    return xs[0] if len(xs) == 1 else "(" + " && ".join(xs) + ")"


def hdr_indent(s, k):
    pad = " " * k
    return "\n".join((pad + ln if ln else ln) for ln in s.split("\n"))


def hdr_is_int(ty):
    return isinstance(ty, str) and ty in HDR_BITS


class HdrTx:
    def __init__(self, enums):
        self.enums = enums          # name -> variants
        self.fn_sigs = {}           # lean name of translated free fn -> (param types, ret type, has_exact)
        self.where = ""
        self.self_enum = None

    def err(self, msg):
        fail(f"{self.where}: {msg}")

    # --- types
    def parse_type(self, toks):
        s = "".join(toks)
        if s in HDR_BITS:
            return s
        if s == "bool":
            return "bool"
        if s == "Self":
            if self.self_enum is None:
                self.err("`Self` outside an impl of a translated enum")
            return ("enum", self.self_enum)
        if s in self.enums:
            return ("enum", s)
        m = re.fullmatch(r"Option<(.+)>", s)
        if m:
            return ("opt", self.parse_type([m.group(1)]))
        if s.startswith("Result<(),") and s.endswith(">"):
            return "writes"
        self.err(f"unsupported type `{s}`")

    def lean_type(self, ty):
        if hdr_is_int(ty):
            return "Nat"
        if ty == "bool":
            return "Bool"
        if ty == "writes":
            return "Writes"
        if isinstance(ty, tuple) and ty[0] == "enum":
            return ty[1]
        if isinstance(ty, tuple) and ty[0] == "opt":
            inner = self.lean_type(ty[1])
            return f"Option {inner}" if " " not in inner else f"Option ({inner})"
        self.err(f"no Lean type for {ty!r}")

    def unify(self, a, b, what):
        """Type of two branches; None = untyped integer literal, "any" = diverging (unreachable!)."""
        if a == "any":
            return b
        if b == "any":
            return a
        if a is None and (b is None or hdr_is_int(b)):
            return b
        if b is None and hdr_is_int(a):
            return a
        if isinstance(a, tuple) and isinstance(b, tuple) and a[0] == "opt" and b[0] == "opt":
            if a[1] == "unknown":
                return b
            if b[1] == "unknown":
                return a
            return ("opt", self.unify(a[1], b[1], what))
        if a == b:
            return a
        self.err(f"{what}: branches of different types {a!r} / {b!r}")

    def fits(self, v, ty, what):
        if hdr_is_int(ty) and not (0 <= v < 2 ** HDR_BITS[ty]):
            self.err(f"{what}: literal {v} does not fit {ty}")

    def variant(self, segs):
        if len(segs) != 2:
            self.err(f"path {'::'.join(segs)}")
        en = self.self_enum if segs[0] == "Self" else segs[0]
        if en not in self.enums:
            self.err(f"path {'::'.join(segs)}: not a translated enum")
        for v, payload, disc, _ in self.enums[en]:
            if v == segs[1]:
                return en, v, payload
        self.err(f"path {'::'.join(segs)}: no such variant")

    # --- pure expressions
    def tx(self, e, env, want=None, tail=False):
        k = e[0]
        if k == "paren":
            return self.tx(e[1], env, want, tail)
        if k == "int":
            v, suf = e[1], e[2]
            ty = suf if suf is not None else (want if hdr_is_int(want) else None)
            if ty is not None:
                self.fits(v, ty, "literal")
            return HV(str(v), ty, None, v)
        if k == "boollit":
            return HV("True" if e[1] else "False", "bool")
        if k == "var":
            name = e[1]
            if name == "None":
                return HV("none", ("opt", "unknown"))
            if name not in env:
                self.err(f"unknown name `{name}`")
            lean, ty = env[name]
            return HV(lean, ty)
        if k == "path":
            en, v, payload = self.variant(e[1])
            if payload:
                return HV(f"{en}.{v}", ("ctor", en, v, tuple(payload)))
            return HV(f"{en}.{v}", ("enum", en))
        if k == "un":
            if e[1] == "*":
                inner = self.tx(e[2], env, want)
                return inner   # references are transparent: `*self`, `*n`
            if e[1] == "!":
                inner = self.tx(e[2], env)
                if inner.ty != "bool":
                    self.err("`!` on a non-boolean")
                return HV(f"(¬ {inner.lean})", "bool", inner.ex)
            self.err(f"unary `{e[1]}`")
        if k == "cast":
            return self.tx_cast(e, env)
        if k == "bin":
            return self.tx_bin(e, env, want)
        if k == "call":
            return self.tx_call(e, env, want, tail)
        if k == "mcall":
            return self.tx_mcall(e, env, want)
        if k == "match":
            return self.tx_match(e, env, want, tail)
        if k == "if":
            return self.tx_if(e, env, want, tail)
        if k == "iflet":
            return self.tx_iflet(e, env, want, tail)
        if k == "block":
            return self.tx_block(e, env, want, tail)
        if k == "try":
            if e[1][0] == "var" and ("?", e[1][1]) in env:
                lean, ty = env[("?", e[1][1])]
                return HV(lean, ty)
            self.err("`?` in an unsupported position")
        if k == "macro":
            if e[1] == "unreachable" and all(t.startswith('"') or t == "," for t in e[2]):
                # a panic site: the value is irrelevant, exactness is false
                return HV("default", "any", "false")
            self.err(f"macro {e[1]}!")
        if k == "return":
            self.err("`return` in an unsupported position")
        if k == "closure":
            self.err("closure in an unsupported position")
        self.err(f"expression kind `{k}`")

    def tx_cast(self, e, env):
        inner = self.tx(e[1], env)
        T = e[2]
        w = HDR_BITS[T]
        if inner.ty is None:
            if inner.lit is None:
                self.err("cast of an untyped expression")
            self.fits(inner.lit, T, "cast")
            return HV(inner.lean, T, inner.ex, inner.lit)
        if hdr_is_int(inner.ty):
            if HDR_BITS[inner.ty] > w:
                return HV(f"({inner.lean} % {2 ** w})", T, inner.ex)   # `as` truncates silently
            return HV(inner.lean, T, inner.ex)
        if isinstance(inner.ty, tuple) and inner.ty[0] == "enum":
            en = inner.ty[1]
            vs = self.enums[en]
            if any(p for _, p, _, _ in vs):
                self.err(f"cast of enum {en} with payload variants")
            if max(d for _, _, d, _ in vs) >= 2 ** w:
                self.err(f"cast of enum {en}: discriminant does not fit {T}")
            return HV(f"({en}.discriminant {inner.lean})", T, inner.ex)
        self.err(f"cast from {inner.ty!r}")

    def tx_bin(self, e, env, want):
        op = e[1]
        if op in ("&&", "||"):
            l, r = self.tx(e[2], env), self.tx(e[3], env)
            if l.ty != "bool" or r.ty != "bool":
                self.err(f"`{op}` on non-booleans")
            if r.ex is not None:
                self.err(f"arithmetic that may overflow on the right of `{op}`")
            return HV(f"({l.lean} {'∧' if op == '&&' else '∨'} {r.lean})", "bool", l.ex)
        cmp_ = op in ("==", "!=", "<", ">", "<=", ">=")
        l = self.tx(e[2], env, None if cmp_ else want)
        r = self.tx(e[3], env, None if (cmp_ or op in ("<<", ">>")) else want)
        for z in (l, r):
            if not (z.ty is None or hdr_is_int(z.ty)):
                if cmp_ and op in ("==", "!=") and l.ty == r.ty == "bool":
                    break
                self.err(f"operand of `{op}` is not an integer ({z.ty!r})")
        if op in ("<<", ">>"):
            ty = l.ty if l.ty is not None else (want if hdr_is_int(want) else None)
            if r.ty is None and r.lit is None:
                self.err("shift amount of unknown type")
        else:
            if l.ty is None and r.ty is None:
                ty = None if cmp_ else (want if hdr_is_int(want) else None)
            elif l.ty is None:
                ty = r.ty
            elif r.ty is None:
                ty = l.ty
            elif l.ty != r.ty:
                self.err(f"`{op}` on different integer types {l.ty} / {r.ty}")
            else:
                ty = l.ty
            for z in (l, r):
                if z.ty is None and ty is not None:
                    if z.lit is None:
                        self.err(f"untyped operand of `{op}`")
                    self.fits(z.lit, ty, f"operand of `{op}`")
        ex = hdr_and(l.ex, r.ex)
        if cmp_:
            sym = {"==": "=", "!=": "≠", "<": "<", ">": ">", "<=": "≤", ">=": "≥"}[op]
            return HV(f"({l.lean} {sym} {r.lean})", "bool", ex)
        if ty is None:
            self.err(f"cannot infer the integer type of `{l.lean} {op} {r.lean}`")
        w = HDR_BITS[ty]
        if l.ty is None and op in ("<<", ">>"):
            self.fits(l.lit, ty, "shifted literal")
        if op == "+":
            return HV(f"({l.lean} + {r.lean})", ty, hdr_and(ex, f"decide ({l.lean} + {r.lean} < {2 ** w})"))
        if op == "-":
            return HV(f"({l.lean} - {r.lean})", ty, hdr_and(ex, f"decide ({r.lean} ≤ {l.lean})"))
        if op == "*":
            return HV(f"({l.lean} * {r.lean})", ty, hdr_and(ex, f"decide ({l.lean} * {r.lean} < {2 ** w})"))
        if op in ("/", "%"):
            if r.lit is not None:
                if r.lit == 0:
                    self.err("division by the literal 0")
                c = None
            else:
                c = f"decide ({r.lean} ≠ 0)"
            return HV(f"({l.lean} {op} {r.lean})", ty, hdr_and(ex, c))
        if op == "<<":
            return HV(f"({l.lean} <<< {r.lean})", ty,
                      hdr_and(ex, f"decide ({r.lean} < {w})", f"decide ({l.lean} <<< {r.lean} < {2 ** w})"))
        if op == ">>":
            return HV(f"({l.lean} >>> {r.lean})", ty, hdr_and(ex, f"decide ({r.lean} < {w})"))
        if op in ("|", "&", "^"):
            sym = {"|": "|||", "&": "&&&", "^": "^^^"}[op]
            return HV(f"({l.lean} {sym} {r.lean})", ty, ex)
        self.err(f"operator `{op}`")

    def tx_call(self, e, env, want, tail):
        callee, args = e[1], e[2]
        if callee[0] == "var" and callee[1] == "Some":
            if len(args) != 1:
                self.err("Some(..) arity")
            inner_want = want[1] if isinstance(want, tuple) and want[0] == "opt" else None
            if self.has_try(args[0]):
                # `Some(match .. { p => f(x?) , .. })` in tail position: the `?` returns None from the function,
                # i.e. the arm's value is `x.bind (fun x' => some (f x'))`; `Some` is distributed over the arms.
                if not tail:
                    self.err("`?` inside Some(..) that is not the function's final value")
                inner = args[0]
                while inner[0] == "paren":
                    inner = inner[1]
                if inner[0] != "match":
                    self.err("`?` inside Some(..) whose argument is not a match")
                return self.tx_match(inner, env, inner_want, False, wrap_some=True)
            a = self.tx(args[0], env, inner_want)
            return HV(f"(some {a.lean})", ("opt", a.ty), a.ex)
        if callee[0] == "path" and len(callee[1]) == 2 and callee[1][0] in HDR_BITS and callee[1][1] == "from":
            T = callee[1][0]
            if len(args) != 1:
                self.err(f"{T}::from arity")
            a = self.tx(args[0], env)
            if not hdr_is_int(a.ty) or HDR_BITS[a.ty] > HDR_BITS[T]:
                self.err(f"{T}::from of {a.ty!r}")
            return HV(a.lean, T, a.ex)
        if callee[0] == "path":
            en, v, payload = self.variant(callee[1])
            if len(args) != len(payload) or not payload:
                self.err(f"{en}::{v}: constructor arity")
            outs = []
            for a, pt in zip(args, payload):
                x = self.tx(a, env, pt)
                if x.ty is None:
                    if x.lit is None:
                        self.err(f"{en}::{v}: untyped argument")
                    self.fits(x.lit, pt, f"{en}::{v}")
                elif x.ty != pt:
                    self.err(f"{en}::{v}: argument of type {x.ty!r}, payload is {pt}")
                outs.append(x)
            return HV(f"({en}.{v} " + " ".join(x.lean for x in outs) + ")", ("enum", en), hdr_and(*[x.ex for x in outs]))
        if callee[0] == "var" and callee[1] in self.fn_sigs:
            ptys, rty, has_exact = self.fn_sigs[callee[1]]
            if len(args) != len(ptys):
                self.err(f"{callee[1]}: arity")
            outs = []
            for a, pt in zip(args, ptys):
                x = self.tx(a, env, pt)
                if x.ty is None and x.lit is not None:
                    self.fits(x.lit, pt, callee[1])
                elif x.ty != pt:
                    self.err(f"{callee[1]}: argument of type {x.ty!r}, parameter is {pt!r}")
                outs.append(x)
            al = " ".join(x.lean for x in outs)
            ex = hdr_and(*[x.ex for x in outs], f"{callee[1]}_exact {al}" if has_exact else None)
            return HV(f"({callee[1]} {al})", rty, ex)
        self.err(f"call of `{'::'.join(callee[1]) if callee[0] == 'path' else callee[1] if callee[0] == 'var' else callee[0]}`")

    def has_try(self, e):
        if isinstance(e, tuple):
            if e and e[0] == "try":
                return True
            return any(self.has_try(x) for x in e)
        if isinstance(e, list):
            return any(self.has_try(x) for x in e)
        return False

    def closure0(self, e, env, want=None):
        if e[0] != "closure" or e[1]:
            self.err("expected a closure without parameters")
        return self.tx(e[2], env, want)

    def tx_mcall(self, e, env, want):
        recv, name, args = e[1], e[2], e[3]
        if name == "or_else" and len(args) == 1:
            r = self.tx(recv, env, want)
            if not (isinstance(r.ty, tuple) and r.ty[0] == "opt"):
                self.err(".or_else on a non-Option")
            b = self.closure0(args[0], env, r.ty)
            ty = self.unify(r.ty, b.ty, ".or_else")
            ex = r.ex
            if b.ex is not None:
                ex = hdr_and(r.ex, f"(match {r.lean} with | none => {b.ex} | some _ => true)")
            return HV(f"(orElse {r.lean}\n  (fun _ => {b.lean}))", ty, ex)
        if name == "then" and len(args) == 1:
            r = self.tx(recv, env)
            if r.ty != "bool":
                self.err(".then on a non-boolean")
            b = self.closure0(args[0], env)
            ex = r.ex
            if b.ex is not None:
                ex = hdr_and(r.ex, f"(if {r.lean} then {b.ex} else true)")
            return HV(f"(boolThen (decide {r.lean}) (fun _ => {b.lean}))", ("opt", b.ty), ex)
        if name == "flatten" and not args:
            r = self.tx(recv, env)
            if not (isinstance(r.ty, tuple) and r.ty[0] == "opt" and isinstance(r.ty[1], tuple) and r.ty[1][0] == "opt"):
                self.err(".flatten on something that is not an Option<Option<_>>")
            return HV(f"(flatten {r.lean})", r.ty[1], r.ex)
        if name == "map" and len(args) == 1:
            # only `<int>.try_into().ok().map(Self::Variant)`: the target integer type is the variant's payload type
            inner = recv
            if not (inner[0] == "mcall" and inner[2] == "ok" and not inner[3] and inner[1][0] == "mcall"
                    and inner[1][2] == "try_into" and not inner[1][3]):
                self.err(".map on something other than `.try_into().ok()`")
            src = self.tx(inner[1][1], env)
            if not hdr_is_int(src.ty):
                self.err(".try_into() on a non-integer")
            f = args[0]
            if f[0] != "path":
                self.err(".map with something other than a variant constructor")
            en, v, payload = self.variant(f[1])
            if len(payload) != 1:
                self.err(f".map({en}::{v}): constructor arity")
            return HV(f"(Option.map {en}.{v} (tryInto {HDR_BITS[payload[0]]} {src.lean}))", ("opt", ("enum", en)), src.ex)
        if name == "leading_zeros" and not args:
            r = self.tx(recv, env)
            if not hdr_is_int(r.ty):
                self.err(".leading_zeros on a non-integer")
            return HV(f"(leadingZeros {HDR_BITS[r.ty]} {r.lean})", "u32", r.ex)
        self.err(f"method `.{name}(..)`")

    def pat_scrut(self, scrut, env):
        s = scrut
        while s[0] in ("paren",) or (s[0] == "un" and s[1] == "*"):
            s = s[1] if s[0] == "paren" else s[2]
        if s[0] != "var":
            self.err("match/if-let scrutinee is not a variable")
        return self.tx(s, env)

    def wrap(self, body, env, want, wrap_some, tail):
        """Arm value; with wrap_some the arm `f(x?)` becomes `x.bind (fun x' => some (f x'))`."""
        if not wrap_some:
            return self.tx(body, env, want, tail)
        tries = []

        def walk(e):
            if isinstance(e, tuple):
                if e and e[0] == "try":
                    if e[1][0] != "var":
                        self.err("`?` on something other than a variable")
                    if e[1][1] not in tries:
                        tries.append(e[1][1])
                    return
                for x in e:
                    walk(x)
            elif isinstance(e, list):
                for x in e:
                    walk(x)
        walk(body)
        env2 = dict(env)
        for x in tries:
            if x not in env or not (isinstance(env[x][1], tuple) and env[x][1][0] == "opt"):
                self.err(f"`{x}?` where {x} is not an Option parameter")
            env2[("?", x)] = (f"{x}'", env[x][1][1])
        v = self.tx(body, env2, want)
        lean = f"(some {v.lean})"
        ex = v.ex
        for x in reversed(tries):
            lean = f"(Option.bind {env[x][0]} (fun {x}' => {lean}))"
            if ex is not None:
                ex = f"(match {env[x][0]} with | some {x}' => {ex} | none => true)"
        return HV(lean, ("opt", v.ty), ex)

    def tx_match(self, e, env, want, tail, wrap_some=False):
        scrut, arms = e[1], e[2]
        s = self.pat_scrut(scrut, env)
        if hdr_is_int(s.ty):
            return self.tx_match_int(s, arms, env, want, tail, wrap_some)
        if isinstance(s.ty, tuple) and s.ty[0] == "enum":
            return self.tx_match_enum(s, arms, env, want, tail, wrap_some)
        self.err(f"match on a value of type {s.ty!r}")

    def tx_match_int(self, s, arms, env, want, tail, wrap_some):
        rows = []   # (cond or None, HV)
        ty = "any"
        for idx, (alts, guard, body) in enumerate(arms):
            if rows and rows[-1][0] is None:
                self.err("match arm after an irrefutable arm")
            conds = []
            env2 = dict(env)
            irrefutable = False
            for a in alts:
                if a[0] == "lit":
                    if a[2] is not None and a[2] != s.ty:
                        self.err(f"literal pattern of type {a[2]} on a {s.ty}")
                    self.fits(a[1], s.ty, "literal pattern")
                    conds.append(f"{s.lean} = {a[1]}")
                elif a[0] == "wild":
                    irrefutable = True
                elif a[0] == "bind":
                    irrefutable = True
                    env2[a[1]] = (s.lean, s.ty)
                else:
                    self.err("enum pattern in a match on an integer")
            if irrefutable and len(alts) > 1:
                self.err("irrefutable pattern inside an or-pattern")
            cond = None if irrefutable else " ∨ ".join(conds)
            if guard is not None:
                g = self.tx(guard, env2)
                if g.ty != "bool":
                    self.err("match guard is not a boolean")
                if g.ex is not None:
                    self.err("match guard with arithmetic that may overflow")
                cond = g.lean if cond is None else f"(({cond}) ∧ {g.lean})"
            v = self.wrap(body, env2, want, wrap_some, tail)
            ty = self.unify(ty, v.ty, "match")
            rows.append((cond, v))
        if rows[-1][0] is not None:
            self.err("match on an integer without a final irrefutable arm")
        return self.ite_chain(rows, ty)

    def ite_chain(self, rows, ty):
        lines = []
        exl = []
        any_ex = any(v.ex is not None for _, v in rows)
        for i, (c, v) in enumerate(rows):
            val = v.lean if "\n" not in v.lean else "\n" + hdr_indent(v.lean, 2)
            exv = v.ex or "true"
            if c is None:
                lines.append(f"else {val}" if i else val)
                exl.append(f"else {exv}" if i else exv)
            else:
                lines.append(f"{'else ' if i else ''}if {c} then {val}")
                exl.append(f"{'else ' if i else ''}if {c} then {exv}")
        lean = "(" + "\n".join(lines) + ")" if len(rows) > 1 else lines[0]
        ex = ("(" + "\n".join(exl) + ")") if any_ex else None
        return HV(lean, ty, ex)

    def enum_pat(self, a, en):
        """-> (lean pattern, {var: type})"""
        if a[0] == "wild":
            return "_", {}
        if a[0] != "variant":
            self.err("pattern in a match on an enum is neither a variant nor `_`")
        en2, v, payload = self.variant(a[1])
        if en2 != en:
            self.err(f"pattern {en2}::{v} in a match on {en}")
        if len(a[2]) != len(payload):
            self.err(f"pattern {en}::{v}: {len(a[2])} sub-patterns for {len(payload)} fields")
        binds = {}
        parts = []
        for sp, pt in zip(a[2], payload):
            if sp[0] == "wild":
                parts.append("_")
            else:
                if sp[1] in binds:
                    self.err(f"pattern {en}::{v}: duplicate binding")
                binds[sp[1]] = pt
                parts.append(sp[1])
        return (f".{v} " + " ".join(parts)).strip(), binds

    def tx_match_enum(self, s, arms, env, want, tail, wrap_some):
        en = s.ty[1]
        rows = []
        ty = "any"
        for alts, guard, body in arms:
            if guard is not None:
                self.err("guard in a match on an enum")
            pats = [self.enum_pat(a, en) for a in alts]
            b0 = pats[0][1]
            if any(p[1] != b0 for p in pats):
                self.err("or-pattern alternatives bind different names/types")
            env2 = dict(env)
            for x, t in b0.items():
                env2[x] = (x, t)
            v = self.wrap(body, env2, want, wrap_some, tail)
            ty = self.unify(ty, v.ty, "match")
            rows.append((" | ".join(p[0] for p in pats), v))
        lines = [f"(match {s.lean} with"]
        exl = [f"(match {s.lean} with"]
        for p, v in rows:
            val = v.lean if "\n" not in v.lean else "\n" + hdr_indent(v.lean, 4)
            lines.append(f"  | {p} => {val}")
            exl.append(f"  | {p} => {v.ex or 'true'}")
        lines[-1] += ")"
        exl[-1] += ")"
        ex = "\n".join(exl) if any(v.ex is not None for _, v in rows) else None
        return HV("\n".join(lines), ty, ex)

    def tx_if(self, e, env, want, tail):
        rows = []
        ty = "any"
        cur = e
        while True:
            c = self.tx(cur[1], env)
            if c.ty != "bool":
                self.err("`if` condition is not a boolean")
            if c.ex is not None:
                self.err("`if` condition with arithmetic that may overflow")
            v = self.tx(cur[2], env, want, tail)
            ty = self.unify(ty, v.ty, "if")
            rows.append((c.lean, v))
            if cur[3] is None:
                self.err("`if` without `else` used as a value")
            if cur[3][0] == "if":
                cur = cur[3]
                continue
            if cur[3][0] != "block":
                self.err("`else` branch")
            v = self.tx(cur[3], env, want, tail)
            ty = self.unify(ty, v.ty, "if")
            rows.append((None, v))
            break
        return self.ite_chain(rows, ty)

    def tx_iflet(self, e, env, want, tail):
        pat, scrut, then, els = e[1], e[2], e[3], e[4]
        s = self.pat_scrut(scrut, env)
        if not (isinstance(s.ty, tuple) and s.ty[0] == "enum"):
            self.err("if-let on a non-enum")
        if els is None or els[0] != "block":
            self.err("if-let without a plain else block")
        return self.tx_match_enum(s, [([pat], None, then), ([("wild",)], None, els)], env, want, tail, False)

    def early_return(self, st):
        """`if c { return E; }` -> (c, E) else None"""
        if st[0] == "if" and st[3] is None and st[2][0] == "block":
            b = st[2]
            r = None
            if len(b[1]) == 1 and b[2] is None:
                r = b[1][0]
            elif not b[1] and b[2] is not None:
                r = b[2]
            if r is not None and r[0] == "return" and r[1] is not None:
                return st[1], r[1]
        return None

    def tx_block(self, e, env, want, tail):
        stmts, tl = e[1], e[2]
        if tl is None:
            self.err("block without a final value")
        if stmts and not tail:
            self.err("statements in a block that is not the function body")
        rows = []
        ty = "any"
        for st in stmts:
            er = self.early_return(st)
            if er is None:
                self.err(f"statement of kind `{st[0]}` (only `if c {{ return e; }}` is understood)")
            c = self.tx(er[0], env)
            if c.ty != "bool" or c.ex is not None:
                self.err("early-return condition")
            v = self.tx(er[1], env, want)
            ty = self.unify(ty, v.ty, "early return")
            rows.append((c.lean, v))
        v = self.tx(tl, env, want, tail)
        if not rows:
            return v
        ty = self.unify(ty, v.ty, "early return")
        rows.append((None, v))
        return self.ite_chain(rows, ty)

    # --- writer functions: Result<(), _> with a sink parameter -> Option (List (value, width)); none = the
    # function itself returns Err (sink errors are not modelled: the sink accepts everything)
    def wr(self, e, env, sink):
        k = e[0]
        if k == "paren":
            return self.wr(e[1], env, sink)
        if k == "call" and e[1] == ("var", "Ok") and e[2] == [("unit",)]:
            return HV("(some [])", "writes")
        if k == "mcall" and e[2] == "map_err" and len(e[3]) == 1 and e[3][0][0] == "path":
            return self.wr(e[1], env, sink)   # conversion of the sink's error type
        if k == "mcall" and e[2] == "write_lsbs" and e[1] == ("var", sink) and len(e[3]) == 2:
            v = self.tx(e[3][0], env)
            n = self.tx(e[3][1], env, "usize")
            if not hdr_is_int(v.ty):
                self.err("write_lsbs of a value of unknown integer type")
            c = None
            if n.lit is None or n.lit > HDR_BITS[v.ty]:
                c = f"decide ({n.lean} ≤ {HDR_BITS[v.ty]})"
            return HV(f"(some [({v.lean}, {n.lean})])", "writes", hdr_and(v.ex, n.ex, c))
        if k == "match":
            s = self.pat_scrut(e[1], env)
            if not (isinstance(s.ty, tuple) and s.ty[0] == "enum"):
                self.err("writer: match on a non-enum")
            en = s.ty[1]
            lines = [f"(match {s.lean} with"]
            exl = list(lines)
            anyex = False
            for alts, guard, body in e[2]:
                if guard is not None:
                    self.err("guard in a match on an enum")
                pats = [self.enum_pat(a, en) for a in alts]
                if any(p[1] != pats[0][1] for p in pats):
                    self.err("or-pattern alternatives bind different names/types")
                env2 = dict(env)
                for x, t in pats[0][1].items():
                    env2[x] = (x, t)
                v = self.wr(body, env2, sink)
                anyex = anyex or v.ex is not None
                val = v.lean if "\n" not in v.lean else "\n" + hdr_indent(v.lean, 4)
                lines.append(f"  | {' | '.join(p[0] for p in pats)} => {val}")
                exl.append(f"  | {' | '.join(p[0] for p in pats)} => {v.ex or 'true'}")
            lines[-1] += ")"
            exl[-1] += ")"
            return HV("\n".join(lines), "writes", "\n".join(exl) if anyex else None)
        if k == "block":
            items = list(e[1])
            tl = e[2]
            # value of the block: statements in order, then the tail (a block without tail has value `()`,
            # which is only meaningful as a statement: it contributes no writes)
            acc = self.wr(tl, env, sink) if tl is not None else HV("(some [])", "writes")
            for st in reversed(items):
                er = self.early_return(st)
                if er is not None:
                    c = self.tx(er[0], env)
                    if c.ty != "bool" or c.ex is not None:
                        self.err("writer: early-return condition")
                    r = er[1]
                    if not (r[0] == "call" and r[1] == ("var", "Err") and len(r[2]) == 1):
                        self.err("writer: early return of something other than Err(..)")
                    ex = None if acc.ex is None else f"(if {c.lean} then true else {acc.ex})"
                    acc = HV(f"(if {c.lean} then none else\n{hdr_indent(acc.lean, 2)})", "writes", ex)
                    continue
                if st[0] == "try":
                    v = self.wr(st[1], env, sink)
                elif st[0] in ("match", "block"):
                    v = self.wr(st, env, sink)
                else:
                    self.err(f"writer: statement of kind `{st[0]}`")
                # exactness of what follows only matters when the step succeeded; over-approximated by `&&`
                acc = HV(f"(seqW {v.lean}\n{hdr_indent(acc.lean, 2)})", "writes", hdr_and(v.ex, acc.ex))
            return acc
        self.err(f"writer: expression of kind `{k}`")


def hdr_translate_fn(tx, items, rec, trait, owner):
    """-> (lean name, [lean lines])"""
    fname = items.fname
    name = rec["name"]
    lname = f"{owner}.{name}" if owner else name
    tx.where = f"{fname}: fn {lname}"
    tx.self_enum = owner
    if rec["body"] is None:
        tx.err("no body")
    env = {}
    lparams = []
    ptys = []
    sink = None
    for p in rec["params"]:
        if p in (["self"], ["&", "self"], ["mut", "self"]):
            if owner is None:
                tx.err("self parameter in a free function")
            env["self"] = ("self", ("enum", owner))
            lparams.append(f"(self : {owner})")
            continue
        if p[:3] == ["&", "mut", "self"]:
            tx.err("&mut self")
        if p and p[0] == "mut":
            tx.err("mutable parameter")
        if len(p) < 3 or p[1] != ":":
            tx.err(f"parameter `{' '.join(p)}`")
        pn, pt = p[0], p[2:]
        if pt[:2] == ["&", "mut"] and len(pt) == 3 and pt[2] in rec["generics"]:
            if sink is not None:
                tx.err("two sink parameters")
            sink = pn
            continue
        ty = tx.parse_type(pt)
        if ty == "writes":
            tx.err(f"parameter `{' '.join(p)}`")
        env[pn] = (pn, ty)
        ptys.append(ty)
        lparams.append(f"({pn} : {tx.lean_type(ty)})")
    if not rec["ret"]:
        tx.err("no return type")
    rty = tx.parse_type(rec["ret"])
    lo, hi = rec["body"]
    ps = HdrParser(items.toks, lo, hi, tx.where)
    body = ps.block()
    if ps.p != hi:
        tx.err("trailing tokens after the body")
    if rty == "writes":
        if sink is None:
            tx.err("Result<(), _> function without a sink parameter")
        v = tx.wr(body, env, sink)
    else:
        if sink is not None:
            tx.err("sink parameter in a function that does not return Result<(), _>")
        v = tx.tx(body, env, rty, tail=True)
        got = v.ty
        ok = got == rty or got == "any" or (got is None and hdr_is_int(rty))
        if isinstance(rty, tuple) and rty[0] == "opt" and isinstance(got, tuple) and got[0] == "opt":
            try:
                tx.unify(got, rty, "return value")
                ok = True
            except Unreadable:
                ok = False
        if not ok:
            tx.err(f"body has type {got!r}, declared {rty!r}")
    cfgs = [a for a in rec["attrs"] if a.startswith("#[cfg")]
    sig = " ".join(lparams)
    L = []
    doc = f"`{(trait + ' for ') if trait else ''}{owner + '::' if owner else ''}{name}` ({fname})"
    if cfgs:
        doc += " " + " ".join(cfgs)
    L.append(f"/-- {doc} -/")
    L.append(f"def {lname} {sig} : {tx.lean_type(rty)} :=".replace("  :", " :"))
    L.append(hdr_indent(v.lean, 2))
    if v.ex is not None:
        L.append("")
        L.append(f"/-- `{lname}`: no arithmetic step overflows, underflows, divides by zero or reaches `unreachable!` "
                 f"(then the `Nat` computation above is the Rust value; otherwise Rust panics or wraps). -/")
        L.append(f"def {lname}_exact {sig} : Bool :=".replace("  :", " :"))
        L.append(hdr_indent(v.ex, 2))
    L.append("")
    if owner is None:
        tx.fn_sigs[name] = (ptys, rty, v.ex is not None)
    HDR_DONE[lname] = (ptys, ("hdr", rty[1]) if isinstance(rty, tuple) and rty[0] == "enum" else rty, v.ex is not None)
    return lname, L


HDR_PRELUDE = '''/-- Effect of a `Result<(), _>` function that writes to a bit sink: `none` = the function itself returns
`Err`; `some ws` = it wrote, in order, for every `(v, n)` in `ws` the `n` low bits of `v`
(`BitSink::write_lsbs(v, n)`). Errors of the sink are not modelled. -/
abbrev Writes := Option (List (Nat × Nat))

/-- Sequencing of two writer steps (`a?; b`). -/
def seqW (a b : Writes) : Writes := match a with | none => none | some x => (match b with | none => none | some y => some (x ++ y))

/-- `Option::or_else`. -/
def orElse {α : Type} (a : Option α) (b : Unit → Option α) : Option α := match a with | some v => some v | none => b ()

/-- `bool::then`. -/
def boolThen {α : Type} (c : Bool) (f : Unit → α) : Option α := if c then some (f ()) else none

/-- `Option::<Option<_>>::flatten`. -/
def flatten {α : Type} : Option (Option α) → Option α | some (some v) => some v | _ => none

/-- `v.try_into().ok()` into an unsigned type of `bits` bits. -/
def tryInto (bits v : Nat) : Option Nat := if v < 2 ^ bits then some v else none

/-- `leading_zeros` of an unsigned value of `bits` bits. -/
def leadingZeros (bits v : Nat) : Nat := if v = 0 then bits else bits - 1 - Nat.log2 v
'''


def emit_headers():
    comp = os.path.join(REPO, "src", "component")
    files = {}
    for fn in sorted({s[0] for s in HDR_SPEC}):
        path = os.path.join(comp, fn)
        if not os.path.exists(path):
            fail(f"{fn}: file not found")
        files[fn] = HdrItems(fn, hdr_lex(open(path).read(), fn))
    dt = files["datatype.rs"]
    for en in HDR_ENUMS:
        if en not in dt.enums:
            fail(f"datatype.rs: enum {en} not found")
    tx = HdrTx(dt.enums)
    L = ["-- GENERATED by tools/translate.py from src/component/datatype.rs and src/component/bitrepr.rs — do not edit",
         "/-",
         "Arm-by-arm mirror of the frame-header code functions. Every `match` keeps the source order of its arms",
         "(integer matches become `if … else if …` chains: the first matching arm wins, as in Rust; enum matches",
         "become Lean matches with the same alternatives in the same order).",
         "",
         "Integers are modelled on `Nat`: `+ - * / % <<` are the `Nat` operations and `e as T` to a narrower `T` is",
         "`e % 2^bits(T)`. This is the Rust value exactly when no step overflows or underflows; that condition is",
         "emitted next to each function that has such a step as `<fn>_exact` (`a + b < 2^w`, `b ≤ a` for `a - b`,",
         "shift amount `< w`, …; `unreachable!()` is `_exact = false`). The input domains (u8: < 256, u16: < 65536,",
         f"u32: < 2^32; usize is taken as {HDR_BITS['usize']} bits) are NOT built in: the theorems about these functions carry them",
         "as explicit hypotheses.",
         "-/",
         "set_option linter.unusedVariables false",
         "namespace FlacVerif.Gen.Headers", "", HDR_PRELUDE]
    for en in HDR_ENUMS:
        vs = dt.enums[en]
        L.append(f"/-- `enum {en}` (datatype.rs) -/")
        L.append(f"inductive {en} where")
        for v, payload, disc, explicit in vs:
            args = " ".join(f"(a{i} : Nat)" for i, _ in enumerate(payload))
            cm = ("  -- " + ", ".join(payload)) if payload else ""
            L.append(f"  | {v} {args}".rstrip() + cm)
        L.append("  deriving Repr, DecidableEq, Inhabited")
        L.append("")
        if all(not p for _, p, _, _ in vs):
            L.append(f"/-- `{en} as <int>`: the discriminants ({'explicit' if any(x for _, _, _, x in vs) else 'implicit'} in the source) -/")
            L.append(f"def {en}.discriminant : {en} → Nat")
            for v, _, disc, _ in vs:
                L.append(f"  | .{v} => {disc}")
            L.append("")
    done = set()
    skipped = []
    for fn, trait, owner, names in HDR_SPEC:
        items = files[fn]
        if owner is None:
            table = items.fns
            what = f"{fn}: free functions"
        else:
            if (trait, owner) not in items.impls:
                fail(f"{fn}: impl {(trait + ' for ') if trait else ''}{owner} not found")
            table = items.impls[(trait, owner)]
            what = f"{fn}: impl {(trait + ' for ') if trait else ''}{owner}"
        for name in names:
            if name not in table:
                fail(f"{what}: fn {name} not found")
            lname, lines = hdr_translate_fn(tx, items, table[name], trait, owner)
            if lname in done:
                fail(f"{what}: two translated functions are both called {lname}")
            done.add(lname)
            L += lines
        if owner is not None:
            rest = [n for n in table if n not in names]
            if rest:
                skipped.append(f"{what}: {', '.join(rest)}")
    L.append("/- Functions of the same impl blocks that are NOT translated (no theorem refers to them):")
    for s in skipped:
        L.append("   " + s)
    L.append("-/")
    L += ["", "end FlacVerif.Gen.Headers", ""]
    return "\n".join(L)


# ===================================================================================================
# Part `writer`: the bitstream writer (`impl BitRepr for X` of src/component/bitrepr.rs).
#
# The bodies of `count_bits` and `write` are PARSED (lexer and expression parser of part `headers`, extended
# below with `let`, assignments, `for`, `while`, field access, indexing, tuples, arrays, typed closures and the
# macros `assert!`, `debug_assert!`, `try_repeat!`) and translated statement by statement, in program order,
# into Gen/Writer.lean: for each impl a function giving the list of `BitSink` operations `write` performs on a
# component value (`none` = the function itself returns `Err`), and a function for `count_bits`.  Widths,
# literals, order of statements, loop ranges, casts and the constructor of each operation come from the source
# text.  What is NOT read from bitrepr.rs is listed in the small tables below (the trusted base of this part):
# WR_SINK_OPS (sink method -> `Op` constructor), WR_MODEL (Rust accessor -> field of the hand-written model
# structure; every entry carries the exact text of the accessor's Rust body, which is compared with datatype.rs),
# the readings of the macros `try_repeat!` / `reusable!` / `reuse!` (WR_MACRO_FP: fingerprints of their definitions;
# a changed definition fails closed), and of the std functions `max`, `min`, `Vec::resize`, `leading_zeros`.
# Everything external to bitrepr.rs/datatype.rs that a body calls (WR_UNTRANSLATED, WR_EXTERNAL: `encode_to_utf8like`,
# `crc::Crc::checksum`, the read-out methods of a scratch `MemSink`) is NOT given a meaning here: it becomes a
# parameter of the generated function, and Theorems/C08Gen.lean instantiates it.  Anything else raises
# `fail("bitrepr.rs: ...")`.
#
# `reuse!(KEY, |x| body)`: the thread-local storage holds whatever the previous call left.  A scratch sink must be
# cleared by the first statement that mentions it; then come the statements that only write to it ("fill"), then
# the statements that only read it (`as_slice`, `len`, `write_to_byte_slice`) and write to the caller's sink.  The
# entry content of a reused `Vec<u8>` is a parameter `<KEY>_<i>` of the generated function (the same parameter is
# passed on to callees, e.g. once per frame by `Stream.write`; C08G_frame_ops shows that the result does not depend
# on it).

import hashlib

WR_SBITS = {"i8": 8, "i16": 16, "i32": 32, "i64": 64, "isize": HDR_BITS["usize"]}

# `dest.<method>(args)` of the `BitSink` trait (src/bitsink.rs) -> constructor of `FlacVerif.Op` (Model/Sink.lean).
# "w" = operand width in bits, taken from the Rust type of the value argument; "v" = value; "n" = bit count.
WR_SINK_OPS = {
    "write":               ("Op.write",             ["wv"]),
    "write_lsbs":          ("Op.writeLsbs",         ["wv", "n"]),
    "write_msbs":          ("Op.writeMsbs",         ["wv", "n"]),
    "write_twoc":          ("Op.writeTwoc",         ["sv", "n"]),
    "write_zeros":         ("Op.writeZeros",        ["n"]),
    "write_bytes_aligned": ("Op.writeBytesAligned", ["bytes"]),
    "align_to_byte":       ("Op.alignToByte",       []),
}

# Rust component type -> its view in the hand-written model (Model/Rice.lean, Model/Component.lean).
#   kind "struct": a Lean structure; `{self}` is the value.
#   kind "ctor":   one constructor of the inductive `FlacVerif.SubFrame`; the value is the list of constructor
#                  arguments `fields` (in the constructor's order), `{field}` refers to one of them.
#   kind "part":   a sub-object stored inline in the constructor arguments of its parent (`of`).
#   kind "enum":   Rust enum whose variants are the "ctor" views above.
# acc: accessor name -> (exact Rust body of the accessor in datatype.rs, Lean expression).  The Rust return
# TYPE of each accessor is read from its signature in datatype.rs, not from this table.
WR_MODEL = {
    "StreamInfo": dict(kind="struct", lean="FlacVerif.StreamInfo", acc={
        "min_block_size":  ("self.min_block_size as usize", "{self}.minBlock"),
        "max_block_size":  ("self.max_block_size as usize", "{self}.maxBlock"),
        "min_frame_size":  ("self.min_frame_size as usize", "{self}.minFrame"),
        "max_frame_size":  ("self.max_frame_size as usize", "{self}.maxFrame"),
        "sample_rate":     ("self.sample_rate as usize", "{self}.rate"),
        "channels":        ("self.channels as usize", "{self}.channels"),
        "bits_per_sample": ("self.bits_per_sample as usize", "{self}.bps"),
        "total_samples":   ("self.total_samples as usize", "{self}.total"),
        "md5_digest":      ("&self.md5", "{self}.md5"),
    }),
    "Residual": dict(kind="struct", lean="FlacVerif.Residual", acc={
        "partition_order": ("self.partition_order as usize", "{self}.order"),
        "block_size":      ("self.block_size", "{self}.blockSize"),
        "warmup_length":   ("self.warmup_length", "{self}.warmup"),
        "rice_params":     ("&self.rice_params", "{self}.params"),
        "quotients":       ("&self.quotients", "{self}.quotients"),
        "remainders":      ("&self.remainders", "{self}.remainders"),
        # cached sums (set by `from_parts`, compared with the recomputed sums by `Residual::verify`)
        "sum_quotients":   ("self.sum_quotients", "({self}.quotients.foldl (· + ·) 0)"),
        "sum_rice_params": ("self.sum_rice_params", "({self}.params.foldl (· + ·) 0)"),
    }),
    "Constant": dict(kind="ctor", of="FlacVerif.SubFrame", ctor="constant",
                     fields=[("blockSize", "Nat"), ("dc", "Int"), ("bps", "Nat")], acc={
        "block_size":      ("self.block_size", "{blockSize}"),
        "dc_offset":       ("self.dc_offset", "{dc}"),
        "bits_per_sample": ("self.bits_per_sample as usize", "{bps}"),
    }),
    "Verbatim": dict(kind="ctor", of="FlacVerif.SubFrame", ctor="verbatim",
                     fields=[("samples", "List Int"), ("bps", "Nat")], acc={
        "samples":         ("&self.data", "{samples}"),
        "bits_per_sample": ("self.bits_per_sample as usize", "{bps}"),
    }),
    "FixedLpc": dict(kind="ctor", of="FlacVerif.SubFrame", ctor="fixed",
                     fields=[("warmup", "List Int"), ("res", "FlacVerif.Residual"), ("bps", "Nat")], acc={
        "order":           ("self.warm_up.len()", "{warmup}.length"),
        "warm_up":         ("&self.warm_up", "{warmup}"),
        "residual":        ("&self.residual", "{res}"),
        "bits_per_sample": ("self.bits_per_sample as usize", "{bps}"),
    }),
    "Lpc": dict(kind="ctor", of="FlacVerif.SubFrame", ctor="lpc",
                fields=[("warmup", "List Int"), ("coefs", "List Int"), ("shift", "Int"), ("precision", "Nat"),
                        ("res", "FlacVerif.Residual"), ("bps", "Nat")], acc={
        "order":           ("self.parameters.order()", "{coefs}.length"),
        "warm_up":         ("&self.warm_up", "{warmup}"),
        "parameters":      ("&self.parameters", "@QuantizedParameters"),
        "residual":        ("&self.residual", "{res}"),
        "bits_per_sample": ("self.bits_per_sample as usize", "{bps}"),
    }),
    # `coefs()` is the Vec of the first `order` lanes of the SIMD array: its length IS `order()`
    "QuantizedParameters": dict(kind="part", of="Lpc", fields=["coefs", "shift", "precision"], acc={
        "order":     ("self.order", "{coefs}.length"),
        "precision": ("self.precision", "{precision}"),
        "shift":     ("self.shift", "{shift}"),
        "coefs":     ("(0..self.order()).map(|j| self.coefs[j]).collect()", "{coefs}"),
    }),
    "SubFrame": dict(kind="enum", lean="FlacVerif.SubFrame",
                     variants={"Constant": "Constant", "Verbatim": "Verbatim", "FixedLpc": "FixedLpc", "Lpc": "Lpc"}),
}

# Types that have no structural counterpart in the hand-written model (it keeps `info`, a list of unknown
# blocks and the frames, and derives the `is_last` flags from the position; its frame header holds model-side
# enums): their Lean types are GENERATED from the Rust definitions in datatype.rs, and Theorems/C08Gen.lean
# relates them to the model by explicit maps.  Accessors of these types must be trivial (`&self.f`, `self.f`,
# `self.f.as_ref()`): the field is read from the accessor's body.
WR_GENERATED = ["MetadataBlockData", "MetadataBlock", "FrameHeader", "Frame", "Stream"]

# sha256 of the token text of the macro definitions whose meaning is built into this translator:
#   try_repeat!(c to N; while cond => body)  ==  for c in 0..N { if !cond { return Ok(()) } body?; } Ok(())
#   reusable!(KEY: T = init); reuse!(KEY, |x: &mut T| body)  ==  body, with x a thread-local value of type T whose
#   content on entry is whatever the previous call left in it (NOT `init`)
WR_MACRO_FP = {
    ("repeat.rs", "try_repeat"): "55d0251f2aff10e0",
    ("repeat.rs", "seq"): "ecd0dc8eb0f10106",
    ("lib.rs", "reusable"): "d790fd6fd5cee1bc",
    ("lib.rs", "reuse"): "ef7a5ff5070a9c6e",
}

# (impl type, [functions])   in emission order (callees first)
WR_SPEC = [
    ("Residual", ["count_bits", "write"]),
    ("Constant", ["count_bits", "write"]),
    ("Verbatim", ["count_bits", "write"]),
    ("FixedLpc", ["count_bits", "write"]),
    ("Lpc", ["count_bits", "write"]),
    ("SubFrame", ["count_bits", "write"]),
    ("StreamInfo", ["count_bits", "write"]),
    ("MetadataBlockData", ["count_bits", "write"]),
    ("MetadataBlock", ["count_bits", "write"]),
    ("FrameHeader", ["count_bits", "write"]),
    ("Frame", ["count_bits", "write"]),
    ("Stream", ["count_bits", "write"]),
]
# functions of the BitRepr impls that are deliberately NOT translated (callers take them as a parameter)
WR_UNTRANSLATED = {
    (None, "encode_to_utf8like"): "mutable shifts (`val <<= ..`) and pushes in a loop, `return Err` inside a branch; callers "
                                  "take it as a parameter",
}
# external values whose meaning is not in this crate: callers take them as a parameter
#   <static of type crc::Crc<uN, _>>.checksum(bytes) : uN          (crate `crc`)
#   <scratch MemSink>.as_slice() / .len() / .write_to_byte_slice(dest): functions of the operations a cleared MemSink
#   received (src/bitsink.rs; modelled and verified separately: Model/Sink.lean, C05/C06)
WR_EXTERNAL = ["checksum", "as_slice", "len", "write_to_byte_slice"]
# helper functions (file, impl type or None, name) translated before the impls
WR_HELPERS = [
    ("bitrepr.rs", None, "utf8like_bytesize"),
    ("datatype.rs", "Verbatim", "count_bits_from_metadata"),
    ("datatype.rs", "MetadataBlockData", "typetag"),
]

WR_LEAN_RESERVED = {"end", "at", "from", "fun", "do", "then", "else", "if", "match", "with", "in", "let", "have", "show",
                    "by", "theorem", "def", "open", "namespace", "section", "variable", "instance", "where", "deriving",
                    "structure", "inductive", "class", "macro", "syntax", "import", "export", "private", "protected",
                    "partial", "unsafe", "mutual", "universe", "axiom", "example", "abbrev", "opaque", "notation",
                    "infix", "infixl", "infixr", "prefix", "postfix", "attribute", "set_option", "using", "calc",
                    "forall", "exists", "Type", "Prop", "Sort", "nomatch", "nofun", "return", "for", "unless",
                    "try", "catch", "finally", "mut", "break", "continue", "true", "false", "some", "none", "emit",
                    "seqW", "forW", "max", "min", "this", "suffices", "obtain", "termination_by", "decreasing_by"}


def wr_mangle(name):
    return name + "_" if name in WR_LEAN_RESERVED else name


class WrParser(HdrParser):
    """HdrParser + statements (`let`, assignment, `for`, `while`), field access, indexing, tuples, arrays, typed
    closure parameters, struct / `Some(..)` patterns, and the macros this part understands."""

    ASSIGN = ("=", "+=", "-=", "*=", "/=", "%=", "<<=", ">>=", "|=", "&=", "^=")

    def sub(self, toks):
        return WrParser(toks, 0, len(toks), self.where)

    def block(self):
        self.eat("{")
        stmts = []
        tail = None
        while True:
            self.skip_attrs()
            x = self.peek()
            if x == "}":
                self.p += 1
                break
            if x == ";":
                self.p += 1
                continue
            if x == "let":
                stmts.append(self.let_())
                continue
            if x in ("if", "match", "for", "while", "{"):
                e = {"if": self.if_, "match": self.match, "for": self.for_, "while": self.while_, "{": self.block}[x]()
                if self.peek() in (".", "?") or (self.peek() in self.ASSIGN):
                    self.err("operator applied to a block-like expression statement")
                if self.peek() == "}":
                    self.p += 1
                    tail = e
                    break
                if self.peek() == ";":
                    self.p += 1
                stmts.append(e)
                continue
            e = self.expr()
            if self.peek() in self.ASSIGN:
                op = self.peek()
                self.p += 1
                rhs = self.expr()
                self.eat(";")
                stmts.append(("assign", op, e, rhs))
                continue
            if self.peek() == ";":
                self.p += 1
                stmts.append(e)
            elif self.peek() == "}":
                tail = e
            else:
                self.err(f"expected `;` or `}}` after expression, found {self.peek()!r}")
        return ("block", stmts, tail)

    def type_until(self, stops):
        out = []
        d = 0
        while True:
            x = self.peek()
            if x is None:
                self.err("type")
            if d == 0 and x in stops:
                return out
            if x in ("<", "(", "["):
                d += 1
            elif x in (">", ")", "]"):
                d -= 1
            elif x == ">>":
                d -= 2
            if d < 0:
                return out
            out.append(x)
            self.p += 1

    def let_(self):
        self.eat("let")
        if self.peek() == "(":
            self.p += 1
            names = []
            while self.peek() != ")":
                m = False
                if self.peek() == "mut":
                    m = True
                    self.p += 1
                if not self.is_ident(self.peek()) and self.peek() != "_":
                    self.err("tuple pattern in `let`")
                names.append((self.peek(), m))
                self.p += 1
                if self.peek() == ",":
                    self.p += 1
                elif self.peek() != ")":
                    self.err("tuple pattern in `let`")
            self.p += 1
            pat = ("tuplepat", names)
        else:
            m = False
            if self.peek() == "mut":
                m = True
                self.p += 1
            if not (self.is_ident(self.peek()) or self.peek() == "_") or not re.fullmatch(r"[a-z_][a-z0-9_]*", self.peek()):
                self.err(f"pattern in `let`: {self.peek()!r}")
            pat = ("bind", self.peek(), m)
            self.p += 1
        ty = None
        if self.peek() == ":":
            self.p += 1
            ty = self.type_until(("=", ";"))
        if self.peek() != "=":
            self.err("`let` without initialiser")
        self.p += 1
        e = self.expr()
        if self.peek() == "else":
            self.err("let-else")
        self.eat(";")
        return ("let", pat, ty, e)

    def for_(self):
        self.eat("for")
        if not (self.is_ident(self.peek()) or self.peek() == "_"):
            self.err("pattern of `for`")
        v = self.peek()
        self.p += 1
        self.eat("in")
        it = self.expr()
        if self.peek() == "..":
            self.p += 1
            it = ("range", it, self.expr())
        elif self.peek() == "..=":
            self.err("inclusive range")
        body = self.block()
        return ("for", v, it, body)

    def while_(self):
        self.eat("while")
        if self.peek() == "let":
            self.err("while-let")
        c = self.expr()
        return ("while", c, self.block())

    def generic_toks(self):
        start = self.p
        self.generic_args()
        return self.t[start + 1:self.p - 1]

    def postfix(self):
        e = self.primary()
        while True:
            x = self.peek()
            if x == "(":
                e = ("call", e, self.args())
            elif x == "." and self.is_ident(self.peek(1)):
                name = self.peek(1)
                self.p += 2
                gen = None
                if self.peek() == "::":
                    self.p += 1
                    gen = self.generic_toks()
                if self.peek() == "(":
                    e = ("mcall", e, name, self.args(), gen)
                elif gen is not None:
                    self.err(f"generic arguments on field .{name}")
                else:
                    e = ("field", e, name)
            elif x == "." and self.peek(1) is not None and re.fullmatch(r"\d+", self.peek(1)):
                e = ("tupidx", e, int(self.peek(1)))
                self.p += 2
            elif x == "[":
                self.p += 1
                idx = self.expr()
                if self.peek() in ("..", "..="):
                    self.err("slice range")
                self.eat("]")
                e = ("index", e, idx)
            elif x == "?":
                self.p += 1
                e = ("try", e)
            else:
                return e

    def primary(self):
        x = self.peek()
        if x == "(":
            self.p += 1
            if self.peek() == ")":
                self.p += 1
                return ("unit",)
            e = self.expr()
            if self.peek() == ",":
                items = [e]
                while self.peek() == ",":
                    self.p += 1
                    if self.peek() == ")":
                        break
                    items.append(self.expr())
                self.eat(")")
                return ("tuple", items)
            self.eat(")")
            return ("paren", e)
        if x == "[":
            self.p += 1
            items = []
            while self.peek() != "]":
                items.append(self.expr())
                if self.peek() == ",":
                    self.p += 1
                elif self.peek() == ";":
                    self.err("array repeat expression")
                elif self.peek() != "]":
                    self.err("array literal")
            self.p += 1
            return ("array", items)
        if x == "|":
            self.p += 1
            ps = []
            while self.peek() != "|":
                if not self.is_ident(self.peek()):
                    self.err("closure parameter")
                nm = self.peek()
                self.p += 1
                ty = None
                if self.peek() == ":":
                    self.p += 1
                    ty = self.type_until((",", "|"))
                ps.append((nm, ty))
                if self.peek() == ",":
                    self.p += 1
            self.p += 1
            return ("closure", ps, self.expr())
        if x in ("for", "while", "loop", "break", "continue", "unsafe", "async", "move"):
            self.err(f"`{x}` in expression position")
        e = HdrParser.primary(self)
        if e[0] == "macro":
            return self.macro(e[1], e[2])
        return e

    def macro(self, name, toks):
        if name in ("assert", "debug_assert"):
            ps = self.sub(toks)
            c = ps.expr()
            if ps.peek() is not None:
                if ps.peek() != ",":
                    ps.err(f"{name}! arguments")
                # the rest is the panic message
            return ("assert", c, name == "debug_assert")
        if name == "try_repeat":
            ps = self.sub(toks)
            if not ps.is_ident(ps.peek()):
                ps.err("try_repeat!: counter")
            ctr = ps.peek()
            ps.p += 1
            if ps.peek() != "to":
                ps.err("try_repeat!: expected `to`")
            ps.p += 1
            upto = ps.expr()
            ps.eat(";")
            ps.eat("while")
            cond = ps.expr()
            ps.eat("=>")
            body = ps.block()
            if ps.peek() is not None:
                ps.err("try_repeat!: trailing tokens")
            return ("tryrepeat", ctr, upto, cond, body)
        if name == "reuse":
            ps = self.sub(toks)
            if not ps.is_ident(ps.peek()):
                ps.err("reuse!: key")
            key = ps.peek()
            ps.p += 1
            ps.eat(",")
            clo = ps.expr()
            if ps.peek() is not None or clo[0] != "closure" or len(clo[1]) != 1:
                ps.err("reuse!: expected `KEY, |x: &mut T| { .. }`")
            return ("reuse", key, clo)
        return ("macro", name, toks)

    def pattern(self):
        x = self.peek()
        if x == "_":
            self.p += 1
            return ("wild",)
        if x is not None and re.fullmatch(r"\d.*", x):
            v, suf = hdr_int_literal(x, self.where)
            self.p += 1
            if self.peek() in ("..", "..=", "..."):
                self.err("range pattern")
            return ("lit", v, suf)
        if not (self.is_ident(x) or x == "Self"):
            self.err(f"pattern starting with {x!r}")
        segs = self.path()
        if self.peek() == "(":
            self.p += 1
            sub = []
            while self.peek() != ")":
                y = self.peek()
                if y == "_":
                    sub.append(("wild",))
                elif self.is_ident(y) and re.fullmatch(r"[a-z_][a-z0-9_]*", y):
                    sub.append(("bind", y))
                else:
                    self.err(f"sub-pattern {y!r}")
                self.p += 1
                if self.peek() == ",":
                    self.p += 1
                elif self.peek() != ")":
                    self.err("sub-pattern list")
            self.p += 1
            return ("variant", segs, sub)
        if self.peek() == "{":
            self.p += 1
            fields = []
            rest = False
            while self.peek() != "}":
                if self.peek() == "..":
                    self.p += 1
                    rest = True
                    if self.peek() != "}":
                        self.err("`..` must end a struct pattern")
                    break
                f = self.peek()
                if not self.is_ident(f):
                    self.err("struct pattern field")
                self.p += 1
                b = f
                if self.peek() == ":":
                    self.p += 1
                    b = self.peek()
                    if not (self.is_ident(b) and re.fullmatch(r"[a-z_][a-z0-9_]*", b)) and b != "_":
                        self.err("struct pattern binding")
                    self.p += 1
                fields.append((f, b))
                if self.peek() == ",":
                    self.p += 1
                elif self.peek() != "}":
                    self.err("struct pattern")
            self.p += 1
            return ("svariant", segs, fields, rest)
        if self.peek() == "@":
            self.err("`@` pattern")
        if len(segs) == 1:
            if not re.fullmatch(r"[a-z_][a-z0-9_]*", segs[0]):
                self.err(f"pattern {segs[0]!r} is neither a lower-case binding nor a path")
            return ("bind", segs[0])
        return ("variant", segs, [])


# ---- item scanners for datatype.rs: struct and enum definitions of the generated types, `const` items

def wr_split_top(toks, sep=","):
    """split a token list at top-level separators (brackets and angle brackets nest)"""
    out, cur, d = [], [], 0
    for z in toks:
        if z in ("(", "[", "{", "<"):
            d += 1
        elif z in (")", "]", "}", ">"):
            d -= 1
        elif z == ">>":
            d -= 2
        if z == sep and d == 0:
            out.append(cur)
            cur = []
        else:
            cur.append(z)
    if cur:
        out.append(cur)
    return out


def wr_strip_field_attrs(toks, where):
    """drop `#[..]` attributes (a `#[cfg..]` is not accepted: it would make the field conditional) and `pub(..)`"""
    t = list(toks)
    while t:
        if t[0] == "#":
            if t[1] != "[":
                fail(f"{where}: attribute")
            d, j = 0, 1
            while True:
                if t[j] == "[":
                    d += 1
                elif t[j] == "]":
                    d -= 1
                j += 1
                if d == 0:
                    break
            if t[2] == "cfg":
                fail(f"{where}: #[cfg] on a field or variant")
            t = t[j:]
        elif t[0] == "pub":
            t = t[1:]
            if t and t[0] == "(":
                j = t.index(")")
                t = t[j + 1:]
        else:
            break
    return t


def wr_scan_types(items, names):
    """-> {name: ("struct", [(field, type toks)]) | ("enum", [(variant, "unit"|"tuple"|"struct", payload)])}"""
    t = items.toks
    out = {}
    i = 0
    while i < len(t):
        if t[i] in ("struct", "enum") and i + 1 < len(t) and t[i + 1] in names and (i == 0 or t[i - 1] in ("pub", ")", "]", "}", ";")):
            kind, name = t[i], t[i + 1]
            where = f"{items.fname}: {kind} {name}"
            if name in out:
                fail(f"{where}: defined twice")
            if t[i + 2] != "{":
                fail(f"{where}: generic, tuple or unit definition")
            end = items.group_end(i + 2)
            parts = [wr_strip_field_attrs(p, where) for p in wr_split_top(t[i + 3:end - 1])]
            parts = [p for p in parts if p]
            if kind == "struct":
                fields = []
                for p in parts:
                    if len(p) < 3 or p[1] != ":" or not re.fullmatch(r"[a-z_][a-z0-9_]*", p[0]):
                        fail(f"{where}: field `{' '.join(p)}`")
                    fields.append((p[0], p[2:]))
                out[name] = ("struct", fields)
            else:
                vs = []
                for p in parts:
                    v = p[0]
                    if not re.fullmatch(r"[A-Z][A-Za-z0-9_]*", v):
                        fail(f"{where}: variant `{' '.join(p)}`")
                    if len(p) == 1:
                        vs.append((v, "unit", []))
                    elif p[1] == "(" and p[-1] == ")":
                        vs.append((v, "tuple", wr_split_top(p[2:-1])))
                    elif p[1] == "{" and p[-1] == "}":
                        fs = []
                        for q in wr_split_top(p[2:-1]):
                            q = wr_strip_field_attrs(q, where)
                            if not q:
                                continue
                            if len(q) < 3 or q[1] != ":":
                                fail(f"{where}::{v}: field `{' '.join(q)}`")
                            fs.append((q[0], q[2:]))
                        vs.append((v, "struct", fs))
                    else:
                        fail(f"{where}: variant `{' '.join(p)}` (explicit discriminant?)")
                out[name] = ("enum", vs)
            i = end
            continue
        i += 1
    return out


def wr_scan_consts(items):
    """file-level `const NAME: T = <int literal>;` -> {NAME: (value, type)}"""
    t = items.toks
    out = {}
    d = 0
    for i, x in enumerate(t):
        if x in ("{", "(", "["):
            d += 1
        elif x in ("}", ")", "]"):
            d -= 1
        elif x == "const" and d == 0 and i + 6 < len(t) and t[i + 2] == ":" and t[i + 4] == "=" and t[i + 6] == ";" \
                and t[i + 3] in HDR_BITS and re.fullmatch(r"\d.*", t[i + 5]):
            v, suf = hdr_int_literal(t[i + 5], f"{items.fname}: const {t[i + 1]}")
            if suf is not None and suf != t[i + 3]:
                fail(f"{items.fname}: const {t[i + 1]}: literal suffix")
            out[t[i + 1]] = (v, t[i + 3])
    return out


def wr_body_text(items, rec):
    lo, hi = rec["body"]
    t = items.toks[lo + 1:hi - 1]
    s = ""
    for i, x in enumerate(t):
        if i and (re.match(r"\w", x) and re.match(r"\w", t[i - 1][-1:])):
            s += " "
        s += x
    return s


class WV:
    """translated value: Lean text, Rust type, exactness condition (Lean Bool text, None = true), literal value,
    view (constructor-argument record for "ctor"/"part" types)"""
    __slots__ = ("lean", "ty", "ex", "lit", "view")

    def __init__(self, lean, ty, ex=None, lit=None, view=None):
        self.lean, self.ty, self.ex, self.lit, self.view = lean, ty, ex, lit, view


def wr_is_u(ty):
    return isinstance(ty, str) and ty in HDR_BITS


def wr_is_s(ty):
    return isinstance(ty, str) and ty in WR_SBITS


def wr_bits(ty):
    return HDR_BITS[ty] if ty in HDR_BITS else WR_SBITS[ty]


def wr_ind(s, k=2):
    return hdr_indent(s, k)


def wr_and(*xs):
    xs = [x for x in xs if x is not None and x != "true"]
    if not xs:
        return None
    return xs[0] if len(xs) == 1 else "(" + " && ".join(xs) + ")"


def wr_words(s):
    return set(re.findall(r"[A-Za-z_][A-Za-z0-9_']*", s))


class WrVar:
    __slots__ = ("lean", "ty", "lit", "view", "mut")

    def __init__(self, lean, ty, lit=None, view=None, mut=False):
        self.lean, self.ty, self.lit, self.view, self.mut = lean, ty, lit, view, mut


class WrK:
    """How a statement sequence is rendered.  kind: "P" pure value, "W" operation list, "S" operation list plus
    carried loop state, "L" carried loop state of a pure loop.  mode: "V" the value, "E" the exactness condition
    (Bool, or Bool × state for "S"/"L")."""

    def __init__(self, kind, mode, state=(), want=None):
        self.kind, self.mode, self.state, self.want = kind, mode, tuple(state), want
        self.result_ty = None

    def st(self):
        names = [wr_mangle(n) for n in self.state]
        return names[0] if len(names) == 1 else "(" + ", ".join(names) + ")"

    def true_(self):
        return "true" if self.kind in ("P", "W") else f"(true, {self.st()})"

    def final(self):
        if self.mode == "E":
            return self.true_()
        return {"W": "some []", "S": f"retS {self.st()}", "L": self.st()}[self.kind]

    def cond(self, c, rest):
        if self.mode == "V" or c is None or c == "true":
            return rest
        if self.kind in ("P", "W"):
            return c if rest == "true" else f"andB {wr_par(c)} <|\n{rest}"
        return f"andE {wr_par(c)} <|\n{rest}"

    def emit(self, op, rest):
        if self.mode == "E":
            return rest
        return f"{'emit' if self.kind == 'W' else 'emitS'} [{op}] <|\n{rest}"

    def seq(self, w, wex, rest):
        if self.mode == "E":
            return self.cond(wex, rest)
        if self.kind == "W" and rest == "some []" and "\n" not in w:
            return w
        return f"{'seqW' if self.kind == 'W' else 'seqS'} {wr_par(w)} <|\n{rest}"

    def errif(self, c, rest):
        if self.mode == "E":
            return f"if {c} then {self.true_()} else\n{rest}"
        return f"if {c} then none else\n{rest}"

    def let(self, pat, val, rest, names):
        if self.mode == "E" and rest == "true":
            return rest
        if self.mode == "E" and self.kind in ("P", "W") and not (set(names) & wr_words(rest)):
            return rest
        if "\n" in val:
            return f"let {pat} :=\n{wr_ind(val)}\n{rest}"
        return f"let {pat} := {val}\n{rest}"


def wr_par(s):
    """parenthesise a (possibly multi-line) term, keeping the alignment of its continuation lines"""
    s = s.strip("\n")
    if "\n" not in s:
        if re.fullmatch(r"[A-Za-z_][A-Za-z0-9_.']*|\d+|\(.*\)|\[.*\]", s) and wr_balanced(s):
            return s
        return "(" + s + ")"
    return "(" + s.replace("\n", "\n ") + ")"


def wr_balanced(s):
    """is the outermost bracket pair of s one group (so that no further parentheses are needed)?"""
    if not s or s[0] not in "([":
        return True
    d = 0
    for i, c in enumerate(s):
        if c in "([":
            d += 1
        elif c in ")]":
            d -= 1
            if d == 0 and i != len(s) - 1:
                return False
    return d == 0


class WrTx:
    def __init__(self, files, gen_defs, consts, hdr_done, use_max):
        self.files = files          # file name -> HdrItems
        self.gen_raw = gen_defs     # generated type name -> raw definition (wr_scan_types)
        self.gen = {}               # generated type name -> parsed definition
        self.consts = consts        # bitrepr.rs constants: name -> (value, type)
        self.hdr = hdr_done         # functions of Gen/Headers.lean: lean name -> (param types, ret type, has_exact)
        self.use_max = use_max
        self.fns = {}               # (owner | None, name) -> dict(lean, self_kind, ptys, ret, has_ex, extra)
        self.where = ""
        self.owner = None
        self.extra = None           # uninterpreted callees of the function being translated: lean param name -> lean type
        self.used_consts = []
        self.checked_acc = set()
        self.statics = {}           # `static NAME: crc::Crc<uN, ..>` of bitrepr.rs -> "uN"
        self.reusables = {}         # `reusable!(KEY: T = ..)` of bitrepr.rs -> type text
        self.scratch = None         # name of the scratch sink being filled (inside a `reuse!` closure)
        self.scratch_ty = None

    def err(self, msg):
        fail(f"{self.where}: {msg}")

    # ---------------------------------------------------------------- types
    def ty(self, toks):
        t = []
        for x in toks:
            if x.startswith("'"):
                continue
            if x == ">>":
                t += [">", ">"]
            elif x == "&&":
                t += ["&", "&"]
            else:
                t.append(x)
        while t and t[0] in ("&", "mut"):
            t = t[1:]
        if not t:
            self.err("empty type")
        s = "".join(t)
        if s in HDR_BITS or s in WR_SBITS:
            return s
        if s == "bool":
            return "bool"
        if s == "Self":
            if self.owner is None:
                self.err("`Self` outside an impl")
            return ("st", self.owner)
        if s in WR_MODEL or s in WR_GENERATED:
            return ("st", s)
        if s in HDR_ENUMS:
            return ("hdr", s)
        if t[0] == "[" and t[-1] == "]":
            parts = wr_split_top(t[1:-1], ";")
            if len(parts) not in (1, 2):
                self.err(f"type `{s}`")
            return ("list", self.ty(parts[0]))
        if t[0] == "(" and t[-1] == ")":
            parts = wr_split_top(t[1:-1])
            if len(parts) < 2:
                self.err(f"type `{s}`")
            return ("tuple", tuple(self.ty(p) for p in parts))
        head = None
        for h in (["Vec"], ["heapless", "::", "Vec"], ["Option"], ["Result"]):
            if t[:len(h)] == h and len(t) > len(h) + 2 and t[len(h)] == "<" and t[-1] == ">":
                head = h[-1]
                args = wr_split_top(t[len(h) + 1:-1])
                break
        if head == "Vec":
            if len(args) not in (1, 2):
                self.err(f"type `{s}`")
            return ("list", self.ty(args[0]))
        if head == "Option" and len(args) == 1:
            return ("opt", self.ty(args[0]))
        if head == "Result" and len(args) == 2 and args[0] == ["(", ")"]:
            return "writes"
        if head == "Result" and len(args) == 2:
            return ("res", self.ty(args[0]))     # Err = the function's own error (a RangeError): `none`
        self.err(f"unsupported type `{s}`")

    def lty(self, ty):
        if wr_is_u(ty):
            return "Nat"
        if wr_is_s(ty):
            return "Int"
        if ty == "bool":
            return "Bool"
        if ty == "writes":
            return "W"
        if isinstance(ty, tuple):
            if ty[0] == "list":
                return "List " + wr_par(self.lty(ty[1]))
            if ty[0] in ("opt", "res"):
                return "Option " + wr_par(self.lty(ty[1]))
            if ty[0] == "tuple":
                return "(" + " × ".join(self.lty(x) for x in ty[1]) + ")"
            if ty[0] == "hdr":
                return f"FlacVerif.Gen.Headers.{ty[1]}"
            if ty[0] == "st":
                n = ty[1]
                if n in WR_MODEL:
                    if WR_MODEL[n]["kind"] in ("struct", "enum"):
                        return WR_MODEL[n]["lean"]
                    self.err(f"{n} has no Lean type of its own (it is a constructor of SubFrame in the model)")
                if n in WR_GENERATED:
                    return n
        self.err(f"no Lean type for {ty!r}")

    def default(self, ty):
        if wr_is_u(ty) or wr_is_s(ty):
            return "0"
        self.err(f"indexing a list of {ty!r}")

    def parse_gen_types(self):
        for n in WR_GENERATED:
            if n not in self.gen_raw:
                fail(f"datatype.rs: definition of {n} not found")
            kind, body = self.gen_raw[n]
            self.where = f"datatype.rs: {kind} {n}"
            self.owner = n
            if kind == "struct":
                self.gen[n] = ("struct", [(f, self.ty(t)) for f, t in body])
            else:
                vs = []
                for v, vk, payload in body:
                    if vk == "unit":
                        vs.append((v, vk, []))
                    elif vk == "tuple":
                        vs.append((v, vk, [(f"a{i}", self.ty(p)) for i, p in enumerate(payload)]))
                    else:
                        vs.append((v, vk, [(f, self.ty(t)) for f, t in payload]))
                self.gen[n] = ("enum", vs)
        self.owner = None

    # ---------------------------------------------------------------- struct values
    def self_value(self, owner):
        """-> (lean parameter list, WV of `self`)"""
        if owner in WR_MODEL:
            info = WR_MODEL[owner]
            if info["kind"] in ("struct", "enum"):
                return [f"(self : {info['lean']})"], WV("self", ("st", owner))
            if info["kind"] == "ctor":
                return [f"({f} : {t})" for f, t in info["fields"]], WV(None, ("st", owner), view={f: f for f, _ in info["fields"]})
            self.err(f"{owner}: functions of a sub-object view are not translated")
        if owner in self.gen:
            return [f"(self : {owner})"], WV("self", ("st", owner))
        self.err(f"{owner}: unknown component type")

    def call_args(self, v):
        """Lean argument text for passing the component value v to one of its translated functions"""
        n = v.ty[1]
        if n in WR_MODEL and WR_MODEL[n]["kind"] == "ctor":
            return " ".join(wr_par(v.view[f]) for f, _ in WR_MODEL[n]["fields"])
        return wr_par(v.lean)

    def dt_fn(self, T, m):
        dt = self.files["datatype.rs"]
        tab = dt.impls.get((None, T))
        if tab is None or m not in tab:
            self.err(f"datatype.rs: fn {T}::{m} not found")
        rec = tab[m]
        if rec["body"] is None:
            self.err(f"datatype.rs: fn {T}::{m} has no body")
        if any(a.startswith("#[cfg") for a in rec["attrs"]):
            self.err(f"datatype.rs: fn {T}::{m} is conditionally compiled")
        return dt, rec

    def accessor(self, r, m, args):
        T = r.ty[1]
        dt, rec = self.dt_fn(T, m)
        if args or rec["params"] not in ([["&", "self"]], [["self"]]):
            self.err(f"{T}::{m}: an accessor takes only `&self`")
        save = self.owner
        self.owner = T
        rty = self.ty(rec["ret"])
        self.owner = save
        if T in WR_MODEL:
            info = WR_MODEL[T]
            if m not in info.get("acc", {}):
                self.err(f"`{T}::{m}()` is not in the accessor table WR_MODEL")
            body, tmpl = info["acc"][m]
            if (T, m) not in self.checked_acc:
                lo, hi = rec["body"]
                if dt.toks[lo + 1:hi - 1] != hdr_lex(body, "WR_MODEL"):
                    self.err(f"datatype.rs: body of the accessor {T}::{m} is `{wr_body_text(dt, rec)}`, the accessor table "
                             f"was written for `{body}`")
                self.checked_acc.add((T, m))
            if tmpl.startswith("@"):
                P = tmpl[1:]
                if rty != ("st", P):
                    self.err(f"{T}::{m}: return type is not {P}")
                return WV(None, rty, r.ex, view={f: r.view[f] for f in WR_MODEL[P]["fields"]})
            lean = tmpl.format(self=r.lean) if info["kind"] == "struct" else tmpl.format(**{k: v for k, v in r.view.items()})
            if isinstance(rty, tuple) and rty[0] == "st" and rty[1] in WR_MODEL and WR_MODEL[rty[1]]["kind"] in ("ctor", "part"):
                self.err(f"{T}::{m}: returns a {rty[1]} that is not a sub-object view")
            # the Lean type of a plain field must be the image of the Rust return type
            fm = re.fullmatch(r"\{(\w+)\}", tmpl)
            if fm and info["kind"] == "ctor":
                decl = dict(info["fields"])[fm.group(1)]
                if decl != self.lty(rty):
                    self.err(f"{T}::{m}: Rust type {rty!r} does not correspond to the model field `{fm.group(1)} : {decl}`")
            return WV(lean, rty, r.ex)
        # generated type: the accessor must be trivial; the field is read from its body
        lo, hi = rec["body"]
        b = dt.toks[lo + 1:hi - 1]
        if b and b[0] == "&":
            b = b[1:]
        if len(b) == 7 and b[3:] == [".", "as_ref", "(", ")"]:
            b = b[:3]
        if not (len(b) == 3 and b[0] == "self" and b[1] == "."):
            self.err(f"datatype.rs: accessor {T}::{m} is not of the form `&self.field`: `{wr_body_text(dt, rec)}`")
        fty = self.field_ty(T, b[2])
        if fty != rty:
            self.err(f"datatype.rs: accessor {T}::{m}: declared type {rty!r}, field type {fty!r}")
        return WV(f"{r.lean}.{wr_mangle(b[2])}", fty, r.ex)

    def field_ty(self, T, f):
        if T not in self.gen or self.gen[T][0] != "struct":
            self.err(f"field access `.{f}` on {T}, whose fields are not known to the translator")
        for g, t in self.gen[T][1]:
            if g == f:
                return t
        self.err(f"{T} has no field `{f}`")

    # ---------------------------------------------------------------- calls of translated functions
    def call_fn(self, key, args_lean, args_ex):
        """-> (lean, ex, ret type) for a call of a translated (or deliberately untranslated) component function"""
        if key in self.fns:
            f = self.fns[key]
            extra = list(f["extra"])
            for x, t in f["extra_types"]:
                self.extra.setdefault(x, t)
            al = " ".join(extra + args_lean)
            lean = f"{f['lean']} {al}".strip()
            ex = wr_and(*args_ex, f"{f['lean']}_exact {al}".strip() if f["has_ex"] else None)
            return lean, ex, f["ret"]
        if key in WR_UNTRANSLATED:
            owner, name = key
            if owner is None:
                ptys, rty = self.free_sig(name)
                p = name
                dom = " → ".join(self.lty(t) for t in ptys)
            else:
                p = f"{owner}_{name}"
                rty = {"write": "writes", "count_bits": "usize"}[name]
                dom = self.lty(("st", owner))
            self.extra.setdefault(p, f"{dom} → {self.lty(rty)}")
            self.extra.setdefault(p + "_exact", f"{dom} → Bool")
            return f"{p} {' '.join(args_lean)}", wr_and(*args_ex, f"{p}_exact {' '.join(args_lean)}"), rty
        self.err(f"call of `{key[0] or ''}::{key[1]}`, which is not (yet) translated")

    def free_sig(self, name):
        """parameter and return types of a free function of bitrepr.rs, read from its signature"""
        rec = self.files["bitrepr.rs"].fns.get(name)
        if rec is None:
            self.err(f"bitrepr.rs: fn {name} not found")
        ptys = []
        for p in rec["params"]:
            if len(p) < 3 or p[1] != ":":
                self.err(f"fn {name}: parameter `{' '.join(p)}`")
            ptys.append(self.ty(p[2:]))
        return ptys, self.ty(rec["ret"])

    # ---------------------------------------------------------------- expressions
    def fits(self, v, ty, what):
        if wr_is_u(ty) and not (0 <= v < 2 ** HDR_BITS[ty]):
            self.err(f"{what}: literal {v} does not fit {ty}")
        if wr_is_s(ty) and not (-2 ** (WR_SBITS[ty] - 1) <= v < 2 ** (WR_SBITS[ty] - 1)):
            self.err(f"{what}: literal {v} does not fit {ty}")

    def as_bool(self, v):
        """Lean Bool text of a Rust bool value (kept as a decidable proposition)"""
        if v.ty != "bool":
            self.err("boolean expected")
        return f"decide {wr_par(v.lean)}"

    def tx(self, e, env, want=None):
        k = e[0]
        if k == "paren":
            return self.tx(e[1], env, want)
        if k == "int":
            v, suf = e[1], e[2]
            ty = suf if suf is not None else (want if (wr_is_u(want) or wr_is_s(want)) else None)
            if ty is not None:
                self.fits(v, ty, "literal")
            return WV(str(v), ty, None, v)
        if k == "boollit":
            return WV("True" if e[1] else "False", "bool")
        if k == "var":
            name = e[1]
            if name == "self" and "self" in env:
                x = env["self"]
                return WV(x.lean, x.ty, None, None, x.view)
            if name in env:
                x = env[name]
                if x is None:
                    self.err(f"`{name}` is used after the counting loop that advances it")
                lit = x.lit
                ty = x.ty
                if ty is None and x.view is None and (wr_is_u(want) or wr_is_s(want)):
                    # a local initialised with an untyped literal: Rust infers its type from its uses
                    if lit is not None:
                        self.fits(lit, want, f"`{name}`")
                    ty = want
                return WV(x.lean, ty, None, lit, x.view)
            if name in self.consts:
                v, ty = self.consts[name]
                if name not in self.used_consts:
                    self.used_consts.append(name)
                return WV(name, ty, None, v)
            self.err(f"unknown name `{name}`")
        if k == "path":
            segs = e[1]
            if len(segs) == 2 and segs[0] in HDR_BITS and segs[1] == "BITS":
                return WV(str(HDR_BITS[segs[0]]), "u32", None, HDR_BITS[segs[0]])
            self.err(f"path `{'::'.join(segs)}`")
        if k == "un":
            if e[1] in ("*", "&"):
                return self.tx(e[2], env, want)     # references are transparent
            if e[1] == "!":
                inner = self.tx(e[2], env)
                if inner.ty != "bool":
                    self.err("`!` on a non-boolean")
                return WV(f"(¬ {inner.lean})", "bool", inner.ex)
            if e[1] == "-":
                inner = self.tx(e[2], env, want)
                if inner.ty is None and inner.lit is not None:
                    return WV(f"(-{inner.lean})", None, inner.ex, -inner.lit)
                if not wr_is_s(inner.ty):
                    self.err("unary `-` on a value that is not a signed integer")
                w = WR_SBITS[inner.ty]
                return WV(f"(-{inner.lean})", inner.ty, wr_and(inner.ex, f"decide ({inner.lean} ≠ -{2 ** (w - 1)})"))
            self.err(f"unary `{e[1]}`")
        if k == "cast":
            return self.tx_cast(e, env)
        if k == "bin":
            return self.tx_bin(e, env, want)
        if k == "call":
            return self.tx_call(e, env, want)
        if k == "mcall":
            return self.tx_mcall(e, env, want)
        if k == "field":
            r = self.tx(e[1], env)
            if not (isinstance(r.ty, tuple) and r.ty[0] == "st"):
                self.err(f"field access `.{e[2]}` on {r.ty!r}")
            fty = self.field_ty(r.ty[1], e[2])
            return WV(f"{r.lean}.{wr_mangle(e[2])}", fty, r.ex)
        if k == "index":
            r = self.tx(e[1], env)
            i = self.tx(e[2], env, "usize")
            if not (isinstance(r.ty, tuple) and r.ty[0] == "list"):
                self.err(f"indexing a value of type {r.ty!r}")
            if i.ty is None and i.lit is not None:
                self.fits(i.lit, "usize", "index")
            elif i.ty not in ("usize", None):
                self.err(f"index of type {i.ty!r}")
            return WV(f"({r.lean}.getD {wr_par(i.lean)} {self.default(r.ty[1])})", r.ty[1],
                      wr_and(r.ex, i.ex, f"decide ({i.lean} < {r.lean}.length)"))
        if k == "tuple":
            wants = want[1] if isinstance(want, tuple) and want[0] == "tuple" and len(want[1]) == len(e[1]) else [None] * len(e[1])
            xs = [self.tx(a, env, w) for a, w in zip(e[1], wants)]
            return WV("(" + ", ".join(x.lean for x in xs) + ")", ("tuple", tuple(x.ty for x in xs)), wr_and(*[x.ex for x in xs]),
                      tuple(x.lit for x in xs))
        if k == "array":
            xs = [self.tx(a, env, "u8" if want == ("list", "u8") else None) for a in e[1]]
            tys = {x.ty for x in xs if x.ty is not None}
            if len(tys) > 1:
                self.err("array literal with elements of different types")
            ety = tys.pop() if tys else None
            for x in xs:
                if x.ty is None:
                    if x.lit is None:
                        self.err("array literal: untyped element")
                    if ety is not None:
                        self.fits(x.lit, ety, "array literal")
            return WV("[" + ", ".join(x.lean for x in xs) + "]", ("list", ety), wr_and(*[x.ex for x in xs]),
                      tuple(x.lit for x in xs))
        if k == "if":
            return self.tx_if(e, env, want)
        if k == "match":
            return self.tx_match(e, env, want)
        if k == "block":
            return self.tx_block(e, env, want)
        if k == "try":
            self.err("`?` in an unsupported position")
        if k in ("macro", "reuse", "tryrepeat", "assert"):
            self.err(f"macro `{e[1] if k == 'macro' else k}` in an unsupported position")
        self.err(f"expression kind `{k}`")

    def tx_block(self, e, env, want):
        if not e[1]:
            if e[2] is None:
                self.err("empty block used as a value")
            return self.tx(e[2], env, want)
        kv, ke = WrK("P", "V", want=want), WrK("P", "E", want=want)
        v = self.walk(e[1], 0, e[2], dict(env), kv)
        x = self.walk(e[1], 0, e[2], dict(env), ke)
        return WV(wr_par(v), kv.result_ty, None if x == "true" else wr_par(x))

    def tx_if(self, e, env, want):
        rows = []
        ty = "any"
        cur = e
        while True:
            c = self.tx(cur[1], env)
            if c.ty != "bool":
                self.err("`if` condition is not a boolean")
            if c.ex is not None:
                self.err("`if` condition with arithmetic that may overflow")
            v = self.tx(cur[2], env, want)
            rows.append((c.lean, v))
            if cur[3] is None:
                self.err("`if` without `else` used as a value")
            if cur[3][0] == "if":
                cur = cur[3]
                continue
            if cur[3][0] != "block":
                self.err("`else` branch")
            rows.append((None, self.tx(cur[3], env, want)))
            break
        ty = self.unify_all([v.ty for _, v in rows], [v.lit for _, v in rows], "if")
        lean = " else ".join((f"if {c} then {wr_par(v.lean)}" if c is not None else wr_par(v.lean)) for c, v in rows)
        ex = None
        if any(v.ex is not None for _, v in rows):
            ex = "(" + " else ".join((f"if {c} then {v.ex or 'true'}" if c is not None else (v.ex or "true")) for c, v in rows) + ")"
        return WV(f"({lean})", ty, ex)

    def unify_all(self, tys, lits, what):
        known = [t for t in tys if t is not None]
        if not known:
            return None
        t0 = known[0]
        if isinstance(t0, tuple) and t0[0] == "tuple":
            if any(not (isinstance(t, tuple) and t[0] == "tuple" and len(t[1]) == len(t0[1])) for t in known):
                self.err(f"{what}: branches of different types")
            comps = []
            for j in range(len(t0[1])):
                comps.append(self.unify_all([t[1][j] for t in known], [(l[j] if isinstance(l, tuple) else None) for l, t in zip(lits, tys) if t is not None], what))
            return ("tuple", tuple(comps))
        for t, l in zip(tys, lits):
            if t is None:
                if l is None or isinstance(l, tuple):
                    self.err(f"{what}: branch of unknown type")
                self.fits(l, t0, what)
            elif t != t0:
                self.err(f"{what}: branches of different types {t0!r} / {t!r}")
        return t0

    def tx_cast(self, e, env):
        inner = self.tx(e[1], env)
        T = e[2]
        w = HDR_BITS[T]     # the parser only accepts casts to unsigned types
        if inner.ty is None:
            if inner.lit is None:
                self.err("cast of an expression of unknown integer type")
            self.fits(inner.lit, T, "cast")
            return WV(inner.lean, T, inner.ex, inner.lit)
        if wr_is_u(inner.ty):
            if HDR_BITS[inner.ty] > w:
                return WV(f"({inner.lean} % {2 ** w})", T, inner.ex)     # `as` truncates silently
            return WV(inner.lean, T, inner.ex, inner.lit)
        if wr_is_s(inner.ty):
            return WV(f"(({inner.lean} % {2 ** w}).toNat)", T, inner.ex)   # two's complement reinterpretation
        if inner.ty == "bool":
            return WV(f"(if {inner.lean} then 1 else 0)", T, inner.ex)
        self.err(f"cast from {inner.ty!r}")

    def tx_bin(self, e, env, want):
        op = e[1]
        if op in ("&&", "||"):
            l, r = self.tx(e[2], env), self.tx(e[3], env)
            if l.ty != "bool" or r.ty != "bool":
                self.err(f"`{op}` on non-booleans")
            if r.ex is not None:
                self.err(f"arithmetic that may overflow on the right of `{op}`")
            return WV(f"({l.lean} {'∧' if op == '&&' else '∨'} {r.lean})", "bool", l.ex)
        cmp_ = op in ("==", "!=", "<", ">", "<=", ">=")
        shift = op in ("<<", ">>")
        l = self.tx(e[2], env, None if cmp_ else want)
        lw = l.ty if (wr_is_u(l.ty) or wr_is_s(l.ty)) else None
        r = self.tx(e[3], env, None if shift else (lw or (None if cmp_ else want)))
        if l.ty is None and (wr_is_u(r.ty) or wr_is_s(r.ty)) and not shift:
            l = self.tx(e[2], env, r.ty)
        if cmp_ and op in ("==", "!=") and l.ty == "bool" and r.ty == "bool":
            return WV(f"({l.lean} {'↔' if op == '==' else '≠'} {r.lean})", "bool", wr_and(l.ex, r.ex))
        for z in (l, r):
            if not (z.ty is None or wr_is_u(z.ty) or wr_is_s(z.ty)):
                self.err(f"operand of `{op}` is not an integer ({z.ty!r})")
        if shift:
            ty = l.ty if l.ty is not None else (want if (wr_is_u(want) or wr_is_s(want)) else None)
            if r.ty is None and r.lit is None:
                self.err("shift amount of unknown type")
            if wr_is_s(r.ty):
                self.err("signed shift amount")
        else:
            if l.ty is None and r.ty is None:
                ty = None if cmp_ else (want if (wr_is_u(want) or wr_is_s(want)) else None)
            elif l.ty is None:
                ty = r.ty
            elif r.ty is None:
                ty = l.ty
            elif l.ty != r.ty:
                self.err(f"`{op}` on different integer types {l.ty} / {r.ty}")
            else:
                ty = l.ty
            for z in (l, r):
                if z.ty is None and ty is not None and z.lit is not None:
                    self.fits(z.lit, ty, f"operand of `{op}`")
        ex = wr_and(l.ex, r.ex)
        if cmp_:
            sym = {"==": "=", "!=": "≠", "<": "<", ">": ">", "<=": "≤", ">=": "≥"}[op]
            if (wr_is_s(l.ty) or wr_is_s(r.ty)):
                return WV(f"(({l.lean} : Int) {sym} {r.lean})", "bool", ex)
            return WV(f"({l.lean} {sym} {r.lean})", "bool", ex)
        if ty is None:
            if l.lit is not None and r.lit is not None and op in ("+", "-", "*"):
                v = {"+": l.lit + r.lit, "-": l.lit - r.lit, "*": l.lit * r.lit}[op]
                return WV(f"({l.lean} {op} {r.lean})", None, ex, v)
            self.err(f"cannot infer the integer type of `{l.lean} {op} {r.lean}`")
        w = wr_bits(ty)
        if l.ty is None and l.lit is not None:
            self.fits(l.lit, ty, f"operand of `{op}`")
        if wr_is_s(ty):
            lo, hi = f"-{2 ** (w - 1)}", f"{2 ** (w - 1)}"
            rng = lambda t: f"decide (({lo} : Int) ≤ {t} ∧ {t} < ({hi} : Int))"
            if op in ("+", "-", "*"):
                t = f"(({l.lean} : Int) {op} {r.lean})"
                return WV(t, ty, wr_and(ex, rng(t)))
            if op == "<<":
                # bits shifted out are lost silently; only a shift amount >= the width panics
                return WV(f"(Int.bmod (({l.lean} : Int) * 2 ^ {wr_par(r.lean)}) {2 ** w})", ty, wr_and(ex, f"decide ({r.lean} < {w})"))
            self.err(f"operator `{op}` on signed integers")
        if op == "+":
            return WV(f"({l.lean} + {r.lean})", ty, wr_and(ex, f"decide ({l.lean} + {r.lean} < {2 ** w})"))
        if op == "-":
            return WV(f"({l.lean} - {r.lean})", ty, wr_and(ex, f"decide ({r.lean} ≤ {l.lean})"))
        if op == "*":
            return WV(f"({l.lean} * {r.lean})", ty, wr_and(ex, f"decide ({l.lean} * {r.lean} < {2 ** w})"))
        if op in ("/", "%"):
            if r.lit is not None:
                if r.lit == 0:
                    self.err("division by the literal 0")
                c = None
            else:
                c = f"decide ({r.lean} ≠ 0)"
            return WV(f"({l.lean} {op} {r.lean})", ty, wr_and(ex, c))
        if op == "<<":
            # Rust: bits shifted out are lost silently (no panic); a shift amount >= the width panics
            c = None if (r.lit is not None and r.lit < w) else f"decide ({r.lean} < {w})"
            return WV(f"(({l.lean} <<< {r.lean}) % {2 ** w})", ty, wr_and(ex, c))
        if op == ">>":
            c = None if (r.lit is not None and r.lit < w) else f"decide ({r.lean} < {w})"
            return WV(f"({l.lean} >>> {r.lean})", ty, wr_and(ex, c))
        if op in ("|", "&", "^"):
            sym = {"|": "|||", "&": "&&&", "^": "^^^"}[op]
            return WV(f"({l.lean} {sym} {r.lean})", ty, ex)
        self.err(f"operator `{op}`")

    def typed_args(self, args, ptys, env, what):
        if len(args) != len(ptys):
            self.err(f"{what}: arity")
        outs = []
        for a, pt in zip(args, ptys):
            if a[0] == "mcall" and a[2] == "into" and not a[3] and wr_is_u(pt):
                x = self.tx(a[1], env)      # lossless widening `From`
                if not wr_is_u(x.ty) or HDR_BITS[x.ty] > HDR_BITS[pt]:
                    self.err(f"{what}: `.into()` from {x.ty!r} to {pt}")
                x = WV(x.lean, pt, x.ex, x.lit)
            else:
                x = self.tx(a, env, pt)
            if x.ty is None and x.lit is not None and not isinstance(x.lit, tuple):
                self.fits(x.lit, pt, what)
            elif x.ty != pt:
                self.err(f"{what}: argument of type {x.ty!r}, parameter is {pt!r}")
            outs.append(x)
        return outs

    def tx_call(self, e, env, want):
        callee, args = e[1], e[2]
        if callee[0] == "var" and callee[1] in ("max", "min") and len(args) == 2 and callee[1] in self.use_max \
                and callee[1] not in env:
            a = self.tx(args[0], env, want)
            b = self.tx(args[1], env, a.ty if a.ty is not None else want)
            if a.ty is None and b.ty is not None:
                a = self.tx(args[0], env, b.ty)
            if a.ty != b.ty or not wr_is_u(a.ty):
                self.err(f"{callee[1]}: arguments of types {a.ty!r} / {b.ty!r}")
            return WV(f"(Nat.{callee[1]} {wr_par(a.lean)} {wr_par(b.lean)})", a.ty, wr_and(a.ex, b.ex))
        key = None
        if callee[0] == "var" and (None, callee[1]) in self.fns:
            key = (None, callee[1])
        elif callee[0] == "path" and len(callee[1]) == 2:
            o = self.owner if callee[1][0] == "Self" else callee[1][0]
            if (o, callee[1][1]) in self.fns:
                key = (o, callee[1][1])
        if key is not None:
            f = self.fns[key]
            if f["self_kind"] is not None:
                self.err(f"`{'::'.join(callee[1])}` called as a plain function but takes `self`")
            outs = self.typed_args(args, f["ptys"], env, f["lean"])
            lean, ex, rty = self.call_fn(key, [wr_par(x.lean) for x in outs], [x.ex for x in outs])
            return WV(f"({lean})", rty, ex)
        if callee[0] == "var" and (None, callee[1]) in WR_UNTRANSLATED and callee[1] not in env:
            ptys, rty = self.free_sig(callee[1])
            outs = self.typed_args(args, ptys, env, callee[1])
            lean, ex, rty = self.call_fn((None, callee[1]), [wr_par(x.lean) for x in outs], [x.ex for x in outs])
            return WV(f"({lean})", rty, ex)
        if callee[0] == "path" and len(callee[1]) == 2 and callee[1][0] in HDR_BITS and callee[1][1] == "from" and len(args) == 1:
            a = self.tx(args[0], env)
            T = callee[1][0]
            if a.ty == "bool":
                return WV(f"(if {a.lean} then 1 else 0)", T, a.ex)
            if wr_is_u(a.ty) and HDR_BITS[a.ty] <= HDR_BITS[T]:
                return WV(a.lean, T, a.ex, a.lit)
            self.err(f"{T}::from of {a.ty!r}")
        nm = "::".join(callee[1]) if callee[0] == "path" else callee[1] if callee[0] == "var" else callee[0]
        self.err(f"call of `{nm}`")

    def tx_mcall(self, e, env, want):
        recv, name, args = e[1], e[2], e[3]
        gen = e[4] if len(e) > 4 else None
        if gen is not None:
            self.err(f"generic arguments on `.{name}`")
        # `.iter().map(Trait::f).sum()`
        if name == "sum" and not args and recv[0] == "mcall" and recv[2] == "map" and len(recv[3]) == 1 \
                and recv[1][0] == "mcall" and recv[1][2] == "iter" and not recv[1][3]:
            xs = self.tx(recv[1][1], env)
            f = recv[3][0]
            if not (isinstance(xs.ty, tuple) and xs.ty[0] == "list" and isinstance(xs.ty[1], tuple) and xs.ty[1][0] == "st"):
                self.err(".iter().map(..).sum() on something that is not a list of components")
            if not (f[0] == "path" and len(f[1]) == 2 and f[1][0] == "BitRepr" and (xs.ty[1][1], f[1][1]) in self.fns):
                self.err(".map with something other than a translated `BitRepr::` function")
            cal = self.fns[(xs.ty[1][1], f[1][1])]
            if cal["extra"] or not wr_is_u(cal["ret"]) or cal["self_kind"] == "ctor":
                self.err(".map(..).sum(): callee")
            if want is None:
                self.err(".sum() whose result type is not annotated")
            if want != cal["ret"]:
                self.err(f".sum() of {cal['ret']} into {want!r}")
            lean = f"(({xs.lean}.map {cal['lean']}).foldl (· + ·) 0)"
            ex = wr_and(xs.ex, f"{xs.lean}.all {cal['lean']}_exact" if cal["has_ex"] else None,
                        f"decide ({lean} < {2 ** HDR_BITS[want]})")
            return WV(lean, want, ex)
        if name == "checksum" and len(args) == 1 and recv[0] == "var" and recv[1] not in env and recv[1] in self.statics:
            w = self.statics[recv[1]]
            a = self.tx(args[0], env)
            if a.ty != ("list", "u8"):
                self.err(f"{recv[1]}.checksum of a {a.ty!r}")
            p_ = f"{recv[1]}_checksum"
            self.extra.setdefault(p_, "List Nat → Nat")
            return WV(f"({p_} {wr_par(a.lean)})", w, a.ex)
        r = self.tx(recv, env)
        if r.ty == "scratch":
            if name == "as_slice" and not args and self.scratch_ty == "MemSink<u8>":
                self.extra.setdefault("ByteSink_as_slice", "List Op → List Nat")
                return WV(f"(ByteSink_as_slice {r.lean})", ("list", "u8"))
            if name == "len" and not args:
                self.extra.setdefault("MemSink_len", "List Op → Nat")
                return WV(f"(MemSink_len {r.lean})", "usize")
            self.err(f"`.{name}(..)` on the scratch sink after it was filled")
        if isinstance(r.ty, tuple) and r.ty[0] == "st":
            T = r.ty[1]
            if (T, name) in self.fns or (T, name) in WR_UNTRANSLATED:
                f = self.fns.get((T, name))
                if f is not None and f["ret"] == "writes":
                    self.err(f"`{T}::{name}` writes to a sink: not a value")
                if (T, name) in WR_UNTRANSLATED and name == "write":
                    self.err(f"`{T}::{name}` writes to a sink: not a value")
                outs = self.typed_args(args, f["ptys"] if f else [], env, f"{T}::{name}")
                lean, ex, rty = self.call_fn((T, name), [self.call_args(r)] + [wr_par(x.lean) for x in outs], [r.ex] + [x.ex for x in outs])
                return WV(f"({lean})", rty, ex)
            return self.accessor(r, name, args)
        if isinstance(r.ty, tuple) and r.ty[0] == "hdr":
            ln = f"{r.ty[1]}.{name}"
            if ln not in self.hdr:
                self.err(f"`{r.ty[1]}::{name}` is not among the functions translated by part `headers`")
            ptys, rty, has_ex = self.hdr[ln]
            if rty == "writes":
                self.err(f"`{r.ty[1]}::{name}` writes to a sink: not a value")
            if isinstance(rty, tuple):
                self.err(f"`{r.ty[1]}::{name}`: return type {rty!r}")
            outs = self.typed_args(args, ptys, env, ln)
            al = " ".join([wr_par(r.lean)] + [wr_par(x.lean) for x in outs])
            return WV(f"(FlacVerif.Gen.Headers.{ln} {al})", rty,
                      wr_and(r.ex, *[x.ex for x in outs], f"FlacVerif.Gen.Headers.{ln}_exact {al}" if has_ex else None))
        if isinstance(r.ty, tuple) and r.ty[0] == "list":
            if name == "len" and not args:
                return WV(f"{wr_par(r.lean)}.length", "usize", r.ex)
            if name in ("iter", "as_slice", "to_vec", "clone") and not args:
                return r
        if isinstance(r.ty, tuple) and r.ty[0] == "opt":
            if name == "as_ref" and not args:
                return r
            if name == "map_or_else" and len(args) == 2 and args[0][0] == "closure" and args[1][0] == "closure" \
                    and len(args[0][1]) == 0 and len(args[1][1]) == 1:
                a = self.tx(args[0][2], env, want)
                b_name = args[1][1][0]
                b_name = b_name[0] if isinstance(b_name, tuple) else b_name
                env2 = dict(env)
                env2[b_name] = WrVar(wr_mangle(b_name), r.ty[1])
                b = self.tx(args[1][2], env2, want if want is not None else a.ty)
                ty = self.unify_all([a.ty, b.ty], [a.lit, b.lit], "map_or_else")
                lean = f"(match {r.lean} with\n  | none => {wr_ind(a.lean, 4).lstrip()}\n  | some {wr_mangle(b_name)} => {wr_ind(b.lean, 4).lstrip()})"
                ex = None
                if a.ex is not None or b.ex is not None:
                    ex = f"(match {r.lean} with\n  | none => {wr_ind(a.ex or 'true', 4).lstrip()}\n  | some {wr_mangle(b_name)} => {wr_ind(b.ex or 'true', 4).lstrip()})"
                return WV(lean, ty, wr_and(r.ex, ex))
        if wr_is_u(r.ty) and name == "leading_zeros" and not args:
            return WV(f"(FlacVerif.Gen.Headers.leadingZeros {HDR_BITS[r.ty]} {wr_par(r.lean)})", "u32", r.ex)
        self.err(f"method `.{name}(..)` on a value of type {r.ty!r}")

    # ---------------------------------------------------------------- patterns on component enums
    def enum_arms(self, scrut, arms, env):
        """-> [(lean pattern, env of the arm, body)] for a match on a model / generated enum; arms stay in source order"""
        s = scrut
        while s[0] == "paren" or (s[0] == "un" and s[1] in ("*", "&")):
            s = s[1] if s[0] == "paren" else s[2]
        if s[0] != "var":
            self.err("match scrutinee is not a variable")
        sv = self.tx(s, env)
        if not (isinstance(sv.ty, tuple) and sv.ty[0] == "st"):
            self.err(f"match on a value of type {sv.ty!r}")
        T = sv.ty[1]
        out = []
        seen = set()
        total = False
        if T in WR_MODEL and WR_MODEL[T]["kind"] == "enum":
            variants = WR_MODEL[T]["variants"]
            raw = self.gen_raw.get(T)
            if raw is None or raw[0] != "enum":
                self.err(f"datatype.rs: enum {T} not found")
            declared = {v: (vk, payload) for v, vk, payload in raw[1]}
            if set(declared) != set(variants):
                self.err(f"datatype.rs: enum {T} has the variants {sorted(declared)}, the model view knows {sorted(variants)}")
            for v, (vk, payload) in declared.items():
                if vk != "tuple" or len(payload) != 1 or "".join(payload[0]) != variants[v]:
                    self.err(f"datatype.rs: variant {T}::{v} does not hold exactly one {variants[v]}")
        elif T in self.gen and self.gen[T][0] == "enum":
            variants = {v: (vk, fields) for v, vk, fields in self.gen[T][1]}
        else:
            self.err(f"match on {T}, which is not an enum known to the translator")
        for alts, guard, body in arms:
            if guard is not None:
                self.err("guard in a match on a component enum")
            if len(alts) != 1:
                self.err("or-pattern in a match on a component enum")
            if total:
                self.err("match arm after a wildcard arm")
            a = alts[0]
            env2 = dict(env)
            if a[0] == "wild":
                out.append(("_", env2, body))
                total = True
                continue
            if a[0] not in ("variant", "svariant"):
                self.err("pattern in a match on a component enum is neither a variant nor `_`")
            segs = a[1]
            if len(segs) != 2 or (segs[0] != "Self" and segs[0] != T) or (segs[0] == "Self" and self.owner != T):
                self.err(f"pattern `{'::'.join(segs)}` in a match on {T}")
            v = segs[1]
            if v not in variants:
                self.err(f"{T} has no variant {v}")
            if v in seen:
                self.err(f"variant {v} matched twice")
            seen.add(v)
            if T in WR_MODEL:
                C = variants[v]
                info = WR_MODEL[C]
                if a[0] != "variant" or len(a[2]) != 1:
                    self.err(f"pattern of {T}::{v}")
                binders = [f for f, _ in info["fields"]]
                if a[2][0][0] == "bind":
                    env2[a[2][0][1]] = WrVar(None, ("st", C), view={f: f for f in binders})
                    for f in binders:
                        env2.pop(f, None)
                out.append((f".{info['ctor']} " + " ".join(binders), env2, body))
            else:
                vk, fields = variants[v]
                pats = ["_"] * len(fields)
                if a[0] == "variant":
                    if vk == "struct" or len(a[2]) != len(fields):
                        self.err(f"pattern of {T}::{v}")
                    for j, sp in enumerate(a[2]):
                        if sp[0] == "bind":
                            pats[j] = wr_mangle(sp[1])
                            env2[sp[1]] = WrVar(pats[j], fields[j][1])
                else:
                    if vk != "struct":
                        self.err(f"struct pattern on the tuple variant {T}::{v}")
                    names = [f for f, _ in fields]
                    for f, b in a[2]:
                        if f not in names:
                            self.err(f"{T}::{v} has no field {f}")
                        if b != "_":
                            pats[names.index(f)] = wr_mangle(b)
                            env2[b] = WrVar(wr_mangle(b), fields[names.index(f)][1])
                    if not a[3] and len(a[2]) != len(fields):
                        self.err(f"pattern of {T}::{v} does not mention all fields")
                out.append((f".{v} " + " ".join(pats), env2, body))
        if not total and seen != set(variants):
            self.err(f"match on {T} does not cover {sorted(set(variants) - seen)}")
        return sv, out

    def tx_match(self, e, env, want):
        sv, arms = self.enum_arms(e[1], e[2], env)
        rows = []
        for pat, env2, body in arms:
            rows.append((pat, self.tx(body, env2, want)))
        ty = self.unify_all([v.ty for _, v in rows], [v.lit for _, v in rows], "match")
        lean = f"(match {sv.lean} with\n" + "\n".join(f"  | {p.strip()} => {wr_ind(v.lean, 4).lstrip()}" for p, v in rows) + ")"
        ex = None
        if any(v.ex is not None for _, v in rows):
            ex = f"(match {sv.lean} with\n" + "\n".join(f"  | {p.strip()} => {wr_ind(v.ex or 'true', 4).lstrip()}" for p, v in rows) + ")"
        return WV(lean, ty, ex)

    # ---------------------------------------------------------------- statements
    def assigned(self, node, local):
        """names assigned inside `node` that are not declared inside it (in order of first assignment)"""
        out = []

        def add(n):
            if n not in local and n not in out:
                out.append(n)

        def blk(b, loc):
            loc = set(loc)
            for st in b[1]:
                stmt(st, loc)
            if b[2] is not None:
                stmt(b[2], loc)

        def stmt(st, loc):
            k = st[0]
            if k == "let":
                expr(st[3], loc)
                pat = st[1]
                if pat[0] == "bind":
                    loc.add(pat[1])
                else:
                    for n, _ in pat[1]:
                        loc.add(n)
            elif k == "assign":
                t = st[2]
                while t[0] in ("paren",) or (t[0] == "un" and t[1] == "*"):
                    t = t[1] if t[0] == "paren" else t[2]
                if t[0] != "var":
                    self.err("assignment to something other than a local variable")
                if t[1] not in loc:
                    add(t[1])
                expr(st[3], loc)
            else:
                expr(st, loc)

        def expr(e, loc):
            if not isinstance(e, tuple) or not e:
                if isinstance(e, list):
                    for x in e:
                        expr(x, loc)
                return
            k = e[0]
            if k == "block":
                blk(e, loc)
            elif k == "for":
                expr(e[2], loc)
                blk(e[3], set(loc) | {e[1]})
            elif k == "while":
                expr(e[1], loc)
                blk(e[2], loc)
            elif k == "tryrepeat":
                expr(e[3], set(loc) | {e[1]})
                blk(e[4], set(loc) | {e[1]})
            elif k == "closure":
                ps = {(p[0] if isinstance(p, tuple) else p) for p in e[1]}
                expr(e[2], set(loc) | ps)
            elif k == "match":
                expr(e[1], loc)
                for alts, guard, body in e[2]:
                    expr(body, set(loc))
            elif k in ("reuse", "macro"):
                self.err(f"macro `{e[1] if k == 'macro' else 'reuse'}` inside a loop or branch")
            elif k in ("let", "assign"):
                stmt(e, loc)
            else:
                for x in e[1:]:
                    if isinstance(x, (tuple, list)):
                        expr(x, loc)

        expr(node, set(local))
        return out

    def early_return(self, st):
        """`if c { return Err(..); }` -> c, else None"""
        if st[0] == "if" and st[3] is None and st[2][0] == "block":
            b = st[2]
            r = None
            if len(b[1]) == 1 and b[2] is None:
                r = b[1][0]
            elif not b[1] and b[2] is not None:
                r = b[2]
            if r is not None and r[0] == "return" and r[1] is not None:
                v = r[1]
                while v[0] == "paren":
                    v = v[1]
                if v[0] == "call" and v[1] == ("var", "Err") and len(v[2]) == 1:
                    return st[1]
                self.err("early return of something other than Err(..)")
        return None

    def strip_conv(self, e):
        """drop the error-type conversions `.map_err(OutputError::<S>::from_sink)` / `.map_err(OutputError::<S>::ignore_sink_error)`:
        ONLY these two paths (any other conversion function could swallow or replace the sink's error), and only while their
        bodies in src/error.rs are the ones this reading was written for (`wr_check_conv_fns`)"""
        while e[0] == "mcall" and e[2] == "map_err" and len(e[3]) == 1 and e[3][0][0] == "path":
            segs = [x for x in e[3][0][1] if isinstance(x, str)]
            if not segs or segs[0] != "OutputError" or segs[-1] not in WR_CONV_FNS:
                self.err("`.map_err(" + "::".join(str(x) for x in e[3][0][1]) + ")`: only OutputError::<S>::from_sink / ignore_sink_error are read as plain error-type conversions")
            wr_check_conv_fns()
            e = e[1]
        return e

    def sink_op(self, e, env, sink):
        """`dest.<op>(args)` -> (Op text, exactness) or None"""
        if not (e[0] == "mcall" and e[1] == ("var", sink) and e[2] in WR_SINK_OPS):
            return None
        ctor, shape = WR_SINK_OPS[e[2]]
        args = e[3]
        gen = e[4] if len(e) > 4 else None
        if len(args) != len(shape):
            self.err(f"{sink}.{e[2]}: {len(args)} arguments")
        parts = []
        exs = []
        width = None
        for a, sh in zip(args, shape):
            if sh == "wv":
                v = self.tx(a, env)
                if not wr_is_u(v.ty) or v.ty == "usize":
                    self.err(f"{sink}.{e[2]}: value of type {v.ty!r} (an unsigned integer type of known width is needed)")
                width = HDR_BITS[v.ty]
                if gen is not None and "".join(gen) != v.ty:
                    self.err(f"{sink}.{e[2]}::<{''.join(gen)}> applied to a {v.ty}")
                parts += [str(width), wr_par(v.lean)]
                exs.append(v.ex)
            elif sh == "sv":
                v = self.tx(a, env)
                if not wr_is_s(v.ty):
                    self.err(f"{sink}.{e[2]}: value of type {v.ty!r} (a signed integer is needed)")
                parts.append(wr_par(v.lean))
                exs.append(v.ex)
            elif sh == "n":
                n = self.tx(a, env, "usize")
                if n.ty is None and n.lit is not None:
                    self.fits(n.lit, "usize", e[2])
                elif n.ty != "usize":
                    self.err(f"{sink}.{e[2]}: bit count of type {n.ty!r}")
                parts.append(wr_par(n.lean))
                exs.append(n.ex)
                if width is not None and not (n.lit is not None and n.lit <= width):
                    exs.append(f"decide ({n.lean} ≤ {width})")
            elif sh == "bytes":
                v = self.tx(a, env, ("list", "u8"))
                if v.ty == ("list", None) and all(isinstance(x, int) for x in (v.lit or [None])):
                    for x in v.lit:
                        self.fits(x, "u8", "byte literal")
                elif v.ty != ("list", "u8"):
                    self.err(f"{sink}.{e[2]}: argument of type {v.ty!r}")
                parts.append(wr_par(v.lean))
                exs.append(v.ex)
        if gen is not None and "wv" not in shape:
            self.err(f"generic arguments on {sink}.{e[2]}")
        return (ctor + " " + " ".join(parts)).strip(), wr_and(*exs)

    def comp_write(self, e, env, sink):
        """`<component>.write(dest)` -> (lean, ex) or None"""
        if not (e[0] == "mcall" and e[2] == "write" and len(e[3]) == 1 and e[3][0] == ("var", sink)):
            return None
        if e[1] == ("var", sink):
            return None
        r = self.tx(e[1], env)
        if isinstance(r.ty, tuple) and r.ty[0] == "hdr":
            return self.hdr_write(r, "write", sink)
        if isinstance(r.ty, tuple) and r.ty[0] == "st":
            lean, ex, rty = self.call_fn((r.ty[1], "write"), [self.call_args(r)], [r.ex])
            if rty != "writes":
                self.err(f"{r.ty[1]}::write does not return Result<(), _>")
            return lean, ex
        self.err(f"`.write({sink})` on a value of type {r.ty!r}")

    def hdr_write(self, r, name, sink):
        ln = f"{r.ty[1]}.{name}"
        if ln not in self.hdr or self.hdr[ln][1] != "writes" or self.hdr[ln][0]:
            self.err(f"`{r.ty[1]}::{name}({sink})` is not a writer function translated by part `headers`")
        if self.scratch != sink:
            self.err(f"`{r.ty[1]}::{name}` writing to the caller's sink (part `headers` does not record operand widths)")
        fq = f"FlacVerif.Gen.Headers.{ln}"
        return f"hdrOps ({fq} {wr_par(r.lean)})", wr_and(r.ex, f"{fq}_exact {wr_par(r.lean)}" if self.hdr[ln][2] else None)

    def bind(self, env, name, v, mut=False):
        env[name] = WrVar(wr_mangle(name), v.ty, v.lit if not isinstance(v.lit, tuple) else None, v.view, mut)

    def walk(self, stmts, i, tail, env, K):
        if i == len(stmts):
            return self.finish(tail, env, K)
        st = stmts[i]
        k = st[0]

        def rest(env2=env):
            return self.walk(stmts, i + 1, tail, env2, K)

        if k == "let":
            pat, tytoks, init = st[1], st[2], st[3]
            want = self.ty(tytoks) if tytoks is not None else None
            if init[0] == "try":
                # `let x = f(..)?;` with f returning Result<T, RangeError>: `none` propagates
                if K.kind != "W" or pat[0] != "bind":
                    self.err("`let .. = ..?;` outside a function that writes to a sink")
                v = self.tx(init[1], env)
                if not (isinstance(v.ty, tuple) and v.ty[0] == "res"):
                    self.err("`?` on something that is not a Result<T, _> function call")
                if want is not None and want != v.ty[1]:
                    self.err(f"`let` declares {want!r}, initialiser has type {v.ty[1]!r}")
                env2 = dict(env)
                env2[pat[1]] = WrVar(wr_mangle(pat[1]), v.ty[1], None, None, pat[2])
                r_ = rest(env2)
                if K.mode == "E":
                    if r_ == "true":
                        return K.cond(v.ex, "true")
                    return K.cond(v.ex, f"bindOE {wr_par(v.lean)} fun {wr_mangle(pat[1])} =>\n{r_}")
                return f"bindO {wr_par(v.lean)} fun {wr_mangle(pat[1])} =>\n{r_}"
            v = self.tx(init, env, want)
            if want is not None:
                if v.ty is None and v.lit is not None and not isinstance(v.lit, tuple):
                    self.fits(v.lit, want, "let")
                    v.ty = want
                elif v.ty != want:
                    self.err(f"`let` declares {want!r}, initialiser has type {v.ty!r}")
            env2 = dict(env)
            if pat[0] == "bind":
                if v.lean is None:      # a component view: an alias, no Lean binding
                    self.bind(env2, pat[1], v, pat[2])
                    env2[pat[1]].lean = None
                    return K.cond(v.ex, rest(env2))
                self.bind(env2, pat[1], v, pat[2])
                names = [wr_mangle(pat[1])]
                lp = names[0]
            else:
                if not (isinstance(v.ty, tuple) and v.ty[0] == "tuple" and len(v.ty[1]) == len(pat[1])):
                    self.err("tuple pattern on a value that is not a tuple of that size")
                names = []
                for (n, m), t in zip(pat[1], v.ty[1]):
                    env2[n] = WrVar(wr_mangle(n), t, None, None, m)
                    names.append(wr_mangle(n))
                lp = "(" + ", ".join(names) + ")"
            return K.cond(v.ex, K.let(lp, v.lean, rest(env2), names))
        if k == "assign":
            op, lhs, rhs = st[1], st[2], st[3]
            t = lhs
            while t[0] == "paren" or (t[0] == "un" and t[1] == "*"):
                t = t[1] if t[0] == "paren" else t[2]
            if t[0] != "var" or t[1] not in env or env[t[1]] is None or not env[t[1]].mut:
                self.err("assignment to something that is not a `let mut` local")
            name = t[1]
            if op == "=":
                v = self.tx(rhs, env, env[name].ty)
            else:
                v = self.tx(("bin", op[:-1], ("var", name), rhs), env, env[name].ty)
            if env[name].ty is not None and v.ty is not None and v.ty != env[name].ty:
                self.err(f"assignment of a {v.ty!r} to `{name}` of type {env[name].ty!r}")
            env2 = dict(env)
            env2[name] = WrVar(wr_mangle(name), v.ty if v.ty is not None else env[name].ty, None, None, True)
            return K.cond(v.ex, K.let(wr_mangle(name), v.lean, rest(env2), [wr_mangle(name)]))
        if k == "assert":
            c = self.tx(st[1], env)
            if c.ty != "bool":
                self.err("assertion on a non-boolean")
            return K.cond(wr_and(c.ex, f"decide {wr_par(c.lean)}"), rest())
        if k == "for":
            return self.st_for(st, env, K, rest)
        if k == "while":
            return self.st_while(st, env, K, rest)
        if K.kind in ("P", "L"):
            if k == "if":
                return self.st_if_pure(st, env, K, rest)
            self.err(f"statement of kind `{k}` in a function without a sink")
        # ---- statements of a function that writes to a sink
        sink = self.sink
        c = self.early_return(st)
        if c is not None:
            cv = self.tx(c, env)
            if cv.ty != "bool":
                self.err("early-return condition")
            return K.cond(cv.ex, K.errif(cv.lean, rest()))
        if k == "mcall" and st[1][0] == "var" and st[1][1] in env and env[st[1][1]] is not None:
            tv = env[st[1][1]]
            if st[2] == "resize" and len(st[3]) == 2 and tv.ty == ("list", "u8") and tv.mut:
                n = self.tx(st[3][0], env, "usize")
                x = self.tx(st[3][1], env, "u8")
                if n.ty not in ("usize", None) or (x.ty not in ("u8", None)) or (x.ty is None and x.lit is None):
                    self.err(f"{st[1][1]}.resize arguments")
                env2 = dict(env)
                env2[st[1][1]] = WrVar(tv.lean, tv.ty, None, None, True)
                return K.cond(wr_and(n.ex, x.ex), K.let(tv.lean, f"vecResize {tv.lean} {wr_par(n.lean)} {wr_par(x.lean)}", rest(env2), [tv.lean]))
            if st[2] == "write_to_byte_slice" and len(st[3]) == 1 and tv.ty == "scratch":
                a = st[3][0]
                while a[0] == "paren" or (a[0] == "un" and a[1] in ("&", "*")):
                    a = a[1] if a[0] == "paren" else a[2]
                if a[0] != "var" or a[1] not in env or env[a[1]] is None or env[a[1]].ty != ("list", "u8") or not env[a[1]].mut:
                    self.err("write_to_byte_slice into something that is not a reused byte vector")
                dv = env[a[1]]
                self.extra.setdefault("MemSink_write_to_byte_slice", "List Op → List Nat → List Nat")
                env2 = dict(env)
                env2[a[1]] = WrVar(dv.lean, dv.ty, None, None, True)
                return K.let(dv.lean, f"MemSink_write_to_byte_slice {tv.lean} {dv.lean}", rest(env2), [dv.lean])
        if self.scratch == sink and k == "mcall" and st[1] == ("var", sink) and st[2] == "reserve" and len(st[3]) == 1:
            n = self.tx(st[3][0], env, "usize")     # capacity only; the argument is still evaluated
            if n.ty not in ("usize", None):
                self.err(f"{sink}.reserve of a {n.ty!r}")
            return K.cond(n.ex, rest())
        if self.scratch == sink and k == "mcall" and st[2] == "unwrap" and not st[3]:
            # the scratch sink is a MemSink (Error = Infallible): `.unwrap()` cannot panic
            st = ("try", st[1])
            k = "try"
        if k == "try":
            x = self.strip_conv(st[1])
            if self.scratch == sink and x[0] == "mcall" and x[2] == "write_extra_bits" and x[3] == [("var", sink)]:
                r = self.tx(x[1], env)
                if not (isinstance(r.ty, tuple) and r.ty[0] == "hdr"):
                    self.err("write_extra_bits on a value that is not a header enum")
                hw = self.hdr_write(r, "write_extra_bits", sink)
                return K.seq(hw[0], hw[1], rest())
            op = self.sink_op(x, env, sink)
            if op is not None:
                return K.cond(op[1], K.emit(op[0], rest()))
            cw = self.comp_write(x, env, sink)
            if cw is not None:
                return K.seq(cw[0], cw[1], rest())
            if x[0] == "tryrepeat":
                v, ex = self.st_tryrepeat(x, env, K)
                return K.seq(v, ex, rest())
            self.err("`?` applied to something that is neither a sink operation, a component write nor try_repeat!")
        if k in ("match", "if", "iflet", "block"):
            if K.kind == "S" and set(self.assigned(st, set())) & set(K.state):
                self.err("branch that assigns a variable carried by the enclosing loop")
            sub = WrK("W", K.mode)
            v = self.wbranch(st, env, sub)
            if K.mode == "E":
                return K.cond(None if v == "true" else wr_par(v), rest())
            return K.seq(v, None, rest())
        self.err(f"statement of kind `{k}`" + (f" (.{st[2]})" if k == "mcall" else ""))

    def wbranch(self, e, env, K):
        """a match / if / block whose branches are statement sequences writing to the sink"""
        k = e[0]
        if k == "block":
            return self.walk(e[1], 0, e[2], dict(env), K)
        if k == "match":
            sv, arms = self.enum_arms(e[1], e[2], env)
            rows = []
            for pat, env2, body in arms:
                if body[0] == "block":
                    rows.append((pat, self.walk(body[1], 0, body[2], env2, K)))
                else:
                    # an arm `p => expr,`: a statement when it ends in `?`, otherwise the value of the match
                    if body[0] == "try":
                        rows.append((pat, self.walk([body], 0, None, env2, K)))
                    else:
                        rows.append((pat, self.walk([], 0, body, env2, K)))
            return f"match {sv.lean} with\n" + "\n".join(f"| {p.strip()} =>\n{wr_ind(v, 4)}" for p, v in rows)
        if k == "if":
            c = self.tx(e[1], env)
            if c.ty != "bool" or c.ex is not None:
                self.err("`if` condition")
            a = self.wbranch(e[2], env, K)
            if e[3] is None:
                b = K.final()
            else:
                b = self.wbranch(e[3], env, K)
            return f"if {c.lean} then\n{wr_ind(wr_par(a))}\nelse\n{wr_ind(wr_par(b))}"
        if k == "iflet":
            pat, scrut, then, els = e[1], e[2], e[3], e[4]
            sv = self.tx(scrut, env)
            if not (isinstance(sv.ty, tuple) and sv.ty[0] == "opt") or sv.ex is not None:
                self.err("if-let on something that is not an Option")
            if not (pat[0] == "variant" and pat[1] == ["Some"] and len(pat[2]) == 1 and pat[2][0][0] == "bind"):
                self.err("if-let pattern other than `Some(x)`")
            if els is None or els[0] != "block":
                self.err("if-let without a plain else block")
            nm = pat[2][0][1]
            env2 = dict(env)
            env2[nm] = WrVar(wr_mangle(nm), sv.ty[1])
            a = self.wbranch(then, env2, K)
            b = self.wbranch(els, env, K)
            return f"match {sv.lean} with\n| some {wr_mangle(nm)} =>\n{wr_ind(a, 4)}\n| none =>\n{wr_ind(b, 4)}"
        self.err(f"branching statement of kind `{k}`")

    def finish(self, tail, env, K):
        if K.kind == "P":
            if tail is None:
                self.err("block without a final value")
            v = self.tx(tail, env, K.want)
            K.result_ty = v.ty if v.ty is not None else (K.want if v.lit is not None else None)
            if v.ty is None and v.lit is not None and K.want is not None and not isinstance(v.lit, tuple):
                self.fits(v.lit, K.want, "final value")
            return v.lean if K.mode == "V" else (v.ex or "true")
        if K.kind == "L":
            if tail is not None:
                self.err("loop body or branch with a final value")
            return K.final()
        if tail is None:
            return K.final()
        t = tail
        while t[0] == "paren":
            t = t[1]
        if t[0] == "call" and t[1] == ("var", "Ok") and t[2] == [("unit",)]:
            return K.final()
        x = self.strip_conv(t)
        op = self.sink_op(x, env, self.sink)
        if op is not None:
            return K.cond(op[1], K.emit(op[0], K.final()))
        cw = self.comp_write(x, env, self.sink)
        if cw is not None:
            return K.seq(cw[0], cw[1], K.final())
        if t[0] in ("match", "if", "iflet", "block"):
            if K.kind != "W":
                self.err("branching final expression inside a loop that carries state")
            return self.wbranch(t, env, K)
        if t[0] == "reuse":
            if K.kind != "W":
                self.err("`reuse!` inside a loop")
            return self.w_reuse(t, env, K)
        self.err(f"final expression of kind `{t[0]}` in a function that writes to a sink")

    def mentions(self, node, name):
        if isinstance(node, tuple):
            if node == ("var", name):
                return True
            return any(self.mentions(x, name) for x in node)
        if isinstance(node, list):
            return any(self.mentions(x, name) for x in node)
        return False

    def only_reads(self, node, name, allowed):
        """every occurrence of `name` in node is the receiver of one of the read-only methods `allowed`"""
        if isinstance(node, tuple):
            if node[:1] == ("mcall",) and node[1] == ("var", name) and node[2] in allowed:
                return all(self.only_reads(x, name, allowed) for x in node[3])
            if node == ("var", name):
                return False
            return all(self.only_reads(x, name, allowed) for x in node)
        if isinstance(node, list):
            return all(self.only_reads(x, name, allowed) for x in node)
        return True

    def w_reuse(self, t, env, K):
        """`reuse!(KEY, |x: &mut T| { <sink>.clear(); <fill the scratch sink>; <forward its content to dest> })`.
        T is a scratch sink, or a tuple of one scratch sink and reused byte vectors bound by `let v = &mut x.i;`."""
        key, clo = t[1], t[2]
        if key not in self.reusables:
            self.err(f"reuse!({key}, ..): no `reusable!({key}: ..)` in bitrepr.rs")
        (x, xty), body = clo[1][0], clo[2]
        tys = "".join(t_ for t_ in (xty or []) if t_ not in ("&", "mut"))
        if tys != self.reusables[key]:
            self.err(f"reuse!({key}, ..): closure parameter of type `{tys}`, storage of type `{self.reusables[key]}`")
        if body[0] != "block" or self.scratch is not None:
            self.err("reuse!: closure body")
        stmts, tail = list(body[1]), body[2]
        dest = self.sink
        if x in env or x == dest:
            self.err("reuse!: the closure parameter shadows a name")
        sinks = {"ByteSink": "MemSink<u8>", "MemSink<u8>": "MemSink<u8>", "MemSink<u64>": "MemSink<u64>"}
        env = dict(env)
        vecs = []
        if tys in sinks:
            sname, real = x, sinks[tys]
        else:
            if not (tys.startswith("(") and tys.endswith(")")):
                self.err(f"reuse! over a `{tys}`")
            comps = wr_split_top(hdr_lex(tys[1:-1], "reusable type"))
            comps = ["".join(c) for c in comps]
            sname = real = None
            seen = set()
            while stmts and stmts[0][0] == "let" and stmts[0][3][0] == "un" and stmts[0][3][1] == "&" \
                    and stmts[0][3][2][0] == "tupidx" and stmts[0][3][2][1] == ("var", x):
                st = stmts.pop(0)
                idx = st[3][2][2]
                if st[1][0] != "bind" or st[2] is not None or idx >= len(comps) or idx in seen or st[1][1] in env:
                    self.err("reuse!: `let v = &mut x.i;`")
                seen.add(idx)
                nm = st[1][1]
                if comps[idx] in sinks:
                    if sname is not None:
                        self.err("reuse!: two scratch sinks")
                    sname, real = nm, sinks[comps[idx]]
                elif comps[idx] == "Vec<u8>":
                    # reused byte vector: its content on entry is arbitrary -> a parameter of the generated function
                    pn = f"{key}_{idx}"
                    self.extra.setdefault(pn, "List Nat")
                    env[nm] = WrVar(pn, ("list", "u8"), None, None, True)
                    vecs.append(nm)
                else:
                    self.err(f"reuse!: storage component of type `{comps[idx]}`")
            if sname is None:
                self.err("reuse!: no scratch sink among the storage components")
            if self.mentions(stmts, x) or (tail is not None and self.mentions(tail, x)):
                self.err(f"reuse!: `{x}` is used other than through `let v = &mut {x}.i;`")
        # the content on entry is whatever the previous use left: the first statement must clear the sink
        if not stmts or stmts[0] != ("mcall", ("var", sname), "clear", [], None):
            self.err(f"reuse!: the closure does not start with `{sname}.clear();`")
        j = 1
        while j < len(stmts) and not self.mentions(stmts[j], dest) and not any(self.mentions(stmts[j], v) for v in vecs):
            j += 1
        fill, drain = stmts[1:j], stmts[j:]
        reads = {"MemSink<u8>": ("as_slice", "len"), "MemSink<u64>": ("len", "write_to_byte_slice")}[real]
        if not self.only_reads(drain, sname, reads) or (tail is not None and not self.only_reads(tail, sname, reads)):
            self.err(f"reuse!: `{sname}` is written after its content was forwarded to `{dest}`")
        self.scratch, self.scratch_ty, self.sink = sname, real, sname
        try:
            f = self.walk(fill, 0, None, dict(env), WrK("W", K.mode))
        finally:
            self.scratch, self.sink = None, dest
        env2 = dict(env)
        env2[sname] = WrVar(wr_mangle(sname), "scratch")
        d = self.walk(drain, 0, tail, env2, K)
        self.scratch_ty = None
        if K.mode == "E":
            if d == "true":
                return f
            self.err("reuse!: arithmetic while forwarding the scratch content")
        return f"bindW {wr_par(f)} fun {wr_mangle(sname)} =>\n{d}"

    # ---- loops
    def loop_values(self, it, env):
        """iterator of a `for` -> (lean list, exactness, element type)"""
        if it[0] == "range":
            lo = self.tx(it[1], env, "usize")
            hi = self.tx(it[2], env, lo.ty if lo.ty is not None else "usize")
            if lo.ty is None and hi.ty is not None:
                lo = self.tx(it[1], env, hi.ty)
            ty = hi.ty if hi.ty is not None else lo.ty
            if not wr_is_u(ty):
                self.err(f"range over {ty!r}")
            for z in (lo, hi):
                if z.ty is None and z.lit is not None:
                    self.fits(z.lit, ty, "range bound")
                elif z.ty != ty:
                    self.err("range bounds of different types")
            return f"countUp {wr_par(lo.lean)} {wr_par(hi.lean)} 1", wr_and(lo.ex, hi.ex), ty
        v = self.tx(it, env)
        if isinstance(v.ty, tuple) and v.ty[0] == "list":
            return v.lean, v.ex, v.ty[1]
        self.err(f"`for` over a value of type {v.ty!r}")

    def st_for(self, st, env, K, rest):
        var, it, body = st[1], st[2], st[3]
        vals, vex, ety = self.loop_values(it, env)
        return self.loop(var, ety, vals, vex, body[1], body, env, K, rest, None)

    def st_while(self, st, env, K, rest):
        cond, body = st[1], st[2]
        c = cond
        while c[0] == "paren":
            c = c[1]
        if not (c[0] == "bin" and c[1] == "<" and c[2][0] == "var"):
            self.err("`while` whose condition is not `<counter> < <bound>`")
        v = c[2][1]
        if v not in env or env[v] is None or not env[v].mut:
            self.err(f"`while {v} < ..`: `{v}` is not a `let mut` local")
        if body[2] is not None or not body[1]:
            self.err("`while` body")
        last = body[1][-1]
        if not (last[0] == "assign" and last[1] == "+=" and last[2] == ("var", v)):
            self.err(f"`while {v} < ..` whose body does not end with `{v} += <step>;`")
        inner = body[1][:-1]
        asg = self.assigned(("block", inner, None), set())
        if v in asg:
            self.err(f"`while {v} < ..`: the counter is assigned inside the body")
        step = self.tx(last[3], env, env[v].ty)
        if step.lit is None or isinstance(step.lit, tuple) or step.lit <= 0:
            self.err("counting loop whose step is not a positive constant")
        bound = self.tx(c[3], env, env[v].ty)
        bw = wr_words(bound.lean)
        for n in asg:
            if wr_mangle(n) in bw:
                self.err(f"counting loop whose bound depends on `{n}`, which the body assigns")
        ty = bound.ty if bound.ty is not None else env[v].ty
        if not wr_is_u(ty):
            self.err(f"counting loop over {ty!r}")
        vals = f"countUp {wr_par(env[v].lean)} {wr_par(bound.lean)} {wr_par(step.lean)}"
        # the last `counter += step` must not overflow
        vex = wr_and(bound.ex, f"decide ({bound.lean} + {step.lean} ≤ {2 ** HDR_BITS[ty]})")
        return self.loop(v, ty, vals, vex, inner, body, env, K, rest, v)

    def loop(self, var, ety, vals, vex, stmts, body, env, K, rest, poison):
        if body[2] is not None:
            self.err("loop body with a final value")
        M = [n for n in self.assigned(("block", stmts, None), {var}) if n in env and env[n] is not None]
        for n in M:
            if not env[n].mut:
                self.err(f"assignment to `{n}`, which is not `let mut`")
        env_b = dict(env)
        env_b[var] = WrVar(wr_mangle(var), ety)
        for n in M:
            env_b[n] = WrVar(wr_mangle(n), env[n].ty, None, None, True)
        env_r = dict(env)
        for n in M:
            env_r[n] = WrVar(wr_mangle(n), env[n].ty, None, None, True)
        if poison is not None:
            env_r[poison] = None
        lv = wr_mangle(var)
        if K.kind in ("W", "S"):
            if not M:
                sub = WrK("W", K.mode)
                b = self.walk(stmts, 0, None, env_b, sub)
                if K.mode == "E":
                    c = None if b == "true" else f"{wr_par(vals)}.all (fun {lv} =>\n{wr_ind(b, 4)})"
                    return K.cond(wr_and(vex, c), rest(env_r))
                return K.seq(f"forW {wr_par(vals)} (fun {lv} =>\n{wr_ind(b, 4)})", None, rest(env_r))
            if K.kind == "S":
                self.err("nested loops that both carry mutable state")
            sub = WrK("S", K.mode, M)
            b = self.walk(stmts, 0, None, env_b, sub)
            # the rest may type the carried variables differently (an untyped literal initial value): re-type from the body
            self.retype(stmts, env_b, M, env_r)
            if K.mode == "E":
                return K.cond(vex, f"bindE (loopE {wr_par(vals)} {sub.st()} (fun {lv} {sub.st()} =>\n{wr_ind(b, 4)})) fun {sub.st()} =>\n{rest(env_r)}")
            return f"bindS (loopS {wr_par(vals)} {sub.st()} (fun {lv} {sub.st()} =>\n{wr_ind(b, 4)})) fun {sub.st()} =>\n{rest(env_r)}"
        # pure function: the loop only updates the carried variables
        if not M:
            self.err("loop without effect")
        sub = WrK("L", K.mode, M)
        b = self.walk(stmts, 0, None, env_b, sub)
        self.retype(stmts, env_b, M, env_r)
        if K.mode == "E":
            be = "bindE" if K.kind == "P" else "bindEE"
            return K.cond(vex, f"{be} (loopE {wr_par(vals)} {sub.st()} (fun {lv} {sub.st()} =>\n{wr_ind(b, 4)})) fun {sub.st()} =>\n{rest(env_r)}")
        return f"let {sub.st()} := List.foldl (fun {sub.st()} {lv} =>\n{wr_ind(b, 4)}) {sub.st()} {wr_par(vals)}\n{rest(env_r)}"

    def retype(self, stmts, env_b, M, env_r):
        """type of a carried variable that starts as an untyped literal: the type of the first value assigned to it"""
        for n in M:
            if env_r[n].ty is None:
                for st in stmts:
                    if st[0] == "assign" and st[2] == ("var", n):
                        try:
                            v = self.tx(st[3], env_b)
                        except Unreadable:
                            continue
                        if v.ty is not None:
                            env_r[n].ty = v.ty
                            break

    def st_tryrepeat(self, x, env, K):
        ctr, upto, cond, body = x[1], x[2], x[3], x[4]
        n = self.tx(upto, env, "usize")
        if n.lit is None or isinstance(n.lit, tuple) or (n.ty not in (None, "usize")):
            self.err("try_repeat!: the repeat count is not a `usize` constant")
        if self.assigned(body, {ctr}):
            self.err("try_repeat!: the body assigns an outer variable")
        env2 = dict(env)
        env2[ctr] = WrVar(wr_mangle(ctr), "usize")
        c = self.tx(cond, env2)
        if c.ty != "bool":
            self.err("try_repeat!: condition")
        sub = WrK("W", K.mode)
        b = self.walk(body[1], 0, body[2], env2, sub)
        lc = wr_mangle(ctr)
        if K.mode == "E":
            if b == "true" and c.ex is None:
                return None, None
            return None, (f"repeatWhileE {wr_par(n.lean)} (fun {lc} => decide {wr_par(c.lean)}) (fun {lc} => {c.ex or 'true'}) (fun {lc} =>\n"
                          f"{wr_ind(b, 4)})")
        return f"repeatWhile {wr_par(n.lean)} (fun {lc} => decide {wr_par(c.lean)}) (fun {lc} =>\n{wr_ind(b, 4)})", None

    def st_if_pure(self, st, env, K, rest):
        c = self.tx(st[1], env)
        if c.ty != "bool":
            self.err("`if` condition is not a boolean")
        if st[2][0] != "block" or (st[3] is not None and st[3][0] != "block"):
            self.err("`else if` chain as a statement")
        els = st[3] if st[3] is not None else ("block", [], None)
        M = [n for n in self.assigned(("block", [st[2], els], None), set()) if n in env and env[n] is not None]
        if not M:
            self.err("`if` statement without effect")
        for n in M:
            if not env[n].mut:
                self.err(f"assignment to `{n}`, which is not `let mut`")
        sub = WrK("L", K.mode, M)
        a = self.walk(st[2][1], 0, st[2][2], dict(env), sub)
        b = self.walk(els[1], 0, els[2], dict(env), sub)
        env_r = dict(env)
        for n in M:
            env_r[n] = WrVar(wr_mangle(n), env[n].ty, None, None, True)
        self.retype(st[2][1] + els[1], env, M, env_r)
        ite = f"if {c.lean} then\n{wr_ind(wr_par(a), 4)}\n  else\n{wr_ind(wr_par(b), 4)}"
        if K.mode == "E":
            be = "bindE" if K.kind == "P" else "bindEE"
            return K.cond(c.ex, f"{be} ({ite}) fun {sub.st()} =>\n{rest(env_r)}")
        return f"let {sub.st()} :=\n  ({ite})\n{rest(env_r)}"

    # ---------------------------------------------------------------- functions
    def make_parser(self, toks, lo, hi):
        return WrParser(toks, lo, hi, self.where)

    def translate_fn(self, fname, trait, owner, name):
        items = self.files[fname]
        table = items.fns if owner is None else items.impls.get((trait, owner))
        what = f"{fname}: " + (f"impl {(trait + ' for ') if trait else ''}{owner}" if owner else "free functions")
        if table is None:
            fail(f"{what} not found")
        if name not in table:
            fail(f"{what}: fn {name} not found")
        rec = table[name]
        lname = f"{owner}.{name}" if owner else name
        self.where = f"{fname}: fn {lname}"
        self.owner = owner
        self.extra = {}
        if rec["body"] is None:
            self.err("no body")
        if any(a.startswith("#[cfg") for a in rec["attrs"]):
            self.err("conditionally compiled function")
        env = {}
        lparams = []
        ptys = []
        self.sink = None
        self_kind = None
        gnames = [g for g in rec["generics"] if re.fullmatch(r"[A-Z][A-Za-z0-9]*", g)]
        for p in rec["params"]:
            if p in (["self"], ["&", "self"]):
                if owner is None:
                    self.err("self parameter in a free function")
                lp, sv = self.self_value(owner)
                lparams += lp
                env["self"] = WrVar(sv.lean, sv.ty, None, sv.view)
                self_kind = "ctor" if sv.view is not None else "value"
                continue
            if p[:1] == ["mut"] or p[:3] == ["&", "mut", "self"]:
                self.err("mutable parameter")
            if len(p) < 3 or p[1] != ":":
                self.err(f"parameter `{' '.join(p)}`")
            pn, pt = p[0], p[2:]
            if pt[:2] == ["&", "mut"] and len(pt) == 3 and pt[2] in gnames:
                if self.sink is not None:
                    self.err("two sink parameters")
                self.sink = pn
                continue
            ty = self.ty(pt)
            env[pn] = WrVar(wr_mangle(pn), ty)
            ptys.append(ty)
            lparams.append(f"({wr_mangle(pn)} : {self.lty(ty)})")
        if not rec["ret"]:
            self.err("no return type")
        rty = self.ty(rec["ret"])
        lo, hi = rec["body"]
        ps = self.make_parser(items.toks, lo, hi)
        body = ps.block()
        if ps.p != hi:
            self.err("trailing tokens after the body")
        if rty == "writes":
            if self.sink is None:
                self.err("Result<(), _> function without a sink parameter")
            kv, ke = WrK("W", "V"), WrK("W", "E")
        else:
            if self.sink is not None:
                self.err("sink parameter in a function that does not return Result<(), _>")
            kv, ke = WrK("P", "V", want=rty), WrK("P", "E", want=rty)
        v = self.walk(body[1], 0, body[2], dict(env), kv)
        x = self.walk(body[1], 0, body[2], dict(env), ke)
        if rty != "writes":
            got = kv.result_ty
            if got != rty:
                self.err(f"body has type {got!r}, declared {rty!r}")
        extra = list(self.extra.items())
        sig = " ".join([f"({n} : {t})" for n, t in extra] + lparams)
        has_ex = x != "true"
        self.fns[(owner, name)] = dict(lean=lname, self_kind=self_kind, ptys=ptys, ret=rty, has_ex=has_ex,
                                       extra=[n for n, _ in extra], extra_types=extra)
        L = []
        doc = f"`{(trait + ' for ') if trait else ''}{owner + '::' if owner else ''}{name}` ({fname})"
        L.append(f"/-- {doc} -/")
        L.append(f"def {lname} {sig} : {self.lty(rty)} :=".replace("  :", " :"))
        L.append(wr_ind(v))
        L.append("")
        if has_ex:
            L.append(f"/-- `{lname}`: no step panics in the dev profile (overflow of `+ - *`, shift amount, index out of "
                     f"bounds, `assert!`, a bit count larger than the operand). -/")
            L.append(f"def {lname}_exact {sig} : Bool :=".replace("  :", " :"))
            L.append(wr_ind(x))
            L.append("")
        return L


WR_PRELUDE = '''/-- Effect of `write` on the caller's sink: `none` = the function itself returns `Err` (a `RangeError`);
`some ops` = it issued exactly the `BitSink` calls `ops`, in this order (every sink error is returned with `?`,
so a failing sink sees a prefix: `FlacVerif.writeFailing`). -/
abbrev W := Option (List Op)

/-- `dest.op(..)?; rest` -/
def emit (ops : List Op) (rest : W) : W := match rest with | none => none | some r => some (ops ++ r)

/-- `a?; b` -/
def seqW (a b : W) : W := match a with | none => none | some x => (match b with | none => none | some y => some (x ++ y))

/-- `for x in xs { f(x)?; }` -/
def forW {α : Type} : List α → (α → W) → W
  | [], _ => some []
  | x :: xs, f => seqW (f x) (forW xs f)

/-- The values of the counter of `for i in a..b` (`k = 1`) and of
`let mut i = a; while i < b { ..; i += k; }` (`k` a positive constant). -/
def countUp (a b k : Nat) : List Nat := (List.range ((b - a + (k - 1)) / k)).map (fun j => a + j * k)

def repeatWhileAux (c : Nat → Bool) (f : Nat → W) : List Nat → W
  | [] => some []
  | t :: ts => if c t then seqW (f t) (repeatWhileAux c f ts) else some []

/-- `try_repeat!(t to n; while c => f)`: for `t` in `0..n`: if `!c(t)` return `Ok(())`; `f(t)?`. -/
def repeatWhile (n : Nat) (c : Nat → Bool) (f : Nat → W) : W := repeatWhileAux c f (List.range n)

/-- Operation list together with the values of the `let mut` variables a loop body assigns. -/
abbrev WS (σ : Type) := Option (List Op × σ)
def retS {σ : Type} (s : σ) : WS σ := some ([], s)
def emitS {σ : Type} (ops : List Op) (rest : WS σ) : WS σ :=
  match rest with | none => none | some (r, s) => some (ops ++ r, s)
def seqS {σ : Type} (a : W) (rest : WS σ) : WS σ :=
  match a with | none => none | some x => (match rest with | none => none | some (r, s) => some (x ++ r, s))
/-- A loop whose body assigns outer `let mut` variables: they are threaded through the iterations. -/
def loopS {α σ : Type} : List α → σ → (α → σ → WS σ) → WS σ
  | [], s, _ => some ([], s)
  | x :: xs, s, f =>
    match f x s with
    | none => none
    | some (o, s') => (match loopS xs s' f with | none => none | some (o2, s2) => some (o ++ o2, s2))
def bindS {σ : Type} (a : WS σ) (k : σ → W) : W :=
  match a with | none => none | some (o, s) => (match k s with | none => none | some r => some (o ++ r))

/-- `let v = f(..)?; rest` for a function returning `Result<T, RangeError>` -/
def bindO {α : Type} (a : Option α) (k : α → W) : W := match a with | none => none | some v => k v

/-- A `reuse!` closure over a scratch sink: the statements that fill the (cleared) scratch sink, then the
statements that forward its content to the caller's sink. `fill = none`: the closure returned `Err` while filling. -/
def bindW (fill : W) (k : List Op → W) : W := match fill with | none => none | some ops => k ops

/-- `Vec::resize(n, x)` -/
def vecResize (v : List Nat) (n x : Nat) : List Nat := v.take n ++ List.replicate (n - v.length) x

/-- `write_lsbs(v, n)` calls of a writer function translated by part `headers`, as `Op`s. Part `headers` does not
record the operand type; `64` is a placeholder (`Op.ideal` does not depend on the operand width). -/
def hdrOps (w : FlacVerif.Gen.Headers.Writes) : W :=
  match w with | none => none | some ws => some (ws.map fun p => Op.writeLsbs 64 p.1 p.2)

/-! exactness conditions (`_exact`) -/
def bindOE {α : Type} (a : Option α) (k : α → Bool) : Bool := match a with | none => true | some v => k v
def andB (a b : Bool) : Bool := a && b
def andE {σ : Type} (a : Bool) (r : Bool × σ) : Bool × σ := (a && r.1, r.2)
def loopE {α σ : Type} (xs : List α) (s : σ) (f : α → σ → Bool × σ) : Bool × σ :=
  xs.foldl (fun acc x => let r := f x acc.2; (acc.1 && r.1, r.2)) (true, s)
def bindE {σ : Type} (r : Bool × σ) (k : σ → Bool) : Bool := r.1 && k r.2
def bindEE {σ τ : Type} (r : Bool × σ) (k : σ → Bool × τ) : Bool × τ := let q := k r.2; (r.1 && q.1, q.2)
def repeatWhileEAux (c cex bex : Nat → Bool) : List Nat → Bool
  | [] => true
  | t :: ts => cex t && (if c t then bex t && repeatWhileEAux c cex bex ts else true)
def repeatWhileE (n : Nat) (c cex bex : Nat → Bool) : Bool := repeatWhileEAux c cex bex (List.range n)
'''


# error-type conversions that `strip_conv` may drop, with the body text (comments and whitespace removed) each must have in
# src/error.rs: `from_sink` wraps the sink's error unchanged; `ignore_sink_error` maps the Range variant to itself and is only
# applicable to sinks whose error type is uninhabited (`Infallible`)
WR_CONV_FNS = {
    "from_sink": "pub(crate)constfnfrom_sink(e:S::Error)->Self{Self::Sink(e)}",
    "ignore_sink_error": "pub(crate)fnignore_sink_error<U>(err:OutputError<U>)->SelfwhereU:BitSink<Error=Infallible>,{matcherr{OutputError::Range(e)=>Self::Range(e),#[allow(unreachable_patterns)]OutputError::Sink(_)=>unreachable!(),}}",
}
_WR_CONV_CHECKED = []


def wr_check_conv_fns():
    if _WR_CONV_CHECKED:
        return
    src = strip_comments(open(os.path.join(REPO, "src", "error.rs")).read())
    flat = re.sub(r"\s+", "", src)
    for name, body in WR_CONV_FNS.items():
        if body not in flat:
            fail(f"error.rs: fn OutputError::{name}: body differs from the conversion the writer part reads it as")
    _WR_CONV_CHECKED.append(True)


def wr_fingerprint(toks):
    return hashlib.sha256(" ".join(toks).encode()).hexdigest()[:16]


def wr_macro_defs(fname, src_toks):
    """token text of `macro_rules! NAME { .. }` items and of top-level `seq!( .. );` invocations"""
    out = {}
    t = src_toks
    it = HdrItems.__new__(HdrItems)
    it.fname, it.toks = fname, t
    i = 0
    while i < len(t):
        if t[i] == "macro_rules" and t[i + 1] == "!" and t[i + 3] == "{":
            j = it.group_end(i + 3)
            out[t[i + 2]] = t[i:j]
            i = j
            continue
        if t[i] == "seq" and t[i + 1] == "!" and t[i + 2] == "(":
            j = it.group_end(i + 2)
            out.setdefault("seq", [])
            out["seq"] = out["seq"] + t[i:j]
            i = j
            continue
        if t[i] in ("{", "(", "["):
            i = it.group_end(i)
            continue
        i += 1
    return out


def emit_writer():
    comp = os.path.join(REPO, "src", "component")
    files = {}
    for fn in ("bitrepr.rs", "datatype.rs"):
        path = os.path.join(comp, fn)
        if not os.path.exists(path):
            fail(f"{fn}: file not found")
        files[fn] = HdrItems(fn, hdr_lex(open(path).read(), fn))
    br, dt = files["bitrepr.rs"], files["datatype.rs"]
    if not HDR_DONE:
        fail("bitrepr.rs: part `headers` did not run (Gen/Headers.lean is imported by Gen/Writer.lean)")
    # the set of BitRepr impls and of their functions must be the one this part was written for
    impls = {o: t for (tr, o), t in br.impls.items() if tr == "BitRepr"}
    spec = dict(WR_SPEC)
    spec_all = set(spec) | {"ChannelAssignment"}
    if set(impls) != spec_all:
        fail(f"bitrepr.rs: the types implementing BitRepr are {sorted(impls)}, expected {sorted(spec_all)}")
    for o, names in spec.items():
        have = set(impls[o])
        want = set(names) | {n for (oo, n) in WR_UNTRANSLATED if oo == o}
        if have != want:
            fail(f"bitrepr.rs: impl BitRepr for {o} defines {sorted(have)}, expected {sorted(want)}")
    # macros with a built-in reading
    rp = os.path.join(REPO, "src", "repeat.rs")
    if not os.path.exists(rp):
        fail("repeat.rs: file not found")
    lp = os.path.join(REPO, "src", "lib.rs")
    if not os.path.exists(lp):
        fail("lib.rs: file not found")
    mds = {"repeat.rs": wr_macro_defs("repeat.rs", hdr_lex(open(rp).read(), "repeat.rs")),
           "lib.rs": wr_macro_defs("lib.rs", hdr_lex(open(lp).read(), "lib.rs"))}
    for (fn, m), fp in WR_MACRO_FP.items():
        md = mds[fn]
        if m not in md:
            fail(f"{fn}: definition of `{m}!` not found")
        got = wr_fingerprint(md[m])
        if got != fp:
            fail(f"{fn}: the definition of `{m}!` changed (fingerprint {got}, the translator's reading was written for {fp})")
    t = br.toks
    use_max = set()
    for i in range(len(t) - 6):
        if t[i:i + 5] == ["use", "std", "::", "cmp", "::"] and t[i + 5] in ("max", "min") and t[i + 6] == ";":
            use_max.add(t[i + 5])
    gen_defs = wr_scan_types(dt, set(WR_GENERATED) | {"SubFrame"})
    tx = WrTx(files, gen_defs, wr_scan_consts(br), dict(HDR_DONE), use_max)
    tx.parse_gen_types()
    for i in range(len(t) - 8):
        if t[i] == "static" and t[i + 2] == ":" and t[i + 3:i + 7] == ["crc", "::", "Crc", "<"] and t[i + 7] in HDR_BITS:
            tx.statics[t[i + 1]] = t[i + 7]
        if t[i] == "reusable" and t[i + 1] == "!" and t[i + 2] == "(" and t[i + 4] == ":":
            j = i + 5
            ty_ = []
            d = 0
            while not (t[j] in ("=", ")") and d == 0):
                if t[j] in ("(", "<"):
                    d += 1
                elif t[j] in (")", ">"):
                    d -= 1
                ty_.append(t[j])
                j += 1
            tx.reusables[t[i + 3]] = "".join(ty_)
    body = []
    for fn, owner, name in WR_HELPERS:
        body += tx.translate_fn(fn, None, owner, name)
    for owner, names in WR_SPEC:
        for name in names:
            body += tx.translate_fn("bitrepr.rs", "BitRepr", owner, name)
    WR_DONE.clear()
    WR_DONE.update(tx.fns)
    L = ["-- GENERATED by tools/translate.py (part `writer`) from src/component/bitrepr.rs and src/component/datatype.rs — do not edit",
         "/-",
         "Statement-by-statement mirror of `impl BitRepr for X { fn count_bits; fn write }`.",
         "",
         "`X.write v : W` is the list of `BitSink` calls `write` issues on the caller's sink for the component value `v`,",
         "in program order (`none` = `write` itself returns `Err`): `dest.write_lsbs(e, n)` becomes",
         "`Op.writeLsbs <bits of the Rust type of e> e n`, a `for` / counting `while` loop becomes `forW` / `loopS` over the",
         "same range, `x.write(dest)?` becomes the callee's list.  `X.count_bits v : Nat` is the value of `count_bits`.",
         "",
         "Integers are modelled on `Nat` / `Int`.  Where Rust silently discards bits the discarding is part of the generated",
         "term (`e as T` to a narrower `T` is `e % 2^bits(T)`; `a << b` is `(a <<< b) % 2^bits`).  Where Rust panics in the dev",
         "profile (overflow of `+ - *`, a shift amount >= the width, an index out of bounds, `assert!` / `debug_assert!`,",
         "a bit count larger than the operand) the `Nat` term is only the Rust value when the condition `X.f_exact v` emitted",
         f"next to the function holds.  The domains of the inputs (u8 < 256, ..., usize = {HDR_BITS['usize']} bits) are NOT built in:",
         "theorems carry them as hypotheses.",
         "",
         "External functions (`encode_to_utf8like`, `crc::Crc::checksum`, the read-out of a scratch `MemSink`) and the entry",
         "content of reused byte vectors are PARAMETERS of the generated functions (listed at the end of this file).",
         "",
         "Component values: `StreamInfo`, `Residual` and the four subframe kinds are the hand-written model's structures",
         "(`FlacVerif.StreamInfo`, `FlacVerif.Residual`, the constructors of `FlacVerif.SubFrame`); their Rust accessors are",
         "mapped to model fields by the table WR_MODEL of the translator, reproduced at the end of this file.",
         f"{', '.join(WR_GENERATED)} are generated below from their Rust definitions.",
         "-/",
         "import FlacVerif.Model.Ops",
         "import FlacVerif.Gen.Headers",
         "set_option linter.unusedVariables false",
         "namespace FlacVerif.Gen.Writer", "", WR_PRELUDE]
    for n in tx.used_consts:
        v, ty = tx.consts[n]
        L += [f"/-- `const {n}: {ty}` (bitrepr.rs) -/", f"def {n} : Nat := {v}", ""]
    for n in WR_GENERATED:
        kind, d = tx.gen[n]
        tx.where = f"datatype.rs: {kind} {n}"
        if kind == "struct":
            L.append(f"/-- `struct {n}` (datatype.rs) -/")
            L.append(f"structure {n} where")
            for f, ty in d:
                L.append(f"  {wr_mangle(f)} : {tx.lty(ty)}")
        else:
            L.append(f"/-- `enum {n}` (datatype.rs) -/")
            L.append(f"inductive {n} where")
            for v, vk, fields in d:
                L.append(f"  | {v} " + " ".join(f"({wr_mangle(f)} : {tx.lty(ty)})" for f, ty in fields))
        L.append("  deriving Repr, DecidableEq")
        L.append("")
    L += body
    L.append("/- NOT translated (callers take these functions as a parameter):")
    for (o, n), why in WR_UNTRANSLATED.items():
        L.append(f"   {(o + '::') if o else ''}{n} — {why}")
    L.append("   <static crc::Crc<uN, _>>.checksum(bytes); <scratch sink>.as_slice() / .len() / .write_to_byte_slice(dest) — external to "
             "bitrepr.rs; parameters `X_checksum : List Nat → Nat`, `ByteSink_as_slice : List Op → List Nat`, "
             "`MemSink_len : List Op → Nat`, `MemSink_write_to_byte_slice : List Op → List Nat → List Nat` (operations received "
             "since `clear()`, destination before -> destination after)")
    L.append("   the entry content of a reused `Vec<u8>` (`reusable!` storage) — arbitrary: parameter `<KEY>_<index> : List Nat`")
    L.append("   BitRepr for ChannelAssignment — translated by part `headers` (Gen/Headers.lean)")
    L.append("")
    L.append("   Accessor table (trusted; the Rust body of each accessor is compared with datatype.rs when it is used):")
    for T, info in WR_MODEL.items():
        if "acc" not in info:
            continue
        head = {"struct": f"{T} = {info.get('lean')}",
                "ctor": f"{T} = {info.get('of')}.{info.get('ctor')} " + " ".join(f for f, _ in info.get("fields", [])) if info["kind"] == "ctor" else "",
                "part": f"{T} = the arguments {' '.join(info['fields']) if info['kind'] == 'part' else ''} of its parent {info.get('of')}"}[info["kind"]]
        L.append(f"   {head}")
        for m, (b, tmpl) in info["acc"].items():
            L.append(f"     {m}()  [{b}]  ->  {tmpl}")
    L.append("   Sink methods: " + ", ".join(f"{m} -> {c}" for m, (c, _) in WR_SINK_OPS.items()))
    L.append("-/")
    L += ["", "end FlacVerif.Gen.Writer", ""]
    return "\n".join(L)


# ===================================================================================================
# Part `verify`: the `impl Verify for X` bodies of src/component/verify.rs, the helper macros they use
# (`verify_block_size!`, `verify_bps!`, `verify_sample_range!` of verify.rs; `verify_range!`, `verify_true!` and the
# function `verify_macro_impl` of src/error.rs) and the public constructors of src/component/datatype.rs.
#
# Everything is PARSED from the current source text (lexer / item index / expression parser of parts `headers` and
# `writer`, extended below) and mirrored statement by statement into Gen/Verify.lean:
#   * `macro_rules!` definitions are read and EXPANDED by a small macro-by-example engine (matchers `literal`, `expr`,
#     `tt`, `ident`, repetitions; first matching arm wins; `$x:expr` is substituted as one parenthesised group; names
#     bound by `let` inside a transcriber are renamed per expansion = hygiene).  No meaning of any of the five macros
#     is built into this translator: if a bound, an operator, the order of two checks or the text of a macro changes,
#     the expansion changes.
#   * a function returning `Result<(), VerifyError>` becomes a Lean function returning `VR = Option Bool`
#     (`some true` = `Ok(())`, `some false` = `Err(_)`, `none` = the function PANICS in the dev profile before it
#     returns: overflow of `+ - *`, unary minus of MIN, a shift amount >= the width, an index out of bounds, division
#     by zero, `assert!`, `.expect()` on `None`).  `a?; rest` and `a.and_then(|()| rest)` are `andThen`, in program
#     order; a loop is `forV` over the same list / range; error messages and `map_err` are dropped.
#   * a constructor returning `Result<T, VerifyError>` becomes a function returning `CR T = Option (Option T)`
#     (`none` = panic, `some none` = `Err`, `some (some v)` = `Ok(v)`), `v` a value of the hand-written model's
#     structures (same accessor table WR_MODEL as part `writer`) or of the structures generated by part `writer`.
# What is NOT read from the source is in the tables below (the trusted base of this part): VF_CTORS (the two
# `from_parts` whose bodies are not plain struct literals), VF_PART (the model structure standing for a
# `QuantizedParameters` value) and the readings of a few std / heapless functions (`heapless::Vec::from_slice`,
# `Option::ok_or_else`, `Iterator::fold / enumerate / zip`, `to_owned`, `Vec::from`, `wrapping_add`, `expect`,
# `format!`, `assert_eq!`), each marked "std:" where it is implemented.

VF_SBITS = WR_SBITS

# model structure that stands for a value of a "part" view type when it is a parameter / a result of its own
VF_PART = {"QuantizedParameters": ("FlacVerif.QParams", ["coefs", "shift", "precision"])}

# enums of datatype.rs without a counterpart in Gen/Headers.lean or Gen/Writer.lean: generated into Gen/Verify.lean
VF_GENERATED = ["FrameOffset"]

# `T::f(params)` that builds a component value and is not a plain struct literal: exact Rust body the reading was
# written for (compared with datatype.rs), model fields as Lean templates over the PARAMETERS, panic condition
# (`debug_assert!` / slice copies) as a Lean Bool template (None = cannot panic).
VF_CTORS = {
    ("Residual", "from_parts"): dict(
        params=["partition_order", "block_size", "warmup_length", "rice_params", "quotients", "remainders"],
        body="debug_assert!(rice_params.len() == 1usize << partition_order as usize); "
             "let max_quotients: usize = find_max::<64>(&quotients) as usize; "
             "let sum_quotients: usize = if max_quotients * block_size < u32::MAX as usize { "
             "wrapping_sum::<u32, 32>(&quotients) as usize } else { quotients.iter().map(|x| *x as usize).sum() }; "
             "let sum_rice_params: usize = rice_params.iter().map(|x| *x as usize).sum(); "
             "Self { partition_order, block_size, warmup_length, rice_params, quotients, remainders, sum_quotients, "
             "sum_rice_params, }",
        fields={"order": "{partition_order}", "blockSize": "{block_size}", "warmup": "{warmup_length}",
                "params": "{rice_params}", "quotients": "{quotients}", "remainders": "{remainders}"},
        # `debug_assert!(rice_params.len() == 1usize << partition_order as usize)` (partition_order: u8)
        ex="(decide ({partition_order} < 64) && decide ({rice_params}.length = (1 <<< {partition_order}) % 18446744073709551616))"),
    ("QuantizedParameters", "from_parts"): dict(
        params=["coefs", "order", "shift", "precision"],
        body="debug_assert!(coefs.len() == order); let mut coefs_v = simd::i16x32::default(); "
             "coefs_v[0..order].copy_from_slice(coefs); Self { coefs: coefs_v, order, shift, precision, }",
        # the model keeps the first `order` lanes (accessor `coefs()`), and `order()` is their number
        fields={"coefs": "{coefs}", "shift": "{shift}", "precision": "{precision}"},
        # debug_assert, `coefs_v[0..order]` (32 lanes), `copy_from_slice` (equal lengths)
        ex="(decide ({coefs}.length = {order}) && decide ({order} ≤ 32))"),
}

# probes: each helper macro of verify.rs is also emitted as a function of its (typed) expression arguments, by
# expanding one synthetic invocation; a use whose arguments have these types and cannot panic is emitted as a call
# of that function (beta-equivalent to the inline expansion), any other use is expanded inline.
VF_PROBES = [
    ("verify_block_size", [("size", "usize")]),
    ("verify_bps", [("bps", "usize")]),
    ("verify_sample_range", [("sample", "i32"), ("bps", "usize")]),
]

# (file, trait, owner, fn, kind)  kind: "V" Result<(), VerifyError>, "C" constructor, "M" `&mut self` mutator;
# in emission order (callees first)
VF_SPEC = [
    ("error.rs", None, None, "verify_macro_impl", "V"),
    ("verify.rs", "Verify", "Residual", "verify", "V"),
    ("datatype.rs", None, "Residual", "new", "C"),
    ("verify.rs", "Verify", "QuantizedParameters", "verify", "V"),
    ("datatype.rs", None, "QuantizedParameters", "new", "C"),
    ("verify.rs", "Verify", "Constant", "verify", "V"),
    ("datatype.rs", None, "Constant", "new", "C"),
    ("verify.rs", "Verify", "Verbatim", "verify", "V"),
    ("datatype.rs", None, "Verbatim", "new", "C"),
    ("verify.rs", "Verify", "FixedLpc", "verify", "V"),
    ("datatype.rs", None, "FixedLpc", "new", "C"),
    ("verify.rs", "Verify", "Lpc", "verify", "V"),
    ("datatype.rs", None, "Lpc", "new", "C"),
    ("verify.rs", "Verify", "ChannelAssignment", "verify", "V"),
    ("verify.rs", "Verify", "FrameHeader", "verify", "V"),
    ("datatype.rs", None, "FrameHeader", "set_frame_number", "M"),
    ("datatype.rs", None, "FrameHeader", "set_start_sample_number", "M"),
    ("datatype.rs", None, "FrameHeader", "set_frame_offset", "M"),
    ("datatype.rs", None, "FrameHeader", "new", "C"),
    ("verify.rs", "Verify", "StreamInfo", "verify", "V"),
    ("datatype.rs", None, "StreamInfo", "new", "C"),
    ("datatype.rs", None, "StreamInfo", "set_total_samples", "M"),
    ("datatype.rs", None, "StreamInfo", "set_block_sizes", "MV"),
    ("datatype.rs", None, "StreamInfo", "set_frame_sizes", "MV"),
    ("verify.rs", "Verify", "MetadataBlockData", "verify", "V"),
    ("datatype.rs", None, "MetadataBlockData", "new_unknown", "C"),
    ("verify.rs", "Verify", "MetadataBlock", "verify", "V"),
    ("verify.rs", "Verify", "SubFrame", "verify", "V"),
    ("datatype.rs", None, "Frame", "new", "C"),
    ("verify.rs", "Verify", "Frame", "verify", "V"),
    ("datatype.rs", None, "Stream", "verify_variable_blocking_frames", "V"),
    ("datatype.rs", None, "Stream", "verify_fixed_blocking_frames", "V"),
    ("verify.rs", "Verify", "Stream", "verify", "V"),
    ("datatype.rs", None, "Stream", "new", "C"),
]
# deliberately NOT translated (reason)
VF_UNTRANSLATED = {
    ("Constant / Verbatim / FixedLpc / Lpc / Frame / MetadataBlock / FrameHeader / Stream", "from_parts, from_samples, from_specs, from_stream_info, with_stream_info"):
        "no function of their own: inlined where a translated constructor calls them (struct-literal bodies; `assert_eq!` becomes a panic condition)",
    ("Residual / QuantizedParameters", "from_parts"):
        "bodies use SIMD helpers / slice copies: read through the table VF_CTORS (body text compared with datatype.rs)",
    ("StreamInfo", "update_frame_info, set_md5_digest"): "not constructors / verify impls (min/max folding, slice copy); outside this part",
    ("Stream / Frame", "add_frame, add_metadata_block, add_subframe, precompute_bitstream, into_parts, into_stereo_channels, new_empty"):
        "mutators and destructors outside this part",
    ("impl Verify for the config structs", "(src/config.rs)"): "part `config`",
}

# the impls of `Verify` in verify.rs this part was written for
VF_VERIFY_IMPLS = ["Stream", "MetadataBlock", "MetadataBlockData", "StreamInfo", "Frame", "ChannelAssignment", "FrameHeader",
                   "SubFrame", "Constant", "Verbatim", "FixedLpc", "Lpc", "QuantizedParameters", "Residual"]


# ---- macro-by-example engine

class VfMacros:
    FRAGS = ("literal", "expr", "tt", "ident")

    def __init__(self):
        self.defs = {}      # name -> (file, [(pattern, body, body let-bound names)])
        self.counter = 0

    def load(self, fname, toks):
        for name, mt in wr_macro_defs(fname, toks).items():
            if name == "seq":
                continue
            if name in self.defs:
                fail(f"{fname}: macro `{name}!` is defined twice ({self.defs[name][0]}, {fname})")
            self.defs[name] = (fname, self.parse_def(fname, name, mt))

    # token trees
    def trees(self, toks, where):
        """flat token list -> list of trees: str | (open, [trees], close)"""
        pairs = {"(": ")", "[": "]", "{": "}"}
        out, stack = [], []
        cur = out
        for t in toks:
            if t in pairs:
                new = []
                stack.append((cur, t, new))
                cur = new
            elif t in pairs.values():
                if not stack or pairs[stack[-1][1]] != t:
                    fail(f"{where}: unbalanced `{t}`")
                parent, o, sub = stack.pop()
                parent.append((o, sub, t))
                cur = parent
            else:
                cur.append(t)
        if stack:
            fail(f"{where}: unbalanced brackets")
        return out

    def parse_def(self, fname, name, mt):
        where = f"{fname}: macro_rules! {name}"
        if mt[:3] != ["macro_rules", "!", name] or mt[3] != "{" or mt[-1] != "}":
            fail(f"{where}: unexpected shape")
        tr = self.trees(mt[4:-1], where)
        rules = []
        i = 0
        while i < len(tr):
            if not isinstance(tr[i], tuple) or i + 2 >= len(tr) + 0 and False:
                fail(f"{where}: expected a matcher")
            if i + 2 >= len(tr) or tr[i + 1] != "=>" or not isinstance(tr[i + 2], tuple):
                fail(f"{where}: expected `(matcher) => {{ transcriber }}`")
            pat = self.parse_matcher(tr[i][1], where)
            body = self.parse_transcriber(tr[i + 2][1], where)
            rules.append((pat, body, self.let_names(tr[i + 2][1])))
            i += 3
            if i < len(tr):
                if tr[i] != ";":
                    fail(f"{where}: expected `;` between rules")
                i += 1
        if not rules:
            fail(f"{where}: no rules")
        return rules

    def let_names(self, trees):
        """identifiers bound by `let` in the literal text of a transcriber (hygiene: renamed per expansion)"""
        out = set()

        def walk(ts):
            for j, t in enumerate(ts):
                if isinstance(t, tuple):
                    walk(t[1])
                elif t == "let":
                    k = j + 1
                    if k < len(ts) and ts[k] == "mut":
                        k += 1
                    if k < len(ts) and isinstance(ts[k], str) and re.fullmatch(r"[a-z_][a-z0-9_]*", ts[k]) and (k == 0 or ts[k - 1] != "$"):
                        out.add(ts[k])
        walk(trees)
        return out

    def parse_rep_tail(self, ts, i, where):
        """after `$( .. )`: optional separator, then `*`, `+` or `?` -> (sep, op, next index)"""
        if i < len(ts) and ts[i] in ("*", "+", "?"):
            return None, ts[i], i + 1
        if i + 1 < len(ts) and isinstance(ts[i], str) and ts[i + 1] in ("*", "+", "?"):
            return ts[i], ts[i + 1], i + 2
        fail(f"{where}: repetition without `*`, `+` or `?`")

    def parse_matcher(self, ts, where):
        out = []
        i = 0
        while i < len(ts):
            t = ts[i]
            if t == "$":
                nx = ts[i + 1] if i + 1 < len(ts) else None
                if isinstance(nx, tuple) and nx[0] == "(":
                    sub = self.parse_matcher(nx[1], where)
                    sep, op, i = self.parse_rep_tail(ts, i + 2, where)
                    out.append(("rep", sub, sep, op))
                    continue
                if isinstance(nx, str) and i + 3 < len(ts) + 0 and ts[i + 2] == ":" and isinstance(ts[i + 3], str):
                    frag = ts[i + 3]
                    if frag not in self.FRAGS:
                        fail(f"{where}: fragment specifier `{frag}` is not supported")
                    out.append(("var", nx, frag))
                    i += 4
                    continue
                fail(f"{where}: `$` in a matcher")
            if isinstance(t, tuple):
                out.append(("group", t[0], self.parse_matcher(t[1], where), t[2]))
            else:
                out.append(("tok", t))
            i += 1
        return out

    def parse_transcriber(self, ts, where):
        out = []
        i = 0
        while i < len(ts):
            t = ts[i]
            if t == "$":
                nx = ts[i + 1] if i + 1 < len(ts) else None
                if isinstance(nx, tuple) and nx[0] == "(":
                    sub = self.parse_transcriber(nx[1], where)
                    sep, op, i = self.parse_rep_tail(ts, i + 2, where)
                    out.append(("rep", sub, sep, op))
                    continue
                if isinstance(nx, str) and re.fullmatch(r"[A-Za-z_][A-Za-z0-9_]*", nx):
                    if nx == "crate":
                        fail(f"{where}: `$crate`")
                    out.append(("var", nx))
                    i += 2
                    continue
                fail(f"{where}: `$` in a transcriber")
            if isinstance(t, tuple):
                out.append(("group", t[0], self.parse_transcriber(t[1], where), t[2]))
            else:
                out.append(("tok", t))
            i += 1
        return out

    # matching against a flat token list
    def group_end(self, toks, i, where):
        pairs = {"(": ")", "[": "]", "{": "}"}
        stack = []
        while i < len(toks):
            if toks[i] in pairs:
                stack.append(pairs[toks[i]])
            elif toks[i] in pairs.values():
                if not stack or stack.pop() != toks[i]:
                    fail(f"{where}: unbalanced bracket")
                if not stack:
                    return i + 1
            i += 1
        fail(f"{where}: unbalanced brackets")

    def match_frag(self, frag, toks, p, end, where):
        """-> index after the fragment, or None"""
        if p >= end:
            return None
        t = toks[p]
        if frag == "literal":
            if t.startswith('"') or re.fullmatch(r"\d.*", t) or t in ("true", "false") or t.startswith("'") and t.endswith("'") and len(t) > 2:
                return p + 1
            if t == "-" and p + 1 < end and re.fullmatch(r"\d.*", toks[p + 1]):
                return p + 2
            return None
        if frag == "ident":
            return p + 1 if re.fullmatch(r"[A-Za-z_][A-Za-z0-9_]*", t) and t not in HDR_KEYWORDS else None
        if frag == "tt":
            if t in ("(", "[", "{"):
                return self.group_end(toks, p, where)
            if t in (")", "]", "}"):
                return None
            return p + 1
        if frag == "expr":
            if t in (")", "]", "}", ",", ";", "=>", "..", "..="):
                return None     # not the start of an expression (`..hi` range expressions are not supported: never matched as expr)
            ps = VfParser(toks, p, end, where, None)
            ps.scan_only = True
            ps.expr()
            if ps.peek() in ("..", "..="):
                fail(f"{where}: range expression as an `expr` fragment")
            return ps.p
        fail(f"{where}: fragment `{frag}`")

    def match_seq(self, pats, toks, p, end, binds, where):
        for pi, pt in enumerate(pats):
            k = pt[0]
            if k == "tok":
                if p >= end or toks[p] != pt[1]:
                    return None
                p += 1
            elif k == "var":
                q = self.match_frag(pt[2], toks, p, end, where)
                if q is None:
                    return None
                if pt[1] in binds:
                    fail(f"{where}: metavariable `${pt[1]}` bound twice")
                binds[pt[1]] = (pt[2], toks[p:q])
                p = q
            elif k == "group":
                if p >= end or toks[p] != pt[1]:
                    return None
                q = self.group_end(toks, p, where)
                if toks[q - 1] != pt[3]:
                    return None
                r = self.match_seq(pt[2], toks, p + 1, q - 1, binds, where)
                if r is None or r != q - 1:
                    return None
                p = q
            elif k == "rep":
                sub, sep, op = pt[1], pt[2], pt[3]
                names = self.rep_vars(sub)
                its = []
                after_sep = False
                while True:
                    b2 = {}
                    q = self.match_seq(sub, toks, p, end, b2, where) if p < end else None
                    if q is None or q == p:
                        if after_sep:
                            return None     # a separator must be followed by another repetition
                        break
                    its.append(b2)
                    p = q
                    after_sep = False
                    if op == "?":
                        break
                    if sep is not None:
                        if p < end and toks[p] == sep:
                            p += 1
                            after_sep = True
                        else:
                            break
                if op == "+" and not its:
                    return None
                for n in names:
                    binds[n] = ("rep", [b.get(n) for b in its])
            else:
                fail(f"{where}: matcher element {k}")
        return p

    def rep_vars(self, pats):
        out = []
        for pt in pats:
            if pt[0] == "var":
                out.append(pt[1])
            elif pt[0] in ("group", "rep"):
                out += self.rep_vars(pt[2] if pt[0] == "group" else pt[1])
        return out

    def transcribe(self, body, binds, rename, where):
        out = []
        for b in body:
            k = b[0]
            if k == "tok":
                out.append(rename.get(b[1], b[1]))
            elif k == "var":
                if b[1] not in binds:
                    fail(f"{where}: unbound metavariable `${b[1]}`")
                frag, ts = binds[b[1]]
                if frag == "rep":
                    fail(f"{where}: `${b[1]}` used outside its repetition")
                out += (["("] + ts + [")"]) if frag == "expr" else ts
            elif k == "group":
                out += [b[1]] + self.transcribe(b[2], binds, rename, where) + [b[3]]
            elif k == "rep":
                names = [n for n in self.body_vars(b[1]) if n in binds and binds[n][0] == "rep"]
                if not names:
                    fail(f"{where}: repetition without a repeated metavariable")
                counts = {len(binds[n][1]) for n in names}
                if len(counts) != 1:
                    fail(f"{where}: metavariables of one repetition matched different numbers of times")
                n_it = counts.pop()
                for j in range(n_it):
                    b2 = dict(binds)
                    for n in names:
                        b2[n] = binds[n][1][j]
                    if j and b[2] is not None:
                        out.append(b[2])
                    out += self.transcribe(b[1], b2, rename, where)
        return out

    def body_vars(self, body):
        out = []
        for b in body:
            if b[0] == "var":
                out.append(b[1])
            elif b[0] == "group":
                out += self.body_vars(b[2])
            elif b[0] == "rep":
                out += self.body_vars(b[1])
        return out

    def expand(self, name, toks, where):
        """one expansion step -> (token list, {metavariable: (fragment kind, tokens)})"""
        fname, rules = self.defs[name]
        for pat, body, lets in rules:
            binds = {}
            q = self.match_seq(pat, toks, 0, len(toks), binds, f"{where}: {name}!")
            if q is not None and q == len(toks):
                self.counter += 1
                rename = {n: f"{n}_m{self.counter}" for n in lets}
                return self.transcribe(body, binds, rename, f"{where}: {name}!"), binds
        fail(f"{where}: no rule of `{name}!` matches `{' '.join(toks)}`")

# ---- parser: WrParser + struct literals, signed literals / casts, tuple patterns in `for`, `|()|` closures,
# `[x; n]`, and macro invocations (user macros are expanded and the expansion is parsed in place)

class VfParser(WrParser):
    def __init__(self, toks, lo, hi, where, macros):
        WrParser.__init__(self, toks, lo, hi, where)
        self.macros = macros
        self.scan_only = False      # only find the extent of an expression (macro fragment matching): no expansion
        self.struct_ok = True       # a `Path { .. }` here is a struct literal (not in `if` / `match` / `for` heads)
        self.depth = 0

    def sub(self, toks):
        ps = VfParser(toks, 0, len(toks), self.where, self.macros)
        ps.scan_only = self.scan_only
        ps.depth = self.depth + 1
        return ps

    def block(self):
        save, self.struct_ok = self.struct_ok, True
        try:
            return WrParser.block(self)
        finally:
            self.struct_ok = save

    def args(self):
        save, self.struct_ok = self.struct_ok, True
        try:
            return WrParser.args(self)
        finally:
            self.struct_ok = save

    def head_expr(self):
        save, self.struct_ok = self.struct_ok, False
        try:
            return self.expr()
        finally:
            self.struct_ok = save

    def cast(self):
        e = self.unary()
        while self.peek() == "as":
            self.p += 1
            ty = self.peek()
            if ty not in HDR_BITS and ty not in VF_SBITS:
                self.err(f"cast to unsupported type {ty!r}")
            self.p += 1
            e = ("cast", e, ty)
        return e

    def if_(self):
        self.eat("if")
        if self.peek() == "let":
            self.p += 1
            pat = self.pattern()
            if self.peek() == "|":
                self.err("or-pattern in if-let")
            self.eat("=")
            scrut = self.head_expr()
            then = self.block()
            els = None
            if self.peek() == "else":
                self.p += 1
                els = self.if_() if self.peek() == "if" else self.block()
            return ("iflet", pat, scrut, then, els)
        cond = self.head_expr()
        then = self.block()
        els = None
        if self.peek() == "else":
            self.p += 1
            els = self.if_() if self.peek() == "if" else self.block()
        return ("if", cond, then, els)

    def match(self):
        self.eat("match")
        scrut = self.head_expr()
        self.eat("{")
        save, self.struct_ok = self.struct_ok, True
        arms = []
        while True:
            self.skip_attrs()
            if self.peek() == "}":
                self.p += 1
                break
            if self.peek() == "|":
                self.p += 1
            alts = [self.pattern()]
            while self.peek() == "|":
                self.p += 1
                alts.append(self.pattern())
            guard = None
            if self.peek() == "if":
                self.p += 1
                guard = self.expr()
            self.eat("=>")
            if self.peek() == "{":
                body = self.block()
                if self.peek() == ",":
                    self.p += 1
                elif self.peek() in (".", "?"):
                    self.err("method call on a block arm")
            else:
                body = self.expr()
                if self.peek() == ",":
                    self.p += 1
                elif self.peek() != "}":
                    self.err(f"expected `,` or `}}` after match arm, found {self.peek()!r}")
            arms.append((alts, guard, body))
        self.struct_ok = save
        if not arms:
            self.err("match without arms")
        return ("match", scrut, arms)

    def pattern(self):
        # `Variant(ref x)` / `Variant(ref mut x)` bind by reference: the same value for a pure reading
        if self.is_ident(self.peek()) or self.peek() == "Self":
            start = self.p
            try:
                segs = self.path()
            except Unreadable:
                self.p = start
                return WrParser.pattern(self)
            if self.peek() == "(" :
                j = self.p + 1
                d = 1
                toks = list(self.t)
                k = j
                changed = False
                while d > 0 and k < self.hi:
                    if toks[k] == "(":
                        d += 1
                    elif toks[k] == ")":
                        d -= 1
                    k += 1
                inner = toks[j:k - 1]
                if "ref" in inner:
                    new = []
                    i2 = 0
                    while i2 < len(inner):
                        if inner[i2] == "ref":
                            i2 += 1
                            if i2 < len(inner) and inner[i2] == "mut":
                                i2 += 1
                            continue
                        new.append(inner[i2])
                        i2 += 1
                    ps = VfParser(toks[start:j] + new + [")"], 0, (j - start) + len(new) + 1, self.where, self.macros)
                    pat = WrParser.pattern(ps)
                    self.p = k
                    return pat
            self.p = start
        return WrParser.pattern(self)

    def for_pat(self):
        x = self.peek()
        if x == "(":
            self.p += 1
            items = []
            while self.peek() != ")":
                items.append(self.for_pat())
                if self.peek() == ",":
                    self.p += 1
                elif self.peek() != ")":
                    self.err("tuple pattern of `for`")
            self.p += 1
            if len(items) < 2:
                self.err("tuple pattern of `for`")
            return ("tup", tuple(items))
        if x == "&":
            self.err("reference pattern of `for`")
        if not (self.is_ident(x) or x == "_") or not re.fullmatch(r"[a-z_][a-z0-9_]*", x):
            self.err(f"pattern of `for`: {x!r}")
        self.p += 1
        return x

    def for_(self):
        self.eat("for")
        v = self.for_pat()
        self.eat("in")
        save, self.struct_ok = self.struct_ok, False
        it = self.expr()
        if self.peek() == "..":
            self.p += 1
            it = ("range", it, self.expr())
        elif self.peek() == "..=":
            self.err("inclusive range")
        self.struct_ok = save
        body = self.block()
        return ("for", v, it, body)

    def while_(self):
        self.err("`while` loop")

    def path(self):
        """`A::<T>::f`: the generic arguments are kept in the segment (`A<T>`)"""
        segs = [self.peek()]
        self.p += 1
        while self.peek() == "::":
            self.p += 1
            if self.peek() == "<":
                g = self.generic_toks()
                segs[-1] += "<" + "".join(g) + ">"
                continue
            if not self.is_ident(self.peek()):
                self.err("path segment")
            segs.append(self.peek())
            self.p += 1
        return segs

    def closure_params(self):
        ps = []
        while self.peek() != "|":
            if self.peek() == "(" and self.peek(1) == ")":
                self.p += 2
                ps.append(("()", None))
            elif self.peek() == "_":
                self.p += 1
                ps.append(("_", None))
            else:
                if not self.is_ident(self.peek()):
                    self.err("closure parameter")
                nm = self.peek()
                self.p += 1
                ty = None
                if self.peek() == ":":
                    self.p += 1
                    ty = self.type_until((",", "|"))
                ps.append((nm, ty))
            if self.peek() == ",":
                self.p += 1
            elif self.peek() != "|":
                self.err("closure parameter list")
        self.p += 1
        return ps

    def primary(self):
        x = self.peek()
        if x is None:
            self.err("unexpected end of input")
        if x == "|":
            self.p += 1
            ps = self.closure_params()
            return ("closure", ps, self.expr())
        if x == "(":
            save, self.struct_ok = self.struct_ok, True
            try:
                return WrParser.primary(self)
            finally:
                self.struct_ok = save
        if x == "[":
            save, self.struct_ok = self.struct_ok, True
            try:
                self.p += 1
                items = []
                while self.peek() != "]":
                    items.append(self.expr())
                    if self.peek() == ",":
                        self.p += 1
                    elif self.peek() == ";" and len(items) == 1:
                        self.p += 1
                        n = self.expr()
                        self.eat("]")
                        return ("arrayrep", items[0], n)
                    elif self.peek() != "]":
                        self.err("array literal")
                self.p += 1
                return ("array", items)
            finally:
                self.struct_ok = save
        if x == "vec" and self.peek(1) == "!" and self.peek(2) == "[" and self.peek(3) == "]":
            self.p += 4     # std: vec![] is the empty vector
            return ("array", [])
        m = re.fullmatch(r"(0x[0-9A-Fa-f_]+|0b[01_]+|0o[0-7_]+|\d[\d_]*)(i8|i16|i32|i64|isize)", x)
        if m:
            self.p += 1
            return ("int", int(m.group(1).replace("_", ""), 0), m.group(2))
        if (x == "Self" or (self.is_ident(x) and x[0].isupper())) and self.peek(1) != "!":
            start = self.p
            segs = self.path()
            if self.peek() == "{" and self.struct_ok and (segs[-1] == "Self" or segs[-1][0].isupper()):
                return self.struct_lit(segs)
            self.p = start
        return WrParser.primary(self)

    def struct_lit(self, segs):
        self.eat("{")
        save, self.struct_ok = self.struct_ok, True
        fields = []
        while self.peek() != "}":
            self.skip_attrs()
            if self.peek() == "..":
                self.err("struct update syntax `..base`")
            f = self.peek()
            if not self.is_ident(f):
                self.err(f"struct literal field {f!r}")
            self.p += 1
            if self.peek() == ":":
                self.p += 1
                e = self.expr()
            else:
                e = ("var", f)
            if any(g == f for g, _ in fields):
                self.err(f"struct literal: field `{f}` twice")
            fields.append((f, e))
            if self.peek() == ",":
                self.p += 1
            elif self.peek() != "}":
                self.err("struct literal")
        self.p += 1
        self.struct_ok = save
        return ("structlit", segs, fields)

    def macro(self, name, toks):
        if name in ("assert", "debug_assert"):
            return WrParser.macro(self, name, toks)
        if name in ("assert_eq", "debug_assert_eq"):
            # std: assert_eq!(a, b [, msg..]) panics unless a == b
            ps = self.sub(toks)
            a = ps.expr()
            ps.eat(",")
            b = ps.expr()
            if ps.peek() is not None and ps.peek() != ",":
                ps.err(f"{name}! arguments")
            return ("assert", ("bin", "==", a, b), name.startswith("debug"))
        if name == "format":
            # std: format!(literal [, args]) is a String; only the argument-free form (inline `{name}` captures are not
            # evaluated here: a captured name is a plain local) is accepted
            if not toks or not toks[0].startswith('"') or any(t != "," for t in toks[1:]):
                self.err("format! with explicit arguments")
            return ("format", toks[0])
        if name in ("panic", "unreachable") and all(x.startswith('"') for x in toks):
            return ("panic",)
        if self.macros is not None and name in self.macros.defs:
            if self.scan_only:
                return ("macro", name, toks)
            if self.depth > 24:
                self.err(f"macro expansion of {name}! is too deep")
            out, binds = self.macros.expand(name, toks, self.where)
            ps = self.sub(out)
            e = ps.expr()
            if ps.peek() is not None:
                ps.err(f"expansion of {name}! is not one expression")
            return ("mexp", name, e, {k: v for k, v in binds.items()})
        self.err(f"macro {name}!")

# ---- translation

class VfK:
    """Result kind of the function / block being translated: "V" = Result<(), VerifyError> (Lean `VR`),
    "C" = Result<T, VerifyError> (Lean `CR T`)."""

    def __init__(self, kind, rty=None, state=None):
        """state: Lean name(s) of the mutable state threaded through (`self` of a `&mut self` method returning a Result,
        the `let mut` variables a loop body assigns): the outcome is then `Option (Bool × state)`"""
        self.kind, self.rty, self.state = kind, rty, state
        if state is not None:
            self.err = f"(false, {state})"
        else:
            self.err = "false" if kind == "V" else "none"

    def unit(self):
        return f"some (true, {self.state})" if self.state is not None else "some true"

    def state_names(self):
        return [] if self.state is None else [x.strip() for x in self.state.strip("()").split(",")]


def vf_req(c, rest):
    if c is None or c == "true":
        return rest
    return f"req {wr_par(c)} <|\n{rest}"


class VfTx(WrTx):
    def __init__(self, files, gen_defs, hdr_done, hdr_enums, macros, cinfo, use_max):
        WrTx.__init__(self, files, gen_defs, {}, hdr_done, use_max)
        self.hdr_enums = hdr_enums      # enums of part `headers`: name -> [(variant, payload types, disc, explicit)]
        self.macros = macros
        self.corder, self.cdefs, self.cvalues = cinfo   # constant.rs (part `constants`)
        self.aliases = {}               # file -> {local name -> full constant name}
        self.cur_file = None
        self.struct_defs = {}           # Rust struct name -> [(field, type toks)] (datatype.rs)
        self.lines = []                 # Lean text of helper functions translated on demand
        self.on_demand = []             # (owner, name) of helpers translated on demand (reported)
        self.probes = {}                # macro name -> (param types, lean name)
        self.used_readings = set()
        self.need_inhabited = []        # Lean types that need `deriving instance Inhabited` (a `default` stands where Rust panics)
        self.sink = None

    # ------------------------------------------------------------ types
    def ty(self, toks):
        t = [x for x in toks if not x.startswith("'")]
        while t and t[0] in ("&", "mut"):
            t = t[1:]
        s = "".join(t)
        if s == "str":
            return "str"
        if s == "Result<(),VerifyError>":
            return "vres"
        m = re.fullmatch(r"Result<(.+),VerifyError>", s)
        if m:
            inner = hdr_lex(m.group(1), self.where)
            return ("cres", self.ty(inner))
        if s in VF_GENERATED:
            return ("st", s)
        if t[:3] == ["heapless", "::", "Vec"]:
            return WrTx.ty(self, t)
        return WrTx.ty(self, toks)

    def lty(self, ty):
        if ty == "vres":
            return "VR"
        if ty == "str":
            self.err("a string value has no Lean counterpart")
        if isinstance(ty, tuple) and ty[0] == "cres":
            return "CR " + wr_par(self.lty_value(ty[1]))
        if isinstance(ty, tuple) and ty[0] == "st":
            n = ty[1]
            if n in WR_GENERATED:
                return f"FlacVerif.Gen.Writer.{n}"
            if n in VF_GENERATED:
                return n
        return WrTx.lty(self, ty)

    def lty_value(self, ty):
        """Lean type of a component VALUE (a view type is its model structure / inductive)"""
        if isinstance(ty, tuple) and ty[0] == "st" and ty[1] in WR_MODEL:
            info = WR_MODEL[ty[1]]
            if info["kind"] == "ctor":
                return info["of"]
            if info["kind"] == "part":
                return VF_PART[ty[1]][0]
        return self.lty(ty)

    def default(self, ty):
        """a value of the type, used where Rust panics (the exactness condition is false there)"""
        if wr_is_u(ty) or wr_is_s(ty):
            return "0"
        if isinstance(ty, tuple) and ty[0] == "st":
            self.inhabited(ty)
            return "default"
        self.err(f"no default value for {ty!r}")

    def inhabited(self, ty):
        T = ty[1]
        if T in WR_MODEL and WR_MODEL[T]["kind"] == "struct":
            lt = WR_MODEL[T]["lean"]
        elif T in self.gen and self.gen[T][0] == "struct" and T in WR_GENERATED:
            for f, fty in self.gen[T][1]:
                if isinstance(fty, tuple) and fty[0] == "st":
                    self.inhabited(fty)
            lt = self.lty(ty)
        else:
            self.err(f"no default value for {T}")
        if lt not in self.need_inhabited:
            self.need_inhabited.append(lt)

    def is_view(self, ty):
        return isinstance(ty, tuple) and ty[0] == "st" and ty[1] in WR_MODEL and WR_MODEL[ty[1]]["kind"] in ("ctor", "part")

    def view_fields(self, T):
        info = WR_MODEL[T]
        return [f for f, _ in info["fields"]] if info["kind"] == "ctor" else list(info["fields"])

    def value_of(self, v):
        """Lean text of the model VALUE of a component value (views are packed into their constructor / structure)"""
        if self.is_view(v.ty):
            T = v.ty[1]
            info = WR_MODEL[T]
            args = " ".join(wr_par(v.view[f]) for f in self.view_fields(T))
            if info["kind"] == "ctor":
                return f"({info['of']}.{info['ctor']} {args})"
            return f"({VF_PART[T][0]}.mk {args})"
        if v.lean is None:
            self.err("component value without a Lean term")
        return v.lean

    def param_value(self, name, ty):
        """-> (Lean binders, WrVar) of a parameter `name` of Rust type ty"""
        ln = wr_mangle(name)
        if self.is_view(ty):
            T = ty[1]
            info = WR_MODEL[T]
            if info["kind"] == "part":
                return [f"({ln} : {VF_PART[T][0]})"], WrVar(None, ty, None, {f: f"{ln}.{f}" for f in info["fields"]})
            self.err(f"parameter of type {T} (a constructor view)")
        return [f"({ln} : {self.lty(ty)})"], WrVar(ln, ty)

    def self_value(self, owner):
        if owner in WR_MODEL and WR_MODEL[owner]["kind"] == "part":
            info = WR_MODEL[owner]
            return [f"(self : {VF_PART[owner][0]})"], WV(None, ("st", owner), view={f: f"self.{f}" for f in info["fields"]})
        if owner in self.hdr_enums:
            return [f"(self : FlacVerif.Gen.Headers.{owner})"], WV("self", ("hdr", owner))
        if owner in self.gen and owner in WR_GENERATED:
            return [f"(self : FlacVerif.Gen.Writer.{owner})"], WV("self", ("st", owner))
        return WrTx.self_value(self, owner)

    def call_args(self, v):
        if self.is_view(v.ty) and WR_MODEL[v.ty[1]]["kind"] == "part":
            return self.value_of(v)
        return WrTx.call_args(self, v)

    # ------------------------------------------------------------ constants of constant.rs
    def load_aliases(self, fname):
        t = self.files[fname].toks
        out = {}
        i = 0
        while i < len(t):
            if t[i] == "use" and t[i + 1:i + 4] == ["crate", "::", "constant"]:
                j = i + 4
                segs = []
                while t[j] == "::":
                    if t[j + 1] == "{":
                        segs = None     # `use crate::constant::{..}`: not understood; names stay unknown (fail closed on use)
                        break
                    segs.append(t[j + 1])
                    j += 2
                if segs:
                    local = segs[-1]
                    if t[j] == "as":
                        local = t[j + 1]
                        j += 2
                    if t[j] == ";":
                        out[local] = ".".join(segs)
            i += 1
        self.aliases[fname] = out

    def constant(self, full):
        if full not in self.cdefs or self.cvalues.get(full) is None or isinstance(self.cvalues[full], tuple):
            self.err(f"`{full.replace('.', '::')}` is not an integer constant of constant.rs")
        ty = self.cdefs[full][0]
        v = self.cvalues[full]
        lean = "FlacVerif.Gen.Const." + full.replace(".", "_")
        if wr_is_s(ty) and v >= 0:
            lean = f"(({lean} : Nat) : Int)"     # Gen/Constants.lean declares non-negative constants as Nat
        # lit stays None: the VALUE is never used by the translator, only the name
        return WV(lean, ty)

    # ------------------------------------------------------------ struct literals, constructor functions
    def field_map(self, T):
        """Rust field -> model field (or "@Part"), derived from the accessor table: accessors whose body is
        `self.f`, `&self.f` or `self.f as <int>` and whose template is one model field."""
        info = WR_MODEL[T]
        out = {}
        for m, (body, tmpl) in info["acc"].items():
            bt = hdr_lex(body, "WR_MODEL")
            if bt and bt[0] == "&":
                bt = bt[1:]
            if len(bt) == 5 and bt[3] == "as" and (bt[4] in HDR_BITS or bt[4] in VF_SBITS):
                bt = bt[:3]
            if not (len(bt) == 3 and bt[0] == "self" and bt[1] == "."):
                continue
            if tmpl.startswith("@"):
                tgt = tmpl
            else:
                fm = re.fullmatch(r"\{self\}\.(\w+)", tmpl) if info["kind"] == "struct" else re.fullmatch(r"\{(\w+)\}", tmpl)
                if not fm:
                    continue
                tgt = fm.group(1)
            # the table entry must be the current accessor
            dt, rec = self.dt_fn(T, m)
            lo, hi = rec["body"]
            if dt.toks[lo + 1:hi - 1] != hdr_lex(body, "WR_MODEL"):
                self.err(f"datatype.rs: body of the accessor {T}::{m} is `{wr_body_text(dt, rec)}`, the accessor table "
                         f"was written for `{body}`")
            if bt[2] in out and out[bt[2]] != tgt:
                self.err(f"{T}: field `{bt[2]}` is mapped to two model fields")
            out[bt[2]] = tgt
        return out

    def model_field(self, T, f):
        """Rust field f of the model struct T -> (model field, Rust type of f)"""
        if T not in self.struct_defs:
            self.err(f"datatype.rs: struct {T} not found")
        decl = dict(self.struct_defs[T])
        if f not in decl:
            self.err(f"{T} has no field `{f}`")
        fmap = self.field_map(T)
        if f not in fmap or fmap[f].startswith("@"):
            self.err(f"{T}: the Rust field `{f}` has no model field in the accessor table")
        save = self.owner
        self.owner = T
        try:
            fty = self.ty(decl[f])
        finally:
            self.owner = save
        return fmap[f], fty

    def struct_value(self, T, fields, env):
        """`T { f: e, .. }` -> WV; fields = [(rust field, expr AST)]"""
        if T in self.gen and self.gen[T][0] == "struct":
            decl = self.gen[T][1]
            names = [f for f, _ in decl]
            if sorted(f for f, _ in fields) != sorted(names):
                self.err(f"struct literal of {T}: fields {[f for f, _ in fields]}, the struct has {names}")
            parts, exs = [], []
            for f, e in fields:
                fty = dict(decl)[f]
                v = self.tx_as(e, env, fty, f"{T}.{f}")
                if fty == "bool":
                    val = {"True": "true", "False": "false"}.get(v.lean, f"decide {wr_par(v.lean)}")
                else:
                    val = self.value_of(v) if isinstance(fty, tuple) and fty[0] == 'st' else v.lean
                parts.append(f"{wr_mangle(f)} := {val}")
                exs.append(v.ex)
            return WV("({ " + ", ".join(parts) + " } : " + self.lty(("st", T)) + ")", ("st", T), wr_and(*exs))
        if T not in WR_MODEL or WR_MODEL[T]["kind"] not in ("struct", "ctor"):
            self.err(f"struct literal of {T}")
        if T not in self.struct_defs:
            self.err(f"datatype.rs: struct {T} not found")
        decl = self.struct_defs[T]
        names = [f for f, _ in decl]
        if sorted(f for f, _ in fields) != sorted(names):
            self.err(f"struct literal of {T}: fields {sorted(f for f, _ in fields)}, the struct has {sorted(names)}")
        fmap = self.field_map(T)
        info = WR_MODEL[T]
        save = self.owner
        vals, exs = {}, []
        for f, e in fields:
            if f not in fmap:
                self.err(f"{T}: the Rust field `{f}` has no model field in the accessor table")
            self.owner = T
            fty = self.ty(dict(decl)[f])
            self.owner = save
            v = self.tx_as(e, env, fty, f"{T}.{f}")
            exs.append(v.ex)
            tgt = fmap[f]
            if tgt.startswith("@"):
                P = tgt[1:]
                if v.ty != ("st", P) or v.view is None:
                    self.err(f"{T}.{f}: expected a {P} value")
                for g in WR_MODEL[P]["fields"]:
                    vals[g] = v.view[g]
            else:
                vals[tgt] = self.value_of(v) if isinstance(v.ty, tuple) and v.ty[0] == "st" else v.lean
        if info["kind"] == "ctor":
            want = [f for f, _ in info["fields"]]
            if sorted(vals) != sorted(want):
                self.err(f"struct literal of {T}: model fields {sorted(vals)}, the constructor has {sorted(want)}")
            return WV(None, ("st", T), wr_and(*exs), view=vals)
        lean = "({ " + ", ".join(f"{k} := {v}" for k, v in vals.items()) + " } : " + info["lean"] + ")"
        return WV(lean, ("st", T), wr_and(*exs))

    def tx_as(self, e, env, ty, what):
        """translate e where a value of Rust type ty is expected"""
        v = self.tx(e, env, ty)
        if v.ty is None and v.lit is not None and not isinstance(v.lit, tuple) and (wr_is_u(ty) or wr_is_s(ty)):
            self.fits(v.lit, ty, what)
            return WV(v.lean, ty, v.ex, v.lit)
        if v.ty == ("opt", None) and isinstance(ty, tuple) and ty[0] == "opt":
            return WV(v.lean, ty, v.ex)
        if v.ty == ("list", None) and isinstance(ty, tuple) and ty[0] == "list":
            for x in (v.lit or []):
                if not isinstance(x, int):
                    self.err(f"{what}: array literal")
                self.fits(x, ty[1], what)
            return WV(v.lean, ty, v.ex)
        if v.ty != ty:
            self.err(f"{what}: value of type {v.ty!r}, expected {ty!r}")
        return v

    def ctor_call(self, T, fn, args, env):
        """`T::fn(args)` building a component value: inlined (struct literal body) or read from VF_CTORS"""
        dt, rec = self.dt_fn(T, fn)
        save_owner, save_where = self.owner, self.where
        self.owner = T
        try:
            ret = self.ty(rec["ret"])
            if ret != ("st", T):
                self.err(f"{T}::{fn} does not return Self")
            pnames, ptys = [], []
            for p in rec["params"]:
                if len(p) < 3 or p[1] != ":" or p[0] in ("self", "mut"):
                    self.err(f"{T}::{fn}: parameter `{' '.join(p)}`")
                pnames.append(p[0])
                ptys.append(self.ty(p[2:]))
        finally:
            self.owner = save_owner
        if len(args) != len(pnames):
            self.err(f"{T}::{fn}: arity")
        vals = [self.tx_as(a, env, pt, f"{T}::{fn}") for a, pt in zip(args, ptys)]
        exs = [v.ex for v in vals]
        if (T, fn) in VF_CTORS:
            ent = VF_CTORS[(T, fn)]
            lo, hi = rec["body"]
            if dt.toks[lo + 1:hi - 1] != hdr_lex(ent["body"], "VF_CTORS") or pnames != ent["params"]:
                self.err(f"datatype.rs: `{T}::{fn}` changed: the table VF_CTORS was written for another body / parameter list "
                         f"(now `{wr_body_text(dt, rec)}`)")
            sub = {n: wr_par(self.value_of(v) if isinstance(v.ty, tuple) and v.ty[0] == "st" else v.lean) for n, v in zip(pnames, vals)}
            fields = {k: t.format(**sub) for k, t in ent["fields"].items()}
            ex = wr_and(*exs, ent["ex"].format(**sub) if ent["ex"] else None)
            info = WR_MODEL[T]
            if info["kind"] == "struct":
                return WV("({ " + ", ".join(f"{k} := {v}" for k, v in fields.items()) + " } : " + info["lean"] + ")", ("st", T), ex)
            return WV(None, ("st", T), ex, view=fields)
        # inline: parameters are bound to the (pure) argument values; assertions become panic conditions
        ps = VfParser(dt.toks, rec["body"][0], rec["body"][1], f"datatype.rs: fn {T}.{fn}", self.macros)
        body = ps.block()
        env2 = {}
        for n, v in zip(pnames, vals):
            env2[n] = WrVar(v.lean, v.ty, v.lit if not isinstance(v.lit, tuple) else None, v.view)
        self.owner, self.where = T, f"datatype.rs: fn {T}.{fn} (inlined)"
        try:
            for st in body[1]:
                if st[0] != "assert":
                    self.err(f"statement of kind `{st[0]}` in a constructor function that is inlined")
                c = self.tx(st[1], env2)
                if c.ty != "bool":
                    self.err("assertion on a non-boolean")
                exs += [c.ex, f"decide {wr_par(c.lean)}"]
            if body[2] is None or body[2][0] != "structlit" or body[2][1] not in (["Self"], [T]):
                self.err("the body is not a struct literal of Self")
            v = self.struct_value(T, body[2][2], env2)
        finally:
            self.owner, self.where = save_owner, save_where
        return WV(v.lean, v.ty, wr_and(*exs, v.ex), None, v.view)

    # ------------------------------------------------------------ expressions
    def tx(self, e, env, want=None):
        k = e[0]
        if k == "var":
            name = e[1]
            if name not in env and name != "self" and name in self.aliases.get(self.cur_file, {}):
                return self.constant(self.aliases[self.cur_file][name])
            if name == "None" and name not in env:
                return WV("none", ("opt", None))
            return WrTx.tx(self, e, env, want)
        if k == "path":
            segs = e[1]
            if segs[:2] == ["crate", "constant"] and len(segs) >= 3:
                return self.constant(".".join(segs[2:]))
            if len(segs) == 2 and (segs[0] in HDR_BITS or segs[0] in VF_SBITS) and segs[1] in ("MAX", "MIN"):
                T = segs[0]
                w = wr_bits(T)
                v = (2 ** w - 1 if segs[1] == "MAX" else 0) if T in HDR_BITS else (2 ** (w - 1) - 1 if segs[1] == "MAX" else -2 ** (w - 1))
                return WV(str(v) if v >= 0 else f"({v})", T, None, v)
            if len(segs) == 2 and (segs[0] in self.hdr_enums or (segs[0] == "Self" and self.owner in self.hdr_enums)):
                en = self.owner if segs[0] == "Self" else segs[0]
                for v, payload, _, _ in self.hdr_enums[en]:
                    if v == segs[1]:
                        if payload:
                            self.err(f"`{en}::{v}` used as a value")
                        return WV(f"FlacVerif.Gen.Headers.{en}.{v}", ("hdr", en))
                self.err(f"`{'::'.join(segs)}`: no such variant")
            return WrTx.tx(self, e, env, want)
        if k == "field":
            r = self.tx(e[1], env)
            if isinstance(r.ty, tuple) and r.ty[0] == "st" and r.ty[1] in WR_MODEL and WR_MODEL[r.ty[1]]["kind"] == "struct":
                T = r.ty[1]
                lf, fty = self.model_field(T, e[2])
                return WV(f"{r.lean}.{lf}", fty, r.ex)
            return WrTx.tx(self, e, env, want)
        if k == "str":
            return WV('""', "str")
        if k == "format":
            return WV('""', "str")
        if k == "structlit":
            segs = e[1]
            if segs == ["Self"]:
                T = self.owner
                return self.struct_value(T, e[2], env)
            if len(segs) == 1:
                return self.struct_value(segs[0], e[2], env)
            if len(segs) == 2:
                T = self.owner if segs[0] == "Self" else segs[0]
                return self.variant_value(T, segs[1], e[2], env)
            self.err(f"struct literal `{'::'.join(segs)}`")
        if k == "arrayrep":
            x = self.tx(e[1], env, want[1] if isinstance(want, tuple) and want[0] == "list" else None)
            n = self.tx(e[2], env, "usize")
            if n.lit is None or isinstance(n.lit, tuple):
                self.err("array repeat expression whose length is not a literal")
            ety = x.ty if x.ty is not None else (want[1] if isinstance(want, tuple) and want[0] == "list" else None)
            if x.ty is None:
                if x.lit is None or ety is None:
                    self.err("array repeat expression: element of unknown type")
                self.fits(x.lit, ety, "array element")
            return WV(f"(List.replicate {n.lean} {wr_par(x.lean)})", ("list", ety), wr_and(x.ex, n.ex))
        if k == "panic":
            return WV("default", "any", "false")
        if k == "iflet":
            pat, scrut, then, els = e[1], e[2], e[3], e[4]
            if els is None:
                self.err("`if let` without `else` used as a value")
            head, rows = self.any_arms(scrut, [([pat], None, then), ([("wild",)], None, els)], env)
            vals = [self.tx(b, env2, want) for _, env2, b in rows]
            tys = [v.ty for v in vals if v.ty != "any"]
            if not tys or any(x != tys[0] for x in tys):
                self.err("`if let` branches of different types")
            for v in vals:
                if v.ty == "any":
                    v.lean = self.default(tys[0])
            lean = "(" + head + "\n".join(f"  | {p} => {wr_ind(v.lean if not self.is_view(v.ty) else self.value_of(v), 4).lstrip()}" for (p, _, _), v in zip(rows, vals)) + ")"
            if self.is_view(tys[0]):
                self.err("`if let` whose value is a constructor view")
            ex = None
            if any(v.ex is not None for v in vals):
                ex = "(" + head + "\n".join(f"  | {p} => {wr_ind(v.ex or 'true', 4).lstrip()}" for (p, _, _), v in zip(rows, vals)) + ")"
            return WV(lean, tys[0], ex)
        if k == "index":
            r = self.tx(e[1], env)
            if isinstance(r.ty, tuple) and r.ty[0] == "list" and isinstance(r.ty[1], tuple) and r.ty[1][0] == "st":
                i = self.tx_as(e[2], env, "usize", "index")
                if self.is_view(r.ty[1]):
                    self.err("indexing a list of constructor views")
                return WV(f"({r.lean}.getD {wr_par(i.lean)} {self.default(r.ty[1])})", r.ty[1],
                          wr_and(r.ex, i.ex, f"decide ({i.lean} < {r.lean}.length)"))
            return WrTx.tx(self, e, env, want)
        if k == "mexp":
            self.err(f"`{e[1]}!` used as a plain value")
        if k == "closure":
            self.err("closure in an unsupported position")
        return WrTx.tx(self, e, env, want)

    def variant_value(self, T, v, fields, env):
        if T not in self.gen or self.gen[T][0] != "enum":
            self.err(f"struct literal of `{T}::{v}`")
        for vn, vk, decl in self.gen[T][1]:
            if vn == v:
                if vk != "struct":
                    self.err(f"`{T}::{v}` is not a struct-like variant")
                if sorted(f for f, _ in fields) != sorted(f for f, _ in decl):
                    self.err(f"struct literal of {T}::{v}: fields")
                given = dict(fields)
                vals = [self.tx_as(given[f], env, fty, f"{T}::{v}.{f}") for f, fty in decl]
                return WV(f"({self.lty(('st', T))}.{v} " + " ".join(wr_par(x.lean) for x in vals) + ")", ("st", T),
                          wr_and(*[x.ex for x in vals]))
        self.err(f"{T} has no variant {v}")

    def tx_cast(self, e, env):
        T = e[2]
        if T in HDR_BITS:
            return WrTx.tx_cast(self, e, env)
        inner = self.tx(e[1], env)
        w = VF_SBITS[T]
        if inner.ty is None:
            if inner.lit is None:
                self.err("cast of an expression of unknown integer type")
            self.fits(inner.lit, T, "cast")
            return WV(inner.lean, T, inner.ex, inner.lit)
        if wr_is_u(inner.ty):
            # `as` to a signed type: reinterpretation modulo 2^w, never a panic
            return WV(f"(Int.bmod (({inner.lean} : Nat) : Int) {2 ** w})", T, inner.ex)
        if wr_is_s(inner.ty):
            if VF_SBITS[inner.ty] <= w:
                return WV(inner.lean, T, inner.ex, inner.lit)
            return WV(f"(Int.bmod {inner.lean} {2 ** w})", T, inner.ex)
        self.err(f"cast from {inner.ty!r} to {T}")

    def tx_bin(self, e, env, want):
        op = e[1]
        if op in ("==", "!="):
            try:
                l = self.tx(e[2], env)
                r = self.tx(e[3], env)
            except Unreadable:
                l = r = None
            if l is not None and isinstance(l.ty, tuple) and l.ty[0] == "hdr" and l.ty == r.ty:
                return WV(f"({l.lean} {'=' if op == '==' else '≠'} {r.lean})", "bool", wr_and(l.ex, r.ex))
        return WrTx.tx_bin(self, e, env, want)

    def tx_call(self, e, env, want):
        callee, args = e[1], e[2]
        if callee[0] == "path":
            segs = callee[1]
            if len(segs) == 2 and segs[0] in VF_SBITS and segs[1] == "from" and len(args) == 1:
                a = self.tx(args[0], env)
                T = segs[0]
                if wr_is_s(a.ty) and VF_SBITS[a.ty] <= VF_SBITS[T]:
                    return WV(a.lean, T, a.ex, a.lit)
                if wr_is_u(a.ty) and HDR_BITS[a.ty] < VF_SBITS[T]:
                    return WV(f"(({a.lean} : Nat) : Int)", T, a.ex, a.lit)
                self.err(f"{T}::from of {a.ty!r}")
            if segs == ["Vec", "from"] and len(args) == 1:
                a = self.tx(args[0], env, want)      # std: Vec::from(slice) copies the slice
                if not (isinstance(a.ty, tuple) and a.ty[0] == "list"):
                    self.err("Vec::from of something that is not a slice")
                self.used_readings.add("Vec::from")
                return a
            if len(segs) == 2:
                T = self.owner if segs[0] == "Self" else segs[0]
                if T in self.hdr_enums:
                    ln = f"{T}.{segs[1]}"
                    if ln in self.hdr and self.hdr[ln][1] != "writes":
                        ptys, rty, has_ex = self.hdr[ln]
                        # a variant constructor is not in the table; an associated function without `self` has all
                        # its parameters listed
                        dt = self.files["datatype.rs"]
                        rec = dt.impls.get((None, T), {}).get(segs[1])
                        if rec is not None and not any(p in (["self"], ["&", "self"]) for p in rec["params"]):
                            outs = self.typed_args(args, ptys, env, ln)
                            al = " ".join(wr_par(x.lean) for x in outs)
                            rt = self.norm_hdr_ty(rty)
                            return WV(f"(FlacVerif.Gen.Headers.{ln} {al})", rt,
                                      wr_and(*[x.ex for x in outs], f"FlacVerif.Gen.Headers.{ln}_exact {al}" if has_ex else None))
                    for v, payload, _, _ in self.hdr_enums[T]:
                        if v == segs[1] and payload:
                            outs = self.typed_args(args, list(payload), env, f"{T}::{v}")
                            return WV(f"(FlacVerif.Gen.Headers.{T}.{v} " + " ".join(wr_par(x.lean) for x in outs) + ")", ("hdr", T),
                                      wr_and(*[x.ex for x in outs]))
                    self.err(f"call of `{'::'.join(segs)}`")
                if T in self.gen and self.gen[T][0] == "enum" and any(vn == segs[1] and vk == "tuple" for vn, vk, _ in self.gen[T][1]):
                    decl = [d for vn, vk, d in self.gen[T][1] if vn == segs[1]][0]
                    if len(args) != len(decl):
                        self.err(f"{T}::{segs[1]}: arity")
                    vals = [self.tx_as(a, env, fty, f"{T}::{segs[1]}") for a, (_, fty) in zip(args, decl)]
                    return WV(f"({self.lty(('st', T))}.{segs[1]} " + " ".join(wr_par(self.value_of(x) if isinstance(x.ty, tuple) and x.ty[0] == 'st' else x.lean) for x in vals) + ")",
                              ("st", T), wr_and(*[x.ex for x in vals]))
                if (T in WR_MODEL or T in self.gen) and (T, segs[1]) not in self.fns:
                    dt = self.files["datatype.rs"]
                    rec = dt.impls.get((None, T), {}).get(segs[1])
                    if rec is not None and "".join(rec["ret"]) in ("Self", T) and not any(p[:1] == ["self"] or p[:2] == ["&", "self"] for p in rec["params"]):
                        return self.ctor_call(T, segs[1], args, env)
        return WrTx.tx_call(self, e, env, want)

    def tx_mcall(self, e, env, want):
        recv, name, args = e[1], e[2], e[3]
        gen = e[4] if len(e) > 4 else None
        if name == "fold" and len(args) == 2 and gen is None and args[1][0] == "closure" and len(args[1][1]) == 2:
            # std: Iterator::fold(init, |acc, x| body) over a slice iterator
            xs = self.tx(recv, env)
            if not (isinstance(xs.ty, tuple) and xs.ty[0] == "list"):
                self.err(".fold on something that is not a slice iterator")
            init = self.tx(args[0], env, want)
            ity = init.ty if init.ty is not None else want
            if not (wr_is_u(ity) or wr_is_s(ity)):
                self.err(".fold: accumulator of unknown type")
            (an, aty), (xn, xty) = args[1][1]
            if aty is not None or xty is not None or an in ("()", "_") or xn in ("()", "_"):
                self.err(".fold: closure parameters")
            env2 = dict(env)
            env2[an] = WrVar(wr_mangle(an), ity)
            env2[xn] = WrVar(wr_mangle(xn), xs.ty[1])
            b = self.tx(args[1][2], env2, ity)
            if b.ty != ity:
                self.err(f".fold: closure returns {b.ty!r}, accumulator is {ity!r}")
            f = f"(fun {wr_mangle(an)} {wr_mangle(xn)} => {b.lean})"
            ex = None
            if b.ex is not None:
                ex = f"foldOk {f} (fun {wr_mangle(an)} {wr_mangle(xn)} => {b.ex}) {wr_par(init.lean)} {wr_par(xs.lean)}"
            self.used_readings.add("Iterator::fold")
            return WV(f"(List.foldl {f} {wr_par(init.lean)} {wr_par(xs.lean)})", ity, wr_and(xs.ex, init.ex, ex))
        if recv[0] == "var" and recv[1] in env and env[recv[1]] is not None and env[recv[1]].ty == ("sink", "MemSink<u8>"):
            sv = env[recv[1]]
            if name == "into_inner" and not args and gen is None:
                if sv.view["ops"] is None:
                    return WV("[]", ("list", "u8"))
                # crate: MemSink::<u8>::into_inner() = the bytes the sink holds: not given a meaning here (a parameter)
                self.extra.setdefault("MemSink_u8_into_inner", "List FlacVerif.Op → List Nat")
                return WV(f"(MemSink_u8_into_inner {sv.view['ops']})", ("list", "u8"))
            self.err(f"`.{name}(..)` on a local sink")
        if name == "wrapping_add" and len(args) == 1 and gen is None:
            r = self.tx(recv, env, want)
            if not wr_is_u(r.ty):
                self.err(".wrapping_add on a value that is not an unsigned integer")
            a = self.tx_as(args[0], env, r.ty, "wrapping_add")
            self.used_readings.add("wrapping_add")
            return WV(f"(({r.lean} + {a.lean}) % {2 ** HDR_BITS[r.ty]})", r.ty, wr_and(r.ex, a.ex))
        r = None
        try:
            r = self.tx(recv, env)
        except Unreadable:
            r = None
        if r is not None and gen is None:
            if isinstance(r.ty, tuple) and r.ty[0] == "list":
                if name == "to_owned" and not args:
                    self.used_readings.add("to_owned")
                    return r
                if name == "is_empty" and not args:
                    return WV(f"({wr_par(r.lean)}.length = 0)", "bool", r.ex)
            if isinstance(r.ty, tuple) and r.ty[0] == "opt" and name == "expect" and len(args) == 1:
                m = self.tx(args[0], env)
                if m.ty != "str":
                    self.err(".expect with a non-string message")
                self.used_readings.add("Option::expect")
                return WV(f"(Option.getD {wr_par(r.lean)} {self.default(r.ty[1])})", r.ty[1],
                          wr_and(r.ex, f"Option.isSome {wr_par(r.lean)}"))
            if isinstance(r.ty, tuple) and r.ty[0] == "hdr":
                v = self.hdr_method(r, name, args, env)
                if v is not None:
                    return v
            if isinstance(r.ty, tuple) and r.ty[0] == "st":
                T = r.ty[1]
                if (T, name) in self.fns and self.fns[(T, name)]["ret"] in ("vres", "mut"):
                    self.err(f"`{T}::{name}` is not a plain value")
                if (T, name) not in self.fns and T in self.gen and not self.trivial_accessor(T, name):
                    self.helper(T, name)
        return WrTx.tx_mcall(self, e, env, want)

    def trivial_accessor(self, T, m):
        dt = self.files["datatype.rs"]
        rec = dt.impls.get((None, T), {}).get(m)
        if rec is None or rec["body"] is None:
            return True     # let the generic path report it
        lo, hi = rec["body"]
        b = dt.toks[lo + 1:hi - 1]
        if b and b[0] == "&":
            b = b[1:]
        if len(b) == 7 and b[3:] == [".", "as_ref", "(", ")"]:
            b = b[:3]
        return len(b) == 3 and b[0] == "self" and b[1] == "."

    def helper(self, T, name):
        """translate a pure method of a generated type on demand (emitted before its first user)"""
        save = (self.where, self.owner, self.extra, self.sink, self.cur_file)
        self.cur_file = "datatype.rs"
        try:
            L = WrTx.translate_fn(self, "datatype.rs", None, T, name)
        finally:
            self.where, self.owner, self.extra, self.sink, self.cur_file = save
        if self.fns[(T, name)]["extra"]:
            self.err(f"{T}::{name}: uninterpreted callees in a helper")
        self.lines += L
        self.on_demand.append((T, name))


    # ------------------------------------------------------------ Result-valued expressions and statements
    def harmless_closure(self, c, what):
        """closures that only build / relabel the error value: `|e| e.within(..)..`, `|_| VerifyError::new(..)`,
        `|()| VerifyError::new(..)`, `|| VerifyError::new(..)`"""
        if c[0] != "closure" or len(c[1]) > 1:
            self.err(f"{what}: not a closure of at most one parameter")
        pn = c[1][0][0] if c[1] and isinstance(c[1][0], tuple) else (c[1][0] if c[1] else None)
        b = c[2]
        while b[0] == "paren" or (b[0] == "block" and not b[1] and b[2] is not None):
            b = b[1] if b[0] == "paren" else b[2]

        def strarg(a):
            while a[0] == "paren" or (a[0] == "un" and a[1] == "&"):
                a = a[1] if a[0] == "paren" else a[2]
            return a[0] in ("str", "format")
        if b[0] == "call" and b[1] == ("path", ["VerifyError", "new"]) and len(b[2]) == 2 and all(strarg(a) for a in b[2]):
            return
        while b[0] == "mcall" and b[2] == "within" and len(b[3]) == 1 and strarg(b[3][0]):
            b = b[1]
        if pn is not None and b == ("var", pn) and b != c[2]:
            return
        self.err(f"{what}: the closure does more than building a VerifyError")

    def is_vres_call(self, e):
        return True

    def vres(self, e, env):
        """expression of type Result<(), VerifyError> -> Lean text of type VR"""
        k = e[0]
        if k == "paren":
            return self.vres(e[1], env)
        if k == "call" and e[1] == ("var", "Ok") and e[2] == [("unit",)]:
            return "some true"
        if k == "call" and e[1] == ("var", "Err") and len(e[2]) == 1:
            return "some false"
        if k == "mexp":
            p = self.probe_call(e, env)
            return p if p is not None else self.vres(e[2], env)
        if k == "block":
            return self.vwalk(e[1], 0, e[2], dict(env), VfK("V"))
        if k == "mcall":
            recv, name, args = e[1], e[2], e[3]
            if name == "map_err" and len(args) == 1:
                if args[0][0] == "closure":
                    self.harmless_closure(args[0], ".map_err")
                elif args[0][0] != "path":
                    self.err(".map_err argument")
                return self.vres(recv, env)
            if name == "and_then" and len(args) == 1:
                c = args[0]
                if not (c[0] == "closure" and len(c[1]) == 1 and c[1][0][0] == "()"):
                    self.err(".and_then: expected a closure `|()| ..`")
                a = self.vres(recv, env)
                b = self.vres(c[2], env)
                return f"andThen false {wr_par(a)} <|\n{b}"
            if True:
                r = self.tx(recv, env)
                if isinstance(r.ty, tuple) and r.ty[0] in ("st", "hdr"):
                    T = r.ty[1]
                    if (T, name) in self.fns and self.fns[(T, name)]["ret"] == "vres":
                        f = self.fns[(T, name)]
                        outs = self.typed_args(args, f["ptys"], env, f"{T}::{name}")
                        al = [self.call_args(r) if r.ty[0] == "st" else wr_par(r.lean)] + [wr_par(x.lean) for x in outs]
                        return vf_req(wr_and(r.ex, *[x.ex for x in outs]), self.vcall((T, name), al))
                    self.err(f"`{T}::{name}` is not a translated function returning Result<(), VerifyError>")
                self.err(f"method `.{name}(..)` on {r.ty!r} where a Result<(), VerifyError> is expected")
        if k == "call":
            callee, args = e[1], e[2]
            key = None
            if callee[0] == "var" and (None, callee[1]) in self.fns:
                key = (None, callee[1])
            elif callee[0] == "path":
                segs = callee[1]
                if segs[0] == "crate" and (None, segs[-1]) in self.fns and self.fns[(None, segs[-1])].get("path") == segs:
                    key = (None, segs[-1])
                elif len(segs) == 2:
                    o = self.owner if segs[0] == "Self" else segs[0]
                    if (o, segs[1]) in self.fns:
                        key = (o, segs[1])
            if key is not None and self.fns[key]["ret"] == "vres" and self.fns[key]["self_kind"] is None:
                f = self.fns[key]
                outs = self.str_args(args, f["ptys"], env, f["lean"])
                al = [wr_par(self.as_bool(x) if x.ty == "bool" else x.lean) for x in outs if x.ty != "str"]
                return vf_req(wr_and(*[x.ex for x in outs]), self.vcall(key, al))
            self.err("call of a function that is not a translated Result<(), VerifyError> function")
        if k == "if":
            c = self.tx(e[1], env)
            if c.ty != "bool":
                self.err("`if` condition is not a boolean")
            if e[3] is None:
                self.err("`if` without `else` as a Result value")
            a = self.vres(e[2], env)
            b = self.vres(e[3], env)
            return vf_req(c.ex, f"if {c.lean} then\n{wr_ind(wr_par(a))}\nelse\n{wr_ind(wr_par(b))}")
        if k == "match":
            rows = self.any_arms(e[1], e[2], env)
            return rows[0] + "\n".join(f"| {p} =>\n{wr_ind(self.vres(b, env2) if b[0] != 'block' else self.vwalk(b[1], 0, b[2], dict(env2), VfK('V')), 4)}"
                                       for p, env2, b in rows[1])
        self.err(f"expression of kind `{k}` where a Result<(), VerifyError> is expected")

    def vcall(self, key, args):
        """Lean text of a call of a translated function (its uninterpreted parameters are passed on)"""
        f = self.fns[key]
        for x, ty_ in f["extra_types"]:
            self.extra.setdefault(x, ty_)
        return " ".join([f["lean"]] + list(f["extra"]) + args)

    def str_args(self, args, ptys, env, what):
        if len(args) != len(ptys):
            self.err(f"{what}: arity")
        outs = []
        for a, pt in zip(args, ptys):
            if pt == "str":
                v = self.tx(a, env)
                if v.ty != "str":
                    self.err(f"{what}: a string is expected")
                outs.append(v)
            elif pt == "bool":
                v = self.tx(a, env)
                if v.ty != "bool":
                    self.err(f"{what}: a boolean is expected")
                outs.append(v)
            else:
                outs.append(self.tx_as(a, env, pt, what))
        return outs

    def probe_call(self, e, env):
        """a use of a helper macro whose arguments have the probe's types and cannot panic -> call of the probe"""
        name, binds = e[1], e[3]
        if name not in self.probes:
            return None
        ptys, lname, pnames = self.probes[name]
        exprs = [(n, b) for n, b in binds.items() if b[0] == "expr"]
        if [n for n, _ in exprs] != pnames or any(b[0] not in ("expr", "literal") for b in binds.values()):
            return None
        outs = []
        for (n, b), pt in zip(exprs, ptys):
            ps = VfParser(b[1], 0, len(b[1]), self.where, self.macros)
            a = ps.expr()
            if ps.peek() is not None:
                return None
            try:
                v = self.tx(a, env, pt)
            except Unreadable:
                return None
            if v.ty is None and v.lit is not None:
                return None
            if v.ty != pt or v.ex is not None:
                return None
            outs.append(v)
        return f"{lname} " + " ".join(wr_par(v.lean) for v in outs)

    def any_arms(self, scrut, arms, env):
        """match on a component enum (model / generated) or on an enum of part `headers`
        -> (`match x with\n`, [(lean pattern, env, body)])"""
        s = scrut
        while s[0] == "paren" or (s[0] == "un" and s[1] in ("*", "&")):
            s = s[1] if s[0] == "paren" else s[2]
        sv = self.tx(s, env)
        if isinstance(sv.ty, tuple) and sv.ty[0] == "hdr":
            if sv.ex is not None:
                self.err("match scrutinee that may panic")
            en = sv.ty[1]
            variants = {v: payload for v, payload, _, _ in self.hdr_enums[en]}
            out, seen, total = [], set(), False
            for alts, guard, body in arms:
                if guard is not None:
                    self.err("guard in a match on an enum")
                if total:
                    self.err("match arm after a wildcard arm")
                pats, binds = [], None
                for a in alts:
                    if a[0] == "wild":
                        pats.append("_")
                        b = {}
                        total = True
                    elif a[0] == "variant" and len(a[1]) == 2 and (a[1][0] == en or (a[1][0] == "Self" and self.owner == en)) and a[1][1] in variants:
                        v = a[1][1]
                        if v in seen:
                            self.err(f"variant {v} matched twice")
                        seen.add(v)
                        payload = variants[v]
                        if len(a[2]) != len(payload):
                            self.err(f"pattern {en}::{v}: arity")
                        b = {}
                        parts = []
                        for sp, pt in zip(a[2], payload):
                            if sp[0] == "wild":
                                parts.append("_")
                            else:
                                b[sp[1]] = pt
                                parts.append(wr_mangle(sp[1]))
                        pats.append((f".{v} " + " ".join(parts)).strip())
                    else:
                        self.err(f"pattern in a match on {en}")
                    if binds is not None and binds != b:
                        self.err("or-pattern alternatives bind different names")
                    binds = b
                env2 = dict(env)
                for n, t in binds.items():
                    env2[n] = WrVar(wr_mangle(n), t)
                out.append((" | ".join(pats), env2, body))
            if not total and seen != set(variants):
                self.err(f"match on {en} does not cover {sorted(set(variants) - seen)}")
            return f"match {sv.lean} with\n", out
        if s[0] != "var":
            if sv.ex is not None or sv.lean is None:
                self.err("match scrutinee that may panic")
            env = dict(env)
            env["scrutinee__"] = WrVar(sv.lean, sv.ty, None, sv.view)
            scrut = ("var", "scrutinee__")
        sv2, rows = self.enum_arms(scrut, arms, env)
        if sv2.ex is not None:
            self.err("match scrutinee that may panic")
        return f"match {sv2.lean} with\n", [(p.strip(), env2, b) for p, env2, b in rows]

    def cexpr(self, e, env, following, want=None):
        """expression of type Result<T, E> / Option<T> turned into Result by `.map_err` / `.ok_or_else`, as it stands
        before a `?` -> (Lean text of type CR T, WV describing the bound value of type T)"""
        k = e[0]
        if k == "paren":
            return self.cexpr(e[1], env, following, want)
        if k == "mcall" and e[2] == "map_err" and len(e[3]) == 1:
            if e[3][0][0] == "closure":
                self.harmless_closure(e[3][0], ".map_err")
            elif e[3][0][0] != "path":
                self.err(".map_err argument")
            return self.cexpr(e[1], env, following, want)
        if k == "mcall" and e[2] == "try_into" and not e[3]:
            # std: <unsigned>::try_from(v): Err iff v does not fit the target type (the type of the place assigned)
            v = self.tx(e[1], env)
            if not (wr_is_u(v.ty) and wr_is_u(want)):
                self.err(f".try_into() from {v.ty!r} into {want!r}")
            self.used_readings.add("TryFrom between unsigned integers")
            return vf_req(v.ex, f"tryIntoC {HDR_BITS[want]} {wr_par(v.lean)}"), want
        if k == "mcall" and e[2] == "ok_or_else" and len(e[3]) == 1:
            # std: Option::ok_or_else(f): Some(v) -> Ok(v), None -> Err(f())
            self.harmless_closure(e[3][0], ".ok_or_else")
            o = self.tx(e[1], env)
            if not (isinstance(o.ty, tuple) and o.ty[0] == "opt"):
                self.err(".ok_or_else on something that is not an Option")
            self.used_readings.add("Option::ok_or_else")
            return vf_req(o.ex, f"some {wr_par(o.lean)}"), o.ty[1]
        if k == "call" and e[1] == ("path", ["heapless", "Vec", "from_slice"]) and len(e[2]) == 1:
            # std: heapless::Vec::<T, N>::from_slice(s): Err(()) if s.len() > N, else Ok(copy of s); N is the
            # capacity in the type of the parameter the result is passed to
            xs = self.tx(e[2][0], env)
            if not (isinstance(xs.ty, tuple) and xs.ty[0] == "list"):
                self.err("heapless::Vec::from_slice of something that is not a slice")
            cap = self.capacity(following, env)
            self.used_readings.add("heapless::Vec::from_slice")
            return vf_req(wr_and(xs.ex, cap.ex), f"fromSlice {wr_par(cap.lean)} {wr_par(xs.lean)}"), xs.ty
        if k == "call" and e[1][0] == "path" and len(e[1][1]) == 2:
            segs = e[1][1]
            o = self.owner if segs[0] == "Self" else segs[0]
            if (o, segs[1]) in self.fns and isinstance(self.fns[(o, segs[1])]["ret"], tuple) and self.fns[(o, segs[1])]["ret"][0] == "cres":
                f = self.fns[(o, segs[1])]
                outs = self.typed_args(e[2], f["ptys"], env, f["lean"])
                al = [wr_par(self.value_of(x) if isinstance(x.ty, tuple) and x.ty[0] == "st" else x.lean) for x in outs]
                return vf_req(wr_and(*[x.ex for x in outs]), self.vcall((o, segs[1]), al)), f["ret"][1]
        self.err(f"`?` on an expression of kind `{k}` that is not understood")

    def capacity(self, following, env):
        """the `let` being translated binds a heapless::Vec; find `T::f(.., <name>, ..)` among the following statements
        and read the capacity from the type of that parameter"""
        name, nodes = following
        found = []

        def walk(n):
            if isinstance(n, tuple):
                if n[:1] == ("call",) and n[1][0] == "path" and len(n[1][1]) == 2:
                    for i, a in enumerate(n[2]):
                        if a == ("var", name):
                            found.append((n[1][1], i))
                for x in n:
                    walk(x)
            elif isinstance(n, list):
                for x in n:
                    walk(x)
        walk(nodes)
        caps = []
        for segs, i in found:
            T = self.owner if segs[0] == "Self" else segs[0]
            dt = self.files["datatype.rs"]
            rec = dt.impls.get((None, T), {}).get(segs[1])
            if rec is None or i >= len(rec["params"]):
                continue
            p = rec["params"][i]
            t = p[2:]
            if t[:4] == ["heapless", "::", "Vec", "<"] and t[-1] == ">":
                parts = wr_split_top(t[4:-1])
                if len(parts) == 2:
                    caps.append(tuple(parts[1]))
        if len(set(caps)) != 1:
            self.err(f"cannot determine the capacity of the heapless::Vec bound to `{name}`")
        ct = list(caps[0])
        ps = VfParser(ct, 0, len(ct), self.where, self.macros)
        ce = ps.expr()
        if ps.peek() is not None:
            self.err("capacity expression")
        c = self.tx(ce, env, "usize")
        if c.ty not in ("usize", None):
            self.err("capacity of a type other than usize")
        return c

    def infer_use_type(self, name, nodes, env):
        """integer type of a `let` whose initialiser does not determine it: the type of the other operand of the
        first comparison / arithmetic operation that uses the variable"""
        res = []

        def strip(x):
            while isinstance(x, tuple) and x and x[0] == "paren":
                x = x[1]
            return x

        def walk(n):
            if res:
                return
            if isinstance(n, tuple):
                if n[:1] == ("bin",) and n[1] not in ("&&", "||", "<<", ">>"):
                    for a, b in ((n[2], n[3]), (n[3], n[2])):
                        if strip(a) == ("var", name):
                            try:
                                v = self.tx(b, env)
                            except Unreadable:
                                continue
                            if wr_is_u(v.ty) or wr_is_s(v.ty):
                                res.append(v.ty)
                                return
                for x in n:
                    walk(x)
            elif isinstance(n, list):
                for x in n:
                    walk(x)
        walk(nodes)
        return res[0] if res else None

    def vwalk(self, stmts, i, tail, env, K):
        if i == len(stmts):
            return self.vfinish(tail, env, K)
        st = stmts[i]
        k = st[0]

        def rest(env2=env):
            return self.vwalk(stmts, i + 1, tail, env2, K)

        following = [stmts[i + 1:], tail]
        if k == "let":
            pat, tytoks, init = st[1], st[2], st[3]
            if pat[0] != "bind":
                self.err("tuple pattern in `let`")
            name, mut = pat[1], pat[2]
            want = self.ty(tytoks) if tytoks is not None else None
            if init[0] == "try":
                lean, vty = self.cexpr(init[1], env, (name, following))
                if want is not None and want != vty:
                    self.err(f"`let` declares {want!r}, initialiser has type {vty!r}")
                env2 = dict(env)
                env2[name] = WrVar(wr_mangle(name), vty, None, None, mut)
                return f"bindC {K.err} {wr_par(lean)} fun {wr_mangle(name)} =>\n{rest(env2)}"
            if init[0] == "call" and init[1][0] == "path" and init[1][1] in (["MemSink<u8>", "with_capacity"], ["MemSink<u8>", "new"]):
                # crate: a fresh `MemSink<u8>` (src/bitsink.rs); what it holds is a function of the operations it receives
                exs = []
                if init[1][1][1] == "with_capacity":
                    if len(init[2]) != 1:
                        self.err("MemSink::with_capacity arity")
                    exs.append(self.tx_as(init[2][0], env, "usize", "with_capacity").ex)    # capacity only; still evaluated
                elif init[2]:
                    self.err("MemSink::new arity")
                env2 = dict(env)
                env2[name] = WrVar(None, ("sink", "MemSink<u8>"), None, {"ops": None}, mut)
                self.used_readings.add("MemSink<u8> (fresh local sink: never fails; content = function of the operations received)")
                return vf_req(wr_and(*exs), rest(env2))
            if init[0] == "mcall" and init[2] == "collect" and not init[3]:
                # std: Iterator::collect into the declared Vec
                src = self.tx(init[1], env)
                if not (isinstance(src.ty, tuple) and src.ty[0] == "list") or (want is not None and want != src.ty):
                    self.err(".collect() of something that is not an iterator of the declared element type")
                self.used_readings.add("Iterator::collect")
                v = src
            else:
                try:
                    v = self.tx(init, env, want)
                except Unreadable as ex:
                    t = None
                    if want is None and ("cannot infer the integer type" in str(ex) or "unknown type" in str(ex) or "untyped" in str(ex)):
                        t = self.infer_use_type(name, following, env)
                    if t is None:
                        raise
                    v = self.tx(init, env, t)
                    if v.ty is None:
                        v.ty = t
            if want is not None:
                if v.ty is None and v.lit is not None and not isinstance(v.lit, tuple):
                    self.fits(v.lit, want, "let")
                    v.ty = want
                elif v.ty != want:
                    self.err(f"`let` declares {want!r}, initialiser has type {v.ty!r}")
            env2 = dict(env)
            if v.lean is None:      # a component view: an alias
                env2[name] = WrVar(None, v.ty, None, v.view, mut)
                return vf_req(v.ex, rest(env2))
            if v.ty == "str":
                self.err("`let` of a string")
            env2[name] = WrVar(wr_mangle(name), v.ty, v.lit if not isinstance(v.lit, tuple) else None, None, mut)
            val = f"decide {wr_par(v.lean)}" if v.ty == "bool" else v.lean
            r = rest(env2)
            body = f"let {wr_mangle(name)} :=\n{wr_ind(val)}\n{r}" if "\n" in val else f"let {wr_mangle(name)} := {val}\n{r}"
            return vf_req(v.ex, body)
        if k == "assert":
            c = self.tx(st[1], env)
            if c.ty != "bool":
                self.err("assertion on a non-boolean")
            return vf_req(wr_and(c.ex, f"decide {wr_par(c.lean)}"), rest())
        if k == "try":
            x = st[1]
            w = self.sink_write(x, env)
            if w is not None:
                sname, lean, ex = w
                env2 = dict(env)
                opsn = wr_mangle(sname) + "_ops"
                env2[sname] = WrVar(None, ("sink", "MemSink<u8>"), None, {"ops": opsn}, True)
                return vf_req(ex, f"bindOps {K.err} {wr_par(lean)} fun {opsn} =>\n{rest(env2)}")
            return self.vseq(K, self.vres(x, env), rest())
        if k == "for":
            text, carried = self.vfor(st, env)
            if carried is None:
                return self.vseq(K, text, rest())
            M, state = carried
            env2 = dict(env)
            for n in M:
                env2[n] = WrVar(wr_mangle(n), env[n].ty, None, None, True)
            return f"bindVS {K.err} {wr_par(text)} fun {state} =>\n{rest(env2)}"
        if k == "if" and self.early_err(st) is not None:
            c = self.tx(self.early_err(st), env)
            if c.ty != "bool":
                self.err("early-return condition")
            return vf_req(c.ex, f"if {c.lean} then some {K.err} else\n{rest()}")
        if k == "if":
            if st[3] is not None:
                self.err("`if .. else ..` as a statement")
            c = self.tx(st[1], env)
            if c.ty != "bool":
                self.err("`if` condition is not a boolean")
            a = self.vwalk(self.unit_block(st[2]), 0, None, dict(env), VfK("V"))
            return self.vseq(K, vf_req(c.ex, f"if {c.lean} then\n{wr_ind(wr_par(a))}\nelse some true"), rest())
        if k == "iflet":
            pat, scrut, then, els = st[1], st[2], st[3], st[4]
            if els is not None:
                self.err("`if let .. else ..` as a statement")
            then = ("block", self.unit_block(then), None)
            sv = self.tx(scrut, env)
            if isinstance(sv.ty, tuple) and sv.ty[0] == "opt":
                if not (pat[0] == "variant" and pat[1] == ["Some"] and len(pat[2]) == 1 and pat[2][0][0] == "bind"):
                    self.err("if-let pattern other than `Some(x)`")
                nm = pat[2][0][1]
                env2 = dict(env)
                env2[nm] = WrVar(wr_mangle(nm), sv.ty[1])
                a = self.vwalk(then[1], 0, None, env2, VfK("V"))
                m = f"match {sv.lean} with\n| some {wr_mangle(nm)} =>\n{wr_ind(a, 4)}\n| none => some true"
                return self.vseq(K, vf_req(sv.ex, m), rest())
            head, rows = self.any_arms(scrut, [([pat], None, then), ([("wild",)], None, ("block", [], None))], env)
            m = head + "\n".join(f"| {p} =>\n{wr_ind(self.vwalk(b[1], 0, None, dict(env2), VfK('V')), 4)}" for p, env2, b in rows)
            return self.vseq(K, m, rest())
        if k == "assign" and st[1] == "=" and st[2][0] == "field" and st[2][1] == ("var", "self") and K.state == "self":
            # `self.f = e;` / `self.f = e?;` in a `&mut self` method: the new `self` is visible to everything after it,
            # also when a later check fails
            f = st[2][2]
            T = self.owner
            if T in WR_MODEL and WR_MODEL[T]["kind"] == "struct":
                lf, fty = self.model_field(T, f)
            else:
                lf, fty = wr_mangle(f), self.field_ty(T, f)
            if st[3][0] == "try":
                lean, vty = self.cexpr(st[3][1], env, (None, following), fty)
                if vty != fty:
                    self.err(f"assignment of a {vty!r} to `self.{f}` of type {fty!r}")
                return f"bindC {K.err} {wr_par(lean)} fun v_ =>\nlet self := {{ self with {lf} := v_ }}\n{rest()}"
            v = self.tx_as(st[3], env, fty, f"self.{f}")
            val = f"decide {wr_par(v.lean)}" if fty == "bool" else v.lean
            return vf_req(v.ex, f"let self := {{ self with {lf} := {val} }}\n{rest()}")
        if k == "assign" and st[2][0] == "var" and K.state is not None and wr_mangle(st[2][1]) in K.state_names():
            name = st[2][1]
            cur = env.get(name)
            if cur is None or not cur.mut:
                self.err(f"assignment to `{name}`, which is not a `let mut` local")
            rhs = st[3] if st[1] == "=" else ("bin", st[1][:-1], ("var", name), st[3])
            v = self.tx_as(rhs, env, cur.ty, f"`{name}`") if cur.ty is not None else self.tx(rhs, env)
            env2 = dict(env)
            env2[name] = WrVar(wr_mangle(name), v.ty, None, None, True)
            return vf_req(v.ex, f"let {wr_mangle(name)} := {v.lean}\n{rest(env2)}")
        if k == "mcall" and st[1][0] == "var" and st[1][1] in env and env[st[1][1]] is not None:
            tv = env[st[1][1]]
            if isinstance(tv.ty, tuple) and tv.ty[0] == "st" and (tv.ty[1], st[2]) in self.fns and self.fns[(tv.ty[1], st[2])]["ret"] == "mut":
                if not tv.mut or tv.lean is None:
                    self.err(f"`{st[1][1]}.{st[2]}(..)`: the receiver is not a `let mut` local")
                f = self.fns[(tv.ty[1], st[2])]
                outs = self.typed_args(st[3], f["ptys"], env, f["lean"])
                al = [tv.lean] + [wr_par(x.lean) for x in outs]
                env2 = dict(env)
                env2[st[1][1]] = WrVar(tv.lean, tv.ty, None, None, True)
                return vf_req(wr_and(*[x.ex for x in outs]), f"let {tv.lean} := {self.vcall((tv.ty[1], st[2]), al)}\n{rest(env2)}")
        self.err(f"statement of kind `{k}`" + (f" (.{st[2]})" if k == "mcall" else ""))

    def sink_write(self, x, env):
        """`<component>.write(&mut <fresh local sink>).map_err(|_| VerifyError::new(..))` -> (sink name, W term, exactness)"""
        while x[0] == "paren":
            x = x[1]
        if not (x[0] == "mcall" and x[2] == "map_err" and len(x[3]) == 1 and x[1][0] == "mcall" and x[1][2] == "write" and len(x[1][3]) == 1):
            return None
        a = x[1][3][0]
        while a[0] == "paren" or (a[0] == "un" and a[1] == "&"):
            a = a[1] if a[0] == "paren" else a[2]
        if a[0] != "var" or a[1] not in env or env[a[1]] is None or env[a[1]].ty != ("sink", "MemSink<u8>"):
            return None
        sv = env[a[1]]
        if sv.view["ops"] is not None or not sv.mut:
            self.err(f"`{a[1]}` is written a second time (only one write into a fresh local sink is understood)")
        self.harmless_closure(x[3][0], ".map_err")
        r = self.tx(x[1][1], env)
        if not (isinstance(r.ty, tuple) and r.ty[0] == "st" and (r.ty[1], "write") in self.fns and self.fns[(r.ty[1], "write")]["ret"] == "writes"):
            self.err("`.write(..)` of something that has no translated writer")
        f = self.fns[(r.ty[1], "write")]
        lean = self.vcall((r.ty[1], "write"), [self.call_args(r)])
        ex = wr_and(r.ex, lean.replace(f["lean"], f["lean"] + "_exact", 1) if f["has_ex"] else None)
        return a[1], lean, ex

    def unit_block(self, b):
        """statements of a block of type `()`: a final `for` / `if` without else is a statement, not a value"""
        if b[2] is None:
            return b[1]
        if b[2][0] == "for" or (b[2][0] in ("if", "iflet") and b[2][-1] is None):
            return list(b[1]) + [b[2]]
        self.err("a block of type `()` that ends in a value")

    def early_err(self, st):
        """`if c { return Err(..); }` -> c"""
        if st[0] == "if" and st[3] is None and st[2][0] == "block":
            b = st[2]
            r = None
            if len(b[1]) == 1 and b[2] is None:
                r = b[1][0]
            elif not b[1] and b[2] is not None:
                r = b[2]
            if r is not None and r[0] == "return" and r[1] is not None:
                v = r[1]
                while v[0] == "paren":
                    v = v[1]
                if v[0] == "call" and v[1] == ("var", "Err") and len(v[2]) == 1:
                    a = v[2][0]
                    if not (a[0] == "call" and a[1] == ("path", ["VerifyError", "new"])):
                        self.err("early return of something other than Err(VerifyError::new(..))")
                    return st[1]
                self.err("early return of something other than Err(..)")
        return None

    def has_try(self, n):
        if isinstance(n, tuple):
            return n[:1] == ("try",) or any(self.has_try(x) for x in n)
        if isinstance(n, list):
            return any(self.has_try(x) for x in n)
        return False

    def vseq(self, K, a, rest):
        if K.kind == "V" and K.state is None and rest == "some true":
            return a
        return f"andThen {K.err} {wr_par(a)} <|\n{rest}"

    def vfinish(self, tail, env, K):
        if tail is None:
            if K.kind != "V":
                self.err("a constructor body without a final value")
            return K.unit()
        t = tail
        while t[0] == "paren":
            t = t[1]
        if t[0] == "call" and t[1] == ("var", "Ok") and len(t[2]) == 1:
            if t[2] == [("unit",)]:
                if K.kind != "V":
                    self.err("Ok(()) in a constructor")
                return K.unit()
            if K.kind != "C":
                self.err("Ok(value) in a function returning Result<(), _>")
            tries = []

            def hoist(n):
                """`f(g(x)?)`: the `?`-expressions are evaluated first, in source order (arguments are evaluated left to
                right, and nothing else in the accepted subset has an effect)"""
                if isinstance(n, tuple):
                    if n[:1] == ("try",):
                        inner = hoist(n[1])
                        nm = f"ok_{len(tries)}__"
                        tries.append((nm, inner))
                        return ("var", nm)
                    if n[:1] in (("closure",), ("mexp",), ("block",), ("if",), ("match",), ("iflet",)):
                        if self.has_try(n):
                            self.err("`?` inside a closure, block or branch of the returned value")
                        return n
                    return tuple(hoist(x) for x in n)
                if isinstance(n, list):
                    return [hoist(x) for x in n]
                return n
            arg = hoist(t[2][0])
            if tries:
                env = dict(env)
                pre = []
                for nm, inner in tries:
                    lean, vty = self.cexpr(inner, env, (None, []))
                    env[nm] = WrVar(nm, vty)
                    pre.append(f"bindC {K.err} {wr_par(lean)} fun {nm} =>\n")
                v = self.tx(arg, env, K.rty)
                if v.ty != K.rty:
                    self.err(f"Ok(..) of a {v.ty!r}, the function returns {K.rty!r}")
                val = self.value_of(v) if isinstance(v.ty, tuple) and v.ty[0] == "st" else v.lean
                return "".join(pre) + vf_req(v.ex, f"some (some {wr_par(val)})")
            v = self.tx(t[2][0], env, K.rty)
            if v.ty != K.rty:
                self.err(f"Ok(..) of a {v.ty!r}, the function returns {K.rty!r}")
            val = self.value_of(v) if isinstance(v.ty, tuple) and v.ty[0] == "st" else v.lean
            return vf_req(v.ex, f"some (some {wr_par(val)})")
        if K.kind == "V":
            a = self.vres(t, env)
            return a if K.state is None else f"andThen {K.err} {wr_par(a)} <|\n{K.unit()}"
        self.err(f"final expression of kind `{t[0]}` in a constructor")

    # ---- loops
    def loop_source(self, it, env):
        """iterator expression of a `for` -> (Lean list, exactness, element type, has_index)"""
        if it[0] == "range":
            vals, vex, ety = WrTx.loop_values(self, it, env)
            # countUp a b 1 over `0..n`
            return vals, vex, ety, False
        x = it
        idx = False
        if x[0] == "mcall" and x[2] == "enumerate" and not x[3]:
            idx = True      # std: Iterator::enumerate pairs each element with its position, from 0
            x = x[1]
            self.used_readings.add("Iterator::enumerate")
        if x[0] == "mcall" and x[2] == "zip" and len(x[3]) == 1:
            a, _, at, ai = self.loop_source(x[1], env)
            b, _, bt, bi = self.loop_source(x[3][0], env)
            if ai or bi:
                self.err("zip of enumerated iterators")
            self.used_readings.add("Iterator::zip")
            return f"List.zip {wr_par(a)} {wr_par(b)}", None, ("tuple", (at, bt)), idx
        v = self.tx(x, env)
        if not (isinstance(v.ty, tuple) and v.ty[0] == "list"):
            self.err(f"`for` over a value of type {v.ty!r}")
        if v.ex is not None:
            self.err("`for` over a list expression that may panic")
        return v.lean, None, v.ty[1], idx

    def bind_pat(self, pat, ety, env2):
        """-> Lean binder for an element of type ety"""
        if isinstance(pat, str):
            if pat == "_":
                return "_"
            if self.is_view(ety) or (isinstance(ety, tuple) and ety[0] == "st" and ety[1] in WR_MODEL and WR_MODEL[ety[1]]["kind"] == "enum") or True:
                env2[pat] = WrVar(wr_mangle(pat), ety)
            return wr_mangle(pat)
        if pat[0] == "tup":
            if not (isinstance(ety, tuple) and ety[0] == "tuple" and len(ety[1]) == len(pat[1])):
                self.err("tuple pattern on elements that are not tuples of that size")
            return "(" + ", ".join(self.bind_pat(p, t, env2) for p, t in zip(pat[1], ety[1])) + ")"
        self.err("pattern of `for`")

    def vfor(self, st, env):
        pat, it, body = st[1], st[2], st[3]
        body = ("block", self.unit_block(body), None)
        vals, vex, ety, idx = self.loop_source(it, env)
        env2 = dict(env)
        if idx:
            if not (isinstance(pat, tuple) and pat[0] == "tup" and len(pat[1]) == 2 and isinstance(pat[1][0], str)):
                self.err("pattern of a `for` over `.enumerate()`")
            iv = pat[1][0]
            if iv != "_" and self.mentions(body, iv):
                b_el = self.bind_pat(pat[1][1], ety, env2)
                env2[iv] = WrVar(wr_mangle(iv), "usize")
                binder = f"({b_el}, {wr_mangle(iv)})"
                vals = f"List.zipIdx {wr_par(vals)}"
            else:
                binder = self.bind_pat(pat[1][1], ety, env2)
        else:
            binder = self.bind_pat(pat, ety, env2)
        M = [n for n in self.assigned(("block", body[1], None), set()) if n in env and env[n] is not None]
        if not M:
            b = self.vwalk(body[1], 0, None, env2, VfK("V"))
            return vf_req(vex, f"forV {wr_par(vals)} (fun {binder} =>\n{wr_ind(b, 4)})"), None
        # the body assigns `let mut` locals of the enclosing block: they are threaded through the iterations
        for n in M:
            if not env[n].mut or env[n].lean is None or env[n].ty is None:
                self.err(f"loop body assigns `{n}`, which is not a typed `let mut` local")
            env2[n] = WrVar(wr_mangle(n), env[n].ty, None, None, True)
        names = [wr_mangle(n) for n in M]
        state = names[0] if len(names) == 1 else "(" + ", ".join(names) + ")"
        b = self.vwalk(body[1], 0, None, env2, VfK("V", None, state))
        return vf_req(vex, f"forVS {wr_par(vals)} {state} (fun {binder} {state} =>\n{wr_ind(b, 4)})"), (M, state)

    # ------------------------------------------------------------ functions
    def vf_function(self, fname, trait, owner, name, kind):
        items = self.files[fname]
        table = items.fns if owner is None else items.impls.get((trait, owner))
        what = f"{fname}: " + (f"impl {(trait + ' for ') if trait else ''}{owner}" if owner else "free functions")
        if table is None:
            fail(f"{what} not found")
        if name not in table:
            fail(f"{what}: fn {name} not found")
        rec = table[name]
        lname = f"{owner}.{name}" if owner else name
        self.where = f"{fname}: fn {lname}"
        self.owner = owner
        self.cur_file = fname
        self.extra = {}
        if rec["body"] is None:
            self.err("no body")
        if any(a.startswith("#[cfg") for a in rec["attrs"]):
            self.err("conditionally compiled function")
        env, lparams, ptys = {}, [], []
        self_kind = None
        generic_iters = {}
        for p in rec["params"]:
            if p in (["self"], ["&", "self"]) or (kind in ("M", "MV") and p == ["&", "mut", "self"]):
                if owner is None:
                    self.err("self parameter in a free function")
                lp, sv = self.self_value(owner)
                lparams += lp
                env["self"] = WrVar(sv.lean, sv.ty, None, sv.view, kind in ("M", "MV"))
                self_kind = "ctor" if sv.view is not None and WR_MODEL.get(owner, {}).get("kind") == "ctor" else "value"
                continue
            if p[:1] == ["mut"] or p[:3] == ["&", "mut", "self"]:
                self.err("mutable parameter")
            if len(p) < 3 or p[1] != ":":
                self.err(f"parameter `{' '.join(p)}`")
            pn, pt = p[0], p[2:]
            if len(pt) == 1 and pt[0] in rec["generics"]:
                ity = self.iterator_bound(rec, pt[0], items)
                ty = ("list", ity)
            else:
                ty = self.ty(pt)
            if ty == "str":
                env[pn] = WrVar('""', "str")
                ptys.append(ty)
                continue
            lp, var = self.param_value(pn, ty)
            lparams += lp
            env[pn] = var
            ptys.append(ty)
        body = VfParser(items.toks, rec["body"][0], rec["body"][1], self.where, self.macros)
        ast = body.block()
        if body.p != rec["body"][1]:
            self.err("trailing tokens after the body")
        if kind == "M":
            if rec["ret"]:
                self.err("a mutator with a return value")
            text = self.mwalk(ast[1], ast[2], env)
            rty = "mut"
            lrty = self.lty(("st", owner))
        else:
            if not rec["ret"]:
                self.err("no return type")
            rty = self.ty(rec["ret"])
            if kind == "V":
                if rty != "vres":
                    self.err(f"return type {rty!r}, expected Result<(), VerifyError>")
                K = VfK("V")
                lrty = "VR"
            elif kind == "MV":
                if rty != "vres":
                    self.err(f"return type {rty!r}, expected Result<(), VerifyError>")
                if "self" not in env or env["self"].lean != "self":
                    self.err("a `&mut self` method of a type without a Lean structure")
                K = VfK("V", None, "self")
                lrty = f"Option (Bool × {self.lty(('st', owner))})"
                rty = "mvres"
            else:
                if not (isinstance(rty, tuple) and rty[0] == "cres"):
                    self.err(f"return type {rty!r}, expected Result<_, VerifyError>")
                K = VfK("C", rty[1])
                lrty = "CR " + wr_par(self.lty_value(rty[1]))
            text = self.vwalk(ast[1], 0, ast[2], dict(env), K)
        extra = list(self.extra.items())
        sig = " ".join([f"({n} : {ty_})" for n, ty_ in extra] + lparams)
        self.fns[(owner, name)] = dict(lean=lname, self_kind=self_kind if self_kind == "ctor" else (None if "self" not in env else "value"),
                                       ptys=ptys, ret=rty, has_ex=False, extra=[n for n, _ in extra], extra_types=extra)
        L = [f"/-- `{(trait + ' for ') if trait else ''}{owner + '::' if owner else ''}{name}` ({fname}) -/",
             f"def {lname} {sig} : {lrty} :=".replace("  :", " :"), wr_ind(text), ""]
        out = self.lines + L
        self.lines = []
        return out

    def iterator_bound(self, rec, g, items):
        """`fn f<I>(x: I) where I: Iterator<Item = T>`: the parameter is read as the list of the items it yields"""
        t = items.toks
        lo = rec["body"][0]
        j = lo
        while j > 0 and t[j] != "where" and t[j] != "fn":
            j -= 1
        w = t[j + 1:lo] if t[j] == "where" else []
        want = [g, ":", "Iterator", "<", "Item", "="]
        if w[:6] != want or w[-1:] not in ([">"], [","]) :
            self.err(f"generic parameter {g}: only `where {g}: Iterator<Item = T>` is understood")
        inner = w[6:]
        while inner and inner[-1] == ",":
            inner = inner[:-1]
        if not inner or inner[-1] != ">":
            self.err(f"generic parameter {g}: bound")
        self.used_readings.add("Iterator (a generic iterator parameter is the list of its items)")
        return self.ty(inner[:-1])

    def mwalk(self, stmts, tail, env):
        """body of a `&mut self` method without return value -> Lean term for the new `self`"""
        seq = list(stmts) + ([tail] if tail is not None else [])
        out = []
        for st in seq:
            if st[0] == "assign" and st[1] == "=" and st[2][0] == "field" and st[2][1] == ("var", "self"):
                f = st[2][2]
                if self.owner in WR_MODEL and WR_MODEL[self.owner]["kind"] == "struct":
                    lf, fty = self.model_field(self.owner, f)
                else:
                    lf, fty = wr_mangle(f), self.field_ty(self.owner, f)
                v = self.tx_as(st[3], env, fty, f"self.{f}")
                if v.ex is not None:
                    self.err("a mutator with a step that may panic")
                val = f"decide {wr_par(v.lean)}" if (fty == "bool" and v.lean not in ("True", "False")) else {"True": "true", "False": "false"}.get(v.lean, v.lean)
                out.append(f"let self := {{ self with {lf} := {val} }}")
                continue
            if st[0] == "mcall" and st[1] == ("var", "self") and (self.owner, st[2]) in self.fns and self.fns[(self.owner, st[2])]["ret"] == "mut":
                f = self.fns[(self.owner, st[2])]
                outs = self.typed_args(st[3], f["ptys"], env, f["lean"])
                if any(x.ex is not None for x in outs):
                    self.err("a mutator with a step that may panic")
                out.append(f"let self := {f['lean']} " + " ".join(["self"] + [wr_par(x.lean) for x in outs]))
                continue
            if st[0] == "match" and st is seq[-1]:
                head, rows = self.any_arms(st[1], st[2], env)
                arms = []
                for p, env2, b in rows:
                    if b[0] == "block":
                        arms.append(f"| {p} =>\n{wr_ind(self.mwalk(b[1], b[2], env2), 4)}")
                    else:
                        arms.append(f"| {p} =>\n{wr_ind(self.mwalk([], b, env2), 4)}")
                out.append(head + "\n".join(arms))
                return "\n".join(out)
            self.err(f"statement of kind `{st[0]}` in a mutator")
        out.append("self")
        return "\n".join(out)

    def make_parser(self, toks, lo, hi):
        return VfParser(toks, lo, hi, self.where, self.macros)

    def norm_hdr_ty(self, t):
        if isinstance(t, tuple) and t[0] == "enum":
            return ("hdr", t[1])
        if isinstance(t, tuple) and t[0] == "opt":
            return ("opt", self.norm_hdr_ty(t[1]))
        return t

    def hdr_method(self, r, name, args, env):
        ln = f"{r.ty[1]}.{name}"
        if ln not in self.hdr or self.hdr[ln][1] == "writes":
            return None
        ptys, rty, has_ex = self.hdr[ln]
        outs = self.typed_args(args, ptys, env, ln)
        al = " ".join([wr_par(r.lean)] + [wr_par(x.lean) for x in outs])
        return WV(f"(FlacVerif.Gen.Headers.{ln} {al})", self.norm_hdr_ty(rty),
                  wr_and(r.ex, *[x.ex for x in outs], f"FlacVerif.Gen.Headers.{ln}_exact {al}" if has_ex else None))

    def probe(self, name, params):
        """the helper macro `name!` as a function of its expression arguments (one synthetic invocation)"""
        self.where = f"verify.rs: {name}! (probe)"
        self.owner = None
        self.cur_file = "verify.rs"
        if name not in self.macros.defs or self.macros.defs[name][0] != "verify.rs":
            fail(f"verify.rs: macro `{name}!` not found")
        toks = ['"probe"']
        for pn, _ in params:
            toks += [",", pn]
        ps = VfParser(toks, 0, len(toks), self.where, self.macros)
        e = ps.macro(name, toks)
        if e[0] != "mexp":
            self.err("not a macro defined by macro_rules!")
        exprs = [n for n, b in e[3].items() if b[0] == "expr"]
        if len(exprs) != len(params):
            self.err(f"`{name}!` takes the expression arguments {exprs}, the probe table lists {len(params)}")
        env, lparams = {}, []
        for pn, pt in params:
            env[pn] = WrVar(wr_mangle(pn), pt)
            lparams.append(f"({wr_mangle(pn)} : {self.lty(pt)})")
        text = self.vres(e[2], env)
        self.probes[name] = ([pt for _, pt in params], name, exprs)
        return [f"/-- `{name}!(<name>, {', '.join(f'{pn}: {pt}' for pn, pt in params)})` (verify.rs), expanded -/",
                f"def {name} {' '.join(lparams)} : VR :=", wr_ind(text), ""]


VF_PRELUDE = '''/-- Outcome of an expression of type `Result<(), VerifyError>`: `some true` = `Ok(())`, `some false` = `Err(_)`,
`none` = evaluation PANICS in the dev profile before a result exists. -/
abbrev VR := Option Bool

/-- Outcome of an expression of type `Result<T, VerifyError>`: `some (some v)` = `Ok(v)`, `some none` = `Err(_)`,
`none` = panic. -/
abbrev CR (α : Type) := Option (Option α)

/-- `a?; rest` and `a.and_then(|()| rest)`; `err` is the `Err` outcome of the enclosing function. -/
def andThen {β : Type} (err : β) (a : VR) (rest : Option β) : Option β :=
  match a with | none => none | some false => some err | some true => rest

/-- a step that panics unless `c` holds (overflow, shift amount, index, `assert!`, `.expect()`), then `rest` -/
def req {β : Type} (c : Bool) (rest : Option β) : Option β := if c then rest else none

/-- `let v = a?; k v` -/
def bindC {α β : Type} (err : β) (a : CR α) (k : α → Option β) : Option β :=
  match a with | none => none | some none => some err | some (some v) => k v

/-- `for x in xs { f(x)?; }` -/
def forV {α : Type} : List α → (α → VR) → VR
  | [], _ => some true
  | x :: xs, f => andThen false (f x) (forV xs f)

/-- `for x in xs { f(x, state)?; }` where the body assigns the outer `let mut` variables `state` -/
def forVS {α σ : Type} : List α → σ → (α → σ → Option (Bool × σ)) → Option (Bool × σ)
  | [], s, _ => some (true, s)
  | x :: xs, s, f =>
    match f x s with
    | none => none
    | some (false, s') => some (false, s')
    | some (true, s') => forVS xs s' f

/-- the statements after such a loop -/
def bindVS {σ β : Type} (err : β) (r : Option (Bool × σ)) (k : σ → Option β) : Option β :=
  match r with | none => none | some (false, _) => some err | some (true, s) => k s

/-- `heapless::Vec::<T, cap>::from_slice(xs)` -/
def fromSlice {α : Type} (cap : Nat) (xs : List α) : CR (List α) := if xs.length ≤ cap then some (some xs) else some none

/-- `x.write(&mut dest).map_err(|_| VerifyError::new(..))?; k` for a fresh local `MemSink` `dest`: `w` = the operations
`write` issues (`none` = `write` itself returns `Err`; a `MemSink` never fails) -/
def bindOps {β : Type} (err : β) (w : Option (List FlacVerif.Op)) (k : List FlacVerif.Op → Option β) : Option β :=
  match w with | none => some err | some ops => k ops

/-- `<unsigned of bits bits>::try_from(v)` -/
def tryIntoC (bits v : Nat) : CR Nat := if v < 2 ^ bits then some (some v) else some none

/-- no step of `xs.iter().fold(init, f)` panics (`ex acc x` = the step `f acc x` does not) -/
def foldOk {α β : Type} (f : β → α → β) (ex : β → α → Bool) : β → List α → Bool
  | _, [] => true
  | acc, x :: xs => ex acc x && foldOk f ex (f acc x) xs
'''


def emit_verify(cinfo):
    comp = os.path.join(REPO, "src", "component")
    paths = {"verify.rs": os.path.join(comp, "verify.rs"), "datatype.rs": os.path.join(comp, "datatype.rs"),
             "error.rs": os.path.join(REPO, "src", "error.rs"), "bitrepr.rs": os.path.join(comp, "bitrepr.rs")}
    files = {}
    for fn, path in paths.items():
        if not os.path.exists(path):
            fail(f"{fn}: file not found")
        files[fn] = HdrItems(fn, hdr_lex(open(path).read(), fn))
    vr, dt = files["verify.rs"], files["datatype.rs"]
    if not HDR_DONE:
        fail("verify.rs: part `headers` did not run (Gen/Verify.lean uses Gen/Headers.lean)")
    impls = sorted(o for (tr, o) in vr.impls if tr == "Verify")
    if impls != sorted(VF_VERIFY_IMPLS):
        fail(f"verify.rs: the types implementing Verify are {impls}, expected {sorted(VF_VERIFY_IMPLS)}")
    for o in VF_VERIFY_IMPLS:
        if sorted(vr.impls[("Verify", o)]) != ["verify"]:
            fail(f"verify.rs: impl Verify for {o} defines {sorted(vr.impls[('Verify', o)])}, expected ['verify']")
    macros = VfMacros()
    macros.load("verify.rs", vr.toks)
    macros.load("error.rs", files["error.rs"].toks)
    gen_defs = wr_scan_types(dt, set(WR_GENERATED) | {"SubFrame"} | set(VF_GENERATED))
    tx = VfTx(files, gen_defs, dict(HDR_DONE), dt.enums, macros, cinfo, set())
    tx.parse_gen_types()
    for n in VF_GENERATED:
        if n not in gen_defs or gen_defs[n][0] != "enum":
            fail(f"datatype.rs: enum {n} not found")
        tx.where = f"datatype.rs: enum {n}"
        vs = []
        for v, vk, payload in gen_defs[n][1]:
            if vk == "unit":
                vs.append((v, vk, []))
            elif vk == "tuple":
                vs.append((v, vk, [(f"a{i}", tx.ty(p)) for i, p in enumerate(payload)]))
            else:
                vs.append((v, vk, [(f, tx.ty(t)) for f, t in payload]))
        tx.gen[n] = ("enum", vs)
    structs = wr_scan_types(dt, {T for T, info in WR_MODEL.items() if info["kind"] in ("struct", "ctor", "part")})
    for T, (kind, fields) in structs.items():
        if kind == "struct":
            tx.struct_defs[T] = fields
    for fn in files:
        tx.load_aliases(fn)
    if not WR_DONE:
        fail("verify.rs: part `writer` did not run (Gen/Verify.lean uses Gen/Writer.lean)")
    for (o, n), f in WR_DONE.items():
        # `count_bits` / `write` of part `writer`: referred to by name, with their uninterpreted parameters
        if o is not None and n in ("count_bits", "write"):
            g = dict(f)
            g["lean"] = "FlacVerif.Gen.Writer." + f["lean"]
            tx.fns[(o, n)] = g
    body = []
    done_probes = False
    for fname, trait, owner, name, kind in VF_SPEC:
        L = tx.vf_function(fname, trait, owner, name, kind)
        if fname == "error.rs":
            tx.fns[(None, name)]["path"] = ["crate", "error", name]
        body += L
        if not done_probes and fname == "error.rs":
            done_probes = True
            for mname, params in VF_PROBES:
                body += tx.probe(mname, params)
    L = ["-- GENERATED by tools/translate.py (part `verify`) from src/component/verify.rs, src/component/datatype.rs and src/error.rs — do not edit",
         "/-",
         "Statement-by-statement mirror of the `impl Verify for X` bodies, of the helper macros they use (expanded from",
         "their `macro_rules!` definitions, nothing about them is built into the translator) and of the public constructors.",
         "",
         "`X.verify v : VR` (`Option Bool`): `some true` = `Ok(())`, `some false` = `Err(_)`, `none` = the Rust function panics in the",
         "dev profile before it returns.  `X.new args : CR T` (`Option (Option T)`): `some (some v)` = `Ok(v)`, `some none` = `Err(_)`,",
         "`none` = panic.  `a?; rest` / `a.and_then(|()| rest)` = `andThen`, in program order; `for` = `forV` over the same list /",
         "range; `req c` = a step that panics unless `c` (the conditions are derived as in part `writer`: `a + b < 2^w`, `b ≤ a`",
         "for `a - b`, shift amount `< w`, index `< length`, ...).  Error values, messages and `.map_err(..)` are dropped.",
         "",
         "Integers are modelled on `Nat` / `Int`; `e as T` to a narrower unsigned `T` is `e % 2^bits(T)`, to a signed `T` it is",
         f"`Int.bmod e 2^bits(T)`; usize is taken as {HDR_BITS['usize']} bits.  The domains of the inputs (u8 < 256, ...) are NOT built in:",
         "theorems carry them as hypotheses.  Constants of constant.rs are referred to by name (`FlacVerif.Gen.Const.*`,",
         "part `constants`), never by value.",
         "",
         "Component values are those of part `writer`: the hand-written model's structures for StreamInfo, Residual and the four",
         "subframe kinds (through the accessor table WR_MODEL), `FlacVerif.QParams` for a `QuantizedParameters` value, the",
         "structures generated into Gen/Writer.lean for FrameHeader, Frame, MetadataBlock(Data), Stream, the enums of",
         "Gen/Headers.lean; `FrameOffset` is generated below.",
         "-/",
         "import FlacVerif.Model.Verify",
         "import FlacVerif.Gen.Constants",
         "import FlacVerif.Gen.Headers",
         "import FlacVerif.Gen.Writer",
         "set_option linter.unusedVariables false",
         "namespace FlacVerif.Gen.Verify",
         "open FlacVerif.Gen.Writer (andB andE bindE bindEE loopE countUp)", "", VF_PRELUDE]
    for lt in tx.need_inhabited:
        L.append(f"deriving instance Inhabited for {lt}")
    if tx.need_inhabited:
        L.append("")
    for n in VF_GENERATED:
        kind, d = tx.gen[n]
        L.append(f"/-- `enum {n}` (datatype.rs) -/")
        L.append(f"inductive {n} where")
        for v, vk, fields in d:
            L.append(f"  | {v} " + " ".join(f"({wr_mangle(f)} : {tx.lty(ty)})" for f, ty in fields))
        L.append("  deriving Repr, DecidableEq")
        L.append("")
    L += body
    L.append("/- NOT translated by this part:")
    for (o, n), why in VF_UNTRANSLATED.items():
        L.append(f"   {(o + '::') if o else ''}{n} — {why}")
    L.append("")
    L.append("   Helper methods translated on demand (pure functions, with `_exact`): " + (", ".join(f"{o}::{n}" for o, n in tx.on_demand) or "none"))
    L.append("   Trusted tables of this part (besides WR_MODEL, reproduced at the end of Gen/Writer.lean):")
    for (T, f), ent in VF_CTORS.items():
        L.append(f"     {T}::{f}({', '.join(ent['params'])})  [body compared with datatype.rs]  ->  "
                 + ", ".join(f"{k} := {v}" for k, v in ent["fields"].items()) + f"; panics unless {ent['ex']}")
    for T, (lt, fs) in VF_PART.items():
        L.append(f"     a {T} value = {lt}.mk {' '.join(fs)}")
    L.append("   Readings of std / heapless functions used: " + ", ".join(sorted(tx.used_readings)))
    L.append("   Accessors used (each compared with its body in datatype.rs): " + ", ".join(f"{T}::{m}" for T, m in sorted(tx.checked_acc)))
    L.append("-/")
    L += ["", "end FlacVerif.Gen.Verify", ""]
    return "\n".join(L)


def main():
    """Each generated file is produced independently, so that a source file the translator cannot read
    breaks only the properties whose theorems are stated against that file. Status per part is written
    to .cache/translate_status.json; exit code 1 if any part failed."""
    import json
    os.makedirs(OUT, exist_ok=True)
    status = {}
    values = None
    cfg = None  # hook for coding

    def write(name, text):
        path = os.path.join(OUT, name)
        old = open(path).read() if os.path.exists(path) else None
        if old != text:
            open(path, "w").write(text)

    try:
        order, consts, values = parse_constants()
        write("Constants.lean", emit_constants(order, consts, values))
        status["constants"] = "ok"
    except Unreadable as e:
        status["constants"] = f"translator cannot read {e}"
    if values is not None:
        try:
            cfg = parse_config(values)
            write("Config.lean", emit_config(cfg, values))
            status["config"] = "ok"
        except Unreadable as e:
            status["config"] = f"translator cannot read {e}"
        except Exception as e:  # fail closed on anything the parser did not anticipate
            status["config"] = f"translator cannot read config.rs: internal error {type(e).__name__}: {e}"
    else:
        status["config"] = "translator cannot read config.rs: constants unavailable"
    try:
        write("Tables.lean", emit_tables())
        status["tables"] = "ok"
    except Unreadable as e:
        status["tables"] = f"translator cannot read {e}"
    try:
        write("Headers.lean", emit_headers())
        status["headers"] = "ok"
    except Unreadable as e:
        status["headers"] = f"translator cannot read {e}"
    except Exception as e:  # fail closed on anything the parser did not anticipate
        status["headers"] = f"translator cannot read datatype.rs/bitrepr.rs: internal error {type(e).__name__}: {e}"
    try:
        if status["headers"] != "ok":
            fail("bitrepr.rs: part `headers` failed (Gen/Writer.lean imports Gen/Headers.lean)")
        write("Writer.lean", emit_writer())
        status["writer"] = "ok"
    except Unreadable as e:
        status["writer"] = f"translator cannot read {e}"
    except Exception as e:  # fail closed on anything the parser did not anticipate
        status["writer"] = f"translator cannot read bitrepr.rs: internal error {type(e).__name__}: {e}"
    try:
        for dep in ("constants", "headers", "writer"):
            if status[dep] != "ok":
                fail(f"verify.rs: part `{dep}` failed (Gen/Verify.lean imports its output)")
        write("Verify.lean", emit_verify((order, consts, values)))
        status["verify"] = "ok"
    except Unreadable as e:
        status["verify"] = f"translator cannot read {e}"
    except Exception as e:  # fail closed on anything the parser did not anticipate
        status["verify"] = f"translator cannot read verify.rs/datatype.rs: internal error {type(e).__name__}: {e}"
    try:  # hook for source (tools/translate_source.py: arrayutils.rs / source.rs / par.rs -> Gen/Source.lean)
        if status["constants"] != "ok":
            fail("source.rs: part `constants` failed (Gen/Source.lean imports its output)")
        import translate_source
        write("Source.lean", translate_source.emit_source((order, consts, values)))
        status["source"] = "ok"
    except Unreadable as e:
        status["source"] = f"translator cannot read {e}"
    except Exception as e:  # fail closed on anything the parser did not anticipate
        status["source"] = f"translator cannot read arrayutils.rs/source.rs: internal error {type(e).__name__}: {e}"
    try:  # hook for coding: part `coding` lives in tools/translate_coding.py
        for dep in ("constants", "config", "headers", "writer", "verify"):
            if status[dep] != "ok":
                fail(f"coding.rs: part `{dep}` failed (Gen/Coding.lean imports its output)")
        import translate_coding
        write("Coding.lean", translate_coding.emit_coding(sys.modules[__name__], (order, consts, values), cfg))
        status["coding"] = "ok"
    except Unreadable as e:
        status["coding"] = f"translator cannot read {e}"
    except Exception as e:  # fail closed on anything the parser did not anticipate
        status["coding"] = f"translator cannot read coding.rs: internal error {type(e).__name__}: {e}"
    try:  # hook for decode (tools/translate_decode.py -> Gen/Decode.lean)
        import translate_decode
        for dep in ("tables", "headers", "writer"):
            if status[dep] != "ok":
                fail(f"decode.rs: part `{dep}` failed (Gen/Decode.lean imports its output)")
        write("Decode.lean", translate_decode.emit_decode(sys.modules[__name__], status))
        status["decode"] = "ok"
    except Unreadable as e:
        status["decode"] = f"translator cannot read {e}"
    except Exception as e:  # fail closed on anything the parser did not anticipate
        status["decode"] = f"translator cannot read decode.rs/rice.rs/datatype.rs: internal error {type(e).__name__}: {e}"
    try:  # hook for sink (tools/translate_sink.py: bitsink.rs -> Gen/Sink.lean); no dependency on another part's output
        import translate_sink
        write("Sink.lean", translate_sink.emit_sink(sys.modules[__name__], status))
        status["sink"] = "ok"
    except Unreadable as e:
        status["sink"] = f"translator cannot read {e}"
    except Exception as e:  # fail closed on anything the parser did not anticipate
        status["sink"] = f"translator cannot read bitsink.rs: internal error {type(e).__name__}: {e}"
    try:  # hook for driver (tools/translate_driver.py: coding.rs stream driver, datatype.rs Stream / StreamInfo -> Gen/Driver.lean)
        for dep in ("constants", "config", "headers", "writer", "verify", "source", "coding"):
            if status[dep] != "ok":
                fail(f"coding.rs: part `{dep}` failed (Gen/Driver.lean imports its output)")
        import translate_driver
        write("Driver.lean", translate_driver.emit_driver(sys.modules[__name__], (order, consts, values), cfg))
        status["driver"] = "ok"
    except Unreadable as e:
        status["driver"] = f"translator cannot read {e}"
    except Exception as e:  # fail closed on anything the parser did not anticipate
        status["driver"] = f"translator cannot read coding.rs/datatype.rs: internal error {type(e).__name__}: {e}"
    try:  # hook for par (tools/translate_par.py: the thread protocol of par.rs -> Gen/Par.lean)
        if status["constants"] != "ok":
            fail("par.rs: part `constants` failed (Gen/Par.lean imports Gen/Constants.lean)")
        if status["config"] != "ok":
            fail("par.rs: part `config` failed (Gen/Par.lean imports Gen/Config.lean)")
        if values is None or not any(str(k).endswith("FRAMEBUF_MULTIPLICITY") for k in values):
            fail("par.rs: constant par::FRAMEBUF_MULTIPLICITY not found by part `constants`")
        import translate_par
        write("Par.lean", translate_par.emit_par(sys.modules[__name__], (order, consts, values)))
        status["par"] = "ok"
    except Unreadable as e:
        status["par"] = f"translator cannot read {e}"
    except Exception as e:  # fail closed on anything the parser did not anticipate
        status["par"] = f"translator cannot read par.rs: internal error {type(e).__name__}: {e}"
    try:  # hook for lpc (tools/translate_lpc.py: lpc.rs / arrayutils.rs / coding.rs / datatype.rs -> Gen/Lpc.lean)
        import translate_lpc
        for dep in ("constants", "config", "source"):
            if status[dep] != "ok":
                fail(f"lpc.rs: part `{dep}` failed (Gen/Lpc.lean imports its output)")
        write("Lpc.lean", translate_lpc.emit_lpc(sys.modules[__name__], status))
        status["lpc"] = "ok"
    except Unreadable as e:
        status["lpc"] = f"translator cannot read {e}"
    except Exception as e:  # fail closed on anything the parser did not anticipate
        status["lpc"] = f"translator cannot read lpc.rs/arrayutils.rs/coding.rs/datatype.rs: internal error {type(e).__name__}: {e}"
    try:  # hook for rice (tools/translate_rice.py: rice.rs / arrayutils.rs -> Gen/Rice.lean)
        for dep in ("constants", "config", "source", "decode"):
            if status[dep] != "ok":
                fail(f"rice.rs: part `{dep}` failed (Gen/Rice.lean imports its output)")
        import translate_rice
        write("Rice.lean", translate_rice.emit_rice(sys.modules[__name__], status, (order, consts, values)))
        status["rice"] = "ok"
    except Unreadable as e:
        status["rice"] = f"translator cannot read {e}"
    except Exception as e:  # fail closed on anything the parser did not anticipate
        status["rice"] = f"translator cannot read rice.rs/arrayutils.rs: internal error {type(e).__name__}: {e}"
    try:  # hook for callees (second file of tools/translate_rice.py: the callees of part `coding` in datatype.rs / source.rs -> Gen/CodingCallees.lean)
        for dep in ("rice", "coding", "writer", "source"):
            if status[dep] != "ok":
                fail(f"datatype.rs/source.rs: part `{dep}` failed (Gen/CodingCallees.lean imports its output)")
        import translate_rice
        write("CodingCallees.lean", translate_rice.emit_callees(sys.modules[__name__], status, (order, consts, values)))
        status["callees"] = "ok"
    except Unreadable as e:
        status["callees"] = f"translator cannot read {e}"
    except Exception as e:  # fail closed on anything the parser did not anticipate
        status["callees"] = f"translator cannot read datatype.rs/source.rs: internal error {type(e).__name__}: {e}"
    try:  # hook for parser (tools/translate_parser.py: component/parser.rs -> Gen/Parser.lean)
        import translate_parser
        for dep in ("constants", "headers", "writer", "verify", "decode"):
            if status[dep] != "ok":
                fail(f"parser.rs: part `{dep}` failed (Gen/Parser.lean imports its output)")
        write("Parser.lean", translate_parser.emit_parser(sys.modules[__name__], status, (order, consts, values)))
        status["parser"] = "ok"
    except Unreadable as e:
        status["parser"] = f"translator cannot read {e}"
    except Exception as e:  # fail closed on anything the parser did not anticipate
        status["parser"] = f"translator cannot read parser.rs: internal error {type(e).__name__}: {e}"
    try:  # hook for utf8 (tools/translate_utf8.py: encode_to_utf8like of bitrepr.rs -> Gen/Utf8.lean)
        import translate_utf8
        for dep in ("headers", "sink"):
            if status.get(dep) != "ok":
                fail(f"bitrepr.rs: part `{dep}` failed (Gen/Utf8.lean imports its output)")
        write("Utf8.lean", translate_utf8.emit_utf8(sys.modules[__name__], status))
        status["utf8"] = "ok"
    except Unreadable as e:
        status["utf8"] = f"translator cannot read {e}"
    except Exception as e:  # fail closed on anything the parser did not anticipate
        status["utf8"] = f"translator cannot read bitrepr.rs: internal error {type(e).__name__}: {e}"
    try:  # hook for floatskel (tools/translate_floatskel.py: index skeletons of the float functions -> Gen/FloatSkel.lean)
        import translate_floatskel
        for dep in ("constants", "config", "source", "lpc"):
            if status.get(dep) != "ok":
                fail(f"coding.rs: part `{dep}` failed (Gen/FloatSkel.lean imports Gen/Lpc.lean)")
        write("FloatSkel.lean", translate_floatskel.emit_floatskel(sys.modules[__name__], status))
        status["floatskel"] = "ok"
    except Unreadable as e:
        status["floatskel"] = f"translator cannot read {e}"
    except Exception as e:  # fail closed on anything the parser did not anticipate
        status["floatskel"] = f"translator cannot read coding.rs/lpc.rs (float skeletons): internal error {type(e).__name__}: {e}"
    os.makedirs(os.path.join(ROOT, ".cache"), exist_ok=True)
    json.dump(status, open(os.path.join(ROOT, ".cache", "translate_status.json"), "w"), indent=1)
    bad = [v for v in status.values() if v != "ok"]
    for b in bad:
        print(b)
    if bad:
        sys.exit(1)
    print("translator ok")


if __name__ == "__main__":
    main()
