#!/usr/bin/env python3
"""Rust-subset -> Lean translator (DESIGN 1.2 a). Regenerates lean/FlacVerif/Gen/*.lean from
/repo's working tree on every run:

  Gen/Constants.lean  every numeric `const` of src/constant.rs
  Gen/Config.lean     the config structs/enums of src/config.rs, their `Default` impls, their
                      `Verify` impls (ranges AND which nested verifies are chained), their serde
                      shape (container defaults, tagged enums, per-field defaults) as toT/fromT/resetFields
  Gen/Tables.lean     CRC parameters named by CRC_8_FLAC / CRC_16_FLAC (crc-catalog in the cargo registry),
                      FIXED_LPC_COEFS of decode.rs
  Gen/Headers.lean    the frame-header code functions of src/component/datatype.rs (BlockSizeSpec, SampleSizeSpec,
                      SampleRateSpec, ChannelAssignment: enums, `match` tables, discriminants) and the
                      ChannelAssignment writer of bitrepr.rs, parsed and mirrored arm by arm (part `headers`)

It accepts a deliberately tiny Rust subset and FAILS CLOSED: any construct it does not recognise inside
a translated item aborts with "translator cannot read <item>" (exit 1) — it never guesses.
"""
import os, re, struct, sys, glob

# FV_REPO (or the older VERIF_REPO) = root of the Rust crate to read; FV_ROOT = root of the verification
# tree to write into (lean/FlacVerif/Gen/*.lean, .cache/translate_status.json). Defaults: /repo and the
# parent directory of this script's directory.
REPO = os.environ.get("FV_REPO") or os.environ.get("VERIF_REPO") or "/repo"
ROOT = os.environ.get("FV_ROOT") or os.path.dirname(os.path.dirname(os.path.abspath(__file__)))
OUT = os.path.join(ROOT, "lean", "FlacVerif", "Gen")


class Unreadable(Exception):
    pass


def fail(what):
    raise Unreadable(what)


def strip_comments(src):
    src = re.sub(r"/\*.*?\*/", "", src, flags=re.S)
    out = []
    for line in src.splitlines():
        # remove // comments (no string literal in the translated items contains //)
        i = line.find("//")
        if i >= 0:
            line = line[:i]
        out.append(line)
    return "\n".join(out)


def f32_bits(x):
    return struct.unpack(">I", struct.pack(">f", x))[0]


# ------------------------------------------------------------------ constants

INT_TYPES = {"usize", "u8", "u16", "u32", "u64", "i8", "i16", "i32", "i64", "isize"}


def parse_constants():
    src = strip_comments(open(os.path.join(REPO, "src", "constant.rs")).read())
    # cut the test module if any
    toks = re.findall(r"[A-Za-z_][A-Za-z0-9_]*|\d[0-9A-Za-z_.]*|\"[^\"]*\"|::|<<|>>|[{}();:=+\-*/<>&!,.\[\]#]", src)
    consts = {}   # full name (mod.NAME) -> (type, expr tokens, module path)
    order = []
    stack = []
    i = 0
    depth_stack = []  # brace depth at which each module was opened
    depth = 0
    while i < len(toks):
        t = toks[i]
        if t == "mod" and i + 2 < len(toks) and toks[i + 2] == "{":
            stack.append(toks[i + 1]); depth_stack.append(depth); depth += 1; i += 3; continue
        if t == "{":
            depth += 1
        elif t == "}":
            depth -= 1
            if depth_stack and depth == depth_stack[-1]:
                stack.pop(); depth_stack.pop()
        elif t == "const" and toks[i + 2] == ":":
            name = toks[i + 1]
            j = i + 3
            ty = []
            while toks[j] != "=":
                ty.append(toks[j]); j += 1
            k = j + 1
            expr = []
            while toks[k] != ";":
                expr.append(toks[k]); k += 1
            full = ".".join(stack + [name])
            consts[full] = ("".join(ty), expr, list(stack))
            order.append(full)
            i = k
        i += 1
    values = {}

    def lookup(name, mods):
        for cut in range(len(mods), -1, -1):
            full = ".".join(mods[:cut] + [name])
            if full in consts:
                return ev(full)
        fail(f"constant.rs: reference to unknown constant {name}")

    def ev(full):
        if full in values:
            return values[full]
        ty, expr, mods = consts[full]
        if ty.startswith("&"):
            values[full] = None
            return None
        if ty == "f32":
            if len(expr) != 1 or not re.fullmatch(r"\d+\.\d+", expr[0]):
                fail(f"constant.rs: f32 constant {full} is not a plain literal")
            values[full] = ("f32", float(expr[0]))
            return values[full]
        if ty not in INT_TYPES:
            fail(f"constant.rs: constant {full} of unsupported type {ty}")
        # integer expression: literals with optional type suffix, names, ( ) << >> + - *
        py = []
        for t in expr:
            if re.fullmatch(r"\d[0-9A-Za-z_]*", t):
                m = re.fullmatch(r"(0x[0-9A-Fa-f_]+|\d[\d_]*)(usize|u8|u16|u32|u64|i8|i16|i32|i64|isize)?", t)
                if not m:
                    fail(f"constant.rs: literal {t} in {full}")
                py.append(str(int(m.group(1).replace("_", ""), 0)))
            elif re.fullmatch(r"[A-Za-z_][A-Za-z0-9_]*", t):
                v = lookup(t, mods)
                if not isinstance(v, int):
                    fail(f"constant.rs: non-integer reference {t} in {full}")
                py.append(str(v))
            elif t in ("(", ")", "<<", ">>", "+", "-", "*"):
                py.append(t)
            else:
                fail(f"constant.rs: token {t!r} in {full}")
        values[full] = int(eval(" ".join(py), {"__builtins__": {}}))
        return values[full]

    for full in order:
        if any(m == "built" or m == "build_info" for m in consts[full][2]):
            values[full] = None
            continue
        ev(full)
    return order, consts, values


def emit_constants(order, consts, values):
    lines = ["-- GENERATED by tools/translate.py from src/constant.rs — do not edit", "namespace FlacVerif.Gen.Const", ""]
    for full in order:
        v = values[full]
        name = full.replace(".", "_")
        if v is None:
            lines.append(f"-- {full}: not numeric (skipped)")
        elif isinstance(v, tuple):
            lines.append(f"/-- f32 {v[1]} as its IEEE-754 bit pattern -/")
            lines.append(f"def {name}_bits : Nat := 0x{f32_bits(v[1]):08X}")
        elif v < 0:
            lines.append(f"def {name} : Int := {v}")
        else:
            lines.append(f"def {name} : Nat := {v}")
    lines += ["", "end FlacVerif.Gen.Const", ""]
    return "\n".join(lines)


# ------------------------------------------------------------------ config.rs

def tokenize(src):
    return re.findall(r"[A-Za-z_][A-Za-z0-9_]*|\d+\.\d+|\d+|\"[^\"]*\"|::|\.\.=|\.\.|=>|==|!=|<=|>=|&&|\|\||[{}()\[\];:=+\-*/<>&!,.#|?]", src)


class Cfg:
    def __init__(self):
        self.aliases = {}     # local name -> constant full name
        self.structs = {}     # name -> {"fields": [(name, type)], "container_default": bool}
        self.enums = {}       # name -> {"tag": str|None, "variants": [(name, [(field, type, default_fn)])]}
        self.default_fns = {}  # fn name -> constant local name
        self.defaults = {}    # type name -> ("struct", {field: expr tokens}) | ("variant", vname, {field: expr})
        self.verifies = {}    # type name -> AST
        self.order = []


def parse_config(const_values):
    src = strip_comments(open(os.path.join(REPO, "src", "config.rs")).read())
    # drop the test module
    m = re.search(r"#\[cfg\(test\)\]\s*mod tests", src)
    if m:
        src = src[:m.start()]
    cfg = Cfg()
    # --- use lines
    for um in re.finditer(r"use\s+super::constant((?:::[A-Za-z_0-9]+)*)(?:\s+as\s+([A-Za-z_0-9]+))?\s*;", src):
        path = [p for p in um.group(1).split("::") if p]
        if not path:
            continue  # `use super::constant;` (module import)
        local = um.group(2) or path[-1]
        cfg.aliases[local] = ".".join(path)
    toks = tokenize(src)
    i = 0
    pending_attrs = []

    def skip_group(i):
        """toks[i] is an opening bracket; returns index after the matching close."""
        open_t = toks[i]
        close_t = {"(": ")", "[": "]", "{": "}"}[open_t]
        d = 0
        while True:
            if toks[i] == open_t:
                d += 1
            elif toks[i] == close_t:
                d -= 1
                if d == 0:
                    return i + 1
            i += 1

    def attr_text(i):
        j = skip_group(i + 1)
        return "".join(toks[i:j]), j

    def parse_type(i):
        # usize | bool | f32 | Ident | Option<NonZeroUsize>
        t = toks[i]
        if t == "Option":
            if toks[i + 1:i + 4] != ["<", "NonZeroUsize", ">"]:
                fail("config.rs: Option<...> of a type other than NonZeroUsize")
            return "Option<NonZeroUsize>", i + 4
        return t, i + 1

    while i < len(toks):
        t = toks[i]
        if t == "#" and toks[i + 1] == "[":
            a, i = attr_text(i)
            pending_attrs.append(a)
            continue
        if t == "pub" and toks[i + 1] == "struct":
            name = toks[i + 2]
            assert toks[i + 3] == "{"
            j = i + 4
            fields = []
            while toks[j] != "}":
                if toks[j] == "#":
                    _, j = attr_text(j)
                    continue
                if toks[j] != "pub":
                    fail(f"config.rs: struct {name}: non-pub field")
                fname = toks[j + 1]
                if toks[j + 2] != ":":
                    fail(f"config.rs: struct {name}: field syntax")
                ty, j = parse_type(j + 3)
                fields.append((fname, ty))
                if toks[j] == ",":
                    j += 1
            cdef = any("serde(default)" in a for a in pending_attrs)
            cfg.structs[name] = {"fields": fields, "container_default": cdef}
            cfg.order.append(name)
            pending_attrs = []
            i = j + 1
            continue
        if t == "pub" and toks[i + 1] == "enum":
            name = toks[i + 2]
            j = i + 4
            variants = []
            while toks[j] != "}":
                vname = toks[j]
                j += 1
                vfields = []
                if toks[j] == "{":
                    j += 1
                    fdefault = None
                    while toks[j] != "}":
                        if toks[j] == "#":
                            a, j = attr_text(j)
                            dm = re.search(r"serde\(default=\"([A-Za-z_0-9]+)\"\)", a)
                            if dm:
                                fdefault = dm.group(1)
                            continue
                        fname = toks[j]
                        if toks[j + 1] != ":":
                            fail(f"config.rs: enum {name}::{vname}: field syntax")
                        ty, j = parse_type(j + 2)
                        vfields.append((fname, ty, fdefault))
                        fdefault = None
                        if toks[j] == ",":
                            j += 1
                    j += 1
                elif toks[j] == "(":
                    fail(f"config.rs: enum {name}::{vname}: tuple variant")
                if toks[j] == ",":
                    j += 1
                variants.append((vname, vfields))
            tag = None
            for a in pending_attrs:
                tm = re.search(r"serde\(tag=\"([a-z_]+)\"\)", a)
                if tm:
                    tag = tm.group(1)
            cfg.enums[name] = {"tag": tag, "variants": variants}
            cfg.order.append(name)
            pending_attrs = []
            i = j + 1
            continue
        if t == "const" and toks[i + 1] == "fn":
            fname = toks[i + 2]
            # const fn NAME() -> T { CONST }
            j = i + 3
            while toks[j] != "{":
                j += 1
            body = toks[j + 1:skip_group(j) - 1]
            if len(body) != 1:
                fail(f"config.rs: const fn {fname}: body is not a single constant")
            cfg.default_fns[fname] = body[0]
            pending_attrs = []
            i = skip_group(j)
            continue
        if t == "impl":
            # impl Default for X / impl Verify for X / impl Eq for X {}
            trait = toks[i + 1]
            if toks[i + 2] != "for":
                i += 1
                continue
            ty = toks[i + 3]
            j = i + 4
            assert toks[j] == "{", f"impl {trait} for {ty}"
            end = skip_group(j)
            body = toks[j + 1:end - 1]
            if trait == "Default":
                cfg.defaults[ty] = parse_default(ty, body)
            elif trait == "Verify":
                cfg.verifies[ty] = parse_verify(ty, body)
            elif trait == "Eq":
                pass
            else:
                fail(f"config.rs: impl {trait} for {ty}")
            pending_attrs = []
            i = end
            continue
        if t in ("use",):
            while toks[i] != ";":
                i += 1
            i += 1
            pending_attrs = []
            continue
        i += 1
    return cfg


def parse_default(ty, body):
    # fn default ( ) -> Self { Self { f : expr , ... } }  |  { Self :: V { f : expr } }
    try:
        k = body.index("{")
    except ValueError:
        fail(f"config.rs: Default for {ty}")
    inner = body[k + 1:-1]
    if inner[0] != "Self":
        fail(f"config.rs: Default for {ty}: body does not start with Self")
    p = 1
    variant = None
    if inner[p] == "::":
        variant = inner[p + 1]
        p += 2
    if inner[p] != "{":
        fail(f"config.rs: Default for {ty}: expected struct literal")
    fields = {}
    p += 1
    while inner[p] != "}":
        fname = inner[p]
        if inner[p + 1] != ":":
            fail(f"config.rs: Default for {ty}: field init shorthand")
        q = p + 2
        expr = []
        depth = 0
        while not (inner[q] == "," and depth == 0) and not (inner[q] == "}" and depth == 0):
            if inner[q] in "({[":
                depth += 1
            elif inner[q] in ")}]":
                depth -= 1
            expr.append(inner[q])
            q += 1
        fields[fname] = expr
        p = q + (1 if inner[q] == "," else 0)
    return (variant, fields)


def parse_verify(ty, body):
    """Returns a list of conjunct ASTs:
       ("range", expr, lo|None, hi|None, hi_inclusive), ("true", cond-expr), ("chain", field),
       ("unless_experimental", [conjuncts]), ("match", [(variant, [bound fields], [conjuncts])])"""
    try:
        k = body.index("{")
    except ValueError:
        fail(f"config.rs: Verify for {ty}")
    head = body[:k]
    if head[:2] != ["fn", "verify"]:
        fail(f"config.rs: Verify for {ty}: unexpected item {head[:3]}")
    toks = body[k + 1:-1]
    pos = [0]

    def peek(n=0):
        return toks[pos[0] + n] if pos[0] + n < len(toks) else None

    def eat(t):
        if peek() != t:
            fail(f"config.rs: Verify for {ty}: expected {t!r}, found {peek()!r} near {' '.join(toks[max(0,pos[0]-6):pos[0]+6])}")
        pos[0] += 1

    def parse_atom():
        # bound: ident | int | (path)
        t = peek()
        if t == "(":
            eat("(")
            a = parse_atom()
            eat(")")
            return a
        if re.fullmatch(r"\d+\.\d+", t):
            pos[0] += 1
            return ("float", float(t))
        if re.fullmatch(r"\d+", t):
            pos[0] += 1
            return ("int", int(t))
        # path a::b::C
        parts = [t]
        pos[0] += 1
        while peek() == "::":
            pos[0] += 1
            parts.append(peek())
            pos[0] += 1
        return ("path", parts)

    def parse_expr_until(stops):
        # a very small expression language: [!] self . f [== INT] | ident
        neg = False
        if peek() == "!":
            neg = True
            pos[0] += 1
        if peek() == "self":
            eat("self"); eat(".")
            e = ("field", peek()); pos[0] += 1
        elif re.fullmatch(r"[a-z_][a-z0-9_]*", peek() or ""):
            e = ("var", peek()); pos[0] += 1
        else:
            fail(f"config.rs: Verify for {ty}: expression starting with {peek()!r}")
        if peek() == "==":
            pos[0] += 1
            rhs = parse_atom()
            e = ("eq", e, rhs)
        if neg:
            e = ("not", e)
        if peek() not in stops:
            fail(f"config.rs: Verify for {ty}: unsupported expression tail {peek()!r}")
        return e

    def parse_range():
        lo = hi = None
        incl = False
        if peek() not in ("..", "..="):
            lo = parse_atom()
        if peek() == "..=":
            pos[0] += 1; incl = True; hi = parse_atom()
        elif peek() == "..":
            pos[0] += 1
            if peek() not in (")",):
                hi = parse_atom()
        else:
            fail(f"config.rs: Verify for {ty}: range syntax near {peek()!r}")
        return lo, hi, incl

    def parse_macro_call():
        name = peek(); pos[0] += 1
        eat("!"); eat("(")
        if not (peek() or "").startswith('"'):
            fail(f"config.rs: Verify for {ty}: {name}! without a literal name")
        pos[0] += 1; eat(",")
        if name == "verify_range":
            e = parse_expr_until([","])
            eat(",")
            lo, hi, incl = parse_range()
            eat(")")
            return ("range", e, lo, hi, incl)
        if name == "verify_true":
            e = parse_expr_until([","])
            eat(",")
            if not (peek() or "").startswith('"'):
                fail(f"config.rs: Verify for {ty}: verify_true! message")
            pos[0] += 1
            eat(")")
            return ("true", e)
        fail(f"config.rs: Verify for {ty}: macro {name}!")

    def parse_stmts(until):
        out = []
        while peek() != until:
            t = peek()
            if t in ("verify_range", "verify_true"):
                c = parse_macro_call()
                if peek() == "?":
                    eat("?"); eat(";")
                elif peek() == until:
                    pass  # final expression
                else:
                    fail(f"config.rs: Verify for {ty}: result of {t}! is neither `?`-propagated nor the final value")
                out.append(c)
            elif t == "self" and peek(2) != "verify":
                # self . f . verify ( ) . map_err ( | err | err . within ( "f" ) ) ? ;
                eat("self"); eat(".")
                f = peek(); pos[0] += 1
                eat("."); eat("verify"); eat("("); eat(")")
                eat("."); eat("map_err"); eat("(")
                d = 1
                while d > 0:
                    if peek() == "(":
                        d += 1
                    elif peek() == ")":
                        d -= 1
                    pos[0] += 1
                eat("?"); eat(";")
                out.append(("chain", f))
            elif t == "if" and peek(1) == "cfg":
                # if cfg ! ( not ( feature = "experimental" ) ) { ... }
                seq = ["if", "cfg", "!", "(", "not", "(", "feature", "=", '"experimental"', ")", ")", "{"]
                for s in seq:
                    eat(s)
                inner = parse_stmts("}")
                eat("}")
                out.append(("unless_experimental", inner))
            elif t == "Ok":
                eat("Ok"); eat("("); eat("("); eat(")"); eat(")")
                if peek() not in (until,):
                    fail(f"config.rs: Verify for {ty}: code after Ok(())")
            elif t == "match":
                eat("match"); eat("*"); eat("self"); eat("{")
                arms = []
                while peek() != "}":
                    eat("Self"); eat("::")
                    v = peek(); pos[0] += 1
                    bound = []
                    if peek() == "{":
                        eat("{")
                        while peek() != "}":
                            bound.append(peek()); pos[0] += 1
                            if peek() == ",":
                                eat(",")
                        eat("}")
                    eat("=>")
                    if peek() == "{":
                        eat("{")
                        if peek() == "if":
                            # if ( A ..= B ) . contains ( & x ) { Ok(()) } else { Err ( ... ) }
                            eat("if"); eat("(")
                            lo = parse_atom(); eat("..="); hi = parse_atom(); eat(")")
                            eat("."); eat("contains"); eat("("); eat("&")
                            x = peek(); pos[0] += 1; eat(")")
                            eat("{"); eat("Ok"); eat("("); eat("("); eat(")"); eat(")"); eat("}")
                            eat("else"); eat("{"); eat("Err"); eat("(")
                            d = 1
                            while d > 0:
                                if peek() == "(":
                                    d += 1
                                elif peek() == ")":
                                    d -= 1
                                pos[0] += 1
                            eat("}")
                            conj = [("frange", ("var", x), lo, hi)]
                        else:
                            conj = parse_stmts("}")
                        eat("}")
                    else:
                        eat("Ok"); eat("("); eat("("); eat(")"); eat(")")
                        conj = []
                    if peek() == ",":
                        eat(",")
                    arms.append((v, bound, conj))
                eat("}")
                out.append(("match", arms))
            else:
                fail(f"config.rs: Verify for {ty}: statement starting with {t!r}")
        return out

    return parse_stmts(None)


LEAN_TYPES = {"usize": "Nat", "bool": "Bool", "f32": "Nat", "Option<NonZeroUsize>": "Option Nat"}


def lean_type(t):
    return LEAN_TYPES.get(t, t)


def emit_config(cfg, const_values):
    def const_ref(parts):
        # path parts like ['MAX_BLOCK_SIZE'] or ['constant','fixed','MAX_LPC_ORDER']
        if parts[0] == "constant":
            full = ".".join(parts[1:])
        else:
            if parts[0] not in cfg.aliases:
                fail(f"config.rs: unknown constant {'::'.join(parts)}")
            full = cfg.aliases[parts[0]]
        if full not in const_values or const_values[full] is None:
            fail(f"config.rs: constant {full} has no numeric value")
        return full

    def atom_lean(a, as_f32=False):
        if a[0] == "int":
            return str(a[1])
        if a[0] == "float":
            return f"0x{f32_bits(a[1]):08X}"
        full = const_ref(a[1])
        v = const_values[full]
        name = "Const." + full.replace(".", "_")
        return name + ("_bits" if isinstance(v, tuple) else "")

    def expr_lean(e, recv):
        k = e[0]
        if k == "field":
            return f"{recv}.{e[1]}"
        if k == "var":
            return e[1]
        if k == "not":
            return f"(!{expr_lean(e[1], recv)})"
        if k == "eq":
            return f"({expr_lean(e[1], recv)} == {atom_lean(e[2])})"
        fail(f"expression kind {k}")

    def conj_lean(c, recv):
        k = c[0]
        if k == "range":
            e = expr_lean(c[1], recv)
            parts = []
            if c[2] is not None:
                parts.append(f"decide ({atom_lean(c[2])} ≤ {e})")
            if c[3] is not None:
                parts.append(f"decide ({e} {'≤' if c[4] else '<'} {atom_lean(c[3])})")
            return " && ".join(parts) if parts else "true"
        if k == "true":
            return expr_lean(c[1], recv)
        if k == "chain":
            fty = None
            return ("CHAIN", c[1])
        if k == "unless_experimental":
            inner = conjs_lean(c[1], recv)
            return f"(exp || ({inner}))"
        if k == "frange":
            return f"F32.inRange {atom_lean(c[2])} {atom_lean(c[3])} {expr_lean(c[1], recv)}"
        fail(f"conjunct kind {k}")

    field_types = {}
    for s, d in cfg.structs.items():
        for f, t in d["fields"]:
            field_types[(s, f)] = t

    def conjs_lean(cs, recv, owner=None):
        parts = []
        for c in cs:
            if c[0] == "chain":
                t = field_types.get((owner, c[1]))
                if t is None:
                    fail(f"config.rs: Verify for {owner}: chained verify of unknown field {c[1]}")
                parts.append(f"{t}.verify exp {recv}.{c[1]}")
            elif c[0] == "unless_experimental":
                parts.append(f"(exp || ({conjs_lean(c[1], recv, owner)}))")
            else:
                parts.append(conj_lean(c, recv))
        return " && ".join(parts) if parts else "true"

    L = ["-- GENERATED by tools/translate.py from src/config.rs — do not edit",
         "import FlacVerif.Gen.Constants", "import FlacVerif.Model.TVal",
         "set_option linter.unusedVariables false",
         "namespace FlacVerif.Gen", "open FlacVerif", ""]
    # type declarations in dependency order: leaves first
    deps = {}
    for n in cfg.order:
        if n in cfg.structs:
            deps[n] = [t for _, t in cfg.structs[n]["fields"] if t in cfg.structs or t in cfg.enums]
        else:
            deps[n] = []
    done, order = set(), []

    def visit(n):
        if n in done:
            return
        for d in deps[n]:
            visit(d)
        done.add(n); order.append(n)
    for n in cfg.order:
        visit(n)

    def default_expr(toks, ty):
        # literal true/false/int/float, CONST alias, constant::PATH, X::default(), cfg!(feature="par"), None
        s = "".join(toks)
        if s in ("true", "false"):
            return s
        if s == "None":
            return "none"
        if re.fullmatch(r"\d+", s):
            return s
        if s == 'cfg!(feature="par")':
            return "par"
        m = re.fullmatch(r"([A-Za-z_0-9]+)::default\(\)", s)
        if m:
            return f"{m.group(1)}.default par"
        if re.fullmatch(r"[A-Za-z_0-9:]+", s):
            return atom_lean(("path", [p for p in s.split("::") if p]))
        fail(f"config.rs: default expression `{s}`")

    for n in order:
        if n in cfg.structs:
            d = cfg.structs[n]
            L.append(f"structure {n} where")
            for f, t in d["fields"]:
                L.append(f"  {f} : {lean_type(t)}")
            L.append("  deriving Repr, DecidableEq")
            L.append("")
            if n not in cfg.defaults:
                fail(f"config.rs: no Default impl for {n}")
            variant, fields = cfg.defaults[n]
            if variant is not None or set(fields) != {f for f, _ in d["fields"]}:
                fail(f"config.rs: Default for {n} does not initialise exactly its fields")
            L.append(f"/-- `impl Default for {n}` (`par` = cfg!(feature = \"par\")). -/")
            L.append(f"def {n}.default (par : Bool) : {n} :=")
            inits = ", ".join(f"{f} := {default_expr(fields[f], t)}" for f, t in d["fields"])
            L.append("  { " + inits + " }")
            L.append("")
            if n not in cfg.verifies:
                fail(f"config.rs: no Verify impl for {n}")
            L.append(f"/-- `impl Verify for {n}` (`exp` = cfg!(feature = \"experimental\")). -/")
            L.append(f"def {n}.verify (exp : Bool) (c : {n}) : Bool :=")
            L.append("  " + conjs_lean(cfg.verifies[n], "c", n))
            L.append("")
            # serde: toT / fromT / resetFields
            L.append(f"def {n}.toT (c : {n}) : TVal :=")
            items = []
            for f, t in d["fields"]:
                if t == "Option<NonZeroUsize>":
                    items.append(f'(match c.{f} with | some v => [("{f}", TVal.int v)] | none => [])')
                else:
                    items.append(f'[("{f}", {to_t(t, "c." + f)})]')
            L.append("  .table (" + " ++ ".join(items) + ")")
            L.append("")
            L.append(f"def {n}.fromT (par : Bool) (t : TVal) : Except String {n} :=")
            L.append("  match t with")
            L.append("  | .table kv => do")
            for f, t in d["fields"]:
                missing = f"pure ({n}.default par).{f}" if d["container_default"] else (
                    "pure none" if t == "Option<NonZeroUsize>" else f'throw "missing field `{f}`"')
                L.append(f'    let {f} ← match kv.lookup "{f}" with')
                L.append(f"      | some v => {from_t(t, 'v')}")
                L.append(f"      | none => {missing}")
            L.append("    pure { " + ", ".join(f"{f} := {f}" for f, _ in d["fields"]) + " }")
            L.append(f'  | _ => throw "expected a table for {n}"')
            L.append("")
            L.append(f"/-- `c` with the fields named in `ks` reset to their defaults. -/")
            L.append(f"def {n}.resetFields (par : Bool) (ks : List String) (c : {n}) : {n} :=")
            L.append("  { " + ", ".join(f'{f} := if ks.contains "{f}" then ({n}.default par).{f} else c.{f}' for f, _ in d["fields"]) + " }")
            L.append("")
        else:
            e = cfg.enums[n]
            L.append(f"inductive {n} where")
            for v, fs in e["variants"]:
                args = " ".join(f"({f} : {lean_type(t)})" for f, t, _ in fs)
                L.append(f"  | {v} {args}".rstrip())
            L.append("  deriving Repr, DecidableEq")
            L.append("")
            variant, fields = cfg.defaults.get(n, (None, None))
            if variant is None:
                fail(f"config.rs: Default for enum {n}")
            vf = dict((v, fs) for v, fs in e["variants"])[variant]
            L.append(f"def {n}.default (par : Bool) : {n} :=")
            L.append(f"  let _ := par; .{variant} " + " ".join(default_expr(fields[f], t) for f, t, _ in vf))
            L.append("")
            ast = cfg.verifies.get(n)
            if not ast or ast[0][0] != "match" or len(ast) != 1:
                fail(f"config.rs: Verify for enum {n} is not a single match")
            arms = ast[0][1]
            if [a[0] for a in arms] != [v for v, _ in e["variants"]]:
                fail(f"config.rs: Verify for enum {n}: arms do not cover the variants in order")
            L.append(f"def {n}.verify (exp : Bool) : {n} → Bool")
            for (v, bound, conj), (_, fs) in zip(arms, e["variants"]):
                if bound != [f for f, _, _ in fs]:
                    fail(f"config.rs: Verify for {n}::{v}: bound fields differ from the variant's")
                pat = f".{v} " + " ".join(bound)
                L.append(f"  | {pat.strip()} => let _ := exp; " + (conjs_lean(conj, "c", n) if conj else "true"))
            L.append("")
            if e["tag"] is None:
                fail(f"config.rs: enum {n} is not internally tagged")
            tag = e["tag"]
            L.append(f"def {n}.toT : {n} → TVal")
            for v, fs in e["variants"]:
                pat = f".{v} " + " ".join(f for f, _, _ in fs)
                items = "".join(f', ("{f}", {to_t(t, f)})' for f, t, _ in fs)
                L.append(f'  | {pat.strip()} => .table [("{tag}", .str "{v}"){items}]')
            L.append("")
            L.append(f"def {n}.fromT (par : Bool) (t : TVal) : Except String {n} :=")
            L.append("  let _ := par")
            L.append("  match t with")
            L.append("  | .table kv =>")
            L.append(f'    match kv.lookup "{tag}" with')
            for v, fs in e["variants"]:
                L.append(f'    | some (.str "{v}") => do')
                for f, t, dfn in fs:
                    if dfn is not None:
                        if dfn not in cfg.default_fns:
                            fail(f"config.rs: serde default fn {dfn} not found")
                        dflt = "pure " + atom_lean(("path", [cfg.default_fns[dfn]]))
                    else:
                        dflt = f'throw "missing field `{f}`"'
                    L.append(f'      let {f} ← match kv.lookup "{f}" with')
                    L.append(f"        | some v => {from_t(t, 'v')}")
                    L.append(f"        | none => {dflt}")
                L.append(f"      pure (.{v} " + " ".join(f for f, _, _ in fs) + ")")
            L.append(f'    | _ => throw "unknown or missing `{tag}` for {n}"')
            L.append(f'  | _ => throw "expected a table for {n}"')
            L.append("")
    L += ["end FlacVerif.Gen", ""]
    return "\n".join(L)


def to_t(t, e):
    if t == "usize":
        return f"TVal.int {e}"
    if t == "bool":
        return f"TVal.bool {e}"
    if t == "f32":
        return f"TVal.f32 {e}"
    return f"{t}.toT {e}"


def from_t(t, v):
    if t == "usize":
        return f'(match {v} with | .int n => pure n | _ => throw "expected an integer")'
    if t == "bool":
        return f'(match {v} with | .bool b => pure b | _ => throw "expected a boolean")'
    if t == "f32":
        return f'(match {v} with | .f32 b => pure b | .int n => pure (F32.ofNat n) | _ => throw "expected a float")'
    if t == "Option<NonZeroUsize>":
        return f'(match {v} with | .int n => if n = 0 then throw "expected a non-zero integer" else pure (some n) | _ => throw "expected an integer")'
    return f"{t}.fromT par {v}"


# ------------------------------------------------------------------ tables

def emit_tables():
    L = ["-- GENERATED by tools/translate.py — do not edit", "namespace FlacVerif.Gen.Tables", ""]
    # which catalog entries the code names: `const CRC_8_FLAC: crc::Algorithm<u8> = crc::CRC_8_SMBUS;`
    # used as `...::new(&CRC_8_FLAC)` for HEADER_CRC and `&CRC_16_FLAC` for FRAME_CRC
    br = strip_comments(open(os.path.join(REPO, "src", "component", "bitrepr.rs")).read())
    names = {}
    for width, static in ((8, "HEADER_CRC"), (16, "FRAME_CRC")):
        m = re.search(r"static\s+" + static + r"\s*:[^=]*=[^;]*?new\(\s*&\s*([A-Z0-9_]+)\s*\)\s*;", br, re.S)
        if not m:
            fail(f"bitrepr.rs: static {static}")
        local = m.group(1)
        m2 = re.search(r"const\s+" + local + r"\s*:\s*crc::Algorithm<u\d+>\s*=\s*crc::([A-Z0-9_]+)\s*;", br)
        if not m2:
            fail(f"bitrepr.rs: const {local}")
        names[width] = m2.group(1)
    lock = open(os.path.join(REPO, "Cargo.lock")).read()
    vm = re.search(r'name = "crc-catalog"\nversion = "([0-9.]+)"', lock)
    if not vm:
        fail("Cargo.lock: crc-catalog version")
    cat = sorted(glob.glob(os.path.expanduser(f"~/.cargo/registry/src/*/crc-catalog-{vm.group(1)}/src/algorithm.rs")))
    if not cat:
        fail("crc-catalog source not found in the cargo registry")
    src = open(cat[-1]).read()
    for width, nm in names.items():
        m = re.search(r"pub const " + nm + r": Algorithm<u\d+> = Algorithm \{(.*?)\};", src, re.S)
        if not m:
            fail(f"crc-catalog: {nm}")
        body = m.group(1)
        def fld(k):
            fm = re.search(r"\b" + k + r":\s*([0-9a-fx_A-Ftrue ls]+?)\s*,", body)
            if not fm:
                fail(f"crc-catalog: {nm}.{k}")
            v = fm.group(1).strip()
            if v in ("true", "false"):
                return v
            return str(int(v.replace("_", ""), 0))
        L.append(f"/-- `{nm}` (crc-catalog): width, poly, init, refin, refout, xorout -/")
        L.append(f"def crc{width} : Nat × Nat × Nat × Bool × Bool × Nat := ({fld('width')}, {fld('poly')}, {fld('init')}, {fld('refin')}, {fld('refout')}, {fld('xorout')})")
    # FIXED_LPC_COEFS of decode.rs
    dec = strip_comments(open(os.path.join(REPO, "src", "component", "decode.rs")).read())
    m = re.search(r"const FIXED_LPC_COEFS[^=]*=\s*\[(.*?)\];", dec, re.S)
    if not m:
        fail("decode.rs: FIXED_LPC_COEFS")
    rows = re.findall(r"\[([^\[\]]*)\]", m.group(1))
    rows = [[int(x) for x in r.replace(" ", "").split(",") if x] for r in rows]
    L.append("/-- `FIXED_LPC_COEFS` of decode.rs -/")
    L.append("def fixedLpcCoefs : List (List Int) := [" + ", ".join("[" + ", ".join(str(x) for x in r) + "]" for r in rows) + "]")
    L += ["", "end FlacVerif.Gen.Tables", ""]
    return "\n".join(L)


# ------------------------------------------------------------------ headers (datatype.rs, bitrepr.rs)
#
# Part `headers`: the frame-header code tables.  The enums `ChannelAssignment`, `BlockSizeSpec`,
# `SampleSizeSpec`, `SampleRateSpec` of src/component/datatype.rs and the functions listed in HDR_SPEC
# are PARSED (lexer -> recursive-descent parser for a Rust expression subset -> typed translation) and
# mirrored arm by arm, in source order, in Gen/Headers.lean.  Nothing about the table contents is known
# to this file: literals, arm order, guards, variant names, payload types and discriminants all come from
# the source text.  Any token, item, statement, pattern or expression shape that is not understood
# raises `fail("datatype.rs: ...")`.

HDR_BITS = {"u8": 8, "u16": 16, "u32": 32, "u64": 64, "usize": int(os.environ.get("FV_USIZE_BITS", "64"))}

# (file, trait or None, type or None (free fn), [functions that MUST be translated])
HDR_SPEC = [
    ("datatype.rs", None, None, ["ilog2"]),
    ("datatype.rs", None, "ChannelAssignment", ["from_tag", "bits_per_sample_offset", "channels"]),
    ("datatype.rs", None, "BlockSizeSpec", ["from_size", "count_extra_bits", "block_size", "tag", "write_extra_bits"]),
    ("datatype.rs", None, "SampleSizeSpec", ["from_tag", "into_tag", "from_bits", "into_bits"]),
    ("datatype.rs", None, "SampleRateSpec", ["from_freq", "from_tag_and_data", "count_extra_bits", "tag", "write_extra_bits"]),
    ("bitrepr.rs", "BitRepr", "ChannelAssignment", ["count_bits", "write"]),
]
HDR_ENUMS = ["ChannelAssignment", "BlockSizeSpec", "SampleSizeSpec", "SampleRateSpec"]


def hdr_lex(src, where):
    """Rust lexer (comments, string/char literals, lifetimes, numbers, identifiers, punctuation)."""
    toks = []
    i, n = 0, len(src)
    p3 = ("..=", "<<=", ">>=", "...")
    p2 = ("::", "->", "=>", "==", "!=", "<=", ">=", "&&", "||", "<<", ">>", "..", "+=", "-=", "*=", "/=", "%=", "|=", "&=", "^=")
    raw_re = re.compile(r'b?r(#*)"')
    chr_re = re.compile(r"'(\\(?:u\{[0-9a-fA-F_]+\}|x[0-9a-fA-F]{2}|.)|[^\\'])'", re.S)
    life_re = re.compile(r"'[A-Za-z_][A-Za-z0-9_]*")
    id_re = re.compile(r"[A-Za-z_][A-Za-z0-9_]*")
    num_re = re.compile(r"\d[0-9A-Za-z_]*(?:\.\d[0-9A-Za-z_]*)?")
    while i < n:
        c = src[i]
        if c.isspace():
            i += 1
            continue
        if src.startswith("//", i):
            j = src.find("\n", i)
            i = n if j < 0 else j
            continue
        if src.startswith("/*", i):
            d, i = 1, i + 2
            while i < n and d:
                if src.startswith("/*", i):
                    d, i = d + 1, i + 2
                elif src.startswith("*/", i):
                    d, i = d - 1, i + 2
                else:
                    i += 1
            if d:
                fail(f"{where}: unterminated block comment")
            continue
        m = raw_re.match(src, i)
        if m:
            close = '"' + m.group(1)
            j = src.find(close, m.end())
            if j < 0:
                fail(f"{where}: unterminated raw string")
            toks.append('"<raw>"')
            i = j + len(close)
            continue
        if c == '"' or (c == "b" and src[i + 1:i + 2] == '"'):
            j = i + (2 if c == "b" else 1)
            while j < n and src[j] != '"':
                j += 2 if src[j] == "\\" else 1
            if j >= n:
                fail(f"{where}: unterminated string literal")
            toks.append(src[i:j + 1])
            i = j + 1
            continue
        if c == "'" or (c == "b" and src[i + 1:i + 2] == "'"):
            k = i + (1 if c == "b" else 0)
            m = chr_re.match(src, k)
            if m:
                toks.append(m.group(0))
                i = m.end()
                continue
            m = life_re.match(src, k)
            if m and c == "'":
                toks.append(m.group(0))
                i = m.end()
                continue
            fail(f"{where}: cannot lex quote at offset {i}")
        m = id_re.match(src, i)
        if m:
            toks.append(m.group(0))
            i = m.end()
            continue
        m = num_re.match(src, i)
        if m:
            toks.append(m.group(0))
            i = m.end()
            continue
        for ps in (p3, p2):
            for p in ps:
                if src.startswith(p, i):
                    toks.append(p)
                    i += len(p)
                    break
            else:
                continue
            break
        else:
            if c in "{}()[];:=+-*/%<>&!,.#|?^@$~":
                toks.append(c)
                i += 1
            else:
                fail(f"{where}: cannot lex character {c!r} at offset {i}")
    return toks


def hdr_int_literal(t, where):
    m = re.fullmatch(r"(0x[0-9A-Fa-f_]+|0b[01_]+|0o[0-7_]+|\d[\d_]*)(usize|u8|u16|u32|u64|i8|i16|i32|i64|isize)?", t)
    if not m:
        fail(f"{where}: numeric literal {t!r}")
    if m.group(2) is not None and m.group(2) not in HDR_BITS:
        fail(f"{where}: signed literal {t!r}")
    return int(m.group(1).replace("_", ""), 0), m.group(2)


class HdrItems:
    """Index of the top-level items of one file: enums, impl blocks, free functions."""

    def __init__(self, fname, toks):
        self.fname = fname
        self.toks = toks
        self.enums = {}    # name -> [(variant, [payload type], discriminant | None)]
        self.impls = {}    # (trait | None, type) -> {fn name -> fn record}
        self.fns = {}      # free functions
        self.scan()

    def group_end(self, i):
        """toks[i] opens a bracket; index after its matching close."""
        t = self.toks
        pairs = {"(": ")", "[": "]", "{": "}"}
        stack = []
        while i < len(t):
            if t[i] in pairs:
                stack.append(pairs[t[i]])
            elif t[i] in pairs.values():
                if not stack or stack.pop() != t[i]:
                    fail(f"{self.fname}: unbalanced bracket {t[i]!r}")
                if not stack:
                    return i + 1
            i += 1
        fail(f"{self.fname}: unbalanced brackets")

    def scan(self):
        t = self.toks
        i = 0
        attrs = []
        while i < len(t):
            x = t[i]
            if x == "#" and t[i + 1:i + 2] == ["["]:
                j = self.group_end(i + 1)
                attrs.append("".join(t[i:j]))
                i = j
                continue
            if x == "#" and t[i + 1:i + 3] == ["!", "["]:
                i = self.group_end(i + 2)
                continue
            if x == "enum" and t[i + 1] in HDR_ENUMS:
                name = t[i + 1]
                if t[i + 2] != "{":
                    fail(f"{self.fname}: enum {name}: generic or unexpected header")
                end = self.group_end(i + 2)
                if name in HDR_ENUMS:
                    self.enums[name] = self.parse_enum(name, i + 3, end - 1)
                i, attrs = end, []
                continue
            if x == "impl":
                j = i + 1
                while t[j] != "{":
                    if t[j] == ";":
                        fail(f"{self.fname}: impl header")
                    j = self.group_end(j) if t[j] in ("(", "[") else j + 1
                head = t[i + 1:j]
                end = self.group_end(j)
                key = None
                if len(head) == 1:
                    key = (None, head[0])
                elif len(head) == 3 and head[1] == "for":
                    key = (head[0], head[2])
                if key is not None:
                    if key in self.impls:
                        # several inherent impl blocks: merge
                        self.scan_fns(j + 1, end - 1, self.impls[key], f"impl {' '.join(head)}")
                    else:
                        self.impls[key] = {}
                        self.scan_fns(j + 1, end - 1, self.impls[key], f"impl {' '.join(head)}")
                i, attrs = end, []
                continue
            if x == "fn":
                rec, i = self.parse_fn(i, attrs, "")
                self.fns[rec["name"]] = rec
                attrs = []
                continue
            if x in ("{", "(", "["):
                i = self.group_end(i)
                if x == "{":
                    attrs = []
                continue
            if x == ";":
                attrs = []
            i += 1

    def parse_enum(self, name, i, end):
        t = self.toks
        out = []
        nxt = 0
        while i < end:
            if t[i] == "#":
                i = self.group_end(i + 1)
                continue
            v = t[i]
            if not re.fullmatch(r"[A-Za-z_][A-Za-z0-9_]*", v):
                fail(f"{self.fname}: enum {name}: variant name {v!r}")
            i += 1
            payload = []
            disc = None
            if i < end and t[i] == "(":
                j = self.group_end(i)
                inner = t[i + 1:j - 1]
                cur = []
                for z in inner + [","]:
                    if z == ",":
                        if cur:
                            if len(cur) != 1 or cur[0] not in HDR_BITS:
                                fail(f"{self.fname}: enum {name}::{v}: payload type {' '.join(cur)!r}")
                            payload.append(cur[0])
                        cur = []
                    else:
                        cur.append(z)
                i = j
            elif i < end and t[i] == "{":
                fail(f"{self.fname}: enum {name}::{v}: struct-like variant")
            if i < end and t[i] == "=":
                val, suf = hdr_int_literal(t[i + 1], f"{self.fname}: enum {name}::{v} discriminant")
                disc = val
                i += 2
            if disc is None:
                disc = nxt
                explicit = False
            else:
                explicit = True
            nxt = disc + 1
            out.append((v, payload, disc, explicit))
            if i < end:
                if t[i] != ",":
                    fail(f"{self.fname}: enum {name}: expected `,` after {v}, found {t[i]!r}")
                i += 1
        if len({v for v, _, _, _ in out}) != len(out):
            fail(f"{self.fname}: enum {name}: duplicate variant")
        return out

    def scan_fns(self, i, end, dest, where):
        t = self.toks
        attrs = []
        while i < end:
            x = t[i]
            if x == "#" and t[i + 1] == "[":
                j = self.group_end(i + 1)
                attrs.append("".join(t[i:j]))
                i = j
                continue
            if x == "fn":
                rec, i = self.parse_fn(i, attrs, where)
                if rec["name"] in dest:
                    fail(f"{self.fname}: {where}: duplicate fn {rec['name']}")
                dest[rec["name"]] = rec
                attrs = []
                continue
            if x in ("{", "(", "["):
                i = self.group_end(i)
                continue
            if x == ";":
                attrs = []
            i += 1

    def parse_fn(self, i, attrs, where):
        t = self.toks
        name = t[i + 1]
        j = i + 2
        generics = []
        if t[j] == "<":
            d = 0
            while True:
                if t[j] == "<":
                    d += 1
                elif t[j] == ">":
                    d -= 1
                elif t[j] == ">>":
                    d -= 2
                generics.append(t[j])
                j += 1
                if d <= 0:
                    break
        if t[j] != "(":
            fail(f"{self.fname}: {where} fn {name}: parameter list")
        pe = self.group_end(j)
        ptoks = t[j + 1:pe - 1]
        params = []
        cur, d = [], 0
        for z in ptoks + [","]:
            if z in ("(", "[", "{", "<"):
                d += 1
            elif z in (")", "]", "}", ">"):
                d -= 1
            elif z == ">>":
                d -= 2
            if z == "," and d == 0:
                if cur:
                    params.append(cur)
                cur = []
            else:
                cur.append(z)
        j = pe
        ret = []
        if t[j] == "->":
            j += 1
            while t[j] not in ("{", "where", ";"):
                ret.append(t[j])
                j += 1
        if t[j] == "where":
            while t[j] not in ("{", ";"):
                j += 1
        if t[j] == ";":
            return {"name": name, "params": params, "ret": ret, "body": None, "attrs": list(attrs), "generics": generics}, j + 1
        be = self.group_end(j)
        return {"name": name, "params": params, "ret": ret, "body": (j, be), "attrs": list(attrs), "generics": generics}, be


# ---- expression parser (Rust subset) -> AST of tuples

HDR_BINOPS = [["||"], ["&&"], ["==", "!=", "<", ">", "<=", ">="], ["|"], ["^"], ["&"], ["<<", ">>"], ["+", "-"], ["*", "/", "%"]]
HDR_KEYWORDS = {"match", "if", "else", "let", "return", "fn", "for", "while", "loop", "as", "mut", "ref", "move", "in",
                "break", "continue", "struct", "enum", "impl", "use", "unsafe", "where", "pub", "const", "static", "dyn", "type"}


class HdrParser:
    def __init__(self, toks, lo, hi, where):
        self.t = toks
        self.p = lo
        self.hi = hi
        self.where = where

    def err(self, msg):
        ctx = " ".join(self.t[max(self.p - 5, 0):min(self.p + 6, self.hi)])
        fail(f"{self.where}: {msg} (near `{ctx}`)")

    def peek(self, k=0):
        return self.t[self.p + k] if self.p + k < self.hi else None

    def eat(self, x):
        if self.peek() != x:
            self.err(f"expected {x!r}, found {self.peek()!r}")
        self.p += 1

    def skip_attrs(self):
        # only lint / formatting attributes may be ignored inside a body; `#[cfg(..)]` on a statement or a match
        # arm would make the arm conditional, which this translator does not model
        while self.peek() == "#" and self.peek(1) == "[":
            if self.peek(2) not in ("allow", "expect", "warn", "deny", "inline", "rustfmt", "doc", "must_use"):
                self.err(f"attribute #[{self.peek(2)}..] inside a function body")
            d = 0
            self.p += 1
            while True:
                if self.peek() == "[":
                    d += 1
                elif self.peek() == "]":
                    d -= 1
                elif self.peek() is None:
                    self.err("attribute")
                self.p += 1
                if d == 0:
                    break

    def is_ident(self, x):
        return x is not None and re.fullmatch(r"[A-Za-z_][A-Za-z0-9_]*", x) is not None and x not in HDR_KEYWORDS

    # block := { stmt* tail? }   -> ("block", [stmt], tail | None); stmt = expression (value discarded)
    def block(self):
        self.eat("{")
        stmts = []
        tail = None
        while True:
            self.skip_attrs()
            if self.peek() == "}":
                self.p += 1
                break
            if self.peek() == "let":
                self.err("`let` statement")
            if self.peek() == ";":
                self.p += 1
                continue
            e = self.expr()
            if self.peek() == ";":
                self.p += 1
                stmts.append(e)
            elif self.peek() == "}":
                tail = e
            elif e[0] in ("if", "iflet", "match", "block"):
                stmts.append(e)   # block-like expression statement
            else:
                self.err(f"expected `;` or `}}` after expression, found {self.peek()!r}")
        return ("block", stmts, tail)

    def expr(self, level=0):
        if level == len(HDR_BINOPS):
            return self.cast()
        l = self.expr(level + 1)
        while self.peek() in HDR_BINOPS[level]:
            op = self.peek()
            self.p += 1
            r = self.expr(level + 1)
            if level == 2 and self.peek() in HDR_BINOPS[2]:
                self.err("chained comparison")
            l = ("bin", op, l, r)
        return l

    def cast(self):
        e = self.unary()
        while self.peek() == "as":
            self.p += 1
            ty = self.peek()
            if ty not in HDR_BITS:
                self.err(f"cast to unsupported type {ty!r}")
            self.p += 1
            e = ("cast", e, ty)
        return e

    def unary(self):
        x = self.peek()
        if x in ("*", "!", "-", "&"):
            self.p += 1
            if x == "&" and self.peek() == "mut":
                self.p += 1
            return ("un", x, self.unary())
        if x == "&&":
            self.p += 1
            return ("un", "&", ("un", "&", self.unary()))
        return self.postfix()

    def args(self):
        self.eat("(")
        out = []
        while self.peek() != ")":
            out.append(self.expr())
            if self.peek() == ",":
                self.p += 1
            elif self.peek() != ")":
                self.err("argument list")
        self.p += 1
        return out

    def postfix(self):
        e = self.primary()
        while True:
            x = self.peek()
            if x == "(":
                e = ("call", e, self.args())
            elif x == "." and self.is_ident(self.peek(1)):
                name = self.peek(1)
                self.p += 2
                if self.peek() == "::":
                    self.p += 1
                    self.generic_args()
                if self.peek() != "(":
                    self.err(f"field access .{name}")
                e = ("mcall", e, name, self.args())
            elif x == "?":
                self.p += 1
                e = ("try", e)
            else:
                return e

    def generic_args(self):
        if self.peek() != "<":
            self.err("generic arguments")
        d = 0
        while True:
            x = self.peek()
            if x == "<":
                d += 1
            elif x == ">":
                d -= 1
            elif x == ">>":
                d -= 2
            elif x is None or x in ("{", "}", ";"):
                self.err("generic arguments")
            self.p += 1
            if d <= 0:
                return

    def path(self):
        segs = [self.peek()]
        self.p += 1
        while self.peek() == "::":
            self.p += 1
            if self.peek() == "<":
                self.generic_args()
                continue
            if not self.is_ident(self.peek()):
                self.err("path segment")
            segs.append(self.peek())
            self.p += 1
        return segs

    def primary(self):
        x = self.peek()
        if x is None:
            self.err("unexpected end of input")
        if x == "(":
            self.p += 1
            if self.peek() == ")":
                self.p += 1
                return ("unit",)
            e = self.expr()
            if self.peek() == ",":
                self.err("tuple expression")
            self.eat(")")
            return ("paren", e)
        if x == "{":
            return self.block()
        if x == "match":
            return self.match()
        if x == "if":
            return self.if_()
        if x == "return":
            self.p += 1
            if self.peek() in (";", "}", ","):
                return ("return", None)
            return ("return", self.expr())
        if x == "||":
            self.p += 1
            return ("closure", [], self.expr())
        if x == "|":
            self.p += 1
            ps = []
            while self.peek() != "|":
                if not self.is_ident(self.peek()):
                    self.err("closure parameter")
                ps.append(self.peek())
                self.p += 1
                if self.peek() == ",":
                    self.p += 1
            self.p += 1
            return ("closure", ps, self.expr())
        if re.fullmatch(r"\d.*", x):
            if "." in x:
                self.err(f"float literal {x}")
            v, suf = hdr_int_literal(x, self.where)
            self.p += 1
            return ("int", v, suf)
        if x.startswith('"'):
            self.p += 1
            return ("str", x)
        if x in ("true", "false"):
            self.p += 1
            return ("boollit", x == "true")
        if self.is_ident(x) or x in ("Self", "self"):
            if self.peek(1) == "!":
                if self.peek(2) != "(":
                    self.err(f"macro {x}!")
                self.p += 2
                d = 0
                start = self.p
                while True:
                    if self.peek() == "(":
                        d += 1
                    elif self.peek() == ")":
                        d -= 1
                    elif self.peek() is None:
                        self.err(f"macro {x}!")
                    self.p += 1
                    if d == 0:
                        break
                return ("macro", x, self.t[start + 1:self.p - 1])
            segs = self.path()
            if self.peek() == "{" and len(segs) > 1 and not self.no_struct:
                self.err("struct literal")
            if len(segs) == 1:
                return ("var", segs[0])
            return ("path", segs)
        self.err(f"unexpected token {x!r}")

    no_struct = True  # struct literals are never accepted; `{` after a path ends the expression

    def pattern(self):
        x = self.peek()
        if x == "_":
            self.p += 1
            return ("wild",)
        if x is not None and re.fullmatch(r"\d.*", x):
            v, suf = hdr_int_literal(x, self.where)
            self.p += 1
            if self.peek() in ("..", "..=", "..."):
                self.err("range pattern")
            return ("lit", v, suf)
        if x == "-":
            self.err("negative literal pattern")
        if x in ("&", "ref", "mut", "(", "["):
            self.err(f"pattern starting with {x!r}")
        if self.is_ident(x) or x == "Self":
            segs = self.path()
            if len(segs) == 1:
                if self.peek() in ("(", "{", "@"):
                    self.err(f"pattern {segs[0]}{self.peek()}")
                if not re.fullmatch(r"[a-z_][a-z0-9_]*", segs[0]):
                    self.err(f"pattern {segs[0]!r} is neither a lower-case binding nor a path")
                return ("bind", segs[0])
            sub = []
            if self.peek() == "(":
                self.p += 1
                while self.peek() != ")":
                    y = self.peek()
                    if y == "_":
                        sub.append(("wild",))
                    elif self.is_ident(y) and re.fullmatch(r"[a-z_][a-z0-9_]*", y):
                        sub.append(("bind", y))
                    else:
                        self.err(f"sub-pattern {y!r}")
                    self.p += 1
                    if self.peek() == ",":
                        self.p += 1
                    elif self.peek() != ")":
                        self.err("sub-pattern list")
                self.p += 1
            elif self.peek() == "{":
                self.err("struct pattern")
            return ("variant", segs, sub)
        self.err(f"pattern starting with {x!r}")

    def match(self):
        self.eat("match")
        scrut = self.expr()
        self.eat("{")
        arms = []
        while True:
            self.skip_attrs()
            if self.peek() == "}":
                self.p += 1
                break
            if self.peek() == "|":
                self.p += 1
            alts = [self.pattern()]
            while self.peek() == "|":
                self.p += 1
                alts.append(self.pattern())
            guard = None
            if self.peek() == "if":
                self.p += 1
                guard = self.expr()
            self.eat("=>")
            if self.peek() == "{":
                body = self.block()
                if self.peek() == ",":
                    self.p += 1
                elif self.peek() in (".", "?"):
                    self.err("method call on a block arm")
            else:
                body = self.expr()
                if self.peek() == ",":
                    self.p += 1
                elif self.peek() != "}":
                    self.err(f"expected `,` or `}}` after match arm, found {self.peek()!r}")
            arms.append((alts, guard, body))
        if not arms:
            self.err("match without arms")
        return ("match", scrut, arms)

    def if_(self):
        self.eat("if")
        if self.peek() == "let":
            self.p += 1
            pat = self.pattern()
            if self.peek() == "|":
                self.err("or-pattern in if-let")
            self.eat("=")
            scrut = self.expr()
            then = self.block()
            els = None
            if self.peek() == "else":
                self.p += 1
                els = self.if_() if self.peek() == "if" else self.block()
            return ("iflet", pat, scrut, then, els)
        cond = self.expr()
        then = self.block()
        els = None
        if self.peek() == "else":
            self.p += 1
            els = self.if_() if self.peek() == "if" else self.block()
        return ("if", cond, then, els)


# ---- typed translation AST -> Lean

class HV:
    """Translated value: Lean text, Rust type, exactness condition (Lean Bool text or None = true), literal value."""
    __slots__ = ("lean", "ty", "ex", "lit")

    def __init__(self, lean, ty, ex=None, lit=None):
        self.lean, self.ty, self.ex, self.lit = lean, ty, ex, lit


def hdr_and(*xs):
    xs = [x for x in xs if x is not None]
    if not xs:
        return None
    return xs[0] if len(xs) == 1 else "(" + " && ".join(xs) + ")"


def hdr_indent(s, k):
    pad = " " * k
    return "\n".join((pad + ln if ln else ln) for ln in s.split("\n"))


def hdr_is_int(ty):
    return isinstance(ty, str) and ty in HDR_BITS


class HdrTx:
    def __init__(self, enums):
        self.enums = enums          # name -> variants
        self.fn_sigs = {}           # lean name of translated free fn -> (param types, ret type, has_exact)
        self.where = ""
        self.self_enum = None

    def err(self, msg):
        fail(f"{self.where}: {msg}")

    # --- types
    def parse_type(self, toks):
        s = "".join(toks)
        if s in HDR_BITS:
            return s
        if s == "bool":
            return "bool"
        if s == "Self":
            if self.self_enum is None:
                self.err("`Self` outside an impl of a translated enum")
            return ("enum", self.self_enum)
        if s in self.enums:
            return ("enum", s)
        m = re.fullmatch(r"Option<(.+)>", s)
        if m:
            return ("opt", self.parse_type([m.group(1)]))
        if s.startswith("Result<(),") and s.endswith(">"):
            return "writes"
        self.err(f"unsupported type `{s}`")

    def lean_type(self, ty):
        if hdr_is_int(ty):
            return "Nat"
        if ty == "bool":
            return "Bool"
        if ty == "writes":
            return "Writes"
        if isinstance(ty, tuple) and ty[0] == "enum":
            return ty[1]
        if isinstance(ty, tuple) and ty[0] == "opt":
            inner = self.lean_type(ty[1])
            return f"Option {inner}" if " " not in inner else f"Option ({inner})"
        self.err(f"no Lean type for {ty!r}")

    def unify(self, a, b, what):
        """Type of two branches; None = untyped integer literal, "any" = diverging (unreachable!)."""
        if a == "any":
            return b
        if b == "any":
            return a
        if a is None and (b is None or hdr_is_int(b)):
            return b
        if b is None and hdr_is_int(a):
            return a
        if isinstance(a, tuple) and isinstance(b, tuple) and a[0] == "opt" and b[0] == "opt":
            if a[1] == "unknown":
                return b
            if b[1] == "unknown":
                return a
            return ("opt", self.unify(a[1], b[1], what))
        if a == b:
            return a
        self.err(f"{what}: branches of different types {a!r} / {b!r}")

    def fits(self, v, ty, what):
        if hdr_is_int(ty) and not (0 <= v < 2 ** HDR_BITS[ty]):
            self.err(f"{what}: literal {v} does not fit {ty}")

    def variant(self, segs):
        if len(segs) != 2:
            self.err(f"path {'::'.join(segs)}")
        en = self.self_enum if segs[0] == "Self" else segs[0]
        if en not in self.enums:
            self.err(f"path {'::'.join(segs)}: not a translated enum")
        for v, payload, disc, _ in self.enums[en]:
            if v == segs[1]:
                return en, v, payload
        self.err(f"path {'::'.join(segs)}: no such variant")

    # --- pure expressions
    def tx(self, e, env, want=None, tail=False):
        k = e[0]
        if k == "paren":
            return self.tx(e[1], env, want, tail)
        if k == "int":
            v, suf = e[1], e[2]
            ty = suf if suf is not None else (want if hdr_is_int(want) else None)
            if ty is not None:
                self.fits(v, ty, "literal")
            return HV(str(v), ty, None, v)
        if k == "boollit":
            return HV("True" if e[1] else "False", "bool")
        if k == "var":
            name = e[1]
            if name == "None":
                return HV("none", ("opt", "unknown"))
            if name not in env:
                self.err(f"unknown name `{name}`")
            lean, ty = env[name]
            return HV(lean, ty)
        if k == "path":
            en, v, payload = self.variant(e[1])
            if payload:
                return HV(f"{en}.{v}", ("ctor", en, v, tuple(payload)))
            return HV(f"{en}.{v}", ("enum", en))
        if k == "un":
            if e[1] == "*":
                inner = self.tx(e[2], env, want)
                return inner   # references are transparent: `*self`, `*n`
            if e[1] == "!":
                inner = self.tx(e[2], env)
                if inner.ty != "bool":
                    self.err("`!` on a non-boolean")
                return HV(f"(¬ {inner.lean})", "bool", inner.ex)
            self.err(f"unary `{e[1]}`")
        if k == "cast":
            return self.tx_cast(e, env)
        if k == "bin":
            return self.tx_bin(e, env, want)
        if k == "call":
            return self.tx_call(e, env, want, tail)
        if k == "mcall":
            return self.tx_mcall(e, env, want)
        if k == "match":
            return self.tx_match(e, env, want, tail)
        if k == "if":
            return self.tx_if(e, env, want, tail)
        if k == "iflet":
            return self.tx_iflet(e, env, want, tail)
        if k == "block":
            return self.tx_block(e, env, want, tail)
        if k == "try":
            if e[1][0] == "var" and ("?", e[1][1]) in env:
                lean, ty = env[("?", e[1][1])]
                return HV(lean, ty)
            self.err("`?` in an unsupported position")
        if k == "macro":
            if e[1] == "unreachable" and all(t.startswith('"') or t == "," for t in e[2]):
                # a panic site: the value is irrelevant, exactness is false
                return HV("default", "any", "false")
            self.err(f"macro {e[1]}!")
        if k == "return":
            self.err("`return` in an unsupported position")
        if k == "closure":
            self.err("closure in an unsupported position")
        self.err(f"expression kind `{k}`")

    def tx_cast(self, e, env):
        inner = self.tx(e[1], env)
        T = e[2]
        w = HDR_BITS[T]
        if inner.ty is None:
            if inner.lit is None:
                self.err("cast of an untyped expression")
            self.fits(inner.lit, T, "cast")
            return HV(inner.lean, T, inner.ex, inner.lit)
        if hdr_is_int(inner.ty):
            if HDR_BITS[inner.ty] > w:
                return HV(f"({inner.lean} % {2 ** w})", T, inner.ex)   # `as` truncates silently
            return HV(inner.lean, T, inner.ex)
        if isinstance(inner.ty, tuple) and inner.ty[0] == "enum":
            en = inner.ty[1]
            vs = self.enums[en]
            if any(p for _, p, _, _ in vs):
                self.err(f"cast of enum {en} with payload variants")
            if max(d for _, _, d, _ in vs) >= 2 ** w:
                self.err(f"cast of enum {en}: discriminant does not fit {T}")
            return HV(f"({en}.discriminant {inner.lean})", T, inner.ex)
        self.err(f"cast from {inner.ty!r}")

    def tx_bin(self, e, env, want):
        op = e[1]
        if op in ("&&", "||"):
            l, r = self.tx(e[2], env), self.tx(e[3], env)
            if l.ty != "bool" or r.ty != "bool":
                self.err(f"`{op}` on non-booleans")
            if r.ex is not None:
                self.err(f"arithmetic that may overflow on the right of `{op}`")
            return HV(f"({l.lean} {'∧' if op == '&&' else '∨'} {r.lean})", "bool", l.ex)
        cmp_ = op in ("==", "!=", "<", ">", "<=", ">=")
        l = self.tx(e[2], env, None if cmp_ else want)
        r = self.tx(e[3], env, None if (cmp_ or op in ("<<", ">>")) else want)
        for z in (l, r):
            if not (z.ty is None or hdr_is_int(z.ty)):
                if cmp_ and op in ("==", "!=") and l.ty == r.ty == "bool":
                    break
                self.err(f"operand of `{op}` is not an integer ({z.ty!r})")
        if op in ("<<", ">>"):
            ty = l.ty if l.ty is not None else (want if hdr_is_int(want) else None)
            if r.ty is None and r.lit is None:
                self.err("shift amount of unknown type")
        else:
            if l.ty is None and r.ty is None:
                ty = None if cmp_ else (want if hdr_is_int(want) else None)
            elif l.ty is None:
                ty = r.ty
            elif r.ty is None:
                ty = l.ty
            elif l.ty != r.ty:
                self.err(f"`{op}` on different integer types {l.ty} / {r.ty}")
            else:
                ty = l.ty
            for z in (l, r):
                if z.ty is None and ty is not None:
                    if z.lit is None:
                        self.err(f"untyped operand of `{op}`")
                    self.fits(z.lit, ty, f"operand of `{op}`")
        ex = hdr_and(l.ex, r.ex)
        if cmp_:
            sym = {"==": "=", "!=": "≠", "<": "<", ">": ">", "<=": "≤", ">=": "≥"}[op]
            return HV(f"({l.lean} {sym} {r.lean})", "bool", ex)
        if ty is None:
            self.err(f"cannot infer the integer type of `{l.lean} {op} {r.lean}`")
        w = HDR_BITS[ty]
        if l.ty is None and op in ("<<", ">>"):
            self.fits(l.lit, ty, "shifted literal")
        if op == "+":
            return HV(f"({l.lean} + {r.lean})", ty, hdr_and(ex, f"decide ({l.lean} + {r.lean} < {2 ** w})"))
        if op == "-":
            return HV(f"({l.lean} - {r.lean})", ty, hdr_and(ex, f"decide ({r.lean} ≤ {l.lean})"))
        if op == "*":
            return HV(f"({l.lean} * {r.lean})", ty, hdr_and(ex, f"decide ({l.lean} * {r.lean} < {2 ** w})"))
        if op in ("/", "%"):
            if r.lit is not None:
                if r.lit == 0:
                    self.err("division by the literal 0")
                c = None
            else:
                c = f"decide ({r.lean} ≠ 0)"
            return HV(f"({l.lean} {op} {r.lean})", ty, hdr_and(ex, c))
        if op == "<<":
            return HV(f"({l.lean} <<< {r.lean})", ty,
                      hdr_and(ex, f"decide ({r.lean} < {w})", f"decide ({l.lean} <<< {r.lean} < {2 ** w})"))
        if op == ">>":
            return HV(f"({l.lean} >>> {r.lean})", ty, hdr_and(ex, f"decide ({r.lean} < {w})"))
        if op in ("|", "&", "^"):
            sym = {"|": "|||", "&": "&&&", "^": "^^^"}[op]
            return HV(f"({l.lean} {sym} {r.lean})", ty, ex)
        self.err(f"operator `{op}`")

    def tx_call(self, e, env, want, tail):
        callee, args = e[1], e[2]
        if callee[0] == "var" and callee[1] == "Some":
            if len(args) != 1:
                self.err("Some(..) arity")
            inner_want = want[1] if isinstance(want, tuple) and want[0] == "opt" else None
            if self.has_try(args[0]):
                # `Some(match .. { p => f(x?) , .. })` in tail position: the `?` returns None from the function,
                # i.e. the arm's value is `x.bind (fun x' => some (f x'))`; `Some` is distributed over the arms.
                if not tail:
                    self.err("`?` inside Some(..) that is not the function's final value")
                inner = args[0]
                while inner[0] == "paren":
                    inner = inner[1]
                if inner[0] != "match":
                    self.err("`?` inside Some(..) whose argument is not a match")
                return self.tx_match(inner, env, inner_want, False, wrap_some=True)
            a = self.tx(args[0], env, inner_want)
            return HV(f"(some {a.lean})", ("opt", a.ty), a.ex)
        if callee[0] == "path" and len(callee[1]) == 2 and callee[1][0] in HDR_BITS and callee[1][1] == "from":
            T = callee[1][0]
            if len(args) != 1:
                self.err(f"{T}::from arity")
            a = self.tx(args[0], env)
            if not hdr_is_int(a.ty) or HDR_BITS[a.ty] > HDR_BITS[T]:
                self.err(f"{T}::from of {a.ty!r}")
            return HV(a.lean, T, a.ex)
        if callee[0] == "path":
            en, v, payload = self.variant(callee[1])
            if len(args) != len(payload) or not payload:
                self.err(f"{en}::{v}: constructor arity")
            outs = []
            for a, pt in zip(args, payload):
                x = self.tx(a, env, pt)
                if x.ty is None:
                    if x.lit is None:
                        self.err(f"{en}::{v}: untyped argument")
                    self.fits(x.lit, pt, f"{en}::{v}")
                elif x.ty != pt:
                    self.err(f"{en}::{v}: argument of type {x.ty!r}, payload is {pt}")
                outs.append(x)
            return HV(f"({en}.{v} " + " ".join(x.lean for x in outs) + ")", ("enum", en), hdr_and(*[x.ex for x in outs]))
        if callee[0] == "var" and callee[1] in self.fn_sigs:
            ptys, rty, has_exact = self.fn_sigs[callee[1]]
            if len(args) != len(ptys):
                self.err(f"{callee[1]}: arity")
            outs = []
            for a, pt in zip(args, ptys):
                x = self.tx(a, env, pt)
                if x.ty is None and x.lit is not None:
                    self.fits(x.lit, pt, callee[1])
                elif x.ty != pt:
                    self.err(f"{callee[1]}: argument of type {x.ty!r}, parameter is {pt!r}")
                outs.append(x)
            al = " ".join(x.lean for x in outs)
            ex = hdr_and(*[x.ex for x in outs], f"{callee[1]}_exact {al}" if has_exact else None)
            return HV(f"({callee[1]} {al})", rty, ex)
        self.err(f"call of `{'::'.join(callee[1]) if callee[0] == 'path' else callee[1] if callee[0] == 'var' else callee[0]}`")

    def has_try(self, e):
        if isinstance(e, tuple):
            if e and e[0] == "try":
                return True
            return any(self.has_try(x) for x in e)
        if isinstance(e, list):
            return any(self.has_try(x) for x in e)
        return False

    def closure0(self, e, env, want=None):
        if e[0] != "closure" or e[1]:
            self.err("expected a closure without parameters")
        return self.tx(e[2], env, want)

    def tx_mcall(self, e, env, want):
        recv, name, args = e[1], e[2], e[3]
        if name == "or_else" and len(args) == 1:
            r = self.tx(recv, env, want)
            if not (isinstance(r.ty, tuple) and r.ty[0] == "opt"):
                self.err(".or_else on a non-Option")
            b = self.closure0(args[0], env, r.ty)
            ty = self.unify(r.ty, b.ty, ".or_else")
            ex = r.ex
            if b.ex is not None:
                ex = hdr_and(r.ex, f"(match {r.lean} with | none => {b.ex} | some _ => true)")
            return HV(f"(orElse {r.lean}\n  (fun _ => {b.lean}))", ty, ex)
        if name == "then" and len(args) == 1:
            r = self.tx(recv, env)
            if r.ty != "bool":
                self.err(".then on a non-boolean")
            b = self.closure0(args[0], env)
            ex = r.ex
            if b.ex is not None:
                ex = hdr_and(r.ex, f"(if {r.lean} then {b.ex} else true)")
            return HV(f"(boolThen (decide {r.lean}) (fun _ => {b.lean}))", ("opt", b.ty), ex)
        if name == "flatten" and not args:
            r = self.tx(recv, env)
            if not (isinstance(r.ty, tuple) and r.ty[0] == "opt" and isinstance(r.ty[1], tuple) and r.ty[1][0] == "opt"):
                self.err(".flatten on something that is not an Option<Option<_>>")
            return HV(f"(flatten {r.lean})", r.ty[1], r.ex)
        if name == "map" and len(args) == 1:
            # only `<int>.try_into().ok().map(Self::Variant)`: the target integer type is the variant's payload type
            inner = recv
            if not (inner[0] == "mcall" and inner[2] == "ok" and not inner[3] and inner[1][0] == "mcall"
                    and inner[1][2] == "try_into" and not inner[1][3]):
                self.err(".map on something other than `.try_into().ok()`")
            src = self.tx(inner[1][1], env)
            if not hdr_is_int(src.ty):
                self.err(".try_into() on a non-integer")
            f = args[0]
            if f[0] != "path":
                self.err(".map with something other than a variant constructor")
            en, v, payload = self.variant(f[1])
            if len(payload) != 1:
                self.err(f".map({en}::{v}): constructor arity")
            return HV(f"(Option.map {en}.{v} (tryInto {HDR_BITS[payload[0]]} {src.lean}))", ("opt", ("enum", en)), src.ex)
        if name == "leading_zeros" and not args:
            r = self.tx(recv, env)
            if not hdr_is_int(r.ty):
                self.err(".leading_zeros on a non-integer")
            return HV(f"(leadingZeros {HDR_BITS[r.ty]} {r.lean})", "u32", r.ex)
        self.err(f"method `.{name}(..)`")

    def pat_scrut(self, scrut, env):
        s = scrut
        while s[0] in ("paren",) or (s[0] == "un" and s[1] == "*"):
            s = s[1] if s[0] == "paren" else s[2]
        if s[0] != "var":
            self.err("match/if-let scrutinee is not a variable")
        return self.tx(s, env)

    def wrap(self, body, env, want, wrap_some, tail):
        """Arm value; with wrap_some the arm `f(x?)` becomes `x.bind (fun x' => some (f x'))`."""
        if not wrap_some:
            return self.tx(body, env, want, tail)
        tries = []

        def walk(e):
            if isinstance(e, tuple):
                if e and e[0] == "try":
                    if e[1][0] != "var":
                        self.err("`?` on something other than a variable")
                    if e[1][1] not in tries:
                        tries.append(e[1][1])
                    return
                for x in e:
                    walk(x)
            elif isinstance(e, list):
                for x in e:
                    walk(x)
        walk(body)
        env2 = dict(env)
        for x in tries:
            if x not in env or not (isinstance(env[x][1], tuple) and env[x][1][0] == "opt"):
                self.err(f"`{x}?` where {x} is not an Option parameter")
            env2[("?", x)] = (f"{x}'", env[x][1][1])
        v = self.tx(body, env2, want)
        lean = f"(some {v.lean})"
        ex = v.ex
        for x in reversed(tries):
            lean = f"(Option.bind {env[x][0]} (fun {x}' => {lean}))"
            if ex is not None:
                ex = f"(match {env[x][0]} with | some {x}' => {ex} | none => true)"
        return HV(lean, ("opt", v.ty), ex)

    def tx_match(self, e, env, want, tail, wrap_some=False):
        scrut, arms = e[1], e[2]
        s = self.pat_scrut(scrut, env)
        if hdr_is_int(s.ty):
            return self.tx_match_int(s, arms, env, want, tail, wrap_some)
        if isinstance(s.ty, tuple) and s.ty[0] == "enum":
            return self.tx_match_enum(s, arms, env, want, tail, wrap_some)
        self.err(f"match on a value of type {s.ty!r}")

    def tx_match_int(self, s, arms, env, want, tail, wrap_some):
        rows = []   # (cond or None, HV)
        ty = "any"
        for idx, (alts, guard, body) in enumerate(arms):
            if rows and rows[-1][0] is None:
                self.err("match arm after an irrefutable arm")
            conds = []
            env2 = dict(env)
            irrefutable = False
            for a in alts:
                if a[0] == "lit":
                    if a[2] is not None and a[2] != s.ty:
                        self.err(f"literal pattern of type {a[2]} on a {s.ty}")
                    self.fits(a[1], s.ty, "literal pattern")
                    conds.append(f"{s.lean} = {a[1]}")
                elif a[0] == "wild":
                    irrefutable = True
                elif a[0] == "bind":
                    irrefutable = True
                    env2[a[1]] = (s.lean, s.ty)
                else:
                    self.err("enum pattern in a match on an integer")
            if irrefutable and len(alts) > 1:
                self.err("irrefutable pattern inside an or-pattern")
            cond = None if irrefutable else " ∨ ".join(conds)
            if guard is not None:
                g = self.tx(guard, env2)
                if g.ty != "bool":
                    self.err("match guard is not a boolean")
                if g.ex is not None:
                    self.err("match guard with arithmetic that may overflow")
                cond = g.lean if cond is None else f"(({cond}) ∧ {g.lean})"
            v = self.wrap(body, env2, want, wrap_some, tail)
            ty = self.unify(ty, v.ty, "match")
            rows.append((cond, v))
        if rows[-1][0] is not None:
            self.err("match on an integer without a final irrefutable arm")
        return self.ite_chain(rows, ty)

    def ite_chain(self, rows, ty):
        lines = []
        exl = []
        any_ex = any(v.ex is not None for _, v in rows)
        for i, (c, v) in enumerate(rows):
            val = v.lean if "\n" not in v.lean else "\n" + hdr_indent(v.lean, 2)
            exv = v.ex or "true"
            if c is None:
                lines.append(f"else {val}" if i else val)
                exl.append(f"else {exv}" if i else exv)
            else:
                lines.append(f"{'else ' if i else ''}if {c} then {val}")
                exl.append(f"{'else ' if i else ''}if {c} then {exv}")
        lean = "(" + "\n".join(lines) + ")" if len(rows) > 1 else lines[0]
        ex = ("(" + "\n".join(exl) + ")") if any_ex else None
        return HV(lean, ty, ex)

    def enum_pat(self, a, en):
        """-> (lean pattern, {var: type})"""
        if a[0] == "wild":
            return "_", {}
        if a[0] != "variant":
            self.err("pattern in a match on an enum is neither a variant nor `_`")
        en2, v, payload = self.variant(a[1])
        if en2 != en:
            self.err(f"pattern {en2}::{v} in a match on {en}")
        if len(a[2]) != len(payload):
            self.err(f"pattern {en}::{v}: {len(a[2])} sub-patterns for {len(payload)} fields")
        binds = {}
        parts = []
        for sp, pt in zip(a[2], payload):
            if sp[0] == "wild":
                parts.append("_")
            else:
                if sp[1] in binds:
                    self.err(f"pattern {en}::{v}: duplicate binding")
                binds[sp[1]] = pt
                parts.append(sp[1])
        return (f".{v} " + " ".join(parts)).strip(), binds

    def tx_match_enum(self, s, arms, env, want, tail, wrap_some):
        en = s.ty[1]
        rows = []
        ty = "any"
        for alts, guard, body in arms:
            if guard is not None:
                self.err("guard in a match on an enum")
            pats = [self.enum_pat(a, en) for a in alts]
            b0 = pats[0][1]
            if any(p[1] != b0 for p in pats):
                self.err("or-pattern alternatives bind different names/types")
            env2 = dict(env)
            for x, t in b0.items():
                env2[x] = (x, t)
            v = self.wrap(body, env2, want, wrap_some, tail)
            ty = self.unify(ty, v.ty, "match")
            rows.append((" | ".join(p[0] for p in pats), v))
        lines = [f"(match {s.lean} with"]
        exl = [f"(match {s.lean} with"]
        for p, v in rows:
            val = v.lean if "\n" not in v.lean else "\n" + hdr_indent(v.lean, 4)
            lines.append(f"  | {p} => {val}")
            exl.append(f"  | {p} => {v.ex or 'true'}")
        lines[-1] += ")"
        exl[-1] += ")"
        ex = "\n".join(exl) if any(v.ex is not None for _, v in rows) else None
        return HV("\n".join(lines), ty, ex)

    def tx_if(self, e, env, want, tail):
        rows = []
        ty = "any"
        cur = e
        while True:
            c = self.tx(cur[1], env)
            if c.ty != "bool":
                self.err("`if` condition is not a boolean")
            if c.ex is not None:
                self.err("`if` condition with arithmetic that may overflow")
            v = self.tx(cur[2], env, want, tail)
            ty = self.unify(ty, v.ty, "if")
            rows.append((c.lean, v))
            if cur[3] is None:
                self.err("`if` without `else` used as a value")
            if cur[3][0] == "if":
                cur = cur[3]
                continue
            if cur[3][0] != "block":
                self.err("`else` branch")
            v = self.tx(cur[3], env, want, tail)
            ty = self.unify(ty, v.ty, "if")
            rows.append((None, v))
            break
        return self.ite_chain(rows, ty)

    def tx_iflet(self, e, env, want, tail):
        pat, scrut, then, els = e[1], e[2], e[3], e[4]
        s = self.pat_scrut(scrut, env)
        if not (isinstance(s.ty, tuple) and s.ty[0] == "enum"):
            self.err("if-let on a non-enum")
        if els is None or els[0] != "block":
            self.err("if-let without a plain else block")
        return self.tx_match_enum(s, [([pat], None, then), ([("wild",)], None, els)], env, want, tail, False)

    def early_return(self, st):
        """`if c { return E; }` -> (c, E) else None"""
        if st[0] == "if" and st[3] is None and st[2][0] == "block":
            b = st[2]
            r = None
            if len(b[1]) == 1 and b[2] is None:
                r = b[1][0]
            elif not b[1] and b[2] is not None:
                r = b[2]
            if r is not None and r[0] == "return" and r[1] is not None:
                return st[1], r[1]
        return None

    def tx_block(self, e, env, want, tail):
        stmts, tl = e[1], e[2]
        if tl is None:
            self.err("block without a final value")
        if stmts and not tail:
            self.err("statements in a block that is not the function body")
        rows = []
        ty = "any"
        for st in stmts:
            er = self.early_return(st)
            if er is None:
                self.err(f"statement of kind `{st[0]}` (only `if c {{ return e; }}` is understood)")
            c = self.tx(er[0], env)
            if c.ty != "bool" or c.ex is not None:
                self.err("early-return condition")
            v = self.tx(er[1], env, want)
            ty = self.unify(ty, v.ty, "early return")
            rows.append((c.lean, v))
        v = self.tx(tl, env, want, tail)
        if not rows:
            return v
        ty = self.unify(ty, v.ty, "early return")
        rows.append((None, v))
        return self.ite_chain(rows, ty)

    # --- writer functions: Result<(), _> with a sink parameter -> Option (List (value, width)); none = the
    # function itself returns Err (sink errors are not modelled: the sink accepts everything)
    def wr(self, e, env, sink):
        k = e[0]
        if k == "paren":
            return self.wr(e[1], env, sink)
        if k == "call" and e[1] == ("var", "Ok") and e[2] == [("unit",)]:
            return HV("(some [])", "writes")
        if k == "mcall" and e[2] == "map_err" and len(e[3]) == 1 and e[3][0][0] == "path":
            return self.wr(e[1], env, sink)   # conversion of the sink's error type
        if k == "mcall" and e[2] == "write_lsbs" and e[1] == ("var", sink) and len(e[3]) == 2:
            v = self.tx(e[3][0], env)
            n = self.tx(e[3][1], env, "usize")
            if not hdr_is_int(v.ty):
                self.err("write_lsbs of a value of unknown integer type")
            c = None
            if n.lit is None or n.lit > HDR_BITS[v.ty]:
                c = f"decide ({n.lean} ≤ {HDR_BITS[v.ty]})"
            return HV(f"(some [({v.lean}, {n.lean})])", "writes", hdr_and(v.ex, n.ex, c))
        if k == "match":
            s = self.pat_scrut(e[1], env)
            if not (isinstance(s.ty, tuple) and s.ty[0] == "enum"):
                self.err("writer: match on a non-enum")
            en = s.ty[1]
            lines = [f"(match {s.lean} with"]
            exl = list(lines)
            anyex = False
            for alts, guard, body in e[2]:
                if guard is not None:
                    self.err("guard in a match on an enum")
                pats = [self.enum_pat(a, en) for a in alts]
                if any(p[1] != pats[0][1] for p in pats):
                    self.err("or-pattern alternatives bind different names/types")
                env2 = dict(env)
                for x, t in pats[0][1].items():
                    env2[x] = (x, t)
                v = self.wr(body, env2, sink)
                anyex = anyex or v.ex is not None
                val = v.lean if "\n" not in v.lean else "\n" + hdr_indent(v.lean, 4)
                lines.append(f"  | {' | '.join(p[0] for p in pats)} => {val}")
                exl.append(f"  | {' | '.join(p[0] for p in pats)} => {v.ex or 'true'}")
            lines[-1] += ")"
            exl[-1] += ")"
            return HV("\n".join(lines), "writes", "\n".join(exl) if anyex else None)
        if k == "block":
            items = list(e[1])
            tl = e[2]
            # value of the block: statements in order, then the tail (a block without tail has value `()`,
            # which is only meaningful as a statement: it contributes no writes)
            acc = self.wr(tl, env, sink) if tl is not None else HV("(some [])", "writes")
            for st in reversed(items):
                er = self.early_return(st)
                if er is not None:
                    c = self.tx(er[0], env)
                    if c.ty != "bool" or c.ex is not None:
                        self.err("writer: early-return condition")
                    r = er[1]
                    if not (r[0] == "call" and r[1] == ("var", "Err") and len(r[2]) == 1):
                        self.err("writer: early return of something other than Err(..)")
                    ex = None if acc.ex is None else f"(if {c.lean} then true else {acc.ex})"
                    acc = HV(f"(if {c.lean} then none else\n{hdr_indent(acc.lean, 2)})", "writes", ex)
                    continue
                if st[0] == "try":
                    v = self.wr(st[1], env, sink)
                elif st[0] in ("match", "block"):
                    v = self.wr(st, env, sink)
                else:
                    self.err(f"writer: statement of kind `{st[0]}`")
                # exactness of what follows only matters when the step succeeded; over-approximated by `&&`
                acc = HV(f"(seqW {v.lean}\n{hdr_indent(acc.lean, 2)})", "writes", hdr_and(v.ex, acc.ex))
            return acc
        self.err(f"writer: expression of kind `{k}`")


def hdr_translate_fn(tx, items, rec, trait, owner):
    """-> (lean name, [lean lines])"""
    fname = items.fname
    name = rec["name"]
    lname = f"{owner}.{name}" if owner else name
    tx.where = f"{fname}: fn {lname}"
    tx.self_enum = owner
    if rec["body"] is None:
        tx.err("no body")
    env = {}
    lparams = []
    ptys = []
    sink = None
    for p in rec["params"]:
        if p in (["self"], ["&", "self"], ["mut", "self"]):
            if owner is None:
                tx.err("self parameter in a free function")
            env["self"] = ("self", ("enum", owner))
            lparams.append(f"(self : {owner})")
            continue
        if p[:3] == ["&", "mut", "self"]:
            tx.err("&mut self")
        if p and p[0] == "mut":
            tx.err("mutable parameter")
        if len(p) < 3 or p[1] != ":":
            tx.err(f"parameter `{' '.join(p)}`")
        pn, pt = p[0], p[2:]
        if pt[:2] == ["&", "mut"] and len(pt) == 3 and pt[2] in rec["generics"]:
            if sink is not None:
                tx.err("two sink parameters")
            sink = pn
            continue
        ty = tx.parse_type(pt)
        if ty == "writes":
            tx.err(f"parameter `{' '.join(p)}`")
        env[pn] = (pn, ty)
        ptys.append(ty)
        lparams.append(f"({pn} : {tx.lean_type(ty)})")
    if not rec["ret"]:
        tx.err("no return type")
    rty = tx.parse_type(rec["ret"])
    lo, hi = rec["body"]
    ps = HdrParser(items.toks, lo, hi, tx.where)
    body = ps.block()
    if ps.p != hi:
        tx.err("trailing tokens after the body")
    if rty == "writes":
        if sink is None:
            tx.err("Result<(), _> function without a sink parameter")
        v = tx.wr(body, env, sink)
    else:
        if sink is not None:
            tx.err("sink parameter in a function that does not return Result<(), _>")
        v = tx.tx(body, env, rty, tail=True)
        got = v.ty
        ok = got == rty or got == "any" or (got is None and hdr_is_int(rty))
        if isinstance(rty, tuple) and rty[0] == "opt" and isinstance(got, tuple) and got[0] == "opt":
            try:
                tx.unify(got, rty, "return value")
                ok = True
            except Unreadable:
                ok = False
        if not ok:
            tx.err(f"body has type {got!r}, declared {rty!r}")
    cfgs = [a for a in rec["attrs"] if a.startswith("#[cfg")]
    sig = " ".join(lparams)
    L = []
    doc = f"`{(trait + ' for ') if trait else ''}{owner + '::' if owner else ''}{name}` ({fname})"
    if cfgs:
        doc += " " + " ".join(cfgs)
    L.append(f"/-- {doc} -/")
    L.append(f"def {lname} {sig} : {tx.lean_type(rty)} :=".replace("  :", " :"))
    L.append(hdr_indent(v.lean, 2))
    if v.ex is not None:
        L.append("")
        L.append(f"/-- `{lname}`: no arithmetic step overflows, underflows, divides by zero or reaches `unreachable!` "
                 f"(then the `Nat` computation above is the Rust value; otherwise Rust panics or wraps). -/")
        L.append(f"def {lname}_exact {sig} : Bool :=".replace("  :", " :"))
        L.append(hdr_indent(v.ex, 2))
    L.append("")
    if owner is None:
        tx.fn_sigs[name] = (ptys, rty, v.ex is not None)
    return lname, L


HDR_PRELUDE = '''/-- Effect of a `Result<(), _>` function that writes to a bit sink: `none` = the function itself returns
`Err`; `some ws` = it wrote, in order, for every `(v, n)` in `ws` the `n` low bits of `v`
(`BitSink::write_lsbs(v, n)`). Errors of the sink are not modelled. -/
abbrev Writes := Option (List (Nat × Nat))

/-- Sequencing of two writer steps (`a?; b`). -/
def seqW (a b : Writes) : Writes := match a with | none => none | some x => (match b with | none => none | some y => some (x ++ y))

/-- `Option::or_else`. -/
def orElse {α : Type} (a : Option α) (b : Unit → Option α) : Option α := match a with | some v => some v | none => b ()

/-- `bool::then`. -/
def boolThen {α : Type} (c : Bool) (f : Unit → α) : Option α := if c then some (f ()) else none

/-- `Option::<Option<_>>::flatten`. -/
def flatten {α : Type} : Option (Option α) → Option α | some (some v) => some v | _ => none

/-- `v.try_into().ok()` into an unsigned type of `bits` bits. -/
def tryInto (bits v : Nat) : Option Nat := if v < 2 ^ bits then some v else none

/-- `leading_zeros` of an unsigned value of `bits` bits. -/
def leadingZeros (bits v : Nat) : Nat := if v = 0 then bits else bits - 1 - Nat.log2 v
'''


def emit_headers():
    comp = os.path.join(REPO, "src", "component")
    files = {}
    for fn in sorted({s[0] for s in HDR_SPEC}):
        path = os.path.join(comp, fn)
        if not os.path.exists(path):
            fail(f"{fn}: file not found")
        files[fn] = HdrItems(fn, hdr_lex(open(path).read(), fn))
    dt = files["datatype.rs"]
    for en in HDR_ENUMS:
        if en not in dt.enums:
            fail(f"datatype.rs: enum {en} not found")
    tx = HdrTx(dt.enums)
    L = ["-- GENERATED by tools/translate.py from src/component/datatype.rs and src/component/bitrepr.rs — do not edit",
         "/-",
         "Arm-by-arm mirror of the frame-header code functions. Every `match` keeps the source order of its arms",
         "(integer matches become `if … else if …` chains: the first matching arm wins, as in Rust; enum matches",
         "become Lean matches with the same alternatives in the same order).",
         "",
         "Integers are modelled on `Nat`: `+ - * / % <<` are the `Nat` operations and `e as T` to a narrower `T` is",
         "`e % 2^bits(T)`. This is the Rust value exactly when no step overflows or underflows; that condition is",
         "emitted next to each function that has such a step as `<fn>_exact` (`a + b < 2^w`, `b ≤ a` for `a - b`,",
         "shift amount `< w`, …; `unreachable!()` is `_exact = false`). The input domains (u8: < 256, u16: < 65536,",
         f"u32: < 2^32; usize is taken as {HDR_BITS['usize']} bits) are NOT built in: the theorems about these functions carry them",
         "as explicit hypotheses.",
         "-/",
         "set_option linter.unusedVariables false",
         "namespace FlacVerif.Gen.Headers", "", HDR_PRELUDE]
    for en in HDR_ENUMS:
        vs = dt.enums[en]
        L.append(f"/-- `enum {en}` (datatype.rs) -/")
        L.append(f"inductive {en} where")
        for v, payload, disc, explicit in vs:
            args = " ".join(f"(a{i} : Nat)" for i, _ in enumerate(payload))
            cm = ("  -- " + ", ".join(payload)) if payload else ""
            L.append(f"  | {v} {args}".rstrip() + cm)
        L.append("  deriving Repr, DecidableEq, Inhabited")
        L.append("")
        if all(not p for _, p, _, _ in vs):
            L.append(f"/-- `{en} as <int>`: the discriminants ({'explicit' if any(x for _, _, _, x in vs) else 'implicit'} in the source) -/")
            L.append(f"def {en}.discriminant : {en} → Nat")
            for v, _, disc, _ in vs:
                L.append(f"  | .{v} => {disc}")
            L.append("")
    done = set()
    skipped = []
    for fn, trait, owner, names in HDR_SPEC:
        items = files[fn]
        if owner is None:
            table = items.fns
            what = f"{fn}: free functions"
        else:
            if (trait, owner) not in items.impls:
                fail(f"{fn}: impl {(trait + ' for ') if trait else ''}{owner} not found")
            table = items.impls[(trait, owner)]
            what = f"{fn}: impl {(trait + ' for ') if trait else ''}{owner}"
        for name in names:
            if name not in table:
                fail(f"{what}: fn {name} not found")
            lname, lines = hdr_translate_fn(tx, items, table[name], trait, owner)
            if lname in done:
                fail(f"{what}: two translated functions are both called {lname}")
            done.add(lname)
            L += lines
        if owner is not None:
            rest = [n for n in table if n not in names]
            if rest:
                skipped.append(f"{what}: {', '.join(rest)}")
    L.append("/- Functions of the same impl blocks that are NOT translated (no theorem refers to them):")
    for s in skipped:
        L.append("   " + s)
    L.append("-/")
    L += ["", "end FlacVerif.Gen.Headers", ""]
    return "\n".join(L)


def main():
    """Each generated file is produced independently, so that a source file the translator cannot read
    breaks only the properties whose theorems are stated against that file. Status per part is written
    to .cache/translate_status.json; exit code 1 if any part failed."""
    import json
    os.makedirs(OUT, exist_ok=True)
    status = {}
    values = None

    def write(name, text):
        path = os.path.join(OUT, name)
        old = open(path).read() if os.path.exists(path) else None
        if old != text:
            open(path, "w").write(text)

    try:
        order, consts, values = parse_constants()
        write("Constants.lean", emit_constants(order, consts, values))
        status["constants"] = "ok"
    except Unreadable as e:
        status["constants"] = f"translator cannot read {e}"
    if values is not None:
        try:
            cfg = parse_config(values)
            write("Config.lean", emit_config(cfg, values))
            status["config"] = "ok"
        except Unreadable as e:
            status["config"] = f"translator cannot read {e}"
    else:
        status["config"] = "translator cannot read config.rs: constants unavailable"
    try:
        write("Tables.lean", emit_tables())
        status["tables"] = "ok"
    except Unreadable as e:
        status["tables"] = f"translator cannot read {e}"
    try:
        write("Headers.lean", emit_headers())
        status["headers"] = "ok"
    except Unreadable as e:
        status["headers"] = f"translator cannot read {e}"
    except Exception as e:  # fail closed on anything the parser did not anticipate
        status["headers"] = f"translator cannot read datatype.rs/bitrepr.rs: internal error {type(e).__name__}: {e}"
    os.makedirs(os.path.join(ROOT, ".cache"), exist_ok=True)
    json.dump(status, open(os.path.join(ROOT, ".cache", "translate_status.json"), "w"), indent=1)
    bad = [v for v in status.values() if v != "ok"]
    for b in bad:
        print(b)
    if bad:
        sys.exit(1)
    print("translator ok")


if __name__ == "__main__":
    main()
