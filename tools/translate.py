#!/usr/bin/env python3
"""Rust-subset -> Lean translator (DESIGN 1.2 a). Regenerates lean/FlacVerif/Gen/*.lean from
/repo's working tree on every run:

  Gen/Constants.lean  every numeric `const` of src/constant.rs
  Gen/Config.lean     the config structs/enums of src/config.rs, their `Default` impls, their
                      `Verify` impls (ranges AND which nested verifies are chained), their serde
                      shape (container defaults, tagged enums, per-field defaults) as toT/fromT/resetFields
  Gen/Tables.lean     CRC parameters named by CRC_8_FLAC / CRC_16_FLAC (crc-catalog in the cargo registry),
                      FIXED_LPC_COEFS of decode.rs

It accepts a deliberately tiny Rust subset and FAILS CLOSED: any construct it does not recognise inside
a translated item aborts with "translator cannot read <item>" (exit 1) — it never guesses.
"""
import os, re, struct, sys, glob

REPO = os.environ.get("VERIF_REPO", "/repo")
ROOT = os.path.dirname(os.path.dirname(os.path.abspath(__file__)))
OUT = os.path.join(ROOT, "lean", "FlacVerif", "Gen")


class Unreadable(Exception):
    pass


def fail(what):
    raise Unreadable(what)


def strip_comments(src):
    src = re.sub(r"/\*.*?\*/", "", src, flags=re.S)
    out = []
    for line in src.splitlines():
        # remove // comments (no string literal in the translated items contains //)
        i = line.find("//")
        if i >= 0:
            line = line[:i]
        out.append(line)
    return "\n".join(out)


def f32_bits(x):
    return struct.unpack(">I", struct.pack(">f", x))[0]


# ------------------------------------------------------------------ constants

INT_TYPES = {"usize", "u8", "u16", "u32", "u64", "i8", "i16", "i32", "i64", "isize"}


def parse_constants():
    src = strip_comments(open(os.path.join(REPO, "src", "constant.rs")).read())
    # cut the test module if any
    toks = re.findall(r"[A-Za-z_][A-Za-z0-9_]*|\d[0-9A-Za-z_.]*|\"[^\"]*\"|::|<<|>>|[{}();:=+\-*/<>&!,.\[\]#]", src)
    consts = {}   # full name (mod.NAME) -> (type, expr tokens, module path)
    order = []
    stack = []
    i = 0
    depth_stack = []  # brace depth at which each module was opened
    depth = 0
    while i < len(toks):
        t = toks[i]
        if t == "mod" and i + 2 < len(toks) and toks[i + 2] == "{":
            stack.append(toks[i + 1]); depth_stack.append(depth); depth += 1; i += 3; continue
        if t == "{":
            depth += 1
        elif t == "}":
            depth -= 1
            if depth_stack and depth == depth_stack[-1]:
                stack.pop(); depth_stack.pop()
        elif t == "const" and toks[i + 2] == ":":
            name = toks[i + 1]
            j = i + 3
            ty = []
            while toks[j] != "=":
                ty.append(toks[j]); j += 1
            k = j + 1
            expr = []
            while toks[k] != ";":
                expr.append(toks[k]); k += 1
            full = ".".join(stack + [name])
            consts[full] = ("".join(ty), expr, list(stack))
            order.append(full)
            i = k
        i += 1
    values = {}

    def lookup(name, mods):
        for cut in range(len(mods), -1, -1):
            full = ".".join(mods[:cut] + [name])
            if full in consts:
                return ev(full)
        fail(f"constant.rs: reference to unknown constant {name}")

    def ev(full):
        if full in values:
            return values[full]
        ty, expr, mods = consts[full]
        if ty.startswith("&"):
            values[full] = None
            return None
        if ty == "f32":
            if len(expr) != 1 or not re.fullmatch(r"\d+\.\d+", expr[0]):
                fail(f"constant.rs: f32 constant {full} is not a plain literal")
            values[full] = ("f32", float(expr[0]))
            return values[full]
        if ty not in INT_TYPES:
            fail(f"constant.rs: constant {full} of unsupported type {ty}")
        # integer expression: literals with optional type suffix, names, ( ) << >> + - *
        py = []
        for t in expr:
            if re.fullmatch(r"\d[0-9A-Za-z_]*", t):
                m = re.fullmatch(r"(0x[0-9A-Fa-f_]+|\d[\d_]*)(usize|u8|u16|u32|u64|i8|i16|i32|i64|isize)?", t)
                if not m:
                    fail(f"constant.rs: literal {t} in {full}")
                py.append(str(int(m.group(1).replace("_", ""), 0)))
            elif re.fullmatch(r"[A-Za-z_][A-Za-z0-9_]*", t):
                v = lookup(t, mods)
                if not isinstance(v, int):
                    fail(f"constant.rs: non-integer reference {t} in {full}")
                py.append(str(v))
            elif t in ("(", ")", "<<", ">>", "+", "-", "*"):
                py.append(t)
            else:
                fail(f"constant.rs: token {t!r} in {full}")
        values[full] = int(eval(" ".join(py), {"__builtins__": {}}))
        return values[full]

    for full in order:
        if any(m == "built" or m == "build_info" for m in consts[full][2]):
            values[full] = None
            continue
        ev(full)
    return order, consts, values


def emit_constants(order, consts, values):
    lines = ["-- GENERATED by tools/translate.py from src/constant.rs — do not edit", "namespace FlacVerif.Gen.Const", ""]
    for full in order:
        v = values[full]
        name = full.replace(".", "_")
        if v is None:
            lines.append(f"-- {full}: not numeric (skipped)")
        elif isinstance(v, tuple):
            lines.append(f"/-- f32 {v[1]} as its IEEE-754 bit pattern -/")
            lines.append(f"def {name}_bits : Nat := 0x{f32_bits(v[1]):08X}")
        elif v < 0:
            lines.append(f"def {name} : Int := {v}")
        else:
            lines.append(f"def {name} : Nat := {v}")
    lines += ["", "end FlacVerif.Gen.Const", ""]
    return "\n".join(lines)


# ------------------------------------------------------------------ config.rs

def tokenize(src):
    return re.findall(r"[A-Za-z_][A-Za-z0-9_]*|\d+\.\d+|\d+|\"[^\"]*\"|::|\.\.=|\.\.|=>|==|!=|<=|>=|&&|\|\||[{}()\[\];:=+\-*/<>&!,.#|?]", src)


class Cfg:
    def __init__(self):
        self.aliases = {}     # local name -> constant full name
        self.structs = {}     # name -> {"fields": [(name, type)], "container_default": bool}
        self.enums = {}       # name -> {"tag": str|None, "variants": [(name, [(field, type, default_fn)])]}
        self.default_fns = {}  # fn name -> constant local name
        self.defaults = {}    # type name -> ("struct", {field: expr tokens}) | ("variant", vname, {field: expr})
        self.verifies = {}    # type name -> AST
        self.order = []


def parse_config(const_values):
    src = strip_comments(open(os.path.join(REPO, "src", "config.rs")).read())
    # drop the test module
    m = re.search(r"#\[cfg\(test\)\]\s*mod tests", src)
    if m:
        src = src[:m.start()]
    cfg = Cfg()
    # --- use lines
    for um in re.finditer(r"use\s+super::constant((?:::[A-Za-z_0-9]+)*)(?:\s+as\s+([A-Za-z_0-9]+))?\s*;", src):
        path = [p for p in um.group(1).split("::") if p]
        if not path:
            continue  # `use super::constant;` (module import)
        local = um.group(2) or path[-1]
        cfg.aliases[local] = ".".join(path)
    toks = tokenize(src)
    i = 0
    pending_attrs = []

    def skip_group(i):
        """toks[i] is an opening bracket; returns index after the matching close."""
        open_t = toks[i]
        close_t = {"(": ")", "[": "]", "{": "}"}[open_t]
        d = 0
        while True:
            if toks[i] == open_t:
                d += 1
            elif toks[i] == close_t:
                d -= 1
                if d == 0:
                    return i + 1
            i += 1

    def attr_text(i):
        j = skip_group(i + 1)
        return "".join(toks[i:j]), j

    def parse_type(i):
        # usize | bool | f32 | Ident | Option<NonZeroUsize>
        t = toks[i]
        if t == "Option":
            if toks[i + 1:i + 4] != ["<", "NonZeroUsize", ">"]:
                fail("config.rs: Option<...> of a type other than NonZeroUsize")
            return "Option<NonZeroUsize>", i + 4
        return t, i + 1

    while i < len(toks):
        t = toks[i]
        if t == "#" and toks[i + 1] == "[":
            a, i = attr_text(i)
            pending_attrs.append(a)
            continue
        if t == "pub" and toks[i + 1] == "struct":
            name = toks[i + 2]
            assert toks[i + 3] == "{"
            j = i + 4
            fields = []
            while toks[j] != "}":
                if toks[j] == "#":
                    _, j = attr_text(j)
                    continue
                if toks[j] != "pub":
                    fail(f"config.rs: struct {name}: non-pub field")
                fname = toks[j + 1]
                if toks[j + 2] != ":":
                    fail(f"config.rs: struct {name}: field syntax")
                ty, j = parse_type(j + 3)
                fields.append((fname, ty))
                if toks[j] == ",":
                    j += 1
            cdef = any("serde(default)" in a for a in pending_attrs)
            cfg.structs[name] = {"fields": fields, "container_default": cdef}
            cfg.order.append(name)
            pending_attrs = []
            i = j + 1
            continue
        if t == "pub" and toks[i + 1] == "enum":
            name = toks[i + 2]
            j = i + 4
            variants = []
            while toks[j] != "}":
                vname = toks[j]
                j += 1
                vfields = []
                if toks[j] == "{":
                    j += 1
                    fdefault = None
                    while toks[j] != "}":
                        if toks[j] == "#":
                            a, j = attr_text(j)
                            dm = re.search(r"serde\(default=\"([A-Za-z_0-9]+)\"\)", a)
                            if dm:
                                fdefault = dm.group(1)
                            continue
                        fname = toks[j]
                        if toks[j + 1] != ":":
                            fail(f"config.rs: enum {name}::{vname}: field syntax")
                        ty, j = parse_type(j + 2)
                        vfields.append((fname, ty, fdefault))
                        fdefault = None
                        if toks[j] == ",":
                            j += 1
                    j += 1
                elif toks[j] == "(":
                    fail(f"config.rs: enum {name}::{vname}: tuple variant")
                if toks[j] == ",":
                    j += 1
                variants.append((vname, vfields))
            tag = None
            for a in pending_attrs:
                tm = re.search(r"serde\(tag=\"([a-z_]+)\"\)", a)
                if tm:
                    tag = tm.group(1)
            cfg.enums[name] = {"tag": tag, "variants": variants}
            cfg.order.append(name)
            pending_attrs = []
            i = j + 1
            continue
        if t == "const" and toks[i + 1] == "fn":
            fname = toks[i + 2]
            # const fn NAME() -> T { CONST }
            j = i + 3
            while toks[j] != "{":
                j += 1
            body = toks[j + 1:skip_group(j) - 1]
            if len(body) != 1:
                fail(f"config.rs: const fn {fname}: body is not a single constant")
            cfg.default_fns[fname] = body[0]
            pending_attrs = []
            i = skip_group(j)
            continue
        if t == "impl":
            # impl Default for X / impl Verify for X / impl Eq for X {}
            trait = toks[i + 1]
            if toks[i + 2] != "for":
                i += 1
                continue
            ty = toks[i + 3]
            j = i + 4
            assert toks[j] == "{", f"impl {trait} for {ty}"
            end = skip_group(j)
            body = toks[j + 1:end - 1]
            if trait == "Default":
                cfg.defaults[ty] = parse_default(ty, body)
            elif trait == "Verify":
                cfg.verifies[ty] = parse_verify(ty, body)
            elif trait == "Eq":
                pass
            else:
                fail(f"config.rs: impl {trait} for {ty}")
            pending_attrs = []
            i = end
            continue
        if t in ("use",):
            while toks[i] != ";":
                i += 1
            i += 1
            pending_attrs = []
            continue
        i += 1
    return cfg


def parse_default(ty, body):
    # fn default ( ) -> Self { Self { f : expr , ... } }  |  { Self :: V { f : expr } }
    try:
        k = body.index("{")
    except ValueError:
        fail(f"config.rs: Default for {ty}")
    inner = body[k + 1:-1]
    if inner[0] != "Self":
        fail(f"config.rs: Default for {ty}: body does not start with Self")
    p = 1
    variant = None
    if inner[p] == "::":
        variant = inner[p + 1]
        p += 2
    if inner[p] != "{":
        fail(f"config.rs: Default for {ty}: expected struct literal")
    fields = {}
    p += 1
    while inner[p] != "}":
        fname = inner[p]
        if inner[p + 1] != ":":
            fail(f"config.rs: Default for {ty}: field init shorthand")
        q = p + 2
        expr = []
        depth = 0
        while not (inner[q] == "," and depth == 0) and not (inner[q] == "}" and depth == 0):
            if inner[q] in "({[":
                depth += 1
            elif inner[q] in ")}]":
                depth -= 1
            expr.append(inner[q])
            q += 1
        fields[fname] = expr
        p = q + (1 if inner[q] == "," else 0)
    return (variant, fields)


def parse_verify(ty, body):
    """Returns a list of conjunct ASTs:
       ("range", expr, lo|None, hi|None, hi_inclusive), ("true", cond-expr), ("chain", field),
       ("unless_experimental", [conjuncts]), ("match", [(variant, [bound fields], [conjuncts])])"""
    try:
        k = body.index("{")
    except ValueError:
        fail(f"config.rs: Verify for {ty}")
    head = body[:k]
    if head[:2] != ["fn", "verify"]:
        fail(f"config.rs: Verify for {ty}: unexpected item {head[:3]}")
    toks = body[k + 1:-1]
    pos = [0]

    def peek(n=0):
        return toks[pos[0] + n] if pos[0] + n < len(toks) else None

    def eat(t):
        if peek() != t:
            fail(f"config.rs: Verify for {ty}: expected {t!r}, found {peek()!r} near {' '.join(toks[max(0,pos[0]-6):pos[0]+6])}")
        pos[0] += 1

    def parse_atom():
        # bound: ident | int | (path)
        t = peek()
        if t == "(":
            eat("(")
            a = parse_atom()
            eat(")")
            return a
        if re.fullmatch(r"\d+\.\d+", t):
            pos[0] += 1
            return ("float", float(t))
        if re.fullmatch(r"\d+", t):
            pos[0] += 1
            return ("int", int(t))
        # path a::b::C
        parts = [t]
        pos[0] += 1
        while peek() == "::":
            pos[0] += 1
            parts.append(peek())
            pos[0] += 1
        return ("path", parts)

    def parse_expr_until(stops):
        # a very small expression language: [!] self . f [== INT] | ident
        neg = False
        if peek() == "!":
            neg = True
            pos[0] += 1
        if peek() == "self":
            eat("self"); eat(".")
            e = ("field", peek()); pos[0] += 1
        elif re.fullmatch(r"[a-z_][a-z0-9_]*", peek() or ""):
            e = ("var", peek()); pos[0] += 1
        else:
            fail(f"config.rs: Verify for {ty}: expression starting with {peek()!r}")
        if peek() == "==":
            pos[0] += 1
            rhs = parse_atom()
            e = ("eq", e, rhs)
        if neg:
            e = ("not", e)
        if peek() not in stops:
            fail(f"config.rs: Verify for {ty}: unsupported expression tail {peek()!r}")
        return e

    def parse_range():
        lo = hi = None
        incl = False
        if peek() not in ("..", "..="):
            lo = parse_atom()
        if peek() == "..=":
            pos[0] += 1; incl = True; hi = parse_atom()
        elif peek() == "..":
            pos[0] += 1
            if peek() not in (")",):
                hi = parse_atom()
        else:
            fail(f"config.rs: Verify for {ty}: range syntax near {peek()!r}")
        return lo, hi, incl

    def parse_macro_call():
        name = peek(); pos[0] += 1
        eat("!"); eat("(")
        if not (peek() or "").startswith('"'):
            fail(f"config.rs: Verify for {ty}: {name}! without a literal name")
        pos[0] += 1; eat(",")
        if name == "verify_range":
            e = parse_expr_until([","])
            eat(",")
            lo, hi, incl = parse_range()
            eat(")")
            return ("range", e, lo, hi, incl)
        if name == "verify_true":
            e = parse_expr_until([","])
            eat(",")
            if not (peek() or "").startswith('"'):
                fail(f"config.rs: Verify for {ty}: verify_true! message")
            pos[0] += 1
            eat(")")
            return ("true", e)
        fail(f"config.rs: Verify for {ty}: macro {name}!")

    def parse_stmts(until):
        out = []
        while peek() != until:
            t = peek()
            if t in ("verify_range", "verify_true"):
                c = parse_macro_call()
                if peek() == "?":
                    eat("?"); eat(";")
                elif peek() == until:
                    pass  # final expression
                else:
                    fail(f"config.rs: Verify for {ty}: result of {t}! is neither `?`-propagated nor the final value")
                out.append(c)
            elif t == "self" and peek(2) != "verify":
                # self . f . verify ( ) . map_err ( | err | err . within ( "f" ) ) ? ;
                eat("self"); eat(".")
                f = peek(); pos[0] += 1
                eat("."); eat("verify"); eat("("); eat(")")
                eat("."); eat("map_err"); eat("(")
                d = 1
                while d > 0:
                    if peek() == "(":
                        d += 1
                    elif peek() == ")":
                        d -= 1
                    pos[0] += 1
                eat("?"); eat(";")
                out.append(("chain", f))
            elif t == "if" and peek(1) == "cfg":
                # if cfg ! ( not ( feature = "experimental" ) ) { ... }
                seq = ["if", "cfg", "!", "(", "not", "(", "feature", "=", '"experimental"', ")", ")", "{"]
                for s in seq:
                    eat(s)
                inner = parse_stmts("}")
                eat("}")
                out.append(("unless_experimental", inner))
            elif t == "Ok":
                eat("Ok"); eat("("); eat("("); eat(")"); eat(")")
                if peek() not in (until,):
                    fail(f"config.rs: Verify for {ty}: code after Ok(())")
            elif t == "match":
                eat("match"); eat("*"); eat("self"); eat("{")
                arms = []
                while peek() != "}":
                    eat("Self"); eat("::")
                    v = peek(); pos[0] += 1
                    bound = []
                    if peek() == "{":
                        eat("{")
                        while peek() != "}":
                            bound.append(peek()); pos[0] += 1
                            if peek() == ",":
                                eat(",")
                        eat("}")
                    eat("=>")
                    if peek() == "{":
                        eat("{")
                        if peek() == "if":
                            # if ( A ..= B ) . contains ( & x ) { Ok(()) } else { Err ( ... ) }
                            eat("if"); eat("(")
                            lo = parse_atom(); eat("..="); hi = parse_atom(); eat(")")
                            eat("."); eat("contains"); eat("("); eat("&")
                            x = peek(); pos[0] += 1; eat(")")
                            eat("{"); eat("Ok"); eat("("); eat("("); eat(")"); eat(")"); eat("}")
                            eat("else"); eat("{"); eat("Err"); eat("(")
                            d = 1
                            while d > 0:
                                if peek() == "(":
                                    d += 1
                                elif peek() == ")":
                                    d -= 1
                                pos[0] += 1
                            eat("}")
                            conj = [("frange", ("var", x), lo, hi)]
                        else:
                            conj = parse_stmts("}")
                        eat("}")
                    else:
                        eat("Ok"); eat("("); eat("("); eat(")"); eat(")")
                        conj = []
                    if peek() == ",":
                        eat(",")
                    arms.append((v, bound, conj))
                eat("}")
                out.append(("match", arms))
            else:
                fail(f"config.rs: Verify for {ty}: statement starting with {t!r}")
        return out

    return parse_stmts(None)


LEAN_TYPES = {"usize": "Nat", "bool": "Bool", "f32": "Nat", "Option<NonZeroUsize>": "Option Nat"}


def lean_type(t):
    return LEAN_TYPES.get(t, t)


def emit_config(cfg, const_values):
    def const_ref(parts):
        # path parts like ['MAX_BLOCK_SIZE'] or ['constant','fixed','MAX_LPC_ORDER']
        if parts[0] == "constant":
            full = ".".join(parts[1:])
        else:
            if parts[0] not in cfg.aliases:
                fail(f"config.rs: unknown constant {'::'.join(parts)}")
            full = cfg.aliases[parts[0]]
        if full not in const_values or const_values[full] is None:
            fail(f"config.rs: constant {full} has no numeric value")
        return full

    def atom_lean(a, as_f32=False):
        if a[0] == "int":
            return str(a[1])
        if a[0] == "float":
            return f"0x{f32_bits(a[1]):08X}"
        full = const_ref(a[1])
        v = const_values[full]
        name = "Const." + full.replace(".", "_")
        return name + ("_bits" if isinstance(v, tuple) else "")

    def expr_lean(e, recv):
        k = e[0]
        if k == "field":
            return f"{recv}.{e[1]}"
        if k == "var":
            return e[1]
        if k == "not":
            return f"(!{expr_lean(e[1], recv)})"
        if k == "eq":
            return f"({expr_lean(e[1], recv)} == {atom_lean(e[2])})"
        fail(f"expression kind {k}")

    def conj_lean(c, recv):
        k = c[0]
        if k == "range":
            e = expr_lean(c[1], recv)
            parts = []
            if c[2] is not None:
                parts.append(f"decide ({atom_lean(c[2])} ≤ {e})")
            if c[3] is not None:
                parts.append(f"decide ({e} {'≤' if c[4] else '<'} {atom_lean(c[3])})")
            return " && ".join(parts) if parts else "true"
        if k == "true":
            return expr_lean(c[1], recv)
        if k == "chain":
            fty = None
            return ("CHAIN", c[1])
        if k == "unless_experimental":
            inner = conjs_lean(c[1], recv)
            return f"(exp || ({inner}))"
        if k == "frange":
            return f"F32.inRange {atom_lean(c[2])} {atom_lean(c[3])} {expr_lean(c[1], recv)}"
        fail(f"conjunct kind {k}")

    field_types = {}
    for s, d in cfg.structs.items():
        for f, t in d["fields"]:
            field_types[(s, f)] = t

    def conjs_lean(cs, recv, owner=None):
        parts = []
        for c in cs:
            if c[0] == "chain":
                t = field_types.get((owner, c[1]))
                if t is None:
                    fail(f"config.rs: Verify for {owner}: chained verify of unknown field {c[1]}")
                parts.append(f"{t}.verify exp {recv}.{c[1]}")
            elif c[0] == "unless_experimental":
                parts.append(f"(exp || ({conjs_lean(c[1], recv, owner)}))")
            else:
                parts.append(conj_lean(c, recv))
        return " && ".join(parts) if parts else "true"

    L = ["-- GENERATED by tools/translate.py from src/config.rs — do not edit",
         "import FlacVerif.Gen.Constants", "import FlacVerif.Model.TVal",
         "set_option linter.unusedVariables false",
         "namespace FlacVerif.Gen", "open FlacVerif", ""]
    # type declarations in dependency order: leaves first
    deps = {}
    for n in cfg.order:
        if n in cfg.structs:
            deps[n] = [t for _, t in cfg.structs[n]["fields"] if t in cfg.structs or t in cfg.enums]
        else:
            deps[n] = []
    done, order = set(), []

    def visit(n):
        if n in done:
            return
        for d in deps[n]:
            visit(d)
        done.add(n); order.append(n)
    for n in cfg.order:
        visit(n)

    def default_expr(toks, ty):
        # literal true/false/int/float, CONST alias, constant::PATH, X::default(), cfg!(feature="par"), None
        s = "".join(toks)
        if s in ("true", "false"):
            return s
        if s == "None":
            return "none"
        if re.fullmatch(r"\d+", s):
            return s
        if s == 'cfg!(feature="par")':
            return "par"
        m = re.fullmatch(r"([A-Za-z_0-9]+)::default\(\)", s)
        if m:
            return f"{m.group(1)}.default par"
        if re.fullmatch(r"[A-Za-z_0-9:]+", s):
            return atom_lean(("path", [p for p in s.split("::") if p]))
        fail(f"config.rs: default expression `{s}`")

    for n in order:
        if n in cfg.structs:
            d = cfg.structs[n]
            L.append(f"structure {n} where")
            for f, t in d["fields"]:
                L.append(f"  {f} : {lean_type(t)}")
            L.append("  deriving Repr, DecidableEq")
            L.append("")
            if n not in cfg.defaults:
                fail(f"config.rs: no Default impl for {n}")
            variant, fields = cfg.defaults[n]
            if variant is not None or set(fields) != {f for f, _ in d["fields"]}:
                fail(f"config.rs: Default for {n} does not initialise exactly its fields")
            L.append(f"/-- `impl Default for {n}` (`par` = cfg!(feature = \"par\")). -/")
            L.append(f"def {n}.default (par : Bool) : {n} :=")
            inits = ", ".join(f"{f} := {default_expr(fields[f], t)}" for f, t in d["fields"])
            L.append("  { " + inits + " }")
            L.append("")
            if n not in cfg.verifies:
                fail(f"config.rs: no Verify impl for {n}")
            L.append(f"/-- `impl Verify for {n}` (`exp` = cfg!(feature = \"experimental\")). -/")
            L.append(f"def {n}.verify (exp : Bool) (c : {n}) : Bool :=")
            L.append("  " + conjs_lean(cfg.verifies[n], "c", n))
            L.append("")
            # serde: toT / fromT / resetFields
            L.append(f"def {n}.toT (c : {n}) : TVal :=")
            items = []
            for f, t in d["fields"]:
                if t == "Option<NonZeroUsize>":
                    items.append(f'(match c.{f} with | some v => [("{f}", TVal.int v)] | none => [])')
                else:
                    items.append(f'[("{f}", {to_t(t, "c." + f)})]')
            L.append("  .table (" + " ++ ".join(items) + ")")
            L.append("")
            L.append(f"def {n}.fromT (par : Bool) (t : TVal) : Except String {n} :=")
            L.append("  match t with")
            L.append("  | .table kv => do")
            for f, t in d["fields"]:
                missing = f"pure ({n}.default par).{f}" if d["container_default"] else (
                    "pure none" if t == "Option<NonZeroUsize>" else f'throw "missing field `{f}`"')
                L.append(f'    let {f} ← match kv.lookup "{f}" with')
                L.append(f"      | some v => {from_t(t, 'v')}")
                L.append(f"      | none => {missing}")
            L.append("    pure { " + ", ".join(f"{f} := {f}" for f, _ in d["fields"]) + " }")
            L.append(f'  | _ => throw "expected a table for {n}"')
            L.append("")
            L.append(f"/-- `c` with the fields named in `ks` reset to their defaults. -/")
            L.append(f"def {n}.resetFields (par : Bool) (ks : List String) (c : {n}) : {n} :=")
            L.append("  { " + ", ".join(f'{f} := if ks.contains "{f}" then ({n}.default par).{f} else c.{f}' for f, _ in d["fields"]) + " }")
            L.append("")
        else:
            e = cfg.enums[n]
            L.append(f"inductive {n} where")
            for v, fs in e["variants"]:
                args = " ".join(f"({f} : {lean_type(t)})" for f, t, _ in fs)
                L.append(f"  | {v} {args}".rstrip())
            L.append("  deriving Repr, DecidableEq")
            L.append("")
            variant, fields = cfg.defaults.get(n, (None, None))
            if variant is None:
                fail(f"config.rs: Default for enum {n}")
            vf = dict((v, fs) for v, fs in e["variants"])[variant]
            L.append(f"def {n}.default (par : Bool) : {n} :=")
            L.append(f"  let _ := par; .{variant} " + " ".join(default_expr(fields[f], t) for f, t, _ in vf))
            L.append("")
            ast = cfg.verifies.get(n)
            if not ast or ast[0][0] != "match" or len(ast) != 1:
                fail(f"config.rs: Verify for enum {n} is not a single match")
            arms = ast[0][1]
            if [a[0] for a in arms] != [v for v, _ in e["variants"]]:
                fail(f"config.rs: Verify for enum {n}: arms do not cover the variants in order")
            L.append(f"def {n}.verify (exp : Bool) : {n} → Bool")
            for (v, bound, conj), (_, fs) in zip(arms, e["variants"]):
                if bound != [f for f, _, _ in fs]:
                    fail(f"config.rs: Verify for {n}::{v}: bound fields differ from the variant's")
                pat = f".{v} " + " ".join(bound)
                L.append(f"  | {pat.strip()} => let _ := exp; " + (conjs_lean(conj, "c", n) if conj else "true"))
            L.append("")
            if e["tag"] is None:
                fail(f"config.rs: enum {n} is not internally tagged")
            tag = e["tag"]
            L.append(f"def {n}.toT : {n} → TVal")
            for v, fs in e["variants"]:
                pat = f".{v} " + " ".join(f for f, _, _ in fs)
                items = "".join(f', ("{f}", {to_t(t, f)})' for f, t, _ in fs)
                L.append(f'  | {pat.strip()} => .table [("{tag}", .str "{v}"){items}]')
            L.append("")
            L.append(f"def {n}.fromT (par : Bool) (t : TVal) : Except String {n} :=")
            L.append("  let _ := par")
            L.append("  match t with")
            L.append("  | .table kv =>")
            L.append(f'    match kv.lookup "{tag}" with')
            for v, fs in e["variants"]:
                L.append(f'    | some (.str "{v}") => do')
                for f, t, dfn in fs:
                    if dfn is not None:
                        if dfn not in cfg.default_fns:
                            fail(f"config.rs: serde default fn {dfn} not found")
                        dflt = "pure " + atom_lean(("path", [cfg.default_fns[dfn]]))
                    else:
                        dflt = f'throw "missing field `{f}`"'
                    L.append(f'      let {f} ← match kv.lookup "{f}" with')
                    L.append(f"        | some v => {from_t(t, 'v')}")
                    L.append(f"        | none => {dflt}")
                L.append(f"      pure (.{v} " + " ".join(f for f, _, _ in fs) + ")")
            L.append(f'    | _ => throw "unknown or missing `{tag}` for {n}"')
            L.append(f'  | _ => throw "expected a table for {n}"')
            L.append("")
    L += ["end FlacVerif.Gen", ""]
    return "\n".join(L)


def to_t(t, e):
    if t == "usize":
        return f"TVal.int {e}"
    if t == "bool":
        return f"TVal.bool {e}"
    if t == "f32":
        return f"TVal.f32 {e}"
    return f"{t}.toT {e}"


def from_t(t, v):
    if t == "usize":
        return f'(match {v} with | .int n => pure n | _ => throw "expected an integer")'
    if t == "bool":
        return f'(match {v} with | .bool b => pure b | _ => throw "expected a boolean")'
    if t == "f32":
        return f'(match {v} with | .f32 b => pure b | .int n => pure (F32.ofNat n) | _ => throw "expected a float")'
    if t == "Option<NonZeroUsize>":
        return f'(match {v} with | .int n => if n = 0 then throw "expected a non-zero integer" else pure (some n) | _ => throw "expected an integer")'
    return f"{t}.fromT par {v}"


# ------------------------------------------------------------------ tables

def emit_tables():
    L = ["-- GENERATED by tools/translate.py — do not edit", "namespace FlacVerif.Gen.Tables", ""]
    # which catalog entries the code names: `const CRC_8_FLAC: crc::Algorithm<u8> = crc::CRC_8_SMBUS;`
    # used as `...::new(&CRC_8_FLAC)` for HEADER_CRC and `&CRC_16_FLAC` for FRAME_CRC
    br = strip_comments(open(os.path.join(REPO, "src", "component", "bitrepr.rs")).read())
    names = {}
    for width, static in ((8, "HEADER_CRC"), (16, "FRAME_CRC")):
        m = re.search(r"static\s+" + static + r"\s*:[^=]*=[^;]*?new\(\s*&\s*([A-Z0-9_]+)\s*\)\s*;", br, re.S)
        if not m:
            fail(f"bitrepr.rs: static {static}")
        local = m.group(1)
        m2 = re.search(r"const\s+" + local + r"\s*:\s*crc::Algorithm<u\d+>\s*=\s*crc::([A-Z0-9_]+)\s*;", br)
        if not m2:
            fail(f"bitrepr.rs: const {local}")
        names[width] = m2.group(1)
    lock = open(os.path.join(REPO, "Cargo.lock")).read()
    vm = re.search(r'name = "crc-catalog"\nversion = "([0-9.]+)"', lock)
    if not vm:
        fail("Cargo.lock: crc-catalog version")
    cat = sorted(glob.glob(os.path.expanduser(f"~/.cargo/registry/src/*/crc-catalog-{vm.group(1)}/src/algorithm.rs")))
    if not cat:
        fail("crc-catalog source not found in the cargo registry")
    src = open(cat[-1]).read()
    for width, nm in names.items():
        m = re.search(r"pub const " + nm + r": Algorithm<u\d+> = Algorithm \{(.*?)\};", src, re.S)
        if not m:
            fail(f"crc-catalog: {nm}")
        body = m.group(1)
        def fld(k):
            fm = re.search(r"\b" + k + r":\s*([0-9a-fx_A-Ftrue ls]+?)\s*,", body)
            if not fm:
                fail(f"crc-catalog: {nm}.{k}")
            v = fm.group(1).strip()
            if v in ("true", "false"):
                return v
            return str(int(v.replace("_", ""), 0))
        L.append(f"/-- `{nm}` (crc-catalog): width, poly, init, refin, refout, xorout -/")
        L.append(f"def crc{width} : Nat × Nat × Nat × Bool × Bool × Nat := ({fld('width')}, {fld('poly')}, {fld('init')}, {fld('refin')}, {fld('refout')}, {fld('xorout')})")
    # FIXED_LPC_COEFS of decode.rs
    dec = strip_comments(open(os.path.join(REPO, "src", "component", "decode.rs")).read())
    m = re.search(r"const FIXED_LPC_COEFS[^=]*=\s*\[(.*?)\];", dec, re.S)
    if not m:
        fail("decode.rs: FIXED_LPC_COEFS")
    rows = re.findall(r"\[([^\[\]]*)\]", m.group(1))
    rows = [[int(x) for x in r.replace(" ", "").split(",") if x] for r in rows]
    L.append("/-- `FIXED_LPC_COEFS` of decode.rs -/")
    L.append("def fixedLpcCoefs : List (List Int) := [" + ", ".join("[" + ", ".join(str(x) for x in r) + "]" for r in rows) + "]")
    L += ["", "end FlacVerif.Gen.Tables", ""]
    return "\n".join(L)


def main():
    """Each generated file is produced independently, so that a source file the translator cannot read
    breaks only the properties whose theorems are stated against that file. Status per part is written
    to .cache/translate_status.json; exit code 1 if any part failed."""
    import json
    os.makedirs(OUT, exist_ok=True)
    status = {}
    values = None

    def write(name, text):
        path = os.path.join(OUT, name)
        old = open(path).read() if os.path.exists(path) else None
        if old != text:
            open(path, "w").write(text)

    try:
        order, consts, values = parse_constants()
        write("Constants.lean", emit_constants(order, consts, values))
        status["constants"] = "ok"
    except Unreadable as e:
        status["constants"] = f"translator cannot read {e}"
    if values is not None:
        try:
            cfg = parse_config(values)
            write("Config.lean", emit_config(cfg, values))
            status["config"] = "ok"
        except Unreadable as e:
            status["config"] = f"translator cannot read {e}"
    else:
        status["config"] = "translator cannot read config.rs: constants unavailable"
    try:
        write("Tables.lean", emit_tables())
        status["tables"] = "ok"
    except Unreadable as e:
        status["tables"] = f"translator cannot read {e}"
    os.makedirs(os.path.join(ROOT, ".cache"), exist_ok=True)
    json.dump(status, open(os.path.join(ROOT, ".cache", "translate_status.json"), "w"), indent=1)
    bad = [v for v in status.values() if v != "ok"]
    for b in bad:
        print(b)
    if bad:
        sys.exit(1)
    print("translator ok")


if __name__ == "__main__":
    main()
