#!/usr/bin/env python3
"""Regenerates the seeded-change table of DESIGN.md (between the markers SEEDED-TABLE-BEGIN/END) from
seeded/<id>/meta.json, seeded/<id>/result.json and seeded/notes.json (id -> what had to be strengthened)."""
import glob, json, os, re
ROOT = os.path.dirname(os.path.dirname(os.path.abspath(__file__)))
notes = json.load(open(os.path.join(ROOT, "seeded", "notes.json")))
rows = []
for d in sorted(glob.glob(os.path.join(ROOT, "seeded", "*", ""))):
    mp, rp = d + "meta.json", d + "result.json"
    if not os.path.exists(mp):
        continue
    m = json.load(open(mp))
    r = json.load(open(rp)) if os.path.exists(rp) else {"checks": {}}
    pid = m["breaks_property"]
    text = m["needs_to_manifest"]
    first = next((l for l in text.split("\n") if l.strip() and not l.startswith("#")), "")
    site = re.search(r"(src/[A-Za-z_/]+\.rs)[^\n]{0,80}", text)
    first = re.sub(r"^(\*\*)?(MUTANT|Mutant|C\d\d mutant|C16 mutant)\s*\S*\s*(\(C\d\d\))?\s*(--|-|–|:)?\s*", "", first).strip(" *")
    first = re.sub(r"^property C\d\d, clause ", "", first)
    if site and site.group(1) not in first:
        first = site.group(0).strip() + " - " + first
    own = r["checks"].get(pid, {})
    others = [k for k, v in r["checks"].items() if k != pid and v.get("fired")]
    det = own.get("detail", "")[:80].replace("|", "/").replace("`", "'")
    caught = f"{pid}: {own.get('kind', 'not run')}" + (f" (`{det}`)" if det else "") + (" ; also " + ",".join(others) if others else "")
    pl = ""
    pp = d + "prooflevel.json"
    if os.path.exists(pp):
        q = json.load(open(pp))
        bits = []
        if q.get("broken_modules"):
            bits.append("breaks " + ", ".join(q["broken_modules"]))
        if q.get("fail_closed"):
            primary = [k for k, v in q["fail_closed"].items() if "failed (" not in v]
            bits.append("fails closed: " + ", ".join(primary or sorted(q["fail_closed"])))
        pl = "; ".join(bits) or "passes (outside the generated parts)"
    rows.append(f"| {m['id']} | {first[:120].replace('|', '/')} | {caught} | {pl} | {notes.get(m['id'], 'caught as built')} |")
table = "| change | site / clause | caught by (quick tier) | generated parts alone (wave 4) | note |\n|---|---|---|---|---|\n" + "\n".join(rows)
p = os.path.join(ROOT, "DESIGN.md")
s = open(p).read()
b, e = "<!-- SEEDED-TABLE-BEGIN -->", "<!-- SEEDED-TABLE-END -->"
if b in s:
    s = s[:s.index(b) + len(b)] + "\n" + table + "\n" + s[s.index(e):]
    open(p, "w").write(s)
    print(f"{len(rows)} rows written")
else:
    print(table)
