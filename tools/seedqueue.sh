#!/bin/sh
# tools/seedqueue.sh <id> ...   runs tools/seedtest.py for each seeded change against its own property's quick check
cd "$(dirname "$0")/.."
for id in "$@"; do
  P=${id%%-*}
  echo "=== $id"
  python3 tools/seedtest.py seeded/$id --checks $P 2>&1 | tail -3
done
