#!/usr/bin/env python3
"""Writes MANIFEST.json from tools/props.py + tools/manifest_text.py (kept valid at all times)."""
import json, os, sys
ROOT = os.path.dirname(os.path.dirname(os.path.abspath(__file__)))
sys.path.insert(0, os.path.join(ROOT, "tools"))
import props, manifest_text as mt

checks = []
for pid in sorted(props.PROPS):
    t = mt.TEXT[pid]
    checks.append({
        "property_id": pid,
        "quick_cmd": f"./check {pid} --tier quick",
        "thorough_cmd": f"./check {pid} --tier thorough",
        "evidence_file": f"/verif/evidence/{pid}.json",
        "replay_cmd_template": f"./check {pid} --replay {{path}}",
        "engine": "lean4-proof+correspondence",
        "level_claimed": {"category": props.PROPS[pid].get("level", "proof"), "text": t["level_text"], "design_ref": t["design_ref"]},
        "level_note": t["level_note"],
        "technique": t["technique"],
    })
ids = [json.loads(l)["id"] for l in open(os.path.join(ROOT, "properties.jsonl"))]
na = [{"property_id": i, "reason": mt.NOT_CLAIMED.get(i, "check not built yet in this session (work in progress; see DESIGN.md section 9)")} for i in ids if i not in props.PROPS]
m = {
    "version": 1,
    "setup_cmd": "./tools/setup.sh",
    "hooks": {
        "guard": "flacenc_verif",
        "enable": "RUSTFLAGS=--cfg flacenc_verif (set in /verif/harness/.cargo/config.toml; the harness crate has a path dependency on /repo)",
        "baseline_off_cmd": "cd /repo && cargo test --workspace --no-fail-fast --offline",
        "source_commits": mt.HOOK_COMMITS,
        "add_only": True,
    },
    "engines": [{
        "name": "lean4-proof+correspondence", "path": "/verif/check",
        "serves_properties": sorted(props.PROPS),
        "kind_free_text": "Lean 4 theorems about a hand-written executable model (lean/FlacVerif), tied to /repo on every run by a differential line-protocol correspondence (harness/ -> lean fvdriver), exhaustive finite-domain sweeps and a fail-closed Rust-subset -> Lean translator (tools/translate*.py, 17 parts) that regenerates a Lean reading of most of the crate's integer code on every run (constants, configuration, tables, header codes, writer, constructors/verify, sample delivery, decision logic, decoder, bit sinks, stream driver, thread programs, prediction kernels, Rice search, callees, parser, UTF-8-like writer) against which the hand model is PROVED equal (Theorems/*Gen*.lean)",
    }],
    "checks": checks,
    "not_applicable": na,
    "notes": mt.NOTES,
}
json.dump(m, open(os.path.join(ROOT, "MANIFEST.json"), "w"), indent=1)
print("MANIFEST.json:", len(checks), "checks,", len(na), "not claimed")
