use flacenc::bitsink::ByteSink;
use flacenc::component::*;
use flacenc::component::parser;

#[test]
fn streaminfo_new_roundtrip() {
    let info = StreamInfo::new(44100, 2, 16).unwrap();
    let stream = Stream::with_stream_info(info);
    let mut sink = ByteSink::new();
    stream.write(&mut sink).unwrap();
    let bytes = sink.as_slice().to_vec();
    println!("BYTES {:?}", &bytes[..16]);
    let r = parser::stream::<nom::error::Error<&[u8]>>(&bytes);
    println!("PARSE_STREAM_OK {}", r.is_ok());
    if let Err(e) = &r { println!("ERR {:?}", e); }
}

#[test]
fn unknown_tag0_roundtrip() {
    let m = MetadataBlockData::new_unknown(0, &[1, 2]);
    println!("NEW_UNKNOWN_0_OK {}", m.is_ok());
    let mut info = StreamInfo::new(44100, 2, 16).unwrap();
    info.set_block_sizes(4096, 4096).unwrap();
    let mut stream = Stream::with_stream_info(info);
    stream.add_metadata_block(m.unwrap());
    let mut sink = ByteSink::new();
    stream.write(&mut sink).unwrap();
    let bytes = sink.as_slice().to_vec();
    let r = parser::stream::<nom::error::Error<&[u8]>>(&bytes);
    println!("PARSE_STREAM2_OK {}", r.is_ok());
    if let Err(e) = &r { println!("ERR2 {:?}", e); }
}
