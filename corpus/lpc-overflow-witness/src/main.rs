use flacenc::verif_hooks as h;
use std::panic;
fn run(name: &str, coefs: &[i16], shift: i8, prec: usize, sig: &[i32]) {
    let c = coefs.to_vec(); let s = sig.to_vec();
    let r = panic::catch_unwind(move || h::compute_error(&c, shift, prec, &s));
    match r {
        Err(_) => println!("{name}: compute_error PANICKED"),
        Ok(e) => {
            println!("{name}: compute_error ok, first errors = {:?}", &e[..6.min(e.len())]);
            let w = coefs.len();
            let e2 = e.clone();
            let r2 = panic::catch_unwind(move || h::find_partitioned_rice_parameter(&e2, w, 14));
            match r2 { Err(_) => println!("{name}: find_partitioned_rice_parameter PANICKED"),
                       Ok(p) => println!("{name}: search ok order={} bits={}", p.0, p.2) }
            let e3 = e.clone();
            let r3 = panic::catch_unwind(move || h::encode_signbit(e3[w.max(1)]));
            match r3 { Err(_) => println!("{name}: encode_signbit(errors[{}]) PANICKED", w.max(1)),
                       Ok(v) => println!("{name}: encode_signbit -> {v}") }
        }
    }
}
fn main() {
    let mut w1 = vec![0i32; 64]; w1[0] = 1 << 17;
    run("W1 (i64 path, i32::MIN)", &[-16384], 0, 15, &w1);
    let mut w2 = vec![0i32; 64]; w2[0] = 1 << 17; w2[1] = 1 << 17;
    run("W2 (i32 path, x - (acc>>shift) overflow)", &[-16383], 0, 15, &w2);
    let mut w3 = vec![1i32; 64]; for i in 0..4 { w3[i] = -(1 << 15); } w3[4] = 0;
    run("W3 (16-bit, i64 path, i32::MIN)", &[-16384, -16384, -16384, -16384], 0, 15, &w3);
}
