import FlacVerif.Model.Bits
import FlacVerif.Model.Sink
import FlacVerif.Driver.Proto
import FlacVerif.Driver.SinkDrv
