/-
M4 — Rice coding: sign folding, residual bit layout, and the partitioned-Rice parameter search of
`src/rice.rs` (mirrored with its `u32` arithmetic). Import-free.
-/
import FlacVerif.Model.Bits
namespace FlacVerif

def u32 : Nat := 2 ^ 32

/-! ### sign folding (`rice.rs: encode_signbit / decode_signbit`) -/

/-- Mathematical zig-zag folding: 0,-1,1,-2,2,… ↦ 0,1,2,3,4,… -/
def fold (v : Int) : Nat := if v < 0 then 2 * (-v).toNat - 1 else 2 * v.toNat

def unfold (u : Nat) : Int := if u % 2 = 1 then -(((u / 2 + 1 : Nat)) : Int) else ((u / 2 : Nat) : Int)

/-- `encode_signbit` as computed in `u32`: `(v.unsigned_abs() << 1) - (v < 0) as u32`.
`none` = overflow panic (`v = i32::MIN`: the shift drops the top bit, then `0 - 1`). -/
def encodeSignbit (v : Int) : Option Nat :=
  let a := (2 * v.natAbs) % u32
  let s := if v < 0 then 1 else 0
  if s ≤ a then some (a - s) else none

/-- `decode_signbit` (`u32 → i32`). -/
def decodeSignbit (u : Nat) : Int := unfold u

/-! ### residual component (`datatype.rs: Residual`, `bitrepr.rs:531-590`) -/

structure Residual where
  order : Nat
  blockSize : Nat
  warmup : Nat
  params : List Nat
  quotients : List Nat
  remainders : List Nat
  deriving Repr, DecidableEq

namespace Residual

def nparts (r : Residual) : Nat := 2 ^ r.order
def partLen (r : Residual) : Nat := r.blockSize >>> r.order

/-- One coded sample: `write_zeros(q)` then the `p+1` low bits of `rem | (1 << p)`. -/
def sampleBits (p q rem : Nat) : Bits := List.replicate q false ++ natToBits (p + 1) (rem ||| (1 <<< p))

/-- Bits of partition `k`. -/
def partBits (r : Residual) (k : Nat) : Bits :=
  let p := r.params.getD k 0
  let start := max r.warmup (k * r.partLen)
  let stop := (k + 1) * r.partLen
  natToBits 4 p ++
    ((List.range (stop - start)).flatMap fun i =>
      let t := start + i
      sampleBits p (r.quotients.getD t 0) (r.remainders.getD t 0))

/-- `Residual::write`. -/
def bits (r : Residual) : Bits :=
  natToBits 6 r.order ++ (List.range r.nparts).flatMap r.partBits

/-- `Residual::count_bits` as the code computes it (usize arithmetic; `none` = underflow panic). -/
def count (r : Residual) : Option Nat :=
  let sumQ := r.quotients.foldl (· + ·) 0
  let sumP := r.params.foldl (· + ·) 0
  let quotientBits := sumQ + r.blockSize
  if r.warmup > quotientBits then none else
  let quotientBits := quotientBits - r.warmup
  let remBits := sumP * r.partLen
  let w0 := r.warmup * r.params.getD 0 0
  if r.params.isEmpty then none else    -- `self.rice_params()[0]`
  if w0 > remBits then none else
  some (2 + 4 + r.nparts * 4 + quotientBits + (remBits - w0))

/-- The decoded residual signal (`Residual::residual(t)`), zero on the warm-up. -/
def signal (r : Residual) : List Int :=
  (List.range r.blockSize).map fun t =>
    if t < r.warmup then 0 else
    let p := r.params.getD (t / r.partLen) 0
    unfold ((r.quotients.getD t 0) * 2 ^ p + r.remainders.getD t 0)

/-- Well-formedness: what `Residual::verify` must guarantee for `count = |bits|` and for the
bitstream to be decodable (format limits of RFC 9639 for 4-bit Rice parameters). -/
def WF (r : Residual) : Prop :=
  r.order ≤ 15 ∧ r.params.length = 2 ^ r.order ∧ 2 ^ r.order ∣ r.blockSize ∧
  r.warmup ≤ r.partLen ∧ 0 < r.blockSize ∧
  r.quotients.length = r.blockSize ∧ r.remainders.length = r.blockSize ∧
  (∀ p ∈ r.params, p ≤ 14) ∧
  (∀ t, t < r.warmup → r.quotients.getD t 0 = 0 ∧ r.remainders.getD t 0 = 0) ∧
  (∀ t, t < r.blockSize → r.remainders.getD t 0 < 2 ^ (r.params.getD (t / r.partLen) 0))

instance (r : Residual) : Decidable r.WF := by unfold WF; infer_instance

end Residual

/-- `encode_residual_with_prc_parameter`: split every folded error into quotient/remainder. -/
def Residual.ofErrors (errors : List Int) (warmup order : Nat) (params : List Nat) : Residual :=
  let n := errors.length
  let plen := n >>> order
  let qr := (List.range n).map fun t =>
    if t < warmup then (0, 0) else
    let p := params.getD (t / plen) 0
    let e := (encodeSignbit (errors.getD t 0)).getD 0
    (e >>> p, e % 2 ^ p)
  { order := order, blockSize := n, warmup := warmup, params := params.take (2 ^ order),
    quotients := qr.map (·.1), remainders := qr.map (·.2) }

/-! ### cost model and search space (specification side of C13) -/

/-- Coded size of folded errors `es` with parameter `p`, including the 4-bit parameter field. -/
def partCost (p : Nat) (es : List Nat) : Nat := 4 + (es.map fun e => (e >>> p) + p + 1).foldl (· + ·) 0

/-- The folded errors of partition `k` at order `o` that are actually coded (warm-up excluded). -/
def partErrors (es : List Nat) (warm o k : Nat) : List Nat :=
  let plen := es.length >>> o
  (es.take ((k + 1) * plen)).drop (max warm (k * plen))

/-- Coded size of the whole residual body (without the 6 bits of method + order) for a choice. -/
def choiceCost (es : List Nat) (warm o : Nat) (ps : List Nat) : Nat :=
  ((List.range (2 ^ o)).map fun k => partCost (ps.getD k 0) (partErrors es warm o k)).foldl (· + ·) 0

/-- Admissible partition orders: the encoder's search space. -/
def orderOk (n warm o : Nat) : Bool := o ≤ 15 && n % 2 ^ o == 0 && max 64 warm * 2 ^ o ≤ n

/-! ### the implementation's search, mirrored (`rice.rs`) -/

def maxPToBits : Nat := 2 ^ 28 - 1

/-- A cost table: entry `p` is the (saturated) cost of coding a partition with parameter `p`. -/
abbrev Table := List Nat   -- always 16 entries

/-- Fast path of `from_errors`: chunks of 16 accumulated in wrapping `u32`, clamped per chunk. -/
def Table.accFast (es : List Nat) : Table :=
  (List.range 16).map fun p =>
    let rec go (acc : Nat) (rest : List Nat) (fuel : Nat) : Nat :=
      match fuel with
      | 0 => acc
      | fuel + 1 =>
        if rest.isEmpty then acc else
        let chunk := rest.take 16
        let acc := chunk.foldl (fun a e => (a + (e >>> p)) % u32) acc
        go (min acc maxPToBits) (rest.drop 16) fuel
    go 0 es (es.length + 1)

/-- Slow path (fix of F3): element-wise saturating accumulation. -/
def Table.accSlow (es : List Nat) : Table :=
  (List.range 16).map fun p =>
    es.foldl (fun a e => min ((a + min (e >>> p) maxPToBits) % u32) maxPToBits) 0

/-- `PrcBitTable::from_errors(errors, offset)`. -/
def Table.fromErrors (es : List Nat) (offset : Nat) : Table :=
  let acc := if es.foldl max 0 ≥ 2 ^ 27 then Table.accSlow es else Table.accFast es
  (List.range 16).map fun p =>
    let off := (offset % u32 + (es.length % u32) * (p + 1)) % u32
    min ((acc.getD p 0 + off) % u32) maxPToBits

/-- `merge` (saturating after the fix). -/
def Table.merge (a b : Table) (offset : Nat) : Table :=
  (List.range 16).map fun p =>
    min (((a.getD p 0 + b.getD p 0) % u32 + (u32 - offset % u32)) % u32) maxPToBits

/-- `minimizer(max_p)`: pack `(bits << 4) | index`, take the minimum, unpack. -/
def Table.minimizer (t : Table) (maxP : Nat) : Nat × Nat :=
  let packed := (List.range 16).map fun p =>
    let b := if p ≤ maxP then t.getD p 0 else u32 - 1
    ((b <<< 4) % u32) ||| p
  let m := packed.foldl min (u32 - 1)
  (m % 16, m >>> 4)

/-- `finest_partition_order(size, min_part_size)`; `none` = arithmetic underflow panic
(`size < min_part_size`) or the `assert!`. -/
def finestOrder (size minPart : Nat) : Option Nat :=
  if minPart = 0 then none else
  let maxSplits := (size / minPart) % u32
  if maxSplits = 0 then none else
  let maxOrderForMinPart := Nat.log2 maxSplits
  let tz := if size = 0 then 64 else (List.range 64).find? (fun i => size.testBit i) |>.getD 64
  some (min 15 (min maxOrderForMinPart tz))

structure PrcParameter where
  order : Nat
  ps : List Nat
  codeBits : Nat
  deriving Repr, DecidableEq

def evalPartitions (tables : List Table) (maxP : Nat) : Nat × List Nat :=
  (tables.foldl (fun (acc : Nat × List Nat) t => let (p, b) := t.minimizer maxP; (acc.1 + b, acc.2 ++ [p])) (0, []))

def mergePartitions (tables : List Table) : List Table :=
  (List.range (tables.length / 2)).map fun k => (tables.getD (2 * k) []).merge (tables.getD (2 * k + 1) []) 4

/-- `PrcParameterFinder::find` on already folded errors. -/
def searchFolded (es : List Nat) (warm maxP : Nat) : Option PrcParameter := do
  let n := es.length
  let o ← finestOrder n (max 64 warm)
  let nparts := 2 ^ o
  let psize := n / nparts
  let tables := (List.range nparts).map fun k =>
    Table.fromErrors ((es.take ((k + 1) * psize)).drop (max (k * psize) warm)) 4
  let (bits0, ps0) := evalPartitions tables maxP
  let rec loop (tables : List Table) (order : Nat) (best : PrcParameter) (fuel : Nat) : PrcParameter :=
    match fuel with
    | 0 => best
    | fuel + 1 =>
      if tables.length ≤ 1 then best else
      let tables := mergePartitions tables
      let order := order - 1
      let (bits, ps) := evalPartitions tables maxP
      let best := if bits < best.codeBits then ⟨order, ps, bits⟩ else best
      loop tables order best fuel
  some (loop tables o ⟨o, ps0, bits0⟩ 16)

/-- `find_partitioned_rice_parameter(signal, warmup_length, max_p)`. -/
def search (signal : List Int) (warm maxP : Nat) : Option PrcParameter := do
  let es ← signal.mapM encodeSignbit
  searchFolded es warm maxP

end FlacVerif
