/-
M0 — bit strings (MSB first). Import-free: this file is linked into `fvdriver`.
-/
namespace FlacVerif

/-- A bit string, most significant / first-written bit first. -/
abbrev Bits := List Bool

/-- The `w` low bits of `n`, MSB first. -/
def natToBits : (w : Nat) → Nat → Bits
  | 0, _ => []
  | w + 1, n => n.testBit w :: natToBits w n

/-- Inverse of `natToBits`: MSB-first bits to a natural number. -/
def bitsToNat (bs : Bits) : Nat := bs.foldl (fun acc b => 2 * acc + b.toNat) 0

/-- Two's-complement encoding of `v` on `w` bits (reduction mod `2^w`). -/
def twoc (w : Nat) (v : Int) : Bits := natToBits w (v % (2 ^ w : Int)).toNat

/-- Two's-complement decoding of a non-empty bit string. -/
def fromTwoc (bs : Bits) : Int :=
  match bs with
  | [] => 0
  | true :: rest => (bitsToNat rest : Int) - (2 ^ rest.length : Int)
  | false :: rest => (bitsToNat rest : Int)

/-- `q` zeros followed by a one. -/
def unary (q : Nat) : Bits := List.replicate q false ++ [true]

/-- Reads a unary code: number of leading zeros, and what follows the first one. -/
def readUnary : Bits → Option (Nat × Bits)
  | [] => none
  | true :: rest => some (0, rest)
  | false :: rest => (readUnary rest).map (fun (q, r) => (q + 1, r))

/-- Packs a bit string into bytes (big-endian bit order), zero padded at the end. -/
def packBytes : Bits → List Nat
  | [] => []
  | b0 :: rest =>
    let chunk := (b0 :: rest).take 8
    let byte := bitsToNat (chunk ++ List.replicate (8 - chunk.length) false)
    byte :: packBytes ((b0 :: rest).drop 8)
termination_by bs => bs.length
decreasing_by simp [List.length_drop]; omega

/-- Bytes to bits. -/
def bytesToBits (bs : List Nat) : Bits := bs.flatMap (natToBits 8)

@[simp] theorem natToBits_length (w n : Nat) : (natToBits w n).length = w := by
  induction w with
  | zero => rfl
  | succ w ih => simp [natToBits, ih]

theorem bitsToNat_foldl (bs : Bits) (a : Nat) :
    bs.foldl (fun acc b => 2 * acc + b.toNat) a = a * 2 ^ bs.length + bitsToNat bs := by
  induction bs generalizing a with
  | nil => simp [bitsToNat]
  | cons b bs ih =>
    simp only [List.foldl_cons, List.length_cons, bitsToNat]
    rw [ih, ih (2 * 0 + b.toNat)]
    rw [Nat.pow_succ]
    have : (2 * a + b.toNat) * 2 ^ bs.length = a * (2 ^ bs.length * 2) + (2 * 0 + b.toNat) * 2 ^ bs.length := by
      rw [Nat.add_mul, Nat.add_mul]; simp [Nat.mul_comm, Nat.mul_assoc]
    omega

theorem bitsToNat_cons (b : Bool) (bs : Bits) :
    bitsToNat (b :: bs) = b.toNat * 2 ^ bs.length + bitsToNat bs := by
  have := bitsToNat_foldl bs (2 * 0 + b.toNat)
  simp only [bitsToNat, List.foldl_cons] at *
  rw [this]; simp

theorem bitsToNat_append (a b : Bits) :
    bitsToNat (a ++ b) = bitsToNat a * 2 ^ b.length + bitsToNat b := by
  unfold bitsToNat
  rw [List.foldl_append, bitsToNat_foldl]
  rfl

theorem bitsToNat_lt (bs : Bits) : bitsToNat bs < 2 ^ bs.length := by
  induction bs with
  | nil => simp [bitsToNat]
  | cons b bs ih =>
    rw [bitsToNat_cons, List.length_cons, Nat.pow_succ]
    cases b <;> simp <;> omega

theorem bitsToNat_natToBits (w n : Nat) : bitsToNat (natToBits w n) = n % 2 ^ w := by
  induction w with
  | zero => simp [natToBits, bitsToNat, Nat.mod_one]
  | succ w ih =>
    rw [natToBits, bitsToNat_cons, ih, natToBits_length]
    have h := Nat.testBit_eq_decide_div_mod_eq (x := n) (i := w)
    have h2 : n % 2 ^ (w + 1) = 2 ^ w * (n / 2 ^ w % 2) + n % 2 ^ w := by
      rw [Nat.pow_succ, Nat.mod_mul]; omega
    rw [h2, h]
    rcases Nat.mod_two_eq_zero_or_one (n / 2 ^ w) with h0 | h1
    · simp [h0]
    · simp [h1]

theorem natToBits_bitsToNat (bs : Bits) : natToBits bs.length (bitsToNat bs) = bs := by
  induction bs with
  | nil => rfl
  | cons b bs ih =>
    rw [List.length_cons, natToBits, bitsToNat_cons]
    have hlt := bitsToNat_lt bs
    congr 1
    · rw [Nat.testBit_eq_decide_div_mod_eq]
      have : (b.toNat * 2 ^ bs.length + bitsToNat bs) / 2 ^ bs.length = b.toNat := by
        rw [Nat.mul_comm, Nat.mul_add_div (Nat.two_pow_pos _), Nat.div_eq_of_lt hlt]; simp
      rw [this]; cases b <;> simp
    · have h : ∀ (w m k : Nat), k < 2 ^ w → ∀ w' ≤ w, natToBits w' (m * 2 ^ w + k) = natToBits w' k := by
        intro w m k hk w' hw'
        induction w' with
        | zero => rfl
        | succ w' ih' =>
          rw [natToBits, natToBits, ih' (by omega)]
          congr 1
          rw [Nat.mul_comm m, Nat.testBit_two_pow_mul_add m hk]
          simp [show w' < w by omega]
      rw [h bs.length b.toNat _ hlt _ (Nat.le_refl _), ih]

end FlacVerif
