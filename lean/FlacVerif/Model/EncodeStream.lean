/-
M7 (functional view, stream level) — `encode_with_fixed_block_size` (coding.rs:668-723), single
threaded: the source is cut into blocks of `block_size` samples per channel (the last one may be
shorter; an exhausted source ends the loop), every block is encoded by `encode_fixed_size_frame`
with the running frame number, and STREAMINFO is assembled as in `Model/Encoder.lean`.
The MD5 function is a parameter (nothing is proved about it). Float-derived values come from the
oracle log, as in `Model/Encode.lean`.
-/
import FlacVerif.Model.Encode
import FlacVerif.Model.Encoder
namespace FlacVerif

/-- The blocks `read_samples(block_size)` delivers for planar input `chans` (all channels of equal
length): block `j` holds samples `j·bs … (j+1)·bs - 1` of every channel. -/
def blocksOf (bs : Nat) (chans : List (List Int)) : List (List (List Int)) :=
  let total := (chans.headD []).length
  (List.range ((total + bs - 1) / bs)).map fun j => chans.map fun c => (c.drop (j * bs)).take bs

/-- The frame loop: block `i` gets frame number `number + i`; the oracle log is threaded through. -/
def encodeFrames (cfg : SubCfg) (st : StereoCfg) (bps rate : Nat) :
    List (List (List Int)) → Nat → List OEvent → Option (List Frame × List OEvent)
  | [], _, log => some ([], log)
  | b :: bs, number, log => do
    let (f, log) ← encodeFrame cfg st b bps rate number log
    let (fs, log) ← encodeFrames cfg st bps rate bs (number + 1) log
    some (f :: fs, log)

/-- `encode_with_fixed_block_size`: the emitted `Stream` (no metadata block besides STREAMINFO).
`none` = a panic site / exhausted log / `count_bits` failure. -/
def encodeStream (md5 : List Nat → List Nat) (cfg : SubCfg) (st : StereoCfg) (bs : Nat)
    (chans : List (List Int)) (bps rate : Nat) (log : List OEvent) : Option (Stream × List OEvent) := do
  let total := (chans.headD []).length
  let blocks := blocksOf bs chans
  let (frames, log') ← encodeFrames cfg st bps rate blocks 0 log
  let counts ← frames.mapM Frame.count
  let sizes := blocks.map fun b => (b.headD []).length
  let info := assembleInfo rate chans.length bps bs (sizes.zip counts) total
    (md5 (md5Input bps (Rfc.interleave chans)))
  some ({ info := info, metadata := [], frames := frames }, log')

end FlacVerif
