/-
M1 — the two in-memory bit sinks of `src/bitsink.rs`, mirrored statement by statement,
and the ideal MSB-first bit string they are meant to implement.

`none` = the Rust code panics (dev profile: arithmetic overflow / shift overflow / unwrap).
Import-free.
-/
import FlacVerif.Model.Bits
namespace FlacVerif

/-- One call on the `BitSink` trait. `w` is the operand width (8, 16, 32, 64), `v` the operand
as a natural number (`v < 2^w`), `n` a bit count. -/
inductive Op
  | alignToByte
  | writeLsbs (w v n : Nat)
  | writeMsbs (w v n : Nat)
  | write (w v : Nat)
  | writeTwoc (v : Int) (n : Nat)
  | writeZeros (n : Nat)
  | writeBytesAligned (bs : List Nat)
  deriving Repr, DecidableEq

def validWidth (w : Nat) : Bool := w == 8 || w == 16 || w == 32 || w == 64

/-- The operations the property quantifies over. -/
def Op.Valid : Op → Prop
  | .alignToByte => True
  | .writeLsbs w v n => validWidth w = true ∧ v < 2 ^ w ∧ n ≤ w
  | .writeMsbs w v n => validWidth w = true ∧ v < 2 ^ w ∧ n ≤ w
  | .write w v => validWidth w = true ∧ v < 2 ^ w
  | .writeTwoc v n => 1 ≤ n ∧ n ≤ 64 ∧ -(2 ^ 63 : Int) ≤ v ∧ v < (2 ^ 63 : Int)
  | .writeZeros _ => True
  | .writeBytesAligned bs => ∀ b ∈ bs, b < 256

instance : (op : Op) → Decidable op.Valid
  | .alignToByte => by unfold Op.Valid; infer_instance
  | .writeLsbs .. => by unfold Op.Valid; infer_instance
  | .writeMsbs .. => by unfold Op.Valid; infer_instance
  | .write .. => by unfold Op.Valid; infer_instance
  | .writeTwoc .. => by unfold Op.Valid; infer_instance
  | .writeZeros _ => by unfold Op.Valid; infer_instance
  | .writeBytesAligned _ => by unfold Op.Valid; infer_instance

/-- What an ideal MSB-first bit string appends for `op` when its current length is `len`. -/
def Op.ideal (len : Nat) : Op → Bits
  | .alignToByte => List.replicate ((8 - len % 8) % 8) false
  | .writeLsbs _ v n => natToBits n v
  | .writeMsbs w v n => (natToBits w v).take n
  | .write w v => natToBits w v
  | .writeTwoc v n => twoc n v
  | .writeZeros n => List.replicate n false
  | .writeBytesAligned bs => List.replicate ((8 - len % 8) % 8) false ++ bytesToBits bs

/-! ### checked primitive operations (Rust dev-profile semantics) -/

/-- `a - b` on `usize`; panics on underflow. -/
def chkSub (a b : Nat) : Option Nat := if b ≤ a then some (a - b) else none
/-- `v << k`; panics if `k ≥ w`. -/
def chkShl {w : Nat} (v : BitVec w) (k : Nat) : Option (BitVec w) := if k < w then some (v <<< k) else none
/-- `v >> k`; panics if `k ≥ w`. -/
def chkShr {w : Nat} (v : BitVec w) (k : Nat) : Option (BitVec w) := if k < w then some (v >>> k) else none

/-- `val &= !((T::one() << (T::BITS - n)) - T::one())` — keeps the `n` most significant bits. -/
def maskMsbs {w : Nat} (val : BitVec w) (n : Nat) : Option (BitVec w) := do
  let k ← chkSub w n
  let one ← chkShl (1#w) k
  -- `- T::one()` cannot underflow: `one << k` is non-zero for `k < w`
  some (val &&& ~~~(one - 1#w))

/-! ### `MemSink<u64>` -/

structure WordSink where
  storage : List (BitVec 64)
  len : Nat
  deriving Repr, DecidableEq

namespace WordSink

def empty : WordSink := ⟨[], 0⟩

/-- `((!bitlength).wrapping_add(1)) & 63` -/
def paddings (s : WordSink) : Nat := (64 - s.len % 64) % 64
/-- `((!bitlength).wrapping_add(1)) & 7` -/
def paddingsToByte (s : WordSink) : Nat := (8 - s.len % 8) % 8

/-- `write_msbs_impl` (bitsink.rs:398-426) on the operand already widened to `u64` and moved to
the top (`val <<= 64 - T::BITS`). `wrapping_shr/shl` reduce the shift amount mod 64. -/
def writeMsbsImpl (s : WordSink) (val : BitVec 64) (n : Nat) : WordSink :=
  let r := s.paddings
  let lastSetter := val >>> ((64 - r) % 64)
  let val' := val <<< (r % 64)
  let storage :=
    -- `if let Some(p) = self.storage.last_mut() { *p |= last_setter }`
    if r ≠ 0 then s.storage.modify (s.storage.length - 1) (· ||| lastSetter) else s.storage
  let storage := if r < n then storage ++ [val'] else storage
  ⟨storage, s.len + n⟩

/-- widening `T → u64` followed by `val <<= 64 - T::BITS`. -/
def widen {w : Nat} (v : BitVec w) : BitVec 64 := (v.setWidth 64) <<< (64 - w)

/-- `write_msbs` (bitsink.rs, fixed version: returns early on `n == 0`). -/
def writeMsbs {w : Nat} (s : WordSink) (val : BitVec w) (n : Nat) : Option WordSink :=
  if n = 0 then some s else do
  let val ← maskMsbs val n
  some (s.writeMsbsImpl (widen val) n)

/-- `write_lsbs` (fixed version: returns early on `n == 0`). -/
def writeLsbs {w : Nat} (s : WordSink) (val : BitVec w) (n : Nat) : Option WordSink :=
  if n = 0 then some s else do
  let k ← chkSub w n
  let v ← chkShl val k
  some (s.writeMsbsImpl (widen v) n)

def alignToByte (s : WordSink) : WordSink := { s with len := s.len + s.paddingsToByte }

def writeZeros (s : WordSink) (n : Nat) : WordSink :=
  let pad := s.paddings
  let n' := n - pad     -- saturating_sub
  let elems := (n' + 63) / 64
  ⟨s.storage ++ List.replicate elems 0, s.len + n⟩

def step (s : WordSink) : Op → Option WordSink
  | .alignToByte => some s.alignToByte
  | .writeLsbs w v n => s.writeLsbs (BitVec.ofNat w v) n
  | .writeMsbs w v n => s.writeMsbs (BitVec.ofNat w v) n
  | .write w v => s.writeMsbs (BitVec.ofNat w v) w
  | .writeTwoc v n => do
      -- `(val << (64 - bits_per_sample)) as u64`
      let k ← chkSub 64 n
      let sh ← chkShl (BitVec.ofInt 64 v) k
      s.writeMsbs sh n
  | .writeZeros n => some (s.writeZeros n)
  | .writeBytesAligned bs =>
      bs.foldlM (fun (s : WordSink) b => s.writeMsbs (BitVec.ofNat 8 b) 8) s.alignToByte

def bitAt (s : WordSink) (i : Nat) : Bool := (s.storage[i / 64]?.getD 0).getMsbD (i % 64)

/-- The bits written so far. -/
def abs (s : WordSink) : Bits := (List.range s.len).map s.bitAt

/-- `as_slice` seen as bytes (`write_to_byte_slice` with a destination of exactly the right size). -/
def exportBytes (s : WordSink) : List Nat :=
  (s.storage.flatMap (fun v => (List.range 8).map (fun i => (v.toNat >>> (56 - 8 * i)) % 256))).take ((s.len + 7) / 8)

end WordSink

/-! ### `MemSink<u8>` (`ByteSink`) -/

structure ByteSink where
  storage : List (BitVec 8)
  len : Nat
  deriving Repr, DecidableEq

namespace ByteSink

def empty : ByteSink := ⟨[], 0⟩

def paddings (s : ByteSink) : Nat := (8 - s.len % 8) % 8

/-- `write_msbs` of `MemSink<u8>` (bitsink.rs:329-374), little-endian target. -/
def writeMsbs {w : Nat} (s : ByteSink) (val : BitVec w) (n : Nat) : Option ByteSink :=
  if n = 0 then some s else do
  let r := s.paddings
  let len' := s.len + n
  let val ← maskMsbs val n
  if r ≠ 0 then do
    let sh ← chkSub w r
    let b ← chkShr val sh
    -- `*self.storage.last_mut().unwrap() |= b`
    if s.storage.isEmpty then none else
    let storage := s.storage.modify (s.storage.length - 1) (· ||| b.setWidth 8)
    let val ← chkShl val r
    if r ≥ n then some ⟨storage, len'⟩ else
    tailBytes storage len' val (n - r)
  else tailBytes s.storage len' val n
where
  tailBytes {w : Nat} (storage : List (BitVec 8)) (len' : Nat) (val : BitVec w) (n : Nat) : Option ByteSink := do
    let bytesToWrite := n / 8
    -- `bytes[size_of::<T>() - i - 1]` of the little-endian representation: i-th most significant byte
    let full := (List.range bytesToWrite).map (fun i => (val >>> (w - 8 * (i + 1))).setWidth 8)
    let storage := storage ++ full
    let n := n % 8
    if n > 0 then do
      let val ← chkShl val (bytesToWrite * 8)
      let sh ← chkSub w 8
      let tail ← chkShr val sh
      some ⟨storage ++ [tail.setWidth 8], len'⟩
    else some ⟨storage, len'⟩

def writeLsbs {w : Nat} (s : ByteSink) (val : BitVec w) (n : Nat) : Option ByteSink :=
  if n = 0 then some s else do
  let k ← chkSub w n
  let v ← chkShl val k
  s.writeMsbs v n

/-- `write` (bitsink.rs:304-315). -/
def write {w : Nat} (s : ByteSink) (val : BitVec w) : Option ByteSink := do
  let nlen := s.len + w
  let tail := s.paddings
  let s ← if tail > 0 then s.writeMsbs val tail else some s
  let val ← chkShl val tail
  let bytes := (List.range (w / 8)).map (fun i => (val >>> (w - 8 * (i + 1))).setWidth 8)
  some ⟨s.storage ++ bytes, nlen⟩

def alignToByte (s : ByteSink) : ByteSink := { s with len := s.len + s.paddings }

def writeBytesAligned (s : ByteSink) (bs : List Nat) : ByteSink :=
  let s := s.alignToByte
  ⟨s.storage ++ bs.map (BitVec.ofNat 8), s.len + 8 * bs.length⟩

def writeZeros (s : ByteSink) (n : Nat) : ByteSink :=
  let pad := s.paddings
  if n ≤ pad then { s with len := s.len + n } else
  let n' := n - pad
  let bytes := (n' + 7) / 8
  ⟨s.storage ++ List.replicate bytes 0, s.len + pad + n'⟩

def step (s : ByteSink) : Op → Option ByteSink
  | .alignToByte => some s.alignToByte
  | .writeLsbs w v n => s.writeLsbs (BitVec.ofNat w v) n
  | .writeMsbs w v n => s.writeMsbs (BitVec.ofNat w v) n
  | .write w v => s.write (BitVec.ofNat w v)
  | .writeTwoc v n => do
      let k ← chkSub 64 n
      let sh ← chkShl (BitVec.ofInt 64 v) k
      s.writeMsbs sh n
  | .writeZeros n => some (s.writeZeros n)
  | .writeBytesAligned bs => some (s.writeBytesAligned bs)

def bitAt (s : ByteSink) (i : Nat) : Bool := (s.storage[i / 8]?.getD 0).getMsbD (i % 8)

def abs (s : ByteSink) : Bits := (List.range s.len).map s.bitAt

def exportBytes (s : ByteSink) : List Nat := s.storage.map BitVec.toNat

end ByteSink

/-! ### A user sink that only implements the required methods

The trait's provided methods (`write_bytes_aligned`, `write_twoc`, `write_zeros`) expand into
required ones (bitsink.rs:115-122, 208-217, 261-270). -/

/-- Expansion of provided methods into required ones, given the current length. -/
def Op.expand : Op → List Op
  | .writeBytesAligned bs => .alignToByte :: bs.map (fun b => .write 8 b)
  | .writeTwoc v n => [.writeMsbs 64 ((BitVec.ofInt 64 v <<< (64 - n)).toNat) n]
  | .writeZeros n => List.replicate (if n > 64 then (n - 1) / 64 else 0) (.write 64 0) ++
      [.writeMsbs 64 0 (if n > 64 then n - 64 * ((n - 1) / 64) else n)]
  | op => [op]

/-- Ideal bit string of a sequence of ops starting at length `len`. -/
def idealRun : Nat → List Op → Bits
  | _, [] => []
  | len, op :: ops => let b := op.ideal len; b ++ idealRun (len + b.length) ops

def WordSink.run (s : WordSink) (ops : List Op) : Option WordSink := ops.foldlM WordSink.step s
def ByteSink.run (s : ByteSink) (ops : List Op) : Option ByteSink := ops.foldlM ByteSink.step s

end FlacVerif
