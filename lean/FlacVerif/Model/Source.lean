/-
M9 — sample delivery: `arrayutils.rs` `deinterleave` (all channel specialisations),
`le_bytes_to_i32s`, `i32s_to_le_bytes`, and `source.rs` `FrameBuf` / `Fill` (after the `fix:`
commit that makes the fill operations reject over-long and malformed input). Import-free.
-/
import FlacVerif.Model.Rfc
namespace FlacVerif

/-- `deinterleave(interleaved, channels, channel_stride, dest)` for `dest.len() = stride * channels`.
The mono specialisation copies `min(dest.len(), src.len())` samples and leaves the rest of `dest`
untouched; the others write every cell `stride*c + t` (`t < dest.len()/channels`) with the sample
or with zero padding. `dest` is the previous (stale) content of the buffer. -/
def deinterleave (src : List Int) (ch stride : Nat) (dest : List Int) : List Int :=
  if ch = 1 then
    let n := min dest.length src.length
    src.take n ++ dest.drop n
  else
    let dstSamples := dest.length / ch
    let srcSamples := src.length / ch
    (List.range dest.length).map fun i =>
      let c := i / stride
      let t := i % stride
      if c < ch ∧ t < dstSamples then (if t < srcSamples then src.getD (ch * t + c) 0 else 0)
      else dest.getD i 0

/-- One little-endian sample of `k` bytes, sign extended (`le_bytes_to_i32s_impl`). -/
def leToInt (bytes : List Nat) : Int :=
  let k := bytes.length
  let u := (List.range k).foldl (fun acc i => acc + bytes.getD i 0 * 2 ^ (8 * i)) 0
  if k = 0 then 0 else if u ≥ 2 ^ (8 * k - 1) then (u : Int) - 2 ^ (8 * k) else u

/-- `le_bytes_to_i32s(bytes, dest, k)` for `bytes.len() % k = 0` (the caller checks). -/
def leBytesToInts (k : Nat) : (fuel : Nat) → List Nat → List Int
  | 0, _ => []
  | fuel + 1, bytes => if bytes.length < k ∨ k = 0 then [] else leToInt (bytes.take k) :: leBytesToInts k fuel (bytes.drop k)

def leBytesToI32s (k : Nat) (bytes : List Nat) : List Int := leBytesToInts k bytes.length bytes

/-- `i32s_to_le_bytes(ints, dest, k)`: the low `k` bytes of each value. -/
def i32sToLeBytes (k : Nat) (xs : List Int) : List Nat := xs.flatMap (Rfc.toLeBytes k)

inductive FillErr | invalidBuffer
  deriving Repr, DecidableEq

/-- `source::FrameBuf`. -/
structure FrameBuf where
  samples : List Int
  size : Nat
  channels : Nat
  filled : Nat
  deriving Repr, DecidableEq

namespace FrameBuf

/-- `FrameBuf::with_size` (`none` = `VerifyError`). -/
def withSize (channels size : Nat) : Option FrameBuf :=
  if 1 ≤ channels ∧ channels ≤ 8 ∧ 32 ≤ size ∧ size ≤ 32767 then
    some ⟨List.replicate (size * channels) 0, size, channels, 0⟩
  else none

/-- `Fill::fill_interleaved` for `FrameBuf`. -/
def fillInterleaved (fb : FrameBuf) (xs : List Int) : Except FillErr FrameBuf :=
  if xs.length > fb.samples.length ∨ xs.length % fb.channels ≠ 0 then .error .invalidBuffer
  else .ok { fb with samples := deinterleave xs fb.channels fb.size fb.samples, filled := xs.length / fb.channels }

/-- `Fill::fill_le_bytes` for `FrameBuf`. -/
def fillLeBytes (fb : FrameBuf) (bytes : List Nat) (k : Nat) : Except FillErr FrameBuf :=
  if ¬ (1 ≤ k ∧ k ≤ 4) ∨ bytes.length % k ≠ 0 then .error .invalidBuffer else
  let count := bytes.length / k
  if count > fb.samples.length ∨ count % fb.channels ≠ 0 then .error .invalidBuffer
  else .ok { fb with samples := deinterleave (leBytesToI32s k bytes) fb.channels fb.size fb.samples,
                     filled := count / fb.channels }

/-- `channel_slice(ch)`. -/
def channelSlice (fb : FrameBuf) (c : Nat) : List Int := (fb.samples.drop (c * fb.size)).take fb.filled

end FrameBuf
end FlacVerif
