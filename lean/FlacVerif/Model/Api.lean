/-
Argument checks of the encoding entry points (`coding.rs:584-609`, `:653-690`, `par.rs:344-370`,
`source.rs` `Context::fill_le_bytes`), after the `fix:` commits that make them reject every
out-of-domain argument. Decision procedures over unbounded naturals. Import-free.
-/
import FlacVerif.Model.Verify
import FlacVerif.Model.Source
namespace FlacVerif

/-- `FrameBuf::verify_samples(bits_per_sample)` on the filled part of every channel. -/
def FrameBuf.verifySamples (fb : FrameBuf) (bps : Nat) : Bool :=
  (List.range fb.channels).all fun c => (fb.channelSlice c).all fun v =>
    -(2 ^ (bps - 1) : Int) ≤ v && v ≤ (2 ^ (bps - 1) : Int) - 1

/-- `encode_fixed_size_frame(config, framebuf, frame_number, stream_info)` returns `Ok` iff … -/
def encodeFrameArgsOk (frameNumber : Nat) (fb : FrameBuf) (infoChannels infoBps : Nat) : Bool :=
  decide (frameNumber < 2 ^ 31) && fb.channels == infoChannels && decide (fb.filled > 0) && fb.verifySamples infoBps

/-- The argument checks `encode_with_fixed_block_size` performs before it reads anything (both the
single-thread and the multi-thread path): `Stream::new(rate, channels, bps)` and
`FrameBuf::with_size(channels, block_size)` (par: `set_block_sizes` + `ParFrameBuf::new`). -/
def encodeStreamArgsOk (blockSize channels bps rate : Nat) : Bool :=
  (StreamInfo.new rate channels bps).isSome && (FrameBuf.withSize channels blockSize).isSome

/-- `Context::fill_le_bytes(bytes, bytes_per_sample)` / `ParContext::fill_le_bytes` accept the call
iff the width is the context's own `⌈bps/8⌉`. -/
def ctxFillLeBytesOk (bps k : Nat) : Bool := k == (bps + 7) / 8

end FlacVerif
