/-
M8 (first half) — an independent strict FLAC decoder written from RFC 9639, not from the
repository's code. `analyze` accepts a byte string only if it is a well-formed FLAC stream of the
subset this encoder may emit (fixed block size, 4-bit Rice parameters without escape) and returns
everything the properties talk about: STREAMINFO fields, per-frame structure and the decoded audio.
Every rejection names the violated clause. Import-free.
-/
import FlacVerif.Model.Codes
import FlacVerif.Model.Predict
import FlacVerif.Model.Rice
namespace FlacVerif
namespace Rfc

abbrev R := Except String

def takeBits (n : Nat) (bs : Bits) (what : String) : R (Bits × Bits) :=
  if bs.length < n then .error s!"truncated: {what}" else .ok (bs.take n, bs.drop n)

def readNat (n : Nat) (bs : Bits) (what : String) : R (Nat × Bits) := do
  let (h, t) ← takeBits n bs what
  pure (bitsToNat h, t)

def readInt (n : Nat) (bs : Bits) (what : String) : R (Int × Bits) := do
  let (h, t) ← takeBits n bs what
  pure (fromTwoc h, t)

def readInts : (count width : Nat) → Bits → String → R (List Int × Bits)
  | 0, _, bs, _ => pure ([], bs)
  | c + 1, w, bs, what => do
    let (v, t) ← readInt w bs what
    let (vs, t') ← readInts c w t what
    pure (v :: vs, t')

/-- One Rice-coded residual: unary quotient (zeros then a one), then `p` remainder bits. -/
def readRice (p : Nat) (bs : Bits) : R (Int × Bits) :=
  match readUnary bs with
  | none => .error "residual: unary code runs past the end of the frame"
  | some (q, rest) => do
    let (r, rest) ← readNat p rest "rice remainder"
    let folded := q * 2 ^ p + r
    if folded ≥ 2 ^ 32 then .error "residual: folded value does not fit 32 bits" else
    let v := unfold folded
    if v = -(2 ^ 31 : Int) then .error "residual: value -2^31 is not allowed" else
    pure (v, rest)

structure ResidualRep where
  order : Nat
  params : List Nat
  values : List Int
  deriving Repr

/-- `cnt` Rice-coded residuals with parameter `p`. -/
def readRiceN (p : Nat) : (cnt : Nat) → Bits → R (List Int × Bits)
  | 0, bs => pure ([], bs)
  | c + 1, bs => do
    let (v, t) ← readRice p bs
    let (vs, t') ← readRiceN p c t
    pure (v :: vs, t')

/-- The partitions `k, k+1, …` (`left` of them remain); partition 0 holds `plen - predOrder`
residuals, every other one `plen`. -/
def readPartitions (plen predOrder : Nat) : (left k : Nat) → Bits → R (List Nat × List Int × Bits)
  | 0, _, bs => pure ([], [], bs)
  | left + 1, k, bs => do
    let (p, t) ← readNat 4 bs "rice parameter"
    if p = 15 then throw "residual: escape code (never emitted by this encoder)"
    let cnt := if k = 0 then plen - predOrder else plen
    let (vs, t) ← readRiceN p cnt t
    let (ps, ws, t) ← readPartitions plen predOrder left (k + 1) t
    pure (p :: ps, vs ++ ws, t)

/-- RFC 9639 section 9.2.7. `n` = block size, `predOrder` = predictor order. -/
def readResidual (n predOrder : Nat) (bs : Bits) : R (ResidualRep × Bits) := do
  let (method, bs) ← readNat 2 bs "residual coding method"
  if method ≥ 2 then throw "residual: reserved coding method"
  if method = 1 then throw "residual: 5-bit Rice parameters (never emitted by this encoder)"
  let (order, bs) ← readNat 4 bs "partition order"
  if n % 2 ^ order ≠ 0 then throw "residual: block size not divisible by the number of partitions"
  let plen := n / 2 ^ order
  -- RFC 9639 section 9.2.7: (block size >> partition order) MUST be larger than the predictor order
  if plen ≤ predOrder then throw "residual: first partition not longer than the predictor order"
  let (params, vals, rest) ← readPartitions plen predOrder (2 ^ order) 0 bs
  pure (⟨order, params, vals⟩, rest)

inductive SubKind | constant | verbatim | fixed | lpc
  deriving Repr, DecidableEq

structure SubRep where
  kind : SubKind
  order : Nat := 0
  precision : Nat := 0
  shift : Nat := 0
  coefs : List Int := []
  partOrder : Nat := 0
  params : List Nat := []
  bps : Nat := 0
  bitLen : Nat := 0
  residual : List Int := []
  samples : List Int := []
  deriving Repr

def inRange (b : Nat) (v : Int) : Bool := -(2 ^ (b - 1) : Int) ≤ v && v < (2 ^ (b - 1) : Int)

/-- RFC 9639 section 9.2. `n` = block size, `b` = sample width of this channel. -/
def readSubframe (n b : Nat) (bs : Bits) : R (SubRep × Bits) := do
  let start := bs.length
  let (pad, bs) ← readNat 1 bs "subframe padding bit"
  if pad ≠ 0 then throw "subframe: padding bit set"
  let (ty, bs) ← readNat 6 bs "subframe type"
  let (wasted, bs) ← readNat 1 bs "wasted-bits flag"
  if wasted ≠ 0 then throw "subframe: wasted bits (never emitted by this encoder)"
  let finish (rep : SubRep) (rest : Bits) : R (SubRep × Bits) :=
    if rep.samples.length ≠ n then .error "subframe: wrong number of samples"
    else if rep.samples.any (fun x => !inRange b x) then .error "subframe: reconstructed sample outside the sample width"
    else .ok ({ rep with bps := b, bitLen := start - rest.length }, rest)
  if ty = 0 then
    let (v, bs) ← readInt b bs "constant value"
    finish { kind := .constant, samples := List.replicate n v } bs
  else if ty = 1 then
    let (xs, bs) ← readInts n b bs "verbatim samples"
    finish { kind := .verbatim, samples := xs } bs
  else if 8 ≤ ty ∧ ty ≤ 12 then
    let k := ty - 8
    if k ≥ n then throw "subframe: fixed predictor order not below the block size"
    let (warm, bs) ← readInts k b bs "fixed warm-up"
    let (res, bs) ← readResidual n k bs
    finish { kind := .fixed, order := k, partOrder := res.order, params := res.params, residual := res.values,
             samples := fixedRestore k warm res.values } bs
  else if ty ≥ 32 then
    let k := ty - 31
    if k ≥ n then throw "subframe: LPC order not below the block size"
    let (warm, bs) ← readInts k b bs "LPC warm-up"
    let (prec1, bs) ← readNat 4 bs "LPC precision"
    if prec1 = 15 then throw "subframe: invalid coefficient precision code 1111"
    let (shift, bs) ← readInt 5 bs "LPC shift"
    if shift < 0 then throw "subframe: negative LPC shift"
    let (coefs, bs) ← readInts k (prec1 + 1) bs "LPC coefficients"
    let (res, bs) ← readResidual n k bs
    finish { kind := .lpc, order := k, precision := prec1 + 1, shift := shift.toNat, coefs := coefs,
             partOrder := res.order, params := res.params, residual := res.values,
             samples := lpcRestore coefs shift.toNat warm res.values } bs
  else throw "subframe: reserved subframe type"

structure FrameRep where
  number : Nat
  blockSize : Nat
  byteLen : Nat
  assignment : Nat
  bsCode : Nat
  srCode : Nat
  ssCode : Nat
  subs : List SubRep
  channels : List (List Int)
  deriving Repr

structure Info where
  minBlock : Nat
  maxBlock : Nat
  minFrame : Nat
  maxFrame : Nat
  rate : Nat
  channels : Nat
  bps : Nat
  total : Nat
  md5 : List Nat
  deriving Repr, DecidableEq

def blockSizeOfCode (code extra : Nat) : Option Nat :=
  if code = 0 then none else if code = 1 then some 192
  else if code ≤ 5 then some (576 * 2 ^ (code - 2))
  else if code ≤ 7 then some (extra + 1)
  else some (256 * 2 ^ (code - 8))

def rateOfCode (code extra infoRate : Nat) : Option Nat :=
  match code with
  | 0 => some infoRate | 1 => some 88200 | 2 => some 176400 | 3 => some 192000 | 4 => some 8000
  | 5 => some 16000 | 6 => some 22050 | 7 => some 24000 | 8 => some 32000 | 9 => some 44100
  | 10 => some 48000 | 11 => some 96000 | 12 => some (extra * 1000) | 13 => some extra
  | 14 => some (extra * 10) | _ => none

def bpsOfCode (code infoBps : Nat) : Option Nat :=
  match code with
  | 0 => some infoBps | 1 => some 8 | 2 => some 12 | 4 => some 16 | 5 => some 20 | 6 => some 24 | 7 => some 32
  | _ => none

/-- RFC 9639 section 9: one frame starting at the head of `bytes`; returns the frame and the
remaining bytes. `index` is the expected frame number. -/
def readFrame (info : Info) (index : Nat) (bytes : List Nat) (bs : Bits) : R (FrameRep × List Nat × Bits) := do
  let total := bs.length
  let (sync, bs) ← readNat 15 bs "frame sync"
  if sync ≠ 0x7FFC then throw "frame: lost sync (or reserved bit set)"
  let (blocking, bs) ← readNat 1 bs "blocking strategy"
  if blocking ≠ 0 then throw "frame: variable-blocksize strategy bit set (encoder is fixed-blocksize)"
  let (bsCode, bs) ← readNat 4 bs "block size code"
  if bsCode = 0 then throw "frame: reserved block size code 0000"
  let (srCode, bs) ← readNat 4 bs "sample rate code"
  if srCode = 15 then throw "frame: invalid sample rate code 1111"
  let (chCode, bs) ← readNat 4 bs "channel assignment"
  if chCode > 10 then throw "frame: reserved channel assignment"
  let (ssCode, bs) ← readNat 3 bs "sample size code"
  if ssCode = 3 then throw "frame: reserved sample size code 011"
  let (rsv, bs) ← readNat 1 bs "reserved bit"
  if rsv ≠ 0 then throw "frame: reserved bit set"
  -- coded number: byte aligned here (32 bits consumed)
  let numBytes := bytes.drop 4
  let (number, used) ← match decodeUtf8like numBytes with
    | some r => pure r
    | none => throw "frame: malformed or non-canonical coded number"
  if number ≥ 2 ^ 31 then throw "frame: frame number does not fit 31 bits"
  if number ≠ index then throw s!"frame: frame number {number} out of sequence (expected {index})"
  let bs := bs.drop (8 * used)
  let (bsExtra, bs) ← if bsCode = 6 then readNat 8 bs "block size byte" else if bsCode = 7 then readNat 16 bs "block size word" else pure (0, bs)
  let (srExtra, bs) ← if srCode = 12 then readNat 8 bs "sample rate byte" else if srCode = 13 ∨ srCode = 14 then readNat 16 bs "sample rate word" else pure (0, bs)
  let headerLen := (total - bs.length) / 8
  let (crc8, bs) ← readNat 8 bs "header CRC"
  if crc rfcCrc8 (bytes.take headerLen) ≠ crc8 then throw "frame: header CRC-8 mismatch"
  let n ← match blockSizeOfCode bsCode bsExtra with
    | some n => pure n
    | none => throw "frame: reserved block size"
  if n = 0 ∨ n > 65535 then throw "frame: block size out of range"
  let rate ← match rateOfCode srCode srExtra info.rate with
    | some r => pure r
    | none => throw "frame: invalid sample rate"
  if rate ≠ info.rate then throw "frame: sample rate differs from STREAMINFO"
  let b ← match bpsOfCode ssCode info.bps with
    | some b => pure b
    | none => throw "frame: invalid sample size"
  if b ≠ info.bps then throw "frame: sample size differs from STREAMINFO"
  let nch := if chCode < 8 then chCode + 1 else 2
  if nch ≠ info.channels then throw "frame: channel count differs from STREAMINFO"
  let mut rest := bs
  let mut subs : List SubRep := []
  for ch in [0:nch] do
    let wb := if (chCode = 8 ∧ ch = 1) ∨ (chCode = 9 ∧ ch = 0) ∨ (chCode = 10 ∧ ch = 1) then b + 1 else b
    let (s, t) ← readSubframe n wb rest
    subs := s :: subs
    rest := t
  let subsR := subs.reverse
  -- zero padding to a byte boundary
  let consumed := total - rest.length
  let padLen := (8 - consumed % 8) % 8
  let (pad, rest2) ← takeBits padLen rest "frame padding"
  if pad.any id then throw "frame: non-zero padding bits"
  let bodyLen := (consumed + padLen) / 8
  let (crc16, rest3) ← readNat 16 rest2 "frame CRC"
  if crc rfcCrc16 (bytes.take bodyLen) ≠ crc16 then throw "frame: CRC-16 mismatch"
  let raw := subsR.map (·.samples)
  let chans : List (List Int) :=
    if chCode < 8 then raw
    else
      let a := raw.getD 0 []
      let c := raw.getD 1 []
      let pairs := List.zipWith (fun x y =>
        if chCode = 8 then unLeftSide x y else if chCode = 9 then unRightSide x y else unMidSide x y) a c
      [pairs.map (·.1), pairs.map (·.2)]
  if chans.any (fun c => c.any (fun x => !inRange b x)) then throw "frame: decoded sample outside the stream's sample width"
  pure (⟨number, n, bodyLen + 2, chCode, bsCode, srCode, ssCode, subsR, chans⟩, bytes.drop (bodyLen + 2), rest3)

structure Report where
  info : Info
  metadataBlocks : Nat
  frames : List FrameRep
  audio : List (List Int)     -- per channel
  deriving Repr

def interleave (chans : List (List Int)) : List Int :=
  match chans with
  | [] => []
  | c0 :: _ => (List.range c0.length).flatMap fun t => chans.map fun c => c.getD t 0

/-- Little-endian bytes of `v` on `k` bytes (two's complement). -/
def toLeBytes (k : Nat) (v : Int) : List Nat :=
  let u := (v % (2 ^ (8 * k) : Int)).toNat
  (List.range k).map fun i => (u >>> (8 * i)) % 256

/-- Whole stream. `md5` is the digest function (executable, not reasoned about). -/
def analyze (md5 : List Nat → List Nat) (bytes : List Nat) : R Report := do
  if bytes.take 4 ≠ [0x66, 0x4C, 0x61, 0x43] then throw "stream: missing fLaC marker"
  let mut rest := bytes.drop 4
  -- first metadata block: STREAMINFO
  if rest.length < 4 then throw "stream: truncated metadata header"
  let h0 := rest.getD 0 0
  if h0 % 128 ≠ 0 then throw "stream: first metadata block is not STREAMINFO"
  let len0 := rest.getD 1 0 * 65536 + rest.getD 2 0 * 256 + rest.getD 3 0
  if len0 ≠ 34 then throw "stream: STREAMINFO length is not 34"
  if rest.length < 38 then throw "stream: truncated STREAMINFO"
  let sb := bytesToBits ((rest.drop 4).take 34)
  let (minBlock, sb) ← readNat 16 sb "min block size"
  let (maxBlock, sb) ← readNat 16 sb "max block size"
  let (minFrame, sb) ← readNat 24 sb "min frame size"
  let (maxFrame, sb) ← readNat 24 sb "max frame size"
  let (rate, sb) ← readNat 20 sb "sample rate"
  let (ch1, sb) ← readNat 3 sb "channels"
  let (bps1, sb) ← readNat 5 sb "bits per sample"
  let (totalSamples, sb) ← readNat 36 sb "total samples"
  let md5v := (List.range 16).map fun i => bitsToNat ((sb.drop (8 * i)).take 8)
  let info : Info := ⟨minBlock, maxBlock, minFrame, maxFrame, rate, ch1 + 1, bps1 + 1, totalSamples, md5v⟩
  if minBlock < 16 then throw "STREAMINFO: minimum block size below 16"
  if maxBlock < 16 then throw "STREAMINFO: maximum block size below 16"
  if minBlock > maxBlock then throw "STREAMINFO: minimum block size above maximum"
  if rate = 0 then throw "STREAMINFO: sample rate 0"
  if info.bps < 4 then throw "STREAMINFO: bits per sample below 4"
  if maxFrame ≠ 0 ∧ minFrame > maxFrame then throw "STREAMINFO: minimum frame size above maximum"
  rest := rest.drop 38
  let mut last : Bool := decide (h0 ≥ 128)
  let mut nblocks := 0
  -- further metadata blocks
  let mut fuel := bytes.length
  while !last ∧ fuel > 0 do
    fuel := fuel - 1
    if rest.length < 4 then throw "stream: truncated metadata header"
    let h := rest.getD 0 0
    if h % 128 = 127 then throw "stream: forbidden metadata block type 127"
    if h % 128 = 0 then throw "stream: second STREAMINFO block"
    let len := rest.getD 1 0 * 65536 + rest.getD 2 0 * 256 + rest.getD 3 0
    if rest.length < 4 + len then throw "stream: truncated metadata block"
    rest := rest.drop (4 + len)
    last := decide (h ≥ 128)
    nblocks := nblocks + 1
  if !last then throw "stream: no metadata block is flagged last"
  -- frames
  let mut frames : List FrameRep := []
  let mut idx := 0
  let mut restBits := bytesToBits rest
  fuel := bytes.length
  while !rest.isEmpty ∧ fuel > 0 do
    fuel := fuel - 1
    let (f, t, tb) ← readFrame info idx rest restBits
    frames := f :: frames
    rest := t
    restBits := tb
    idx := idx + 1
  let framesR := frames.reverse
  -- stream-level consistency
  let nfr := framesR.length
  for (f, i) in framesR.zipIdx do
    if i + 1 < nfr then
      if f.blockSize ≠ maxBlock then throw s!"stream: non-final frame {i} does not hold the fixed block size"
      if f.blockSize < minBlock then throw s!"stream: non-final frame {i} is shorter than the minimum block size"
    else
      if f.blockSize > maxBlock then throw "stream: final frame larger than the maximum block size"
    if maxFrame ≠ 0 ∧ (f.byteLen < minFrame ∨ f.byteLen > maxFrame) then
      throw s!"stream: frame {i} has {f.byteLen} bytes, outside STREAMINFO's frame size bounds"
  let sumN := (framesR.map (·.blockSize)).foldl (· + ·) 0
  if totalSamples ≠ 0 ∧ sumN ≠ totalSamples then throw "stream: total sample count differs from the frames"
  let audio : List (List Int) := (List.range info.channels).map fun c => framesR.flatMap fun f => f.channels.getD c []
  if md5v.any (· ≠ 0) then
    let k := (info.bps + 7) / 8
    let pcm := (interleave audio).flatMap (toLeBytes k)
    if md5 pcm ≠ md5v then throw "stream: MD5 signature differs from the decoded audio"
  pure ⟨info, nblocks, framesR, audio⟩

end Rfc
end FlacVerif
