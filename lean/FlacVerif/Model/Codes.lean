/-
M2/M3 — CRCs and the number codings of the frame header (`bitrepr.rs:109-170`,
`datatype.rs` `BlockSizeSpec` / `SampleRateSpec` / `SampleSizeSpec` / `ChannelAssignment`).
Import-free.
-/
import FlacVerif.Model.Bits
namespace FlacVerif

/-! ### CRC (bitwise LFSR, MSB first, no reflection, init 0, xorout 0) -/

structure CrcParams where
  width : Nat
  poly : Nat
  init : Nat
  deriving Repr, DecidableEq

/-- CRC-8 of FLAC frame headers: polynomial x^8+x^2+x+1 (RFC 9639 section 9.1.8). -/
def rfcCrc8 : CrcParams := ⟨8, 0x07, 0⟩
/-- CRC-16 of FLAC frames: polynomial x^16+x^15+x^2+1 (RFC 9639 section 9.3). -/
def rfcCrc16 : CrcParams := ⟨16, 0x8005, 0⟩

def crcStepBit (p : CrcParams) (reg : Nat) (b : Bool) : Nat :=
  let top := reg.testBit (p.width - 1)
  let reg := (reg * 2) % 2 ^ p.width
  if top != b then reg ^^^ p.poly else reg

def crcBits (p : CrcParams) (bs : Bits) : Nat := bs.foldl (crcStepBit p) p.init

def crc (p : CrcParams) (bytes : List Nat) : Nat := crcBits p (bytesToBits bytes)

/-! ### UTF-8-like coding of frame / sample numbers -/

/-- Number of significant bits. -/
def bitLen (v : Nat) : Nat := if v = 0 then 0 else Nat.log2 v + 1

/-- `encode_to_utf8like` (bitrepr.rs:109-160); `none` = `RangeError` (more than 36 bits). -/
def encodeUtf8like (v : Nat) : Option (List Nat) :=
  let codeBits := bitLen v
  if codeBits ≤ 7 then some [v]
  else if codeBits > 36 then none
  else
    let trailing := (codeBits - 2) / 5
    let firstBits := 6 - trailing
    let head :=
      if trailing = 6 then 0xFE
      else ([0x80, 0xC0, 0xE0, 0xF0, 0xF8, 0xFC, 0xFE].getD trailing 0) ||| ((v >>> (6 * trailing)) % 2 ^ firstBits)
    some (head :: (List.range trailing).map fun i => 0x80 ||| ((v >>> (6 * (trailing - 1 - i))) % 64))

/-- `utf8like_bytesize`. -/
def utf8likeBytesize (v : Nat) : Nat :=
  let codeBits := bitLen v
  if codeBits ≤ 7 then 1 else 1 + (codeBits - 2) / 5

/-- Strict decoder for the UTF-8-like coding (RFC 9639 section 9.1.5): returns the value, the
number of bytes consumed; rejects malformed continuation bytes and non-canonical (overlong) forms. -/
def decodeUtf8like (bytes : List Nat) : Option (Nat × Nat) :=
  match bytes with
  | [] => none
  | b0 :: rest =>
    if b0 < 0x80 then some (b0, 1)
    else
      let k := if b0 < 0xC0 then 0 else if b0 < 0xE0 then 1 else if b0 < 0xF0 then 2 else if b0 < 0xF8 then 3
               else if b0 < 0xFC then 4 else if b0 < 0xFE then 5 else if b0 = 0xFE then 6 else 0
      if k = 0 then none else
      let conts := rest.take k
      if conts.length < k ∨ conts.any (fun c => c / 64 ≠ 2) then none else
      let v := conts.foldl (fun acc c => acc * 64 + c % 64) (b0 % 2 ^ (6 - k))
      -- canonical: the value must need this many bytes
      if utf8likeBytesize v ≠ k + 1 then none else some (v, k + 1)

/-! ### header code spaces, as `datatype.rs` computes them -/

inductive BlockSizeSpec
  | reserved | s192 | pow2Mul576 (x : Nat) | extraByte (x : Nat) | extraTwoBytes (x : Nat) | pow2Mul256 (x : Nat)
  deriving Repr, DecidableEq

/-- `BlockSizeSpec::from_size(size: u16)`; `none` = arithmetic overflow panic (`size = 0`: `x - 1`). -/
def BlockSizeSpec.fromSize (size : Nat) : Option BlockSizeSpec :=
  if size = 192 then some .s192
  else if size = 576 ∨ size = 1152 ∨ size = 2304 ∨ size = 4608 then some (.pow2Mul576 (Nat.log2 (size / 576)))
  else if size = 256 ∨ size = 512 ∨ size = 1024 ∨ size = 2048 ∨ size = 4096 ∨ size = 8192 ∨ size = 16384 ∨ size = 32768
    then some (.pow2Mul256 (Nat.log2 (size / 256)))
  else if size = 0 then none
  else if size ≤ 256 then some (.extraByte (size - 1))
  else some (.extraTwoBytes (size - 1))

def BlockSizeSpec.tag : BlockSizeSpec → Nat
  | .reserved => 0 | .s192 => 1 | .pow2Mul576 x => 2 + x | .extraByte _ => 6 | .extraTwoBytes _ => 7 | .pow2Mul256 x => 8 + x

def BlockSizeSpec.extraBits : BlockSizeSpec → Bits
  | .extraByte v => natToBits 8 v | .extraTwoBytes v => natToBits 16 v | _ => []

def BlockSizeSpec.blockSize : BlockSizeSpec → Option Nat
  | .reserved => none | .s192 => some 192 | .pow2Mul576 x => some (576 * 2 ^ x)
  | .extraByte x => some (x + 1) | .extraTwoBytes x => some (x + 1) | .pow2Mul256 x => some (256 * 2 ^ x)

inductive SampleRateSpec
  | unspecified | fixed (tag : Nat) | kHz (v : Nat) | hz (v : Nat) | daHz (v : Nat)
  deriving Repr, DecidableEq

def sampleRateTable : List (Nat × Nat) :=
  [(88200, 1), (176400, 2), (192000, 3), (8000, 4), (16000, 5), (22050, 6), (24000, 7), (32000, 8),
   (44100, 9), (48000, 10), (96000, 11)]

/-- `SampleRateSpec::from_freq(freq: u32)`. -/
def SampleRateSpec.fromFreq (freq : Nat) : Option SampleRateSpec :=
  match sampleRateTable.lookup freq with
  | some t => some (.fixed t)
  | none =>
    if freq % 1000 = 0 ∧ freq / 1000 < 256 then some (.kHz (freq / 1000))
    else if freq % 10 = 0 ∧ freq / 10 < 65536 then some (.daHz (freq / 10))
    else if freq < 65536 then some (.hz freq) else none

def SampleRateSpec.tag : SampleRateSpec → Nat
  | .unspecified => 0 | .fixed t => t | .kHz _ => 12 | .hz _ => 13 | .daHz _ => 14

def SampleRateSpec.extraBits : SampleRateSpec → Bits
  | .kHz v => natToBits 8 v | .hz v => natToBits 16 v | .daHz v => natToBits 16 v | _ => []

/-- `SampleSizeSpec::from_bits(bits).unwrap_or(Unspecified)` as a tag. -/
def sampleSizeTag (bits : Nat) : Nat :=
  if bits = 8 then 1 else if bits = 12 then 2 else if bits = 16 then 4 else if bits = 20 then 5
  else if bits = 24 then 6 else if bits = 32 then 7 else 0

inductive ChannelAssignment
  | independent (n : Nat) | leftSide | rightSide | midSide
  deriving Repr, DecidableEq

def ChannelAssignment.tag : ChannelAssignment → Nat
  | .independent n => n - 1 | .leftSide => 8 | .rightSide => 9 | .midSide => 10

def ChannelAssignment.channels : ChannelAssignment → Nat
  | .independent n => n | _ => 2

/-- `bits_per_sample_offset(ch)`. -/
def ChannelAssignment.bpsOffset : ChannelAssignment → Nat → Nat
  | .independent _, _ => 0
  | .leftSide, ch => if ch = 1 then 1 else 0
  | .rightSide, ch => if ch = 0 then 1 else 0
  | .midSide, ch => if ch = 1 then 1 else 0

end FlacVerif
