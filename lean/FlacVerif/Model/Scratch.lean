/-
M10 — the thread-local reusable scratch storage (`reusable!` / `reuse!`, `src/lib.rs:92-116`).

Every use site takes a buffer with whatever STALE contents and length the previous call on the
same thread left behind. Each site is mirrored here as a function that takes the stale buffer(s)
explicitly, performs the Rust statements on them (`Vec::resize` keeps the old prefix!) and
returns the new buffer state together with what the caller reads.

Sites:
 1. `coding.rs`  `FIXED_LPC_ERRORS` / `reset_fixed_lpc_errors`         → `resetFixedLpcErrors`
 2. `coding.rs`  `QLPC_ERROR_BUFFER` / `lpc::compute_error`            → `qlpcErrors`
 3. `coding.rs`  `MSFRAMEBUF` / `FrameBuf::{resize,fill_stereo_with_iter}` → `msFrameBuf`
 4. `rice.rs`    `PRC_FINDER` / `PrcParameterFinder::find`             → `find`
 5. `bitrepr.rs` `FRAME_CRC_BUFFER`, `HEADER_CRC_BUFFER`               → `frameCrcWrite`, `headerCrcWrite`
 6. `lpc.rs`     `WINDOW_CACHE` / `get_window`                         → `Cache.lookupOrInsert`
 +  `lpc.rs`     `CAST_BUFFER`, `LPC_ESTIMATOR.{windowed_signal,corr_coefs}` → `castBuffer`,
                 `SimdVec.resetFromIterSimd`, `corrCoefsInit` (buffer handling only, no floats)

`none` = the Rust code panics. Imports only core Lean and other Model files.
-/
import FlacVerif.Model.Predict
import FlacVerif.Model.Rice
import FlacVerif.Model.Sink
namespace FlacVerif.Scratch
open FlacVerif

/-! ### `Vec` primitives -/

/-- `Vec::resize(n, v)`: truncate, or extend with `v`, KEEPING the old prefix. -/
def vecResize {α : Type} (xs : List α) (n : Nat) (v : α) : List α :=
  xs.take n ++ List.replicate (n - xs.length) v

/-- `Vec::clear()` (capacity is not observable). -/
def vecClear {α : Type} (_xs : List α) : List α := []

/-- `slice::fill(v)`. -/
def vecFill {α : Type} (xs : List α) (v : α) : List α := xs.map fun _ => v

/-- `Vec::extend_from_slice`. -/
def vecExtend {α : Type} (xs ys : List α) : List α := xs ++ ys

/-- `Vec::truncate(n)`. -/
def vecTruncate {α : Type} (xs : List α) (n : Nat) : List α := xs.take n

/-- `for (v, p) in src.into_iter().zip(dest.iter_mut()) { *p = v }`: the first
`min(src.len(), dest.len())` cells are overwritten, the others keep their (stale) value. -/
def zipOverwrite {α : Type} (src dest : List α) : List α := src.take dest.length ++ dest.drop src.length

/-- `unaligned_map_and_update(src, dest, |p, x| *p = f(x), ..)` (`arrayutils.rs:615-645`): the loop
runs over the cells of `dest` and reads `src[t]`; a `dest` longer than `src` is an index panic.
The old cell value is not used by `f`. -/
def mapOverwrite {α β : Type} (f : α → Option β) : List α → List β → Option (List β)
  | _, [] => some []
  | [], _ :: _ => none
  | x :: xs, _ :: ds => do
    let y ← f x
    let ys ← mapOverwrite f xs ds
    some (y :: ys)

/-! ### site 6 — the window cache (`lpc.rs:127-156`, `:235-249`)

Float window VALUES are not modelled; an entry records for WHICH `(size, window)` it was computed
(`window_weights(window, size)`). -/

/-- `config::Window`; `alphaBits` is `alpha.to_bits()` of the `f32` (so `< 2^32`). -/
inductive Win
  | rectangle
  | tukey (alphaBits : Nat)
  deriving Repr, DecidableEq

/-- The type invariant of `f32::to_bits() : u32`. -/
def Win.Valid : Win → Prop
  | .rectangle => True
  | .tukey a => a < 2 ^ 32

instance : (w : Win) → Decidable w.Valid
  | .rectangle => by unfold Win.Valid; infer_instance
  | .tukey _ => by unfold Win.Valid; infer_instance

/-- `WindowKey { size, fingerprint }` (derives `Eq`, `Ord`). -/
structure Key where
  size : Nat
  fingerprint : Nat
  deriving Repr, DecidableEq

/-- `fingerprint_window` in `u64` arithmetic:
`Rectangle ↦ 0x01 << 56`, `Tukey{alpha} ↦ (0x02 << 56) + u64::from(alpha.to_bits())`. -/
def fingerprint : Win → Nat
  | .rectangle => 0x0100000000000000
  | .tukey a => (0x0200000000000000 + a) % 2 ^ 64

/-- The OLD quantised fingerprint (`floor(alpha * 65535)`), taken abstractly as a map that
identifies distinct alphas (here: alphas that agree above the low 16 bits). Negative control. -/
def fingerprintOld : Win → Nat
  | .rectangle => 0x0100000000000000
  | .tukey a => (0x0200000000000000 + a / 2 ^ 16) % 2 ^ 64

/-- For which `(size, window)` a stored weight vector was computed. -/
abbrev Prov := Nat × Win

/-- `BTreeMap<WindowKey, Rc<SimdVec<f32,16>>>` as an association list (at most one entry per key). -/
abbrev Cache := List (Key × Prov)

namespace Cache

def empty : Cache := []

/-- `BTreeMap::get`. -/
def get (c : Cache) (k : Key) : Option Prov := (c.find? fun e => e.1 == k).map (·.2)

/-- `BTreeMap::insert` (replaces an existing entry with the same key). -/
def insert (c : Cache) (k : Key) (v : Prov) : Cache := (k, v) :: c.filter fun e => !(e.1 == k)

/-- `get_window(window, size)` with the fingerprint function as a parameter. Returns the new cache
and the provenance of the weights actually handed to the caller. The `expect` cannot fail
(the `getD` default is never used). -/
def lookupOrInsertWith (fp : Win → Nat) (c : Cache) (size : Nat) (w : Win) : Cache × Prov :=
  let key : Key := ⟨size, fp w⟩                       -- WindowKey::new(size, window)
  let c := if (c.get key).isNone then c.insert key (size, w) else c
                                                       -- window_weights(window, size)
  (c, (c.get key).getD (0, .rectangle))

/-- `get_window` as it is in the crate. -/
def lookupOrInsert (c : Cache) (size : Nat) (w : Win) : Cache × Prov := lookupOrInsertWith fingerprint c size w

/-- A history of `get_window` calls on one thread: the provenance returned by each call. -/
def runWith (fp : Win → Nat) : Cache → List (Nat × Win) → List Prov
  | _, [] => []
  | c, (size, w) :: rest =>
    let r := lookupOrInsertWith fp c size w
    r.2 :: runWith fp r.1 rest

def run (c : Cache) (reqs : List (Nat × Win)) : List Prov := runWith fingerprint c reqs

end Cache

/-! ### site 4 — `PrcParameterFinder` (`rice.rs:214-289`) -/

/-- The four re-used vectors of `PrcParameterFinder`. -/
structure FinderState where
  errors : List Nat
  tables : List Table
  ps : List Nat
  minPs : List Nat
  deriving Repr, DecidableEq

def FinderState.fresh : FinderState := ⟨[], [], [], []⟩

/-- `eval_partitions(tables, ps, max_p)` without the assertion: `ps.iter_mut().zip(tables)`
overwrites the first `min(ps.len(), tables.len())` cells of `ps`; the others keep their value. -/
def evalInto (maxP : Nat) : List Table → List Nat → Nat → Nat × List Nat
  | t :: ts, _ :: ps, acc =>
    let r := evalInto maxP ts ps (acc + (t.minimizer maxP).2)
    (r.1, (t.minimizer maxP).1 :: r.2)
  | _, ps, acc => (acc, ps)

/-- `eval_partitions(tables, &mut ps, max_p)`: returns `(sum_bits, ps)`. -/
def evalPartitionsInto (tables : List Table) (ps : List Nat) (maxP : Nat) : Option (Nat × List Nat) :=
  if ps.length < tables.length then none      -- assert!(ps.len() >= tables.len())
  else some (evalInto maxP tables ps 0)

/-- `merge_partitions(&mut self.tables[0..nparts])`: merges IN PLACE, front to back; the vector
keeps its length (the entries from `nparts/2` on are left-overs). Returns the vector and
`merged_len`. -/
def mergePartitionsInPlace (tables : List Table) (nparts : Nat) : Option (List Table × Nat) :=
  if nparts > tables.length then none          -- slice index `[0..nparts]`
  else if ¬ nparts < 2 ^ 15 then none          -- assert!(tables.len() < MAX_RICE_PARTITIONS)
  else
    let merged := nparts / 2
    some ((List.range merged).foldl (fun (tb : List Table) k =>
        tb.set k ((tb.getD (2 * k) []).merge (tb.getD (2 * k + 1) []) 4)) tables, merged)

/-- Local variables and buffers alive in the `while nparts > 1` loop. -/
structure LoopSt where
  tables : List Table
  nparts : Nat
  order : Nat
  ps : List Nat
  minPs : List Nat
  minBits : Nat
  minOrder : Nat
  deriving Repr, DecidableEq

/-- `while nparts > 1 { .. }` (`rice.rs:258-269`). The fuel is 16 as in `searchFolded.loop`
(`nparts = 2^order` with `order ≤ 15` halves in every round). -/
def findLoop (maxP : Nat) : Nat → LoopSt → Option LoopSt
  | 0, s => some s
  | fuel + 1, s =>
    if s.nparts ≤ 1 then some s else do
    let (tables, nparts) ← mergePartitionsInPlace s.tables s.nparts
    let order := s.order - 1
    let ps := vecResize s.ps nparts 0                         -- keeps the stale prefix
    let (nextBits, ps) ← evalPartitionsInto (tables.take nparts) ps maxP
    let s' : LoopSt :=
      if nextBits < s.minBits then
        { tables := tables, nparts := nparts, order := order, ps := ps,
          minPs := vecExtend (vecClear s.minPs) ps, minBits := nextBits, minOrder := order }
      else
        { tables := tables, nparts := nparts, order := order, ps := ps,
          minPs := s.minPs, minBits := s.minBits, minOrder := s.minOrder }
    findLoop maxP fuel s'

/-- `PrcParameterFinder::find(&mut self, signal, warmup_length, max_p)`: new state of the finder
and the returned `PrcParameter`. -/
def find (st : FinderState) (signal : List Int) (warm maxP : Nat) : Option (FinderState × PrcParameter) := do
  let o ← finestOrder signal.length (max 64 warm)
  let nparts := 2 ^ o
  let tables := vecClear st.tables
  let minPs := vecResize st.minPs nparts 0                    -- keeps the stale prefix
  let errors := vecClear st.errors
  let errors := vecResize errors signal.length 0
  let errors ← mapOverwrite encodeSignbit signal errors
  let psize := signal.length / nparts
  let tables := (List.range nparts).foldl (fun (tb : List Table) p =>
      tb ++ [Table.fromErrors ((errors.take ((p + 1) * psize)).drop (max (p * psize) warm)) 4]) tables
  let (minBits, minPs) ← evalPartitionsInto tables minPs maxP
  let s ← findLoop maxP 16 ⟨tables, nparts, o, st.ps, minPs, minBits, o⟩
  let minPs := vecTruncate s.minPs (2 ^ s.minOrder)
  some (⟨errors, s.tables, s.ps, minPs⟩, ⟨s.minOrder, minPs, s.minBits⟩)

/-- What `find_partitioned_rice_parameter` returns to its caller. -/
def findResult (st : FinderState) (signal : List Int) (warm maxP : Nat) : Option PrcParameter :=
  (find st signal warm maxP).map (·.2)

/-! ### site 2 — `QLPC_ERROR_BUFFER` (`coding.rs:362-387`, `lpc.rs:322-408`) -/

/-- The accumulate / finalise passes of `compute_error_impl::<i32>` on a buffer with arbitrary
initial cells: `computeError32` with the accumulator of cell `t` starting from `buf[t]` instead of
zero. The passes run over the cells of `errors` and index `signal[t]`: a longer buffer is an index
panic. -/
def computeError32From (coefs : List Int) (shift : Nat) (xs : List Int) (buf : List Int) : Option (List Int) :=
  (List.range buf.length).mapM fun t =>
    if xs.length ≤ t then none else
    let acc := (List.range coefs.length).foldl (fun (acc : Option Int) j =>
      acc.bind fun a =>
        if t ≥ j + 1 then
          let prod := coefs.getD j 0 * xs.getD (t - 1 - j) 0
          if fitsI32 prod && fitsI32 (a + prod) then some (a + prod) else none
        else some a) (some (buf.getD t 0))
    acc.bind fun a =>
      let e := xs.getD t 0 - (a >>> shift)
      if fitsI32 e then some (if t < coefs.length then 0 else e) else none

/-- `compute_error_impl::<i32, 64>(qps, signal, errors)`: `errors.fill(0)` first. -/
def computeErrorImpl32 (coefs : List Int) (shift : Nat) (xs : List Int) (errors : List Int) : Option (List Int) :=
  let errors := vecFill errors 0
  computeError32From coefs shift xs errors

/-- `lpc::compute_error(qps, signal, errors)` on a caller-provided buffer: the buffer afterwards and
the returned flag. The `i64` path works on freshly allocated vectors and copies back with `zip`. -/
def computeErrorInto (coefs : List Int) (shift : Nat) (xs : List Int) (errors : List Int) :
    Option (List Int × Bool) :=
  if errors.length < xs.length then none else          -- assert!(errors.len() >= signal.len())
  let maxabs := xs.foldl (fun m x => max m x.natAbs) 0
  let sumabs := coefs.foldl (fun s c => s + c.natAbs) 0
  if maxabs * (sumabs + 1) < 2 ^ 31 - 1 then (computeErrorImpl32 coefs shift xs errors).map fun es => (es, true)
  else
    let errors64 := computeError64 coefs shift xs
    some (zipOverwrite errors64 errors, fitsResidual64 coefs shift xs)

/-- The closure of `estimated_qlpc`: `errors.resize(signal.len(), 0); compute_error(..)`; the whole
buffer is then handed to `encode_residual` if the flag is set. -/
def qlpcErrors (stale : List Int) (coefs : List Int) (shift : Nat) (signal : List Int) :
    Option (List Int × Bool) :=
  let errors := vecResize stale signal.length 0
  computeErrorInto coefs shift signal errors

/-! ### site 1 — `FIXED_LPC_ERRORS` (`coding.rs:182-201`, `arrayutils.rs:25-132, 393-407`) -/

/-- One `Simd<i32, 16>`. -/
abbrev Vec16 := List Int

def zeroV : Vec16 := List.replicate 16 0

/-- `SimdVec<i32, 16>`: whole vectors plus the scalar length. -/
structure SimdVec where
  inner : List Vec16
  len : Nat
  deriving Repr, DecidableEq

instance : Inhabited SimdVec := ⟨⟨[], 0⟩⟩

/-- `transmute_and_flatten_simd`. -/
def flat (inner : List Vec16) : List Int := inner.flatten

/-- The inverse view (`transmute_and_flatten_simd_mut` for writing): `n` vectors of 16 lanes. -/
def chunk16 : Nat → List Int → List Vec16
  | 0, _ => []
  | n + 1, xs => xs.take 16 :: chunk16 n (xs.drop 16)

/-- `pack_into_simd_vec(src, dest)`: `clear`, `resize(len_v, zero_v)`, copy into the first `len`
scalars. -/
def packIntoSimdVec (src : List Int) (dest : List Vec16) : List Vec16 :=
  let dest := vecClear dest
  let lenV := (src.length + 16 - 1) / 16
  let dest := vecResize dest lenV zeroV
  chunk16 dest.length (src ++ (flat dest).drop src.length)

namespace SimdVec

/-- `reset_from_slice`. -/
def resetFromSlice (v : SimdVec) (data : List Int) : SimdVec := ⟨packIntoSimdVec data v.inner, data.length⟩

/-- `resize(new_len, value)`: whole vectors are kept / dropped / added; the scalars of the kept
vectors are STALE. -/
def resize (v : SimdVec) (newLen : Nat) (value : Vec16) : SimdVec :=
  ⟨vecResize v.inner ((newLen + 16 - 1) / 16) value, newLen⟩

def simdLen (v : SimdVec) : Nat := v.inner.length

/-- `as_ref`: the first `len` scalars. -/
def asRef (v : SimdVec) : List Int := (flat v.inner).take v.len

/-- `reset_from_iter_simd(new_len, iter)`: `inner.clear(); inner.extend(iter.take(capacity_v))`
(used for `LpcEstimator::windowed_signal`, whose lanes are `f32`; only the buffer handling is
modelled, on integer lanes). -/
def resetFromIterSimd (v : SimdVec) (newLen : Nat) (it : List Vec16) : SimdVec :=
  ⟨vecExtend (vecClear v.inner) (it.take ((newLen + 16 - 1) / 16)), newLen⟩

end SimdVec

/-- Further sites with the same pattern (`lpc.rs:740-775`, `:795-796`): `CAST_BUFFER` is
`cast_buf.reset_from_slice(signal)` read through `iter_simd()` (WHOLE vectors, padding lanes
included); `LPC_ESTIMATOR.corr_coefs` is `resize(lpc_order + 1, 0); fill(0)`. -/
def castBuffer (stale : SimdVec) (signal : List Int) : SimdVec := stale.resetFromSlice signal

def corrCoefsInit (stale : List Int) (lpcOrder : Nat) : List Int :=
  vecFill (vecResize stale (lpcOrder + 1) 0) 0

/-- `rotate_elements_right::<1>`: lane `i` moves to lane `i+1`, the last lane to lane 0. -/
def rotateRight1 (v : Vec16) : Vec16 :=
  match v.getLast? with
  | none => []
  | some l => l :: v.dropLast

/-- Loop body for one vector: `shifted = x.rotate_elements_right::<1>();
(shifted[0], carry) = (carry, shifted[0]); x - shifted` (wrapping `i32`). Returns the difference
vector and the new carry. -/
def diffVec (x : Vec16) (carry : Int) : Vec16 × Int :=
  let shifted := rotateRight1 x
  let carry' := shifted.headD 0
  let shifted := shifted.set 0 carry
  (List.zipWith (fun a b => wrap32 (a - b)) x shifted, carry')

/-- `for t in 0..errors[order].simd_len() { .. errors[next_order].as_mut_simd()[t] = x - shifted }`
starting at index `t` with `carry`; `prev` are the remaining vectors of `errors[order]`. -/
def diffLoop : Nat → Int → List Vec16 → List Vec16 → List Vec16
  | _, _, [], next => next
  | t, carry, x :: rest, next =>
    let r := diffVec x carry
    diffLoop (t + 1) r.2 rest (next.set t r.1)

/-- One round of the `for order in 0..MAX_FIXED_LPC_ORDER` loop. -/
def fixedStep (signalLen : Nat) (errors : List SimdVec) (order : Nat) : List SimdVec :=
  let nextOrder := order + 1
  let nxt := (errors.getD nextOrder default).resize signalLen zeroV
  let prev := errors.getD order default
  errors.set nextOrder { nxt with inner := diffLoop 0 0 prev.inner nxt.inner }

/-- `reset_fixed_lpc_errors(errors, signal)` on the array `[SimdVec<i32,16>; 5]`. -/
def resetFixedLpcErrors (errors : List SimdVec) (signal : List Int) : List SimdVec :=
  let errors := errors.set 0 ((errors.getD 0 default).resetFromSlice signal)
  (List.range 4).foldl (fixedStep signal.length) errors

/-- What `fixed_lpc` / `select_order_and_encode_residual` read: `errors[order].as_ref()`. -/
def readErrors (errors : List SimdVec) (order : Nat) : List Int := (errors.getD order default).asRef

/-! ### site 3 — `MSFRAMEBUF` (`coding.rs:484-502`, `source.rs:116-254`) -/

/-- `source::FrameBuf` as it is stored (`channels()` is derived; `readbuf` is not used here). -/
structure FrameBuf where
  samples : List Int
  size : Nat
  filled : Nat
  deriving Repr, DecidableEq

namespace FrameBuf

/-- `FrameBuf::new_stereo_buffer()`. -/
def newStereoBuffer : FrameBuf := ⟨List.replicate (256 * 2) 0, 256, 0⟩

/-- `channels()`: `samples.len() / size` (`none`: division by zero). -/
def channels (fb : FrameBuf) : Option Nat := if fb.size = 0 then none else some (fb.samples.length / fb.size)

/-- `resize(new_size)`: `filled_size` is NOT reset, the kept samples are stale. -/
def resize (fb : FrameBuf) (newSize : Nat) : Option FrameBuf := do
  let ch ← fb.channels
  some { fb with size := newSize, samples := vecResize fb.samples (newSize * ch) 0 }

/-- `fill_stereo_with_iter(iter)`. -/
def fillStereoWithIter (fb : FrameBuf) (it : List (Int × Int)) : Option FrameBuf := do
  let ch ← fb.channels
  if ch ≠ 2 then none else                      -- assert_eq!(2, self.channels())
  let mSlice := fb.samples.take fb.size          -- split_at_mut(self.size)
  let sSlice := fb.samples.drop fb.size
  let it := it.take fb.size
  let n := min it.length (min mSlice.length sSlice.length)   -- length of the zipped iterator
  let mSlice := zipOverwrite ((it.take n).map (·.1)) mSlice
  let sSlice := zipOverwrite ((it.take n).map (·.2)) sSlice
  some { fb with samples := mSlice ++ sSlice, filled := n }

/-- `channel_slice(ch)` (`none`: slice index out of range). -/
def channelSlice (fb : FrameBuf) (c : Nat) : Option (List Int) :=
  if c * fb.size + fb.filled ≤ fb.samples.length then some ((fb.samples.drop (c * fb.size)).take fb.filled)
  else none

end FrameBuf

/-- What `encode_frame_impl(config, ms_framebuf, ..)` reads from the buffer. -/
structure MsRead where
  filled : Nat
  mid : List Int
  side : List Int
  deriving Repr, DecidableEq

/-- The scratch part of `try_stereo_coding`: `ms_framebuf.resize(framebuf.size());
ms_framebuf.fill_stereo_with_iter(l.zip(r).map(|(l, r)| ((l + r) >> 1, l - r)))`, then the reads
of `encode_frame_impl`. `l`, `r` are `framebuf.channel_slice(0/1)`. -/
def msFrameBuf (stale : FrameBuf) (size : Nat) (l r : List Int) : Option (FrameBuf × MsRead) := do
  let fb ← stale.resize size
  let fb ← fb.fillStereoWithIter ((l.zip r).map fun p => midSide p.1 p.2)
  let m ← fb.channelSlice 0
  let s ← fb.channelSlice 1
  some (fb, ⟨fb.filled, m, s⟩)

/-! ### site 5 — `FRAME_CRC_BUFFER`, `HEADER_CRC_BUFFER` (`bitrepr.rs:276-328, 363-427`) -/

/-- `MemSink::<u64>::clear()`: `storage.clear(); bitlength = 0`. -/
def wordSinkClear (s : WordSink) : WordSink := { storage := vecClear s.storage, len := 0 }

/-- `MemSink::<u8>::clear()`. -/
def byteSinkClear (s : ByteSink) : ByteSink := { storage := vecClear s.storage, len := 0 }

/-- `MemSink::reserve`: capacity only. -/
def wordSinkReserve (s : WordSink) (_bits : Nat) : WordSink := s
def byteSinkReserve (s : ByteSink) (_bits : Nat) : ByteSink := s

/-- `v.to_be_bytes()` of a `u64`. -/
def beBytes (v : BitVec 64) : List Nat := (List.range 8).map fun i => (v.toNat >>> (56 - 8 * i)) % 256

/-- `dest[start .. start + src.len()].copy_from_slice(src)`; `none` = range panic. -/
def copyInto (dest : List Nat) (start : Nat) (src : List Nat) : Option (List Nat) :=
  if start + src.length ≤ dest.length then some (dest.take start ++ src ++ dest.drop (start + src.length))
  else none

/-- The loop of `MemSink::<u64>::write_to_byte_slice(dest)` from `head` on. -/
def writeWords (destlen : Nat) : List (BitVec 64) → Nat → List Nat → Option (List Nat)
  | [], _, dest => some dest
  | v :: rest, head, dest =>
    if head + 8 ≤ destlen then do
      let dest ← copyInto dest head (beBytes v)
      writeWords destlen rest (head + 8) dest
    else do
      let rem ← chkSub destlen head                 -- `destlen - head`
      -- `dest[head..].copy_from_slice(&bytes[..rem])`: lengths must agree (they do: destlen - head)
      let dest ← copyInto dest head ((beBytes v).take rem)
      writeWords destlen rest (head + 8) dest

/-- `write_to_byte_slice(&mut dest)`. -/
def writeToByteSlice (s : WordSink) (dest : List Nat) : Option (List Nat) :=
  writeWords dest.length s.storage 0 dest

/-- `Frame::write` up to the hand-over to `dest`: the sub-writes are given as the `BitSink`
operations `ops` they perform on `frame_sink`. Returns the new scratch pair and the bytes that are
written to `dest` and check-summed. -/
def frameCrcWrite (stale : WordSink × List Nat) (countBits : Nat) (ops : List Op) :
    Option ((WordSink × List Nat) × List Nat) := do
  let sink := wordSinkClear stale.1
  let sink := wordSinkReserve sink countBits
  let sink ← sink.run ops
  let sink := sink.alignToByte
  let bytebuf := vecResize stale.2 (sink.len >>> 3) 0      -- keeps the stale prefix
  let bytebuf ← writeToByteSlice sink bytebuf
  some ((sink, bytebuf), bytebuf)

/-- `FrameHeader::write` up to the hand-over: returns the new scratch sink and
`header_buffer.as_slice()`. -/
def headerCrcWrite (stale : ByteSink) (countBits : Nat) (ops : List Op) : Option (ByteSink × List Nat) := do
  let sink := byteSinkClear stale
  let sink := byteSinkReserve sink countBits
  let sink ← sink.run ops
  some (sink, sink.exportBytes)

/-! ### all thread-local buffers of one thread, and histories of calls -/

/-- Every `reusable!` value of one thread. -/
structure ThreadState where
  fixed : List SimdVec                -- FIXED_LPC_ERRORS: [SimdVec<i32,16>; 5]
  qlpc : List Int                     -- QLPC_ERROR_BUFFER
  ms : FrameBuf                       -- MSFRAMEBUF
  finder : FinderState                -- PRC_FINDER
  frameCrc : WordSink × List Nat      -- FRAME_CRC_BUFFER
  headerCrc : ByteSink                -- HEADER_CRC_BUFFER
  cache : Cache                       -- WINDOW_CACHE

/-- The initial values (`Default::default()` / the `= $init` expressions) on a fresh thread. -/
def ThreadState.fresh : ThreadState :=
  { fixed := List.replicate 5 default, qlpc := [], ms := FrameBuf.newStereoBuffer,
    finder := FinderState.fresh, frameCrc := (WordSink.empty, []), headerCrc := ByteSink.empty,
    cache := Cache.empty }

/-- One use of a scratch site, with the data the surrounding code passes in. -/
inductive Call
  | fixed (signal : List Int)
  | qlpc (coefs : List Int) (shift : Nat) (signal : List Int)
  | ms (size : Nat) (l r : List Int)
  | find (signal : List Int) (warm maxP : Nat)
  | frameCrc (countBits : Nat) (ops : List Op)
  | headerCrc (countBits : Nat) (ops : List Op)
  | window (size : Nat) (w : Win)

/-- What the surrounding code reads back from the site. -/
inductive Reply
  | fixed (errs : List (List Int))     -- `errors[k].as_ref()`, k = 0..4
  | qlpc (errs : List Int) (fits : Bool)
  | ms (rd : MsRead)
  | find (p : PrcParameter)
  | bytes (bs : List Nat)
  | window (p : Prov)
  deriving DecidableEq

/-- Preconditions established by the callers: a positive block size, `BitSink` operations within
their contract, and `alpha.to_bits() : u32`. -/
def Call.Ok : Call → Prop
  | .ms size _ _ => 0 < size
  | .frameCrc _ ops => ∀ op ∈ ops, op.Valid
  | .window _ w => w.Valid
  | _ => True

/-- One call on the thread's scratch state. -/
def stepAll (st : ThreadState) : Call → Option (ThreadState × Reply)
  | .fixed signal =>
    let e := resetFixedLpcErrors st.fixed signal
    some ({ st with fixed := e }, .fixed ((List.range 5).map (readErrors e)))
  | .qlpc coefs shift signal =>
    (qlpcErrors st.qlpc coefs shift signal).map fun e => ({ st with qlpc := e.1 }, .qlpc e.1 e.2)
  | .ms size l r =>
    (msFrameBuf st.ms size l r).map fun p => ({ st with ms := p.1 }, .ms p.2)
  | .find signal warm maxP =>
    (find st.finder signal warm maxP).map fun p => ({ st with finder := p.1 }, .find p.2)
  | .frameCrc cb ops =>
    (frameCrcWrite st.frameCrc cb ops).map fun p => ({ st with frameCrc := p.1 }, .bytes p.2)
  | .headerCrc cb ops =>
    (headerCrcWrite st.headerCrc cb ops).map fun p => ({ st with headerCrc := p.1 }, .bytes p.2)
  | .window size w =>
    let r := st.cache.lookupOrInsert size w
    some ({ st with cache := r.1 }, .window r.2)

/-- A history of calls on one thread: the scratch state is threaded through. After a panic
(`none`) the history continues from the state before the call (a caught panic; any other
continuation state satisfying the invariants would do). -/
def runHistory {S A R : Type} (step : S → A → Option (S × R)) : S → List A → List (Option R)
  | _, [] => []
  | s, a :: rest =>
    match step s a with
    | none => none :: runHistory step s rest
    | some (s', r) => some r :: runHistory step s' rest

end FlacVerif.Scratch
