/-
M6 (third part) — public component constructors and `Verify` impls of `datatype.rs` / `verify.rs`
(after the `fix:` commits that make them reject inconsistent arguments), as decision procedures:
each constructor returns `none` (= `Err(VerifyError)`) or the component. Import-free.
Arguments are unbounded naturals/integers where the Rust signature takes `usize`/`i32`, so that
wrap-around values are covered; typed slices (`&[u8]`, `&[u32]`, `&[i16]`) are lists whose elements
the caller keeps inside the element type.
-/
import FlacVerif.Model.Component
namespace FlacVerif

def maxBlockSize : Nat := 32767

/-- `verify_block_size!`. -/
def verifyBlockSize (n : Nat) : Bool := 1 ≤ n && n ≤ maxBlockSize

/-- `verify_bps!`: 8..=25 and a multiple of 4 (or 4n+1 for a side channel). -/
def verifyBps (b : Nat) : Bool := 8 ≤ b && b ≤ 25 && (b % 4 == 0 || b % 4 == 1)

/-- `verify_sample_range!`. -/
def verifySample (bps : Nat) (v : Int) : Bool := -(2 ^ (bps - 1) : Int) ≤ v && v ≤ (2 ^ (bps - 1) : Int) - 1

/-- `impl Verify for Residual`. -/
def Residual.verify (r : Residual) : Bool :=
  r.quotients.length == r.remainders.length &&
  verifyBlockSize r.quotients.length &&
  r.quotients.length == r.blockSize && r.remainders.length == r.blockSize &&
  r.order ≤ 15 && r.params.length == 2 ^ r.order && r.blockSize % 2 ^ r.order == 0 &&
  r.warmup ≤ r.blockSize / 2 ^ r.order &&
  r.params.all (· ≤ 14) &&
  (List.range r.warmup).all (fun t => r.quotients.getD t 0 == 0 && r.remainders.getD t 0 == 0) &&
  (List.range r.blockSize).all (fun t => r.remainders.getD t 0 < 2 ^ r.params.getD (t / (r.blockSize / 2 ^ r.order)) 0)

/-- `Residual::new`. -/
def Residual.new (order blockSize warmup : Nat) (params quotients remainders : List Nat) : Option Residual :=
  if order ≤ 15 ∧ params.length = 2 ^ order then
    let r : Residual := ⟨order, blockSize, warmup, params, quotients, remainders⟩
    if r.verify then some r else none
  else none

structure QParams where
  coefs : List Int
  shift : Int
  precision : Nat
  deriving Repr, DecidableEq

/-- `impl Verify for QuantizedParameters`. -/
def QParams.verify (q : QParams) : Bool :=
  q.coefs.length ≤ 24 && 0 ≤ q.shift && q.shift ≤ 15 && 1 ≤ q.precision && q.precision ≤ 15 &&
  q.coefs.all (fun c => -(2 ^ (q.precision - 1) : Int) ≤ c && c ≤ (2 ^ (q.precision - 1) : Int) - 1)

/-- `QuantizedParameters::new(coefs, order, shift, precision)`. -/
def QParams.new (coefs : List Int) (order : Nat) (shift : Int) (precision : Nat) : Option QParams :=
  if order ≤ 24 ∧ coefs.length = order then
    let q : QParams := ⟨coefs, shift, precision⟩
    if q.verify then some q else none
  else none

/-- `Constant::new`. -/
def Constant.new (blockSize : Nat) (dc : Int) (bps : Nat) : Option SubFrame :=
  if verifyBlockSize blockSize && verifyBps bps && verifySample bps dc then some (.constant blockSize dc bps) else none

/-- `Verbatim::new` (after the fix that also checks the number of samples). -/
def Verbatim.new (samples : List Int) (bps : Nat) : Option SubFrame :=
  if verifyBps bps && samples.all (verifySample bps) && verifyBlockSize samples.length then some (.verbatim samples bps) else none

/-- `FixedLpc::new`. -/
def FixedLpc.new (warm : List Int) (res : Residual) (bps : Nat) : Option SubFrame :=
  if verifyBps bps && warm.all (verifySample bps) && warm.length ≤ 4 &&
     warm.length == res.warmup && res.verify then some (.fixed warm res bps) else none

/-- `Lpc::new`. -/
def Lpc.new (warm : List Int) (q : QParams) (res : Residual) (bps : Nat) : Option SubFrame :=
  if verifyBps bps && warm.all (verifySample bps) && warm.length ≤ 24 && warm.length == q.coefs.length &&
     q.verify && 1 ≤ q.coefs.length && warm.length == res.warmup && res.verify
  then some (.lpc warm q.coefs q.shift q.precision res bps) else none

/-- `ChannelAssignment::verify`. -/
def ChannelAssignment.verify : ChannelAssignment → Bool
  | .independent n => 1 ≤ n && n ≤ 8
  | _ => true

/-- `FrameHeader::new(block_size, channel_assignment, bits_per_sample, sample_rate, offset)` (after
the fix that checks widths before narrowing). `offset` = (is start-sample?, number). -/
def FrameHeader.new (blockSize : Nat) (asg : ChannelAssignment) (bps rate : Nat) (isVar : Bool) (number : Nat) :
    Option FrameHeader :=
  if !verifyBlockSize blockSize then none else
  match BlockSizeSpec.fromSize blockSize with
  | none => none
  | some bss =>
    if bps ≥ 256 ∨ rate ≥ 2 ^ 32 then none else
    let tag := FlacVerif.sampleSizeTag bps
    if tag = 0 ∨ tag = 7 then none else
    if !asg.verify then none else
    if isVar ∧ number ≥ 2 ^ 36 then none else
    match SampleRateSpec.fromFreq rate with
    | none => none
    | some srs => some { isVariable := isVar, blockSizeSpec := bss, assignment := asg, sampleSizeTag := tag,
                         sampleRateSpec := srs, frameNumber := if isVar then 0 else number,
                         startSample := if isVar then number else 0 }

/-- `StreamInfo::new`. -/
def StreamInfo.new (rate channels bps : Nat) : Option StreamInfo :=
  if rate ≤ 96000 ∧ 1 ≤ channels ∧ channels ≤ 8 ∧ bps ≤ 255 ∧ verifyBps bps = true ∧ bps % 4 = 0 then
    some (StreamInfo.empty rate channels bps)
  else none

/-- `MetadataBlockData::new_unknown`. -/
def UnknownBlock.new (tag : Nat) (data : List Nat) : Option UnknownBlock :=
  if 1 ≤ tag ∧ tag ≤ 126 then some ⟨tag, data⟩ else none

end FlacVerif
