/-
M8 (first half, recursion form) — `Rfc.analyze` with its two `while` loops (which Lean compiles to
the opaque `Loop.forIn`, about which nothing can be proved) replaced by structurally recursive
helpers over the same fuel. Everything else is the text of `Rfc.analyze`, verbatim.
-/
import FlacVerif.Model.Rfc
namespace FlacVerif
namespace Rfc

/-- The metadata loop of `analyze`:
`while !last ∧ fuel > 0 do fuel := fuel - 1; …; rest := rest.drop (4 + len); last := …; nblocks := nblocks + 1`.
Returns the final `(rest, last, nblocks)`. -/
def skipMetadata : (fuel : Nat) → (rest : List Nat) → (last : Bool) → (nblocks : Nat) → R (List Nat × Bool × Nat)
  | 0, rest, last, nblocks => pure (rest, last, nblocks)
  | fuel + 1, rest, last, nblocks =>
    if !last then do
      if rest.length < 4 then throw "stream: truncated metadata header"
      let h := rest.getD 0 0
      if h % 128 = 127 then throw "stream: forbidden metadata block type 127"
      if h % 128 = 0 then throw "stream: second STREAMINFO block"
      let len := rest.getD 1 0 * 65536 + rest.getD 2 0 * 256 + rest.getD 3 0
      if rest.length < 4 + len then throw "stream: truncated metadata block"
      skipMetadata fuel (rest.drop (4 + len)) (decide (h ≥ 128)) (nblocks + 1)
    else pure (rest, last, nblocks)

/-- The frame loop of `analyze`:
`while !rest.isEmpty ∧ fuel > 0 do fuel := fuel - 1; let (f, t, tb) ← readFrame info idx rest restBits;
frames := f :: frames; rest := t; restBits := tb; idx := idx + 1`. Returns the final `frames`
(most recent first). -/
def readFrames (info : Info) : (fuel : Nat) → (rest : List Nat) → (restBits : Bits) → (idx : Nat) →
    (frames : List FrameRep) → R (List FrameRep)
  | 0, _, _, _, frames => pure frames
  | fuel + 1, rest, restBits, idx, frames =>
    if !rest.isEmpty then do
      let (f, t, tb) ← readFrame info idx rest restBits
      readFrames info fuel t tb (idx + 1) (f :: frames)
    else pure frames

/-- `analyze`, with the two `while` loops replaced by `skipMetadata` and `readFrames`. -/
def analyzeRec (md5 : List Nat → List Nat) (bytes : List Nat) : R Report := do
  if bytes.take 4 ≠ [0x66, 0x4C, 0x61, 0x43] then throw "stream: missing fLaC marker"
  let rest := bytes.drop 4
  -- first metadata block: STREAMINFO
  if rest.length < 4 then throw "stream: truncated metadata header"
  let h0 := rest.getD 0 0
  if h0 % 128 ≠ 0 then throw "stream: first metadata block is not STREAMINFO"
  let len0 := rest.getD 1 0 * 65536 + rest.getD 2 0 * 256 + rest.getD 3 0
  if len0 ≠ 34 then throw "stream: STREAMINFO length is not 34"
  if rest.length < 38 then throw "stream: truncated STREAMINFO"
  let sb := bytesToBits ((rest.drop 4).take 34)
  let (minBlock, sb) ← readNat 16 sb "min block size"
  let (maxBlock, sb) ← readNat 16 sb "max block size"
  let (minFrame, sb) ← readNat 24 sb "min frame size"
  let (maxFrame, sb) ← readNat 24 sb "max frame size"
  let (rate, sb) ← readNat 20 sb "sample rate"
  let (ch1, sb) ← readNat 3 sb "channels"
  let (bps1, sb) ← readNat 5 sb "bits per sample"
  let (totalSamples, sb) ← readNat 36 sb "total samples"
  let md5v := (List.range 16).map fun i => bitsToNat ((sb.drop (8 * i)).take 8)
  let info : Info := ⟨minBlock, maxBlock, minFrame, maxFrame, rate, ch1 + 1, bps1 + 1, totalSamples, md5v⟩
  if minBlock < 16 then throw "STREAMINFO: minimum block size below 16"
  if maxBlock < 16 then throw "STREAMINFO: maximum block size below 16"
  if minBlock > maxBlock then throw "STREAMINFO: minimum block size above maximum"
  if rate = 0 then throw "STREAMINFO: sample rate 0"
  if info.bps < 4 then throw "STREAMINFO: bits per sample below 4"
  if maxFrame ≠ 0 ∧ minFrame > maxFrame then throw "STREAMINFO: minimum frame size above maximum"
  -- further metadata blocks
  let (rest, last, nblocks) ← skipMetadata bytes.length (rest.drop 38) (decide (h0 ≥ 128)) 0
  if !last then throw "stream: no metadata block is flagged last"
  -- frames
  let frames ← readFrames info bytes.length rest (bytesToBits rest) 0 []
  let framesR := frames.reverse
  -- stream-level consistency
  let nfr := framesR.length
  for (f, i) in framesR.zipIdx do
    if i + 1 < nfr then
      if f.blockSize ≠ maxBlock then throw s!"stream: non-final frame {i} does not hold the fixed block size"
      if f.blockSize < minBlock then throw s!"stream: non-final frame {i} is shorter than the minimum block size"
    else
      if f.blockSize > maxBlock then throw "stream: final frame larger than the maximum block size"
    if maxFrame ≠ 0 ∧ (f.byteLen < minFrame ∨ f.byteLen > maxFrame) then
      throw s!"stream: frame {i} has {f.byteLen} bytes, outside STREAMINFO's frame size bounds"
  let sumN := (framesR.map (·.blockSize)).foldl (· + ·) 0
  if totalSamples ≠ 0 ∧ sumN ≠ totalSamples then throw "stream: total sample count differs from the frames"
  let audio : List (List Int) := (List.range info.channels).map fun c => framesR.flatMap fun f => f.channels.getD c []
  if md5v.any (· ≠ 0) then
    let k := (info.bps + 7) / 8
    let pcm := (interleave audio).flatMap (toLeBytes k)
    if md5 pcm ≠ md5v then throw "stream: MD5 signature differs from the decoded audio"
  pure ⟨info, nblocks, framesR, audio⟩

end Rfc
end FlacVerif
