/-
M11 — thread protocol of the multi-thread encoder (`src/par.rs`).

Hand model of `par::encode_with_fixed_block_size`, `feed_fixed_block_size`, `ParFrameBuf`,
`ParContext` and `ParSink`. Import-free (core Lean only) and executable: `step` is what the trace
validator runs on the event log produced by the `flacenc_verif` hooks.

Threads: the main thread (feeder + shutdown), `W` workers, one hasher. Atomic steps are the channel
operations (`refill_*`, `encode_*`, `md5_*`) and the marked scheduling points of `par.rs`
(`f_filled`, `f_eof`, `f_read_err`, `w_lock`, `w_push`, `w_err`, `m_joined_hasher`,
`m_joined_worker`). A send on a full queue, a receive on an empty queue, a `join` of a thread that
has not exited and a `lock` of a mutex that is held are *disabled* transitions.

Channels (bounded FIFO, `List` with the head being the oldest element):
* refill : buffer ids, capacity `2W+1`, initially `0..2W-1` (sent by `ParFrameBuf::new`)
* encode : `Option id` (`none` = stop token), capacity `2W+1`
* md5    : byte blocks (`[]` = stop token), capacity 16
-/
namespace FlacVerif.Par

/-- One block of input as read by one `Source::read_samples` call: the little-endian bytes that are
sent to the hasher and whether every sample is in range (`encode_fixed_size_frame` succeeds). -/
structure Block where
  bytes : List Nat
  valid : Bool
deriving DecidableEq, Repr, Inhabited

/-- Parameters of a run. `readFailAt = some k`: the `k`-th call of `read_samples` (0-based) returns
an error. `eofSendsEmpty`: the read that hits end-of-input calls `fill` with an empty slice (true for
`MemSource` and the harness sources), which enqueues an empty md5 block. -/
structure Params where
  W : Nat
  blocks : List Block
  readFailAt : Option Nat := none
  eofSendsEmpty : Bool := true
deriving Repr

inductive ErrKind | config | source
deriving DecidableEq, Repr

instance decEqExcept {ε α : Type} [DecidableEq ε] [DecidableEq α] : DecidableEq (Except ε α)
  | .ok a, .ok b => if h : a = b then isTrue (by rw [h]) else isFalse (fun h' => h (by injection h'))
  | .error a, .error b =>
    if h : a = b then isTrue (by rw [h]) else isFalse (fun h' => h (by injection h'))
  | .ok _, .error _ => isFalse (fun h => by injection h)
  | .error _, .ok _ => isFalse (fun h => by injection h)

/-- Abstract encoded frame: which frame number it carries and which data it was computed from. -/
structure OutFrame where
  num : Nat
  bytes : List Nat
deriving DecidableEq, Repr

/-- The per-frame encoder as seen by the protocol: a function of `(frame number, block)` only;
`none` = `Err` (out-of-range sample). -/
def enc (n : Nat) (b : Block) : Option OutFrame :=
  if b.valid then some ⟨n, b.bytes⟩ else none

/-- `NumberedFrameBuf`. -/
structure Buf where
  num : Option Nat
  blk : Block
deriving DecidableEq, Repr

/-- Program counter of the main thread. -/
inductive MPc
  /-- top of `'feed`, blocked in `recv_refill_request` -/
  | recv
  /-- holds `buffers[id]` locked, inside `read_samples` -/
  | locked (id : Nat)
  /-- the end-of-input read has enqueued its empty md5 block; before `f_eof` -/
  | eofEmpty (id : Nat)
  /-- read `k` has filled the buffer and enqueued the md5 block; before `f_filled` -/
  | filledMd5 (id : Nat)
  /-- frame number stored, lock released; before `enqueue_encode` -/
  | enq (id : Nat)
  /-- inside `request_stop(workers)`: `r > 0` stop tokens still to send -/
  | stop (r : Nat)
  /-- before `ParContext::request_stop` -/
  | reqStop
  /-- inside `ParContext::finalize`, joining the hasher -/
  | joinH
  /-- `j` workers joined -/
  | joinW (j : Nat)
  /-- all threads joined; the result is computed from the shared state -/
  | done
deriving DecidableEq, Repr

/-- Program counter of a worker. `res` is the value of `encode_result` (`none` = `Err`). -/
inductive WPc
  | idle
  | got (id : Nat)
  | encoded (id n : Nat) (res : Option OutFrame)
  | sent (id n : Nat) (res : Option OutFrame)
  | exited
deriving DecidableEq, Repr

inductive HPc | running | exited
deriving DecidableEq, Repr

structure State where
  main : MPc
  /-- `frame_count`: number of blocks read and enqueued so far = index of the next read. -/
  k : Nat
  /-- `feed_result.is_err()` -/
  readErr : Bool
  workers : List WPc
  hasher : HPc
  /-- everything the hasher has fed into the MD5 context, in order -/
  hashed : List Nat
  refillQ : List Nat
  encodeQ : List (Option Nat)
  md5Q : List (List Nat)
  bufs : List Buf
  /-- `parsink`: `BTreeMap` as a key-sorted association list -/
  sink : List (Nat × OutFrame)
  /-- `parerrors` -/
  errors : List (Nat × Unit)
deriving Repr

/-- The events of the log. Worker events carry the worker index first. -/
inductive Ev
  /-- main: `recv_refill_request` returned `id` -/
  | refill_recv (id : Nat)
  /-- main: a block of `len` bytes was sent to the hasher (`len = 0`: stop token) -/
  | md5_send (len : Nat)
  /-- main: `numbuf.frame_number = Some(n)` -/
  | f_filled (id n : Nat)
  | f_eof (id : Nat)
  | f_read_err (id : Nat)
  /-- main: `enqueue_encode(id)` / one iteration of `request_stop` -/
  | encode_send (x : Option Nat)
  | m_joined_hasher
  | m_joined_worker
  | encode_recv (w : Nat) (x : Option Nat)
  /-- worker: locked `buffers[id]`, read `frame_number = n`, encoded, unlocked -/
  | w_lock (w id n : Nat)
  | refill_send (w id : Nat)
  | w_push (w id n : Nat)
  | w_err (w id n : Nat)
  /-- hasher: received a block of `len` bytes -/
  | md5_recv (len : Nat)
deriving DecidableEq, Repr

def md5Cap : Nat := 16
def Params.nbuf (p : Params) : Nat := 2 * p.W
def Params.refillCap (p : Params) : Nat := 2 * p.W + 1
def Params.encodeCap (p : Params) : Nat := 2 * p.W + 1

def emptyBuf : Buf := ⟨none, ⟨[], true⟩⟩

def init (p : Params) : State where
  main := .recv
  k := 0
  readErr := false
  workers := List.replicate p.W .idle
  hasher := .running
  hashed := []
  refillQ := List.range p.nbuf
  encodeQ := []
  md5Q := []
  bufs := List.replicate p.nbuf emptyBuf
  sink := []
  errors := []

/-- `BTreeMap::insert`. -/
def insertKey {α : Type} (n : Nat) (v : α) : List (Nat × α) → List (Nat × α)
  | [] => [(n, v)]
  | (m, u) :: rest =>
    if n < m then (n, v) :: (m, u) :: rest
    else if n = m then (n, v) :: rest
    else (m, u) :: insertKey n v rest

/-- pc after `r` stop tokens remain to be sent. -/
def afterStop (r : Nat) : MPc := if r = 0 then .reqStop else .stop r

/-- The buffer whose mutex the main thread holds. -/
def MPc.lockedBuf : MPc → Option Nat
  | .locked id | .eofEmpty id | .filledMd5 id => some id
  | _ => none

def State.exitedCount (s : State) : Nat := s.workers.count .exited

/-- One atomic step. `none`: the event is not enabled in `s`, or its logged values disagree. -/
def step (p : Params) (s : State) : Ev → Option State
  | .refill_recv id =>
    match s.main, s.refillQ with
    | .recv, x :: rest =>
      if x = id then some { s with main := .locked id, refillQ := rest } else none
    | _, _ => none
  | .md5_send len =>
    match s.main with
    | .locked id =>
      if p.readFailAt = some s.k then none
      else if s.md5Q.length < md5Cap then
        match p.blocks[s.k]?, s.bufs[id]? with
        | some b, some x =>
          if len = b.bytes.length then
            some { s with main := .filledMd5 id, md5Q := s.md5Q ++ [b.bytes],
                          bufs := s.bufs.set id { x with blk := b } }
          else none
        | some _, none => none
        | none, _ =>
          if p.eofSendsEmpty = true ∧ len = 0 then
            some { s with main := .eofEmpty id, md5Q := s.md5Q ++ [[]] }
          else none
      else none
    | .reqStop =>
      if len = 0 ∧ s.md5Q.length < md5Cap then
        some { s with main := .joinH, md5Q := s.md5Q ++ [[]] }
      else none
    | _ => none
  | .f_filled id n =>
    match s.main with
    | .filledMd5 id' =>
      match s.bufs[id]? with
      | some x =>
        if id' = id ∧ n = s.k then
          some { s with main := .enq id, bufs := s.bufs.set id { x with num := some n } }
        else none
      | none => none
    | _ => none
  | .f_eof id =>
    match s.main with
    | .locked id' =>
      if id' = id ∧ p.readFailAt ≠ some s.k ∧ p.blocks.length ≤ s.k ∧ p.eofSendsEmpty = false then
        some { s with main := afterStop p.W }
      else none
    | .eofEmpty id' => if id' = id then some { s with main := afterStop p.W } else none
    | _ => none
  | .f_read_err id =>
    match s.main with
    | .locked id' =>
      if id' = id ∧ p.readFailAt = some s.k then
        some { s with main := afterStop p.W, readErr := true }
      else none
    | _ => none
  | .encode_send (some id) =>
    match s.main with
    | .enq id' =>
      if id' = id ∧ s.encodeQ.length < p.encodeCap then
        some { s with main := .recv, k := s.k + 1, encodeQ := s.encodeQ ++ [some id] }
      else none
    | _ => none
  | .encode_send none =>
    match s.main with
    | .stop (r + 1) =>
      if s.encodeQ.length < p.encodeCap then
        some { s with main := afterStop r, encodeQ := s.encodeQ ++ [none] }
      else none
    | _ => none
  | .m_joined_hasher =>
    match s.main, s.hasher with
    | .joinH, .exited => some { s with main := if p.W = 0 then .done else .joinW 0 }
    | _, _ => none
  | .m_joined_worker =>
    match s.main with
    | .joinW j =>
      if j < s.exitedCount then
        some { s with main := if p.W ≤ j + 1 then .done else .joinW (j + 1) }
      else none
    | _ => none
  | .encode_recv w x =>
    match s.workers[w]?, s.encodeQ with
    | some .idle, y :: rest =>
      if x = y then
        some { s with encodeQ := rest,
                      workers := s.workers.set w (match x with | none => .exited | some id => .got id) }
      else none
    | _, _ => none
  | .w_lock w id n =>
    match s.workers[w]? with
    | some (.got id') =>
      match s.bufs[id]? with
      | some x =>
        if id' = id ∧ x.num = some n ∧ s.main.lockedBuf ≠ some id then
          some { s with workers := s.workers.set w (.encoded id n (enc n x.blk)) }
        else none
      | none => none
    | _ => none
  | .refill_send w id =>
    match s.workers[w]? with
    | some (.encoded id' n res) =>
      if id' = id ∧ s.refillQ.length < p.refillCap then
        some { s with refillQ := s.refillQ ++ [id], workers := s.workers.set w (.sent id n res) }
      else none
    | _ => none
  | .w_push w id n =>
    match s.workers[w]? with
    | some (.sent id' n' (some f)) =>
      if id' = id ∧ n' = n then
        some { s with sink := insertKey n f s.sink, workers := s.workers.set w .idle }
      else none
    | _ => none
  | .w_err w id n =>
    match s.workers[w]? with
    | some (.sent id' n' none) =>
      if id' = id ∧ n' = n then
        some { s with errors := insertKey n () s.errors, workers := s.workers.set w .idle }
      else none
    | _ => none
  | .md5_recv len =>
    match s.hasher, s.md5Q with
    | .running, b :: rest =>
      if len = b.length then
        if b = [] then some { s with md5Q := rest, hasher := .exited }
        else some { s with md5Q := rest, hashed := s.hashed ++ b }
      else none
    | _, _ => none

/-- The main thread has joined everything and is computing its return value. -/
def State.final (s : State) : Prop := s.main = .done

instance (s : State) : Decidable s.final := inferInstanceAs (Decidable (s.main = .done))

/-- Frames drained from the sink in key order. -/
def State.frames (s : State) : List OutFrame := s.sink.map (·.2)

/-- Return value of `par::encode_with_fixed_block_size` computed from the shared state (meaningful
in a final state): a recorded encode error wins over a read error. -/
def State.result (s : State) : Except ErrKind (List Nat) :=
  if s.errors ≠ [] then .error .config
  else if s.readErr = true then .error .source
  else .ok (s.frames.map (·.num))

/-- The loop of `coding::encode_with_fixed_block_size` (single thread): read `k`, then encode `k`. -/
def seqLoop (fail : Option Nat) : Nat → List Block → Except ErrKind (List OutFrame)
  | k, [] => if fail = some k then .error .source else .ok []
  | k, b :: bs =>
    if fail = some k then .error .source
    else match enc k b with
      | none => .error .config
      | some f =>
        match seqLoop fail (k + 1) bs with
        | .ok fs => .ok (f :: fs)
        | .error e => .error e

def seqFrames (p : Params) : Except ErrKind (List OutFrame) := seqLoop p.readFailAt 0 p.blocks

def seqResult (p : Params) : Except ErrKind (List Nat) :=
  match seqFrames p with
  | .ok fs => .ok (fs.map (·.num))
  | .error e => .error e

/-- What the single-thread hasher is fed when no failure occurs. -/
def seqHashed (p : Params) : List Nat := (p.blocks.map (·.bytes)).flatten

def replayFrom (p : Params) : Nat → State → List Ev → Except String State
  | _, s, [] => .ok s
  | i, s, e :: evs =>
    match step p s e with
    | some s' => replayFrom p (i + 1) s' evs
    | none => .error s!"event {i} rejected: {repr e}; main pc = {repr s.main}, k = {s.k}, workers = {repr s.workers}, hasher = {repr s.hasher}, |refillQ| = {s.refillQ.length}, encodeQ = {repr s.encodeQ}, |md5Q| = {s.md5Q.length}"

/-- Fold of `step` from `init p`; the error names the index of the first rejected event. -/
def replay (p : Params) (evs : List Ev) : Except String State := replayFrom p 0 (init p) evs

/-- Same fold without the message (for proofs and `decide`). -/
def run (p : Params) : State → List Ev → Option State
  | s, [] => some s
  | s, e :: evs => match step p s e with
    | some s' => run p s' evs
    | none => none

/-- Summary of a complete trace: `(result, hash input)` when the trace is accepted and ends in a
final state. -/
def outcome (p : Params) (evs : List Ev) : Option (Except ErrKind (List Nat) × List Nat) :=
  match run p (init p) evs with
  | some s => if s.final then some (s.result, s.hashed) else none
  | none => none

/-- All events enabled in `s` (searching the finitely many candidates). Used by the driver to report
what was possible when a trace is rejected, and by the examples. -/
def candidates (p : Params) (s : State) : List Ev :=
  let ids := List.range p.nbuf
  let ws := List.range p.W
  let lens := (p.blocks.map (·.bytes.length)) ++ [0]
  ids.map .refill_recv ++ lens.map .md5_send ++ ids.map (fun i => .f_filled i s.k) ++
  ids.map .f_eof ++ ids.map .f_read_err ++ (ids.map (fun i => .encode_send (some i))) ++
  [.encode_send none, .m_joined_hasher, .m_joined_worker] ++
  ws.flatMap (fun w =>
    [.encode_recv w none] ++ ids.map (fun i => .encode_recv w (some i)) ++
    (match s.workers[w]? with
     | some (.got id) => (match s.bufs[id]? with
        | some ⟨some n, _⟩ => [.w_lock w id n] | _ => [])
     | some (.encoded id _ _) => [.refill_send w id]
     | some (.sent id n _) => [.w_push w id n, .w_err w id n]
     | _ => [])) ++
  lens.map .md5_recv

/-- Translation of one record of the harness log (`verif_hooks::SchedEvent`: `site`, `buf`, `frame`)
into an event. `isMain`: the record was logged by the main thread; `w`: index given to the logging
worker thread (any fixed bijection thread ↔ `0..W-1`). Returns `none` for records that are not events
of the model: the `*_cap` records and the `refill_send`s of the main thread inside
`ParFrameBuf::new` (the initial state already holds those ids). -/
def Ev.ofLog (site : String) (isMain : Bool) (w : Nat) (buf frame : Option Nat) : Option Ev :=
  match site, buf, frame with
  | "refill_recv", some id, _ => some (.refill_recv id)
  | "md5_send", _, some len => some (.md5_send len)
  | "md5_recv", _, some len => some (.md5_recv len)
  | "f_filled", some id, some n => some (.f_filled id n)
  | "f_eof", some id, _ => some (.f_eof id)
  | "f_read_err", some id, _ => some (.f_read_err id)
  | "encode_send", x, _ => some (.encode_send x)
  | "encode_recv", x, _ => some (.encode_recv w x)
  | "w_lock", some id, some n => some (.w_lock w id n)
  | "refill_send", some id, _ => if isMain then none else some (.refill_send w id)
  | "w_push", some id, some n => some (.w_push w id n)
  | "w_err", some id, some n => some (.w_err w id n)
  | "m_joined_hasher", _, _ => some .m_joined_hasher
  | "m_joined_worker", _, _ => some .m_joined_worker
  | _, _, _ => none

def enabled (p : Params) (s : State) : List Ev :=
  (candidates p s).filter (fun e => (step p s e).isSome)

end FlacVerif.Par
