/-
M11b — a small statement language for the three thread roles of `src/par.rs` and its semantics.

`tools/translate_par.py` extracts from the CURRENT text of `par.rs` one program per thread role (main thread from
the call of `feed_fixed_block_size` on, worker closure, hasher closure; helper methods inlined from their own bodies)
and writes them as DATA of type `List Stmt` into `Gen/Par.lean`.  This file gives that data a meaning: an executable
small-step interpreter over the SAME shared state components as `Par.State` (the three queues, the buffers, the two
sinks, the hash input).  It is hand-written and uses core Lean only (it imports the hand model `Model/Par.lean` for
`Block`, `Buf`, `OutFrame`, `enc`, `insertKey`, `Params`, `Ev` and `Ev.ofLog`).

* The program counter of a thread is its CONTINUATION (`Thr.cont : List Stmt`): the statements still to run.  Loops
  re-enter by pushing themselves behind their body; `brk l` drops the continuation through the loop entry with label
  `l`; `call f body` pushes `callEnd f` behind the body and `ret` drops through the nearest `callEnd`.
* A step is either INTERNAL (`Lbl.tau`) or a PROTOCOL step carrying an event of the hand model (`Lbl.ev e`).  The
  protocol steps are exactly the ones the `flacenc_verif` build logs: channel operations (`refill_*`, `encode_*`,
  `md5_*`, logged by the instrumented channels) and the `sched_point("site", buf, frame, _)` statements.  The event
  of a step is computed from the record that would be logged, through `Par.Ev.ofLog` — the same function the trace
  validator uses.
* Enabledness: a send on a full channel, a receive on an empty channel, the lock of a mutex another thread holds, the
  `join` of a thread that has not terminated are DISABLED (the step function returns `none`); so is every statement
  whose Rust counterpart would panic (`expect` on a missing frame number; a buffer index out of range surfaces at the
  first access to the buffer, as in the hand model).  Worker joins follow
  the hand model: the `j`-th join needs more than `j` terminated workers (worker indices in events are log
  identities, not spawn order).
* `src.read_samples` is an external call (trait `Source`); its reading is fixed here from `Par.Params`: the `k`-th
  call fails if `readFailAt = some k`, otherwise delivers `blocks[k]` into the locked buffer and calls the `Fill`
  impl of `ParContext` (the generated program `Env.fill`) with the block's bytes, or, at the end of input, calls it with
  an empty slice iff `eofSendsEmpty`.
-/
import FlacVerif.Model.Par

namespace FlacVerif.ParProg
open FlacVerif.Par

inductive Chan | refill | encode | md5
deriving DecidableEq, Repr

/-- Mutexes as named in the source: `buffers[bufid]`, `parsink.data`, `parerrors.data`, `ParContext::inner`. -/
inductive Mtx | buf | sink | errs | ctx
deriving DecidableEq, Repr

/-- A mutex instance. -/
inductive MtxId | buf (id : Nat) | sink | errs | ctx
deriving DecidableEq, Repr

/-- What a `send` sends. -/
inductive Payload
  | bufid | loopVar | someBufid | noneTok | bytebuf | emptyVec
deriving DecidableEq, Repr

/-- `Some(<local>)` arguments of `sched_point`. -/
inductive Arg | bufid | frameCount | frameNumber
deriving DecidableEq, Repr

inductive Cond
  /-- `read_samples == 0` -/
  | readZero
  /-- the scrutinee of `match src.read_samples(..)` is `Err(_)` -/
  | readErr
  /-- value of `enqueue_encode` (= `is_empty()` read before the send) -/
  | starved
  /-- `encode_result.is_ok()` -/
  | encOk
  /-- `data.is_empty()` -/
  | dataEmpty
  /-- `if let Some(e) = first_encode_error` -/
  | firstErrSome
  /-- `bytes_per_sample != self.bytes_per_sample` -/
  | bpsMismatch
deriving DecidableEq, Repr

inductive Ret
  /-- `return Err(e)` / `Ok((stats, context))` of `feed_fixed_block_size` -/
  | feedErr | feedOk
  | fillErr | fillOk
  /-- `return Err(EncodeError::Config(e))` / `Ok(stream)` of `par::encode_with_fixed_block_size` -/
  | errConfig | okStream
  /-- the value of a helper (not used by the control skeleton) -/
  | value
deriving DecidableEq, Repr

/-- Iteration counts / capacities as expressions in the worker count. -/
inductive Count
  | workers
  | lit (n : Nat)
  | add (a b : Count)
  | sub (a b : Count)
  | mul (a b : Count)
deriving DecidableEq, Repr

def Count.eval (W : Nat) : Count → Nat
  | .workers => W
  | .lit n => n
  | .add a b => a.eval W + b.eval W
  | .sub a b => a.eval W - b.eval W
  | .mul a b => a.eval W * b.eval W

inductive Act
  | send (c : Chan) (x : Payload)
  /-- `refill`: binds `bufid`; `md5`: binds `data` -/
  | recv (c : Chan)
  | chanIsEmpty (c : Chan)
  | chanLen (c : Chan)
  | lock (m : Mtx)
  /-- end of the scope of the guard / `drop(guard)` -/
  | unlock (m : Mtx)
  | readSamples
  | bytebufSet | bytebufClear | bytebufExtend
  | initFrameCount (n : Nat)
  | storeFrameNumber
  | incFrameCount
  | readFrameNumber
  | encode
  /-- `data.insert(idx, element)` inside `ParSink::push` called on `parsink` / `parerrors` -/
  | sinkInsert (m : Mtx)
  | hashFill
  | sched (site : String) (buf frame : Option Arg)
  | schedIf (c : Cond) (siteT siteF : String) (buf frame : Option Arg)
  | joinHasher
  | joinWorker
  | destructArc (what : String)
  | drainErrors
  | drainSink
  | setMd5
  /-- `set_block_sizes(block_size, block_size)?` after the frames were added / `set_total_samples(..)` -/
  | setBlockSizes
  | setTotalSamples
  /-- set-up only (no step in the protocol semantics) -/
  | newChan (c : Chan) (cap : Count)
  | pushBuffer
  | newSink (m : Mtx)
  | spawnWorker
  | spawnHasher
  /-- an allow-listed statement that is not protocol relevant -/
  | note (what : String)
deriving DecidableEq, Repr

inductive Stmt
  | act (a : Act)
  | loop (label : Nat) (body : List Stmt)
  /-- `while let Some(bufid) = <recv on c>` -/
  | whileRecv (c : Chan) (label : Nat) (body : List Stmt)
  | forN (label : Nat) (n : Count) (body : List Stmt)
  /-- run time only: `k` iterations left -/
  | forK (label : Nat) (k : Nat) (body : List Stmt)
  | brk (label : Nat)
  | ite (c : Cond) (t e : List Stmt)
  /-- `match src.read_samples(..) { Ok(n) => .., Err(e) => .. }` -/
  | matchRead (ok err : List Stmt)
  /-- `match encode_result { Ok(..) => .., Err(EncodeError::Config(e)) => .., Err(e) => .. }` -/
  | matchEnc (ok errCfg errOther : List Stmt)
  | call (fn : String) (body : List Stmt)
  | callEnd (fn : String)
  | ret (r : Ret)
  /-- `feed_result?` -/
  | tryFeed

inductive ReadRes | unset | okData | okZero | err
deriving DecidableEq, Repr

/-- A thread: continuation, held mutexes, locals (all roles share one record; a role uses its own fields). -/
structure Thr where
  cont : List Stmt
  held : List MtxId := []
  bufid : Nat := 0
  /-- main: `frame_count` -/
  frameCount : Nat := 0
  /-- main: number of blocks the source has delivered (position of the source) -/
  reads : Nat := 0
  readRes : ReadRes := .unset
  /-- main: the bytes the source hands to `Fill` -/
  input : List Nat := []
  /-- main: `ParContext::bytebuf` -/
  bytebuf : List Nat := []
  starved : Bool := false
  /-- main: `feed_result.is_err()` -/
  feedErr : Bool := false
  /-- main: number of worker handles joined -/
  joined : Nat := 0
  firstErr : Bool := false
  frames : List OutFrame := []
  digest : List Nat := []
  result : Option (Except ErrKind (List Nat)) := none
  /-- worker: `frame_number`, `encode_result` -/
  frameNumber : Nat := 0
  encRes : Option OutFrame := none
  /-- hasher: `data` -/
  data : List Nat := []
  /-- main: the final STREAMINFO updates were made -/
  sizesSet : Bool := false
  totalSet : Bool := false

structure Shared where
  refillQ : List Nat
  encodeQ : List (Option Nat)
  md5Q : List (List Nat)
  bufs : List Buf
  sink : List (Nat × OutFrame)
  errors : List (Nat × Unit)
  hashed : List Nat

/-- Parameters of the semantics: the run (`Par.Params`), the channel capacities (generated from the `bounded(..)`
calls) and the `Fill` impl `read_samples` calls. -/
structure Env where
  p : Params
  refillCap : Nat
  encodeCap : Nat
  md5Cap : Nat
  fill : List Stmt

inductive Lbl | tau | ev (e : Ev)

/-- What a thread sees of the others. -/
structure View where
  isMain : Bool
  w : Nat
  free : MtxId → Bool
  exited : Nat
  hasherDone : Bool

def dropLoop (l : Nat) : List Stmt → List Stmt
  | [] => []
  | .loop l' _ :: k => if l' = l then k else dropLoop l k
  | .whileRecv _ l' _ :: k => if l' = l then k else dropLoop l k
  | .forK l' _ _ :: k => if l' = l then k else dropLoop l k
  | _ :: k => dropLoop l k

def dropCall : List Stmt → List Stmt
  | [] => []
  | .callEnd _ :: k => k
  | _ :: k => dropCall k

def Cond.eval (t : Thr) : Cond → Bool
  | .readZero => t.readRes == .okZero
  | .readErr => t.readRes == .err
  | .starved => t.starved
  | .encOk => t.encRes.isSome
  | .dataEmpty => t.data.isEmpty
  | .firstErrSome => t.firstErr
  | .bpsMismatch => false

def Arg.eval (t : Thr) : Arg → Nat
  | .bufid => t.bufid
  | .frameCount => t.frameCount
  | .frameNumber => t.frameNumber

def Mtx.id (t : Thr) : Mtx → MtxId
  | .buf => .buf t.bufid
  | .sink => .sink
  | .errs => .errs
  | .ctx => .ctx

/-- A protocol step: the event of the record the hooks would log. -/
def vis (v : View) (site : String) (buf frame : Option Nat) (t : Thr) (sh : Shared) : Option (Lbl × Thr × Shared) :=
  match Ev.ofLog site v.isMain v.w buf frame with
  | some e => some (.ev e, t, sh)
  | none => none

def tau (t : Thr) (sh : Shared) : Option (Lbl × Thr × Shared) := some (.tau, t, sh)

def doSend (env : Env) (v : View) (t : Thr) (sh : Shared) (k : List Stmt) : Chan → Payload → Option (Lbl × Thr × Shared)
  | .refill, .bufid =>
    if sh.refillQ.length < env.refillCap then
      vis v "refill_send" (some t.bufid) none { t with cont := k } { sh with refillQ := sh.refillQ ++ [t.bufid] }
    else none
  | .encode, .someBufid =>
    if sh.encodeQ.length < env.encodeCap then
      vis v "encode_send" (some t.bufid) none { t with cont := k } { sh with encodeQ := sh.encodeQ ++ [some t.bufid] }
    else none
  | .encode, .noneTok =>
    if sh.encodeQ.length < env.encodeCap then
      vis v "encode_send" none none { t with cont := k } { sh with encodeQ := sh.encodeQ ++ [none] }
    else none
  | .md5, .bytebuf =>
    if sh.md5Q.length < env.md5Cap then
      vis v "md5_send" none (some t.bytebuf.length) { t with cont := k } { sh with md5Q := sh.md5Q ++ [t.bytebuf] }
    else none
  | .md5, .emptyVec =>
    if sh.md5Q.length < env.md5Cap then
      vis v "md5_send" none (some 0) { t with cont := k } { sh with md5Q := sh.md5Q ++ [[]] }
    else none
  | _, _ => none

def doRecv (v : View) (t : Thr) (sh : Shared) (k : List Stmt) : Chan → Option (Lbl × Thr × Shared)
  | .refill =>
    match sh.refillQ with
    | x :: rest => vis v "refill_recv" (some x) none { t with cont := k, bufid := x } { sh with refillQ := rest }
    | [] => none
  | .md5 =>
    match sh.md5Q with
    | b :: rest => vis v "md5_recv" none (some b.length) { t with cont := k, data := b } { sh with md5Q := rest }
    | [] => none
  | .encode => none

/-- `src.read_samples(block_size, &mut (framebuf, context))`. -/
def doRead (env : Env) (t : Thr) (sh : Shared) (k : List Stmt) : Option (Lbl × Thr × Shared) :=
  if env.p.readFailAt = some t.reads then tau { t with cont := k, readRes := .err } sh
  else
    match env.p.blocks[t.reads]? with
    | some b =>
      match sh.bufs[t.bufid]? with
      | some x =>
        tau { t with cont := .call "Fill::fill" env.fill :: k, readRes := .okData, input := b.bytes, reads := t.reads + 1 }
            { sh with bufs := sh.bufs.set t.bufid { x with blk := b } }
      | none => none
    | none =>
      if env.p.eofSendsEmpty then
        tau { t with cont := .call "Fill::fill" env.fill :: k, readRes := .okZero, input := [] } sh
      else tau { t with cont := k, readRes := .okZero } sh

def doAct (env : Env) (v : View) (t : Thr) (sh : Shared) (k : List Stmt) : Act → Option (Lbl × Thr × Shared)
  | .send c x => doSend env v t sh k c x
  | .recv c => doRecv v t sh k c
  | .chanIsEmpty c =>
    match c with
    | .encode => tau { t with cont := k, starved := sh.encodeQ.isEmpty } sh
    | _ => none
  | .chanLen _ => tau { t with cont := k } sh
  | .lock m =>
    if v.free (m.id t) then
      tau { t with cont := k, held := m.id t :: t.held } sh
    else none
  | .unlock m =>
    if t.held.contains (m.id t) then tau { t with cont := k, held := t.held.erase (m.id t) } sh else none
  | .readSamples => doRead env t sh k
  | .bytebufSet => tau { t with cont := k, bytebuf := t.input } sh
  | .bytebufClear => tau { t with cont := k, bytebuf := [] } sh
  | .bytebufExtend => tau { t with cont := k, bytebuf := t.bytebuf ++ t.input } sh
  | .initFrameCount n => tau { t with cont := k, frameCount := n } sh
  | .storeFrameNumber =>
    match sh.bufs[t.bufid]? with
    | some x => tau { t with cont := k } { sh with bufs := sh.bufs.set t.bufid { x with num := some t.frameCount } }
    | none => none
  | .incFrameCount => tau { t with cont := k, frameCount := t.frameCount + 1 } sh
  | .readFrameNumber =>
    match sh.bufs[t.bufid]? with
    | some x =>
      match x.num with
      | some n => tau { t with cont := k, frameNumber := n } sh
      | none => none
    | none => none
  | .encode =>
    match sh.bufs[t.bufid]? with
    | some x => tau { t with cont := k, encRes := enc t.frameNumber x.blk } sh
    | none => none
  | .sinkInsert m =>
    match m with
    | .sink =>
      match t.encRes with
      | some f => tau { t with cont := k } { sh with sink := insertKey t.frameNumber f sh.sink }
      | none => none
    | .errs => tau { t with cont := k } { sh with errors := insertKey t.frameNumber () sh.errors }
    | _ => none
  | .hashFill => tau { t with cont := k } { sh with hashed := sh.hashed ++ t.data }
  | .sched site buf frame => vis v site (buf.map (Arg.eval t)) (frame.map (Arg.eval t)) { t with cont := k } sh
  | .schedIf c s1 s2 buf frame =>
    vis v (if c.eval t then s1 else s2) (buf.map (Arg.eval t)) (frame.map (Arg.eval t)) { t with cont := k } sh
  | .joinHasher => if v.hasherDone then tau { t with cont := k } sh else none
  | .joinWorker => if t.joined < v.exited then tau { t with cont := k, joined := t.joined + 1 } sh else none
  | .destructArc _ => tau { t with cont := k } sh
  | .drainErrors => tau { t with cont := k, firstErr := !sh.errors.isEmpty } sh
  | .drainSink => tau { t with cont := k, frames := sh.sink.map (·.2) } sh
  | .setMd5 => tau { t with cont := k, digest := sh.hashed } sh
  | .setBlockSizes => tau { t with cont := k, sizesSet := true } sh
  | .setTotalSamples => tau { t with cont := k, totalSet := true } sh
  | .newChan _ _ => none
  | .pushBuffer => none
  | .newSink _ => none
  | .spawnWorker => none
  | .spawnHasher => none
  | .note _ => tau { t with cont := k } sh

def doRet (t : Thr) (sh : Shared) (k : List Stmt) : Ret → Option (Lbl × Thr × Shared)
  | .feedErr => tau { t with cont := dropCall k, feedErr := true } sh
  | .feedOk => tau { t with cont := dropCall k, feedErr := false } sh
  | .fillErr => tau { t with cont := dropCall k } sh
  | .fillOk => tau { t with cont := dropCall k } sh
  | .value => tau { t with cont := dropCall k } sh
  | .errConfig => tau { t with cont := [], result := some (.error .config) } sh
  | .okStream => tau { t with cont := [], result := some (.ok (t.frames.map (·.num))) } sh

def doStmt (env : Env) (v : View) (t : Thr) (sh : Shared) (k : List Stmt) : Stmt → Option (Lbl × Thr × Shared)
  | .act a => doAct env v t sh k a
  | .loop l b => tau { t with cont := b ++ .loop l b :: k } sh
  | .whileRecv c l b =>
    match c with
    | .encode =>
      match sh.encodeQ with
      | some id :: rest =>
        vis v "encode_recv" (some id) none { t with cont := b ++ .whileRecv c l b :: k, bufid := id } { sh with encodeQ := rest }
      | none :: rest => vis v "encode_recv" none none { t with cont := k } { sh with encodeQ := rest }
      | [] => none
    | _ => none
  | .forN l n b => tau { t with cont := .forK l (n.eval env.p.W) b :: k } sh
  | .forK l n b =>
    match n with
    | 0 => tau { t with cont := k } sh
    | n + 1 => tau { t with cont := b ++ .forK l n b :: k } sh
  | .brk l => tau { t with cont := dropLoop l k } sh
  | .ite c a b => tau { t with cont := (if c.eval t then a else b) ++ k } sh
  | .matchRead ok err => tau { t with cont := .act .readSamples :: .ite .readErr err ok :: k } sh
  | .matchEnc ok e1 _ => tau { t with cont := (if t.encRes.isSome then ok else e1) ++ k } sh
  | .call f b => tau { t with cont := b ++ .callEnd f :: k } sh
  | .callEnd _ => tau { t with cont := k } sh
  | .ret r => doRet t sh k r
  | .tryFeed =>
    if t.feedErr then tau { t with cont := [], result := some (.error .source) } sh else tau { t with cont := k } sh

/-- One step of one thread. -/
def stepThr (env : Env) (v : View) (t : Thr) (sh : Shared) : Option (Lbl × Thr × Shared) :=
  match t.cont with
  | [] => none
  | s :: k => doStmt env v t sh k s

structure PState where
  sh : Shared
  main : Thr
  workers : List Thr
  hasher : Thr

/-- No OTHER thread holds `m` (`self = some w`: the acting thread is worker `w`; a thread never locks a mutex whose
guard it still holds: the extractor tracks guards and fails closed on a relock). -/
def PState.free (g : PState) (self : Option Nat) (m : MtxId) : Bool :=
  !g.main.held.contains m &&
  (match self with | some w => g.workers.eraseIdx w | none => g.workers).all (fun t => !t.held.contains m) &&
  !g.hasher.held.contains m

/-- Number of worker threads whose closure has returned. -/
def PState.exited (g : PState) : Nat := g.workers.countP (fun t => t.cont.isEmpty)

def PState.view (g : PState) (isMain : Bool) (w : Nat) (self : Option Nat) : View :=
  ⟨isMain, w, g.free self, g.exited, g.hasher.cont.isEmpty⟩

inductive Tid | main | worker (w : Nat) | hasher
deriving DecidableEq, Repr

def step (env : Env) (g : PState) : Tid → Option (Lbl × PState)
  | .main =>
    match stepThr env (g.view true 0 none) g.main g.sh with
    | some (l, t, sh) => some (l, { g with main := t, sh := sh })
    | none => none
  | .worker w =>
    match g.workers[w]? with
    | some t0 =>
      match stepThr env (g.view false w (some w)) t0 g.sh with
      | some (l, t, sh) => some (l, { g with workers := g.workers.set w t, sh := sh })
      | none => none
    | none => none
  | .hasher =>
    match stepThr env (g.view false 0 none) g.hasher g.sh with
    | some (l, t, sh) => some (l, { g with hasher := t, sh := sh })
    | none => none

/-- `n` internal steps of thread `tid`. -/
def runTau (env : Env) (tid : Tid) : Nat → PState → Option PState
  | 0, g => some g
  | n + 1, g =>
    match step env g tid with
    | some (.tau, g') => runTau env tid n g'
    | _ => none

/-- A protocol step of thread `tid`. -/
def visStep (env : Env) (tid : Tid) (g : PState) : Option (Ev × PState) :=
  match step env g tid with
  | some (.ev e, g') => some (e, g')
  | _ => none

/-- Macro step: `a` internal steps, one protocol step, `b` internal steps of the same thread. -/
def macroStep (env : Env) (tid : Tid) (a b : Nat) (g : PState) : Option (Ev × PState) :=
  match runTau env tid a g with
  | some g1 =>
    match visStep env tid g1 with
    | some (e, g2) =>
      match runTau env tid b g2 with
      | some g3 => some (e, g3)
      | none => none
    | none => none
  | none => none

/-- The thread an event of the hand model belongs to. -/
def tidOf : Ev → Tid
  | .encode_recv w _ | .w_lock w _ _ | .refill_send w _ | .w_push w _ _ | .w_err w _ _ => .worker w
  | .md5_recv _ => .hasher
  | _ => .main

/-! ### readings of std functions used by `determine_worker_count` (trusted, see tools/translate_par.py `WC_STD`) -/

/-- value of an ASCII decimal digit -/
def digitVal (c : Char) : Option Nat := if '0' ≤ c ∧ c ≤ '9' then some (c.toNat - 48) else none

def parseDigits : List Char → Nat → Option Nat
  | [], acc => some acc
  | c :: cs, acc =>
    match digitVal c with
    | some d => parseDigits cs (acc * 10 + d)
    | none => none

/-- `str::parse::<usize>()` followed by `.ok()` (`bits` = width of `usize`).  Rust's documented behaviour of
`usize::from_str` (core::num, `from_str_radix(src, 10)`): "The string is expected to be an optional `+` sign followed by
only digits. Leading and trailing non-digit characters (including whitespace) represent an error. Underscores (which are
accepted in Rust literals) also represent an error."  For an unsigned type a leading `-` is an invalid digit; the empty
string and a lone sign are errors; a value that does not fit the type is an error (`PosOverflow`); leading zeros are
accepted. -/
def parseUsize (bits : Nat) (s : String) : Option Nat :=
  let cs := s.toList
  let ds := match cs with | '+' :: r => r | r => r
  if ds.isEmpty then none
  else
    match parseDigits ds 0 with
    | some v => if v < 2 ^ bits then some v else none
    | none => none

/-- `Option::map_or(default, f)` -/
def mapOr {α β : Type} (o : Option α) (d : β) (f : α → β) : β := match o with | some a => f a | none => d

/-- `x?` on a `Result` whose `Err` makes the function return `Err` (`none`) -/
def bindO {α β : Type} (o : Option α) (k : α → Option β) : Option β := match o with | some a => k a | none => none

/-! ### macro steps with program-defined yield points

A macro step of a thread = internal steps, one protocol step, then internal steps UP TO THE FIRST YIELD POINT of the
thread.  The yield points are defined on the program text alone (the head of the continuation):
main thread: before `recv refill`, before the source is read (the note + `match src.read_samples`, i.e. right after the
buffer lock was taken), right after the `Fill` send (`callEnd; ret fillOk`), before the send of `Some(bufid)` / `None` on
`encode`, before the send of the md5 stop token, before a `join`, and at the end of the function;
worker: at the head of its `while let`, before `lock_buffer`, before `enqueue_refill`, before the push hook, at the end;
hasher: before its `recv`, at the end. -/

def yieldMain : List Stmt → Bool
  | [] => true
  | .act (.recv .refill) :: _ => true
  | .act (.note _) :: .matchRead _ _ :: _ => true
  | .callEnd _ :: .ret .fillOk :: _ => true
  | .act (.send .encode .someBufid) :: _ => true
  | .act (.send .encode .noneTok) :: _ => true
  | .act (.send .md5 .emptyVec) :: _ => true
  | .act .joinHasher :: _ => true
  | .act .joinWorker :: _ => true
  | _ => false

def yieldWorker : List Stmt → Bool
  | [] => true
  | .whileRecv _ _ _ :: _ => true
  | .call _ [.act (.lock .buf)] :: _ => true
  | .call _ [.act (.send .refill .bufid)] :: _ => true
  | .act (.schedIf _ _ _ _ _) :: _ => true
  | _ => false

def yieldHasher : List Stmt → Bool
  | [] => true
  | .act (.recv .md5) :: _ => true
  | _ => false

def PState.yields (g : PState) : Tid → Bool
  | .main => yieldMain g.main.cont
  | .worker w => match g.workers[w]? with | some t => yieldWorker t.cont | none => false
  | .hasher => yieldHasher g.hasher.cont

/-- exactly `n` internal steps of `tid`, none of them starting at a yield point -/
def settle (env : Env) (tid : Tid) : Nat → PState → Option PState
  | 0, g => some g
  | n + 1, g =>
    if g.yields tid then none
    else
      match step env g tid with
      | some (.tau, g') => settle env tid n g'
      | _ => none

/-- Macro step ending at the thread's FIRST yield point after the protocol step. -/
def macroStepC (env : Env) (tid : Tid) (a b : Nat) (g : PState) : Option (Ev × PState) :=
  match runTau env tid a g with
  | some g1 =>
    match visStep env tid g1 with
    | some (e, g2) =>
      match settle env tid b g2 with
      | some g3 => if g3.yields tid then some (e, g3) else none
      | none => none
    | none => none
  | none => none

/-- A run of the programs: any thread, any protocol step it can reach, then on to its next yield point. -/
inductive ProgRun (env : Env) : PState → List Ev → PState → Prop
  | nil (g : PState) : ProgRun env g [] g
  | cons {g g1 g' : PState} {tid : Tid} {a b : Nat} {e : Ev} {evs : List Ev} :
      macroStepC env tid a b g = some (e, g1) → ProgRun env g1 evs g' → ProgRun env g (e :: evs) g'

end FlacVerif.ParProg
