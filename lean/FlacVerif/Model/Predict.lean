/-
M5 — predictors: fixed-order differences (`coding.rs:182-201`), quantised LPC residual
(`lpc.rs:324-408`), their inverses as a decoder computes them, and stereo decorrelation.
Import-free.
-/
namespace FlacVerif

/-- Reduction to the `i32` range (two's-complement wrap). -/
def wrap32 (v : Int) : Int := (v + 2 ^ 31) % 2 ^ 32 - 2 ^ 31

def fitsI32 (v : Int) : Bool := -(2 ^ 31 : Int) ≤ v && v < (2 ^ 31 : Int)

/-! ### exact linear prediction (specification) -/

/-- Prediction from the history (most recent sample first): `(Σ cᵢ·x[t-1-i]) >> shift` (floor). -/
def predict (coefs : List Int) (shift : Nat) (hist : List Int) : Int :=
  (List.zipWith (· * ·) coefs hist).foldl (· + ·) 0 >>> shift

/-- Exact residual of `xs` continuing the history `hist`. -/
def residualFrom (coefs : List Int) (shift : Nat) (hist : List Int) : List Int → List Int
  | [] => []
  | x :: xs => (x - predict coefs shift hist) :: residualFrom coefs shift (x :: hist) xs

/-- What a decoder reconstructs from residuals, continuing `hist`. -/
def restoreFrom (coefs : List Int) (shift : Nat) (hist : List Int) : List Int → List Int
  | [] => []
  | r :: rs =>
    let x := r + predict coefs shift hist
    x :: restoreFrom coefs shift (x :: hist) rs

/-- Residual of a whole block with predictor order `coefs.length`: the first `order` samples are
the warm-up; the returned list has one entry per sample after the warm-up. -/
def lpcResidual (coefs : List Int) (shift : Nat) (xs : List Int) : List Int :=
  let order := coefs.length
  residualFrom coefs shift (xs.take order).reverse (xs.drop order)

def lpcRestore (coefs : List Int) (shift : Nat) (warm : List Int) (res : List Int) : List Int :=
  warm ++ restoreFrom coefs shift warm.reverse res

/-- Coefficients of the fixed predictors (RFC 9639 section 9.2.5). -/
def fixedCoefs : Nat → List Int
  | 0 => [] | 1 => [1] | 2 => [2, -1] | 3 => [3, -3, 1] | 4 => [4, -6, 4, -1] | _ => []

def fixedResidual (k : Nat) (xs : List Int) : List Int := lpcResidual (fixedCoefs k) 0 xs
def fixedRestore (k : Nat) (warm res : List Int) : List Int := lpcRestore (fixedCoefs k) 0 warm res

/-! ### the implementation's computations, mirrored -/

/-- One pass of `reset_fixed_lpc_errors`: `y[t] = x[t] - x[t-1]` in wrapping `i32`, `x[-1] = 0`. -/
def diff1 (xs : List Int) : List Int :=
  let rec go (prev : Int) : List Int → List Int
    | [] => []
    | x :: rest => wrap32 (x - prev) :: go x rest
  go 0 xs

/-- `errors[k]` of `reset_fixed_lpc_errors` (all positions, including the unused first `k`). -/
def diffs : Nat → List Int → List Int
  | 0, xs => xs
  | k + 1, xs => diff1 (diffs k xs)

/-- `compute_error_impl::<i32>` with the scalar path of the stable build. `none` = `i32` overflow
(panic with overflow checks). `xs` and the result have the same length; the first `order` entries
of the result are zero. -/
def computeError32 (coefs : List Int) (shift : Nat) (xs : List Int) : Option (List Int) :=
  let n := xs.length
  (List.range n).mapM fun t =>
    -- accumulate `errors[t] += w_j * x[t-1-j]` for j = 0..order-1 (only when t ≥ j+1)
    let acc := (List.range coefs.length).foldl (fun (acc : Option Int) j =>
      acc.bind fun a =>
        if t ≥ j + 1 then
          let prod := coefs.getD j 0 * xs.getD (t - 1 - j) 0
          if fitsI32 prod && fitsI32 (a + prod) then some (a + prod) else none
        else some a) (some 0)
    acc.bind fun a =>
      let e := xs.getD t 0 - (a >>> shift)
      if fitsI32 e then some (if t < coefs.length then 0 else e) else none

/-- `compute_error_impl::<i64>`: the exact values (never overflows `i64` for 32-bit inputs); the first
`order` entries are zero. -/
def computeErrorExact64 (coefs : List Int) (shift : Nat) (xs : List Int) : List Int :=
  (List.range xs.length).map fun t =>
    let a := (List.range coefs.length).foldl (fun (a : Int) j =>
      if t ≥ j + 1 then a + coefs.getD j 0 * xs.getD (t - 1 - j) 0 else a) 0
    if t < coefs.length then 0 else xs.getD t 0 - (a >>> shift)

/-- `compute_error_impl::<i64>` followed by `as i32` (the wrapped values the `i64` path stores). -/
def computeError64 (coefs : List Int) (shift : Nat) (xs : List Int) : List Int :=
  (List.range xs.length).map fun t =>
    let a := (List.range coefs.length).foldl (fun (a : Int) j =>
      if t ≥ j + 1 then a + coefs.getD j 0 * xs.getD (t - 1 - j) 0 else a) 0
    if t < coefs.length then 0 else wrap32 (xs.getD t 0 - (a >>> shift))

/-- The flag of the `i64` path: `fits &= v.unsigned_abs() <= i32::MAX` over the exact values, i.e. every
value lies in `-(2^31-1) ..= 2^31-1` (`i32::MIN` excluded). -/
def fitsResidual64 (coefs : List Int) (shift : Nat) (xs : List Int) : Bool :=
  (computeErrorExact64 coefs shift xs).all fun e => decide (e.natAbs ≤ 2 ^ 31 - 1)

/-- `compute_error`: dispatch on `maxabs(signal) · (Σ|coef| + 1) < i32::MAX` (a bound for the prediction
AND for `signal[t] - prediction`). `coefs` are the used lanes (unused lanes are zero). Returns the
error buffer and the flag "every error value is a FLAC residual"; `none` = `i32` overflow (panic with
overflow checks) on the checked 32-bit path. On the `i64` path the wrapped values are stored whatever
the flag says. -/
def computeError (coefs : List Int) (shift : Nat) (xs : List Int) : Option (List Int × Bool) :=
  let maxabs := xs.foldl (fun m x => max m x.natAbs) 0
  let sumabs := coefs.foldl (fun s c => s + c.natAbs) 0
  if maxabs * (sumabs + 1) < 2 ^ 31 - 1 then (computeError32 coefs shift xs).map fun es => (es, true)
  else some (computeError64 coefs shift xs, fitsResidual64 coefs shift xs)

/-! ### stereo decorrelation (`coding.rs:448-456`) and its inverse (RFC 9639 section 4.2) -/

def midSide (l r : Int) : Int × Int := ((l + r) >>> 1, l - r)

def unMidSide (m s : Int) : Int × Int :=
  let m2 := 2 * m + (s % 2)
  ((m2 + s) >>> 1, (m2 - s) >>> 1)

def unLeftSide (l s : Int) : Int × Int := (l, l - s)
def unRightSide (s r : Int) : Int × Int := (s + r, r)

end FlacVerif
