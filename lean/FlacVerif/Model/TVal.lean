/-
Support for the generated configuration model (`Gen/Config.lean`): serde's data model restricted
to what `config::Encoder` uses, and IEEE-754 single-precision comparison on bit patterns.
Import-free.
-/
namespace FlacVerif

/-- A TOML / serde value. Floats are `f32` bit patterns. -/
inductive TVal
  | int (n : Nat)
  | bool (b : Bool)
  | f32 (bits : Nat)
  | str (s : String)
  | table (kv : List (String × TVal))
  deriving Repr

namespace F32

def isNaN (b : Nat) : Bool := (b / 2 ^ 23) % 256 == 255 && b % 2 ^ 23 != 0

/-- Sign-magnitude value of a non-NaN bit pattern as an integer key that orders like the float
(`+0 = -0`). -/
def key (b : Nat) : Int :=
  let mag : Int := ((b % 2 ^ 31 : Nat) : Int)
  if b / 2 ^ 31 % 2 = 1 then -mag else mag

/-- IEEE `a <= b` on bit patterns (false when either is NaN). -/
def le (a b : Nat) : Bool := !isNaN a && !isNaN b && decide (key a ≤ key b)

/-- `(lo..=hi).contains(&x)` for `f32`. -/
def inRange (lo hi x : Nat) : Bool := le lo x && le x hi

/-- `n as f32` for a TOML integer given where a float is expected (serde's float visitors accept
integers). Exact for `n < 2^24`; larger values are truncated (not rounded) — the harness does not
generate them. -/
def ofNat (n : Nat) : Nat :=
  if n = 0 then 0 else
  let e := Nat.log2 n
  if e ≤ 23 then (127 + e) * 2 ^ 23 + (n * 2 ^ (23 - e)) % 2 ^ 23
  else (127 + e) * 2 ^ 23 + (n / 2 ^ (e - 23)) % 2 ^ 23

end F32

/-- Removes the given keys from a table (one level). -/
def TVal.eraseKeys (ks : List String) : TVal → TVal
  | .table kv => .table (kv.filter fun p => !ks.contains p.1)
  | v => v

end FlacVerif
