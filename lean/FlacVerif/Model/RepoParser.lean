/-
M9 — executable mirror of the repository's OWN parser and decoder
(`src/component/parser.rs`, nom 7.1.3 combinators; `src/component/decode.rs`; the helpers of
`datatype.rs` / `verify.rs` they call).  Import-free apart from `FlacVerif.Model.*`.

Conventions
* Input is a bit string (`Bits`, MSB first) whose length is a multiple of 8 whenever a byte-level
  nom parser runs: the byte slice `&[u8]` is represented by the bits of its bytes, the bit-level input
  `(&[u8], usize)` by the bits that are still unread.  nom's `bits(p)` combinator ("after `p` resume
  at the next byte boundary, dropping the rest of a partially read byte") is `alignByte`: it drops
  `length % 8` bits, which is exactly the unread part of the current byte because the whole input has
  a whole number of bytes.
* `PResult` has three outcomes.  `error incomplete` keeps nom's distinction between `Err::Error`
  (`incomplete = false`; `alt`, `many0_count`, `many_till`, `many_m_n` recover from it) and
  `Err::Incomplete` / `Err::Failure` (`incomplete = true`; never recovered).  Both are "reject".
* Every place where the Rust code can panic is a `panic site` branch: `expect`, `unwrap`, `assert!`,
  `debug_assert!`, slice indexing, and every arithmetic step that the DEBUG build checks (`+`, `-`,
  `*`, shift amount ≥ width, negation).  Casts with `as` wrap silently in Rust and wrap here.
* nom's `bits::streaming::take::<O>(count)` accumulates into the output type `O` with `acc += val <<
  k`.  For `count ≤ width(O)` this is exact.  For `count > width(O)` the Rust code either panics on
  the shift amount (debug) or silently produces garbage; the mirror over-approximates both as the
  panic site `nom::bits::take` (C16 shows that no call site has `count > width(O)`).
-/
import FlacVerif.Model.Component
namespace FlacVerif.Repo

/-! ### result types -/

inductive PResult (α : Type) where
  | ok (v : α)
  | error (incomplete : Bool)
  | panic (site : String)
  deriving Repr, DecidableEq

namespace PResult
@[inline] def bind {α β : Type} (x : PResult α) (f : α → PResult β) : PResult β :=
  match x with
  | .ok v => f v
  | .error b => .error b
  | .panic s => .panic s

instance : Monad PResult where
  pure := .ok
  bind := PResult.bind

@[simp] theorem ok_bind {α β : Type} (v : α) (f : α → PResult β) : (PResult.ok v >>= f) = f v := rfl
@[simp] theorem error_bind {α β : Type} (b : Bool) (f : α → PResult β) :
    ((PResult.error b : PResult α) >>= f) = .error b := rfl
@[simp] theorem panic_bind {α β : Type} (s : String) (f : α → PResult β) :
    ((PResult.panic s : PResult α) >>= f) = .panic s := rfl
@[simp] theorem pure_eq {α : Type} (v : α) : (pure v : PResult α) = .ok v := rfl

def isPanic {α : Type} : PResult α → Bool
  | .panic _ => true
  | _ => false
def isOk {α : Type} : PResult α → Bool
  | .ok _ => true
  | _ => false
end PResult

open PResult

/-- Decoder result: the decoder has no error channel, it returns or panics. -/
inductive DResult (α : Type) where
  | ok (v : α)
  | panic (site : String)
  deriving Repr, DecidableEq

namespace DResult
@[inline] def bind {α β : Type} (x : DResult α) (f : α → DResult β) : DResult β :=
  match x with
  | .ok v => f v
  | .panic s => .panic s
instance : Monad DResult where
  pure := .ok
  bind := DResult.bind
@[simp] theorem ok_bind {α β : Type} (v : α) (f : α → DResult β) : (DResult.ok v >>= f) = f v := rfl
@[simp] theorem panic_bind {α β : Type} (s : String) (f : α → DResult β) :
    ((DResult.panic s : DResult α) >>= f) = .panic s := rfl
@[simp] theorem pure_eq {α : Type} (v : α) : (pure v : DResult α) = .ok v := rfl

def isPanic {α : Type} : DResult α → Bool
  | .panic _ => true
  | _ => false
end DResult

/-! ### checked machine arithmetic (debug build) -/

/-- `a + b` in an unsigned type of `w` bits. -/
def uadd (w : Nat) (site : String) (a b : Nat) : PResult Nat :=
  if a + b < 2 ^ w then .ok (a + b) else .panic site
/-- `a - b` in an unsigned type. -/
def usub (site : String) (a b : Nat) : PResult Nat :=
  if b ≤ a then .ok (a - b) else .panic site
/-- `a * b` in an unsigned type of `w` bits. -/
def umul (w : Nat) (site : String) (a b : Nat) : PResult Nat :=
  if a * b < 2 ^ w then .ok (a * b) else .panic site
/-- `a << k` in an unsigned type of `w` bits: panics iff `k ≥ w`; high bits are dropped silently. -/
def ushl (w : Nat) (site : String) (a k : Nat) : PResult Nat :=
  if k < w then .ok ((a * 2 ^ k) % 2 ^ w) else .panic site
/-- `debug_assert!` / `assert!`. -/
def passert (c : Bool) (site : String) : PResult Unit := if c then .ok () else .panic site

/-- Reinterpretation of `w` bits as a two's-complement signed value (`as i32`, `as i16`, `as i8`). -/
def asSigned (w : Nat) (v : Int) : Int :=
  let m := v % (2 ^ w : Int)
  if m < (2 ^ (w - 1) : Int) then m else m - (2 ^ w : Int)

def inI32 (v : Int) : Bool := -(2 ^ 31 : Int) ≤ v && v < (2 ^ 31 : Int)

/-! ### nom primitives -/

/-- `nom::bits::streaming::take::<O>(count)` with `O` an integer type of `width` bits. -/
def takeBits (width count : Nat) (i : Bits) : PResult (Nat × Bits) :=
  if count = 0 then .ok (0, i)
  else if i.length < count then .error true
  else if width < count then .panic "nom::bits::take: count exceeds the width of the output type"
  else .ok (bitsToNat (i.take count), i.drop count)

/-- `nom::bits::streaming::tag(pattern, count)`. -/
def tagBits (width pattern count : Nat) (i : Bits) : PResult (Nat × Bits) :=
  match takeBits width count i with
  | .ok (v, r) => if v = pattern then .ok (v, r) else .error false
  | .error b => .error b
  | .panic s => .panic s

/-- End of nom's `bits(..)` combinator: drop the unread rest of a partially read byte. -/
def alignByte (i : Bits) : Bits := i.drop (i.length % 8)

/-- `be_u8`, `be_u16`, `be_u24` (streaming): `n` bytes as a big-endian number. -/
def beUint (n : Nat) (i : Bits) : PResult (Nat × Bits) :=
  if i.length < 8 * n then .error true else .ok (bitsToNat (i.take (8 * n)), i.drop (8 * n))

/-- Bits of whole bytes to the byte values. -/
def bitsToBytes : (n : Nat) → Bits → List Nat
  | 0, _ => []
  | n + 1, i => bitsToNat (i.take 8) :: bitsToBytes n (i.drop 8)

/-- `nom::bytes::streaming::take(n)`. -/
def byteTake (n : Nat) (i : Bits) : PResult (List Nat × Bits) :=
  if i.length < 8 * n then .error true else .ok (bitsToBytes n i, i.drop (8 * n))

/-! Linear-time implementations: `i.length < n` walks the whole remaining input, which makes the
definitions above quadratic when compiled; the `@[csimp]` lemmas replace them by `n`-step tests. -/

/-- `shortBits i n = decide (i.length < n)` in at most `n` steps. -/
def shortBits : Bits → Nat → Bool
  | _, 0 => false
  | [], _ + 1 => true
  | _ :: r, n + 1 => shortBits r n

theorem shortBits_eq (i : Bits) (n : Nat) : shortBits i n = decide (i.length < n) := by
  induction n generalizing i with
  | zero => simp [shortBits]
  | succ n ih =>
    cases i with
    | nil => simp [shortBits]
    | cons b r => simp [shortBits, ih]

def takeBitsImpl (width count : Nat) (i : Bits) : PResult (Nat × Bits) :=
  if count = 0 then .ok (0, i)
  else if shortBits i count then .error true
  else if width < count then .panic "nom::bits::take: count exceeds the width of the output type"
  else .ok (bitsToNat (i.take count), i.drop count)

@[csimp] theorem takeBits_eq_impl : @takeBits = @takeBitsImpl := by
  funext width count i
  simp [takeBits, takeBitsImpl, shortBits_eq]

def beUintImpl (n : Nat) (i : Bits) : PResult (Nat × Bits) :=
  if shortBits i (8 * n) then .error true else .ok (bitsToNat (i.take (8 * n)), i.drop (8 * n))

@[csimp] theorem beUint_eq_impl : @beUint = @beUintImpl := by
  funext n i
  simp [beUint, beUintImpl, shortBits_eq]

def byteTakeImpl (n : Nat) (i : Bits) : PResult (List Nat × Bits) :=
  if shortBits i (8 * n) then .error true else .ok (bitsToBytes n i, i.drop (8 * n))

@[csimp] theorem byteTake_eq_impl : @byteTake = @byteTakeImpl := by
  funext n i
  simp [byteTake, byteTakeImpl, shortBits_eq]

/-- `nom::bytes::streaming::tag(t)`: a mismatch within the available prefix is `Error`, a matching
but too short input is `Incomplete`. -/
def byteTag (t : List Nat) (i : Bits) : PResult (Unit × Bits) :=
  let tb := bytesToBits t
  let m := min tb.length i.length
  if i.take m ≠ tb.take m then .error false
  else if i.length < tb.length then .error true
  else .ok ((), i.drop tb.length)

/-- The bytes consumed between two positions: `&input_start[..input_start.offset(remaining)]`. -/
def consumed (start rest : Bits) : Bits := start.take (start.length - rest.length)

/-- `alt((p, q))`: the second alternative runs only after `Err::Error`. -/
@[inline] def alt {α : Type} (p q : Bits → PResult α) (i : Bits) : PResult α :=
  match p i with
  | .error false => q i
  | r => r

/-! ### `u_to_i`, `raw_samples`, `unary_code` (parser.rs:731-769) -/

/-- `u_to_i(x: u32, bits: usize) -> i32`. -/
def uToI (x bits : Nat) : PResult Int := do
  let b1 ← usub "u_to_i: bits - 1" bits 1
  let msb ← ushl 64 "u_to_i: 1u64 << (bits - 1)" 1 b1
  let offset : Int ←
    if x ≥ msb then (do
      let v ← ushl 32 "u_to_i: 1u32 << bits" 1 bits
      pure (asSigned 32 v))
    else pure 0
  if x ≥ 2 ^ 31 then .panic "u_to_i: i32::try_from(x).unwrap()" else
  let r : Int := (x : Int) - offset
  if inI32 r then .ok r else .panic "u_to_i: i32 subtraction overflow"

/-- The loop of `raw_samples`. -/
def rawSamplesLoop (bps : Nat) : Nat → Bits → PResult (List Int × Bits)
  | 0, i => .ok ([], i)
  | n + 1, i => do
    let (u, i) ← takeBits 32 bps i
    let x ← uToI u bps
    let (xs, i) ← rawSamplesLoop bps n i
    pure (x :: xs, i)

/-- `raw_samples(bits_per_sample, size)`. -/
def rawSamples (bps size : Nat) (i : Bits) : PResult (List Int × Bits) := do
  passert (bps ≤ 25) "raw_samples: debug_assert!(bits_per_sample <= MAX_BITS_PER_SAMPLE + 1)"
  rawSamplesLoop bps size i

/-- `unary_code`: `many0_count(bit_tag(0, 1))` then `bit_tag(1, 1)`.  Running out of input inside
`many0_count` is `Incomplete`, which `many0_count` propagates. -/
def unaryCode : Bits → PResult (Nat × Bits)
  | [] => .error true
  | true :: r => .ok (0, r)
  | false :: r =>
    match unaryCode r with
    | .ok (q, r') => .ok (q + 1, r')
    | e => e

/-! ### `residual` (parser.rs:667-729) and `Residual::from_parts` (datatype.rs:2349) -/

/-- Inner loop: samples `t, t+1, …` (`n` of them) of one partition with Rice parameter `p`. -/
def residualSamples (p warmup : Nat) : (n t : Nat) → Bits → PResult ((List Nat × List Nat) × Bits)
  | 0, _, i => .ok (([], []), i)
  | n + 1, t, i =>
    if t < warmup then do
      let ((qs, rs), i) ← residualSamples p warmup n (t + 1) i
      pure ((0 :: qs, 0 :: rs), i)
    else do
      let (q, i) ← unaryCode i
      let (r, i) ← takeBits 32 p i
      let ((qs, rs), i) ← residualSamples p warmup n (t + 1) i
      pure (((q % 2 ^ 32) :: qs, r :: rs), i)   -- `q as u32`

/-- Outer loop over `n` partitions starting with partition `part`. -/
def residualParts (pBits plen warmup : Nat) :
    (n part : Nat) → Bits → PResult ((List Nat × List Nat × List Nat) × Bits)
  | 0, _, i => .ok (([], [], []), i)
  | n + 1, part, i => do
    let (p, i) ← takeBits 8 pBits i
    let lo ← umul 64 "residual: partition_len * part" plen part
    let hi ← umul 64 "residual: partition_len * (part + 1)" plen (part + 1)
    let ((qs, rs), i) ← residualSamples p warmup (hi - lo) lo i
    let ((ps, qs', rs'), i) ← residualParts pBits plen warmup n (part + 1) i
    pure ((p :: ps, qs ++ qs', rs ++ rs'), i)

/-- `residual(block_size, warmup_length)`.  The method `0b01` (5-bit parameters) is accepted but not
recorded (the Rust `Residual` has no field for it either); the escape code is an ordinary parameter;
`partition_count` need not divide `block_size`. -/
def residual (blockSize warmup : Nat) (i : Bits) : PResult (Residual × Bits) := do
  let (method, i) ← takeBits 8 2 i
  let pBits ← (if method = 0 then PResult.ok 4 else if method = 1 then .ok 5 else .error false)
  let (order, i) ← takeBits 8 4 i
  let count ← ushl 64 "residual: 1usize << partition_order" 1 order
  if count = 0 then .panic "residual: block_size / partition_count (division by zero)" else
  let plen := blockSize / count
  let ((ps, qs, rs), i) ← residualParts pBits plen warmup count 0 i
  -- Residual::from_parts
  passert (ps.length = count) "Residual::from_parts: debug_assert!(rice_params.len() == 1 << order)"
  let maxQ := qs.foldl max 0
  let _ ← umul 64 "Residual::from_parts: max_quotients * block_size" maxQ blockSize
  let _ ← (if maxQ * blockSize < 2 ^ 32 - 1 then PResult.ok 0
           else uadd 64 "Residual::from_parts: sum of quotients" (qs.foldl (· + ·) 0) 0)
  let _ ← uadd 64 "Residual::from_parts: sum of rice parameters" (ps.foldl (· + ·) 0) 0
  pure ({ order := order, blockSize := blockSize, warmup := warmup, params := ps,
          quotients := qs, remainders := rs }, i)

/-! ### subframes (parser.rs:435-660) -/

/-- `subframe_header`: 7-bit type tag (the padding bit is part of it), wasted-bits flag. -/
def subframeHeader (i : Bits) : PResult (Nat × Bits) := do
  let (typetag, i) ← takeBits 8 7 i
  let (wasted, i) ← takeBits 8 1 i
  if wasted ≠ 0 then .error false else pure (typetag, i)

def bpsAssert (who : String) (bps : Nat) : PResult Unit :=
  passert (bps ≤ 25) (who ++ ": debug_assert!(bits_per_sample <= MAX_BITS_PER_SAMPLE + 1)")

def constant (blockSize bps : Nat) (i : Bits) : PResult (SubFrame × Bits) := do
  let (typetag, i) ← subframeHeader i
  if typetag ≠ 0 then .error false else
  let (u, i) ← takeBits 32 bps i
  let dc ← uToI u bps
  pure (.constant blockSize dc (bps % 256), i)

/-- `QuantizedParameters::new` (datatype.rs:2220) with `verify` (verify.rs:284); `none` = `Err`. -/
def quantizedNew (coefs : List Int) (order : Nat) (shift : Int) (precision : Nat) :
    PResult (Option Unit) :=
  if order > 24 then .ok none else
  if coefs.length ≠ order then .ok none else do
  -- from_parts
  passert (coefs.length = order) "QuantizedParameters::from_parts: debug_assert!(coefs.len() == order)"
  passert (order ≤ 32) "QuantizedParameters::from_parts: coefs_v[0..order]"
  -- verify
  if order > 24 then .ok none else
  if shift < 0 ∨ shift > 15 then .ok none else
  if precision < 1 ∨ precision > 15 then .ok none else do
  let p1 ← usub "QuantizedParameters::verify: precision - 1" precision 1
  let hi ← ushl 32 "QuantizedParameters::verify: 1i32 << (precision - 1)" 1 p1
  if hi ≥ 2 ^ 31 then .panic "QuantizedParameters::verify: (1i32 << ..) - 1 / negation overflow" else
  let maxCoef : Int := (hi : Int) - 1
  let minCoef : Int := -(hi : Int)
  if coefs.all (fun c => minCoef ≤ c && c ≤ maxCoef) then .ok (some ()) else .ok none

/-- `quantized_parameters(order)`: precision, shift, coefficients (as `i16`). -/
def quantizedParameters (order : Nat) (i : Bits) : PResult ((List Int × Int × Nat) × Bits) := do
  let (p, i) ← takeBits 8 4 i
  let precision ← uadd 64 "quantized_parameters: p as usize + 1" p 1
  let (x, i) ← takeBits 8 5 i
  let s ← uToI x 5
  let shift := asSigned 8 s
  let (coefs, i) ← rawSamples precision order i
  let coefs := coefs.map (asSigned 16)
  match ← quantizedNew coefs order shift precision with
  | none => .error false
  | some () => pure ((coefs, shift, precision), i)

def fixedLpc (blockSize bps : Nat) (i : Bits) : PResult (SubFrame × Bits) := do
  let (typetag, i) ← subframeHeader i
  if ¬ (8 ≤ typetag ∧ typetag ≤ 12) then .error false else
  let order ← usub "fixed_lpc: typetag - 0x08" typetag 8
  let (warm, i) ← rawSamples bps order i
  -- heapless::Vec::<i32, 4>::try_from
  if warm.length > 4 then .error false else
  let (res, i) ← residual blockSize order i
  pure (.fixed warm res (bps % 256), i)

def lpc (blockSize bps : Nat) (i : Bits) : PResult (SubFrame × Bits) := do
  let (typetag, i) ← subframeHeader i
  if ¬ (0x20 ≤ typetag ∧ typetag < 0x40) then .error false else
  let o0 ← usub "lpc: typetag - 0x20" typetag 0x20
  let order ← uadd 64 "lpc: typetag - 0x20 + 1" o0 1
  let (warm, i) ← rawSamples bps order i
  -- heapless::Vec::<i32, MAX_LPC_ORDER = 24>::try_from
  if warm.length > 24 then .error false else
  let ((coefs, shift, precision), i) ← quantizedParameters order i
  let (res, i) ← residual blockSize order i
  passert (warm.length = order) "Lpc::from_parts: assert_eq!(warm_up.len(), parameters.order())"
  pure (.lpc warm coefs shift precision res (bps % 256), i)

def verbatim (blockSize bps : Nat) (i : Bits) : PResult (SubFrame × Bits) := do
  let (typetag, i) ← subframeHeader i
  if typetag ≠ 1 then .error false else
  let (data, i) ← rawSamples bps blockSize i
  pure (.verbatim data (bps % 256), i)

/-- `subframe(block_size, bits_per_sample)`: the five `debug_assert!`s run when the combinator is
built; then `alt((constant, fixed_lpc, lpc, verbatim))` in this order. -/
def subframe (blockSize bps : Nat) (i : Bits) : PResult (SubFrame × Bits) := do
  bpsAssert "subframe" bps
  bpsAssert "constant" bps
  bpsAssert "fixed_lpc" bps
  bpsAssert "lpc" bps
  bpsAssert "verbatim" bps
  alt (constant blockSize bps) (alt (fixedLpc blockSize bps) (alt (lpc blockSize bps) (verbatim blockSize bps))) i

/-! ### frame header (parser.rs:256-428) -/

/-- `utf8_code`: no validation of continuation bytes, no canonical-form check, heads `0x80..0xDF`
all take one tail byte; the accumulator is a `u64` and `<<` drops high bits silently. -/
def utf8Code (i : Bits) : PResult (Nat × Bits) := do
  let (hd, i) ← byteTake 1 i
  let head ← (match hd with
    | [b] => PResult.ok b
    | _ => .panic "utf8_code: x[0]")
  let tc : Option (Nat × Nat) :=
    if head < 128 then some (0, head % 128)
    else if head < 0xE0 then some (1, head % 32)
    else if head < 0xF0 then some (2, head % 16)
    else if head < 0xF8 then some (3, head % 8)
    else if head < 0xFC then some (4, head % 4)
    else if head < 0xFE then some (5, head % 2)
    else if head = 0xFE then some (6, 0)
    else none
  match tc with
  | none => .error false
  | some (tailCount, acc) =>
    let (tail, i) ← byteTake tailCount i
    pure (tail.foldl (fun a b => ((a * 64) % 2 ^ 64) ||| (b % 64)) acc, i)

/-- `block_size_code(tag)`. -/
def blockSizeCode (tag : Nat) (i : Bits) : PResult (BlockSizeSpec × Bits) :=
  if tag = 1 then .ok (.s192, i)
  else if 2 ≤ tag ∧ tag ≤ 5 then do
    let x ← usub "block_size_code: tag - 0b0010" tag 2
    pure (.pow2Mul576 x, i)
  else if tag = 6 then do
    let (x, i) ← beUint 1 i
    pure (.extraByte x, i)
  else if tag = 7 then do
    let (x, i) ← beUint 2 i
    pure (.extraTwoBytes x, i)
  else if 8 ≤ tag ∧ tag ≤ 15 then do
    let x ← usub "block_size_code: tag - 0b1000" tag 8
    pure (.pow2Mul256 x, i)
  else .error false

/-- `sample_rate_code(tag)` with `SampleRateSpec::from_tag_and_data`. -/
def sampleRateCode (tag : Nat) (i : Bits) : PResult (SampleRateSpec × Bits) :=
  if tag > 14 then .error false
  else if tag = 12 then do
    let (x, i) ← beUint 1 i
    pure (.kHz (x % 256), i)
  else if tag = 13 then do
    let (x, i) ← beUint 2 i
    pure (.hz (x % 65536), i)
  else if tag = 14 then do
    let (x, i) ← beUint 2 i
    pure (.daHz (x % 65536), i)
  else if tag = 0 then .ok (.unspecified, i)
  else .ok (.fixed tag, i)

/-- `ChannelAssignment::from_tag`. -/
def channelFromTag (tag : Nat) : PResult (Option ChannelAssignment) :=
  if tag < 8 then do
    let n ← uadd 8 "ChannelAssignment::from_tag: tag + 1" tag 1
    pure (some (.independent n))
  else if tag = 8 then pure (some .leftSide)
  else if tag = 9 then pure (some .rightSide)
  else if tag = 10 then pure (some .midSide)
  else pure none

/-- `frame_header(check_crc)`. -/
def frameHeader (checkCrc : Bool) (start : Bits) : PResult (FrameHeader × Bits) := do
  -- bits(|..| sync, blocking type, tags, reserved bit)
  let (_, i) ← tagBits 16 0x7FFC 15 start
  let (blocking, i) ← takeBits 8 1 i
  let (bsTag, i) ← takeBits 8 4 i
  let (srTag, i) ← takeBits 8 4 i
  let (chTag, i) ← takeBits 8 4 i
  let (ssTag, i) ← takeBits 8 3 i
  let (_, i) ← tagBits 32 0 1 i
  let i := alignByte i
  -- SampleSizeSpec::from_tag: every 3-bit value is `Some` (3 = `Reserved` is accepted)
  if ssTag > 7 then .error false else
  match ← channelFromTag chTag with
  | none => .error false
  | some assignment =>
    let (x, i) ← utf8Code i
    let (bsSpec, i) ← blockSizeCode bsTag i
    let (srSpec, i) ← sampleRateCode srTag i
    let crc8 := crcBits rfcCrc8 (consumed start i)
    let (c, i) ← beUint 1 i
    if checkCrc && c != crc8 then .error false else
    -- FrameHeader::from_specs, set_frame_offset
    pure ({ isVariable := blocking != 0, blockSizeSpec := bsSpec, assignment := assignment,
            sampleSizeTag := ssTag, sampleRateSpec := srSpec,
            frameNumber := if blocking = 0 then x % 2 ^ 32 else 0,   -- `x as u32`
            startSample := if blocking = 0 then 0 else x }, i)

/-! ### frame (parser.rs:189-242) -/

/-- `SampleSizeSpec::into_bits` on the tag. -/
def sampleSizeBits (tag : Nat) : Option Nat :=
  if tag = 1 then some 8 else if tag = 2 then some 12 else if tag = 4 then some 16
  else if tag = 5 then some 20 else if tag = 6 then some 24 else if tag = 7 then some 32 else none

/-- `FrameHeader::block_size()` = `BlockSizeSpec::block_size().expect(..)`. -/
def headerBlockSize (h : FrameHeader) : PResult Nat :=
  match h.blockSizeSpec with
  | .reserved => .panic "FrameHeader::block_size: Reserved block-size tag should not be used."
  | .s192 => .ok 192
  | .pow2Mul576 x => do
    let s ← ushl 64 "BlockSizeSpec::block_size: 1usize << x" 1 x
    umul 64 "BlockSizeSpec::block_size: 576 * (1 << x)" 576 s
  | .extraByte x => uadd 64 "BlockSizeSpec::block_size: x as usize + 1" x 1
  | .extraTwoBytes x => uadd 64 "BlockSizeSpec::block_size: x as usize + 1" x 1
  | .pow2Mul256 x => do
    let s ← ushl 64 "BlockSizeSpec::block_size: 1usize << x" 1 x
    umul 64 "BlockSizeSpec::block_size: 256 * (1 << x)" 256 s

/-- `many_m_n(channels, channels, |i| subframe(block_size, bps + offset(ch))(i))` with the closure's
channel counter; `n` subframes remain, the next one is channel `ch`. -/
def subframes (blockSize bps : Nat) (a : ChannelAssignment) : (n ch : Nat) → Bits → PResult (List SubFrame × Bits)
  | 0, _, i => .ok ([], i)
  | n + 1, ch, i => do
    let b ← uadd 64 "frame: bits_per_sample + bits_per_sample_offset(ch)" bps (a.bpsOffset ch)
    match subframe blockSize b i with
    | .ok (sf, tail) =>
      -- infinite loop check of many_m_n
      if tail.length = i.length then .error false else do
      let (sfs, i) ← subframes blockSize bps a n (ch + 1) tail
      pure (sf :: sfs, i)
    | .error false => .error false   -- count < min: Error(ManyMN)
    | .error true => .error true
    | .panic s => .panic s

/-- `frame(stream_info, check_crc)`.  The header CRC-8 is always checked (`frame_header(true)`). -/
def frame (info : StreamInfo) (checkCrc : Bool) (start : Bits) : PResult (Frame × Bits) := do
  let (h, i) ← frameHeader true start
  let channels := h.assignment.channels
  if channels ≠ info.channels then .error false else
  let blockSize ← headerBlockSize h
  let bps := (sampleSizeBits h.sampleSizeTag).getD info.bps
  if bps ≠ info.bps then .error false else
  let (sfs, j) ← subframes blockSize bps h.assignment channels 0 i
  let i := alignByte j
  let crc16 := crcBits rfcCrc16 (consumed start i)
  let (c, i) ← beUint 2 i
  if checkCrc && c != crc16 then .error false else
  pure ({ header := h, subframes := sfs }, i)

/-! ### metadata and stream (parser.rs:55-182) -/

/-- `verify_bps!`. -/
def verifyBps (b : Nat) : Bool := 8 ≤ b && b ≤ 25 && (b % 4 == 0 || b % 4 == 1)

/-- `stream_info`: fields, then `StreamInfo::new` + setters (`None` of `info_fn` = `Verify` error). -/
def streamInfo (i : Bits) : PResult (StreamInfo × Bits) := do
  let (minBlock, i) ← beUint 2 i
  let (maxBlock, i) ← beUint 2 i
  let (minFrame, i) ← beUint 3 i
  let (maxFrame, i) ← beUint 3 i
  let (sr, j) ← takeBits 64 20 i
  let (ch, j) ← takeBits 64 3 j
  let (bps, j) ← takeBits 64 5 j
  let (total, j) ← takeBits 64 36 j
  let channels ← uadd 64 "stream_info: ch + 1" ch 1
  let bitsPerSample ← uadd 64 "stream_info: bps + 1" bps 1
  let i := alignByte j
  let (md5, i) ← byteTake 16 i
  -- StreamInfo::new: range checks, then `verify` (total_samples = 0 at that point)
  if sr > 96000 then .error false else
  if channels < 1 ∨ channels > 8 then .error false else
  if bitsPerSample > 255 then .error false else
  if ¬ (verifyBps bitsPerSample ∧ bitsPerSample % 4 = 0) then .error false else
  passert (md5.length = 16) "stream_info: md5.try_into().expect(\"Internal error\")"
  -- set_block_sizes, unless the block sizes are the initial ("unset") ones of a `StreamInfo` that has
  -- not seen any frame (they are then kept: they equal the initial values)
  let blockSizesUnset := total = 0 ∧ minBlock = 65535 ∧ maxBlock = 0
  if ¬ blockSizesUnset ∧ ¬ (1 ≤ minBlock ∧ minBlock ≤ 32767) then .error false else
  if ¬ blockSizesUnset ∧ ¬ (1 ≤ maxBlock ∧ maxBlock ≤ 32767) then .error false else
  if ¬ blockSizesUnset ∧ minBlock > maxBlock then .error false else
  -- set_frame_sizes, unless both are 0 ("unknown"): the frame sizes then stay in their initial state
  let frameSizesUnknown := minFrame = 0 ∧ maxFrame = 0
  if ¬ frameSizesUnknown ∧ minFrame > maxFrame then .error false else
  let (minFrame, maxFrame) := if frameSizesUnknown then (2 ^ 32 - 1, 0) else (minFrame, maxFrame)
  pure ({ minBlock, maxBlock, minFrame, maxFrame, rate := sr, channels, bps := bitsPerSample,
          total, md5 }, i)

/-- A metadata block as the parser stores it. A block of type 0 is always a STREAMINFO (also after the
first block), which the existing `Stream` type cannot hold, hence this wrapper. -/
inductive MetaData
  | streamInfo (s : StreamInfo)
  | unknown (b : UnknownBlock)
  deriving Repr, DecidableEq

/-- The parsed stream: `Stream` with `MetaData` blocks. -/
structure PStream where
  info : StreamInfo
  metadata : List MetaData
  frames : List Frame
  deriving Repr, DecidableEq

/-- The plain `Stream`, if no further STREAMINFO block was parsed. -/
def PStream.toStream? (s : PStream) : Option Stream := do
  let ms ← s.metadata.mapM fun m => match m with | .unknown b => some b | .streamInfo _ => none
  pure { info := s.info, metadata := ms, frames := s.frames }

/-- `metadata_block`: type 0 is parsed as STREAMINFO and the length field is ignored; any other type
takes `length` bytes; type 127 is rejected by `new_unknown`. -/
def metadataBlock (i : Bits) : PResult ((Bool × MetaData) × Bits) := do
  let (first, i) ← beUint 1 i
  let isLast := first / 128 ≠ 0
  let blockType := first % 128
  let (length, i) ← beUint 3 i
  if blockType = 0 then do
    let (info, i) ← streamInfo i
    pure ((isLast, .streamInfo info), i)
  else do
    let (blob, i) ← byteTake length i
    if blockType > 126 then .error false else
    pure ((isLast, .unknown ⟨blockType, blob⟩), i)

/-- The `while !is_last` loop.  Every block consumes at least 4 bytes; the `else` branch of the length
test is unreachable and only there for termination. -/
def metadataLoop (i : Bits) : PResult (List MetaData × Bits) :=
  match metadataBlock i with
  | .ok ((isLast, b), i') =>
    if isLast then .ok ([b], i')
    else if _hlt : i'.length < i.length then
      match metadataLoop i' with
      | .ok (bs, i'') => .ok (b :: bs, i'')
      | .error e => .error e
      | .panic s => .panic s
    else .error true
  | .error e => .error e
  | .panic s => .panic s
termination_by i.length

/-- `many_till(frame(stream_info, true), eof)`. -/
def framesTillEof (info : StreamInfo) (i : Bits) : PResult (List Frame) :=
  if i.length = 0 then .ok []
  else
    match frame info true i with
    | .ok (f, i') =>
      -- infinite loop check of many_till
      if _hlt : i'.length < i.length then
        match framesTillEof info i' with
        | .ok fs => .ok (f :: fs)
        | .error e => .error e
        | .panic s => .panic s
      else .error false
    | .error e => .error e
    | .panic s => .panic s
termination_by i.length

/-- `parser::stream`. -/
def stream (i : Bits) : PResult PStream := do
  let (_, i) ← byteTag [0x66, 0x4C, 0x61, 0x43] i
  let ((isLast, first), i) ← metadataBlock i
  match first with
  | .unknown _ => .error false
  | .streamInfo info =>
    let (rest, i) ← (if isLast then PResult.ok ([], i) else metadataLoop i)
    let frames ← framesTillEof info i
    pure { info := info, metadata := rest, frames := frames }

/-! ### the public entry points (bytes in) -/

def restBytes (bytes : List Nat) (rest : Bits) : List Nat := bytes.drop (bytes.length - rest.length / 8)

/-- `parser::stream` on a byte string, whole-input consumption. -/
def parseStream (bytes : List Nat) : PResult PStream := stream (bytesToBits bytes)

/-- `parser::frame(info, check_crc)` on a byte string; returns the unread bytes. -/
def parseFrame (info : StreamInfo) (checkCrc : Bool) (bytes : List Nat) : PResult (Frame × List Nat) :=
  match frame info checkCrc (bytesToBits bytes) with
  | .ok (f, rest) => .ok (f, restBytes bytes rest)
  | .error e => .error e
  | .panic s => .panic s

/-- `parser::subframe(block_size, bits_per_sample)` on a bit-level input. -/
def parseSubframe (blockSize bps : Nat) (i : Bits) : PResult (SubFrame × Bits) := subframe blockSize bps i

/-- `parser::residual(block_size, warmup_length)` on a bit-level input. -/
def parseResidual (blockSize warmup : Nat) (i : Bits) : PResult (Residual × Bits) := residual blockSize warmup i

/-! ### the decoder (`decode.rs`) -/

/-- Result of an `i32` operation: the debug build panics on overflow, the release build wraps. -/
def i32op (debug : Bool) (site : String) (v : Int) : DResult Int :=
  if inI32 v then .ok v else if debug then .panic site else .ok (asSigned 32 v)

/-- `xs[i]` with Rust's bounds check. -/
def idx {α : Type} (site : String) (xs : List α) (i : Nat) : DResult α :=
  match xs[i]? with
  | some v => .ok v
  | none => .panic site

/-- `rice::decode_signbit(v: u32) -> i32`; `-(i32::MIN)` overflows for `v = u32::MAX`. -/
def decodeSignbitD (debug : Bool) (v : Nat) : DResult Int :=
  if v % 2 = 1 then
    let a := asSigned 32 ((v / 2 + 1 : Nat) : Int)
    i32op debug "decode_signbit: negation overflow" (-a)
  else .ok (asSigned 32 ((v / 2 : Nat) : Int))

/-- The loop of `Residual::copy_signal` over `t = t0 .. blockSize`, walking the quotient/remainder
vectors (an index past their end is the slice-index panic). -/
def residualSignalLoop (debug : Bool) (params : List Nat) (partLen : Nat) :
    (qs rs : List Nat) → (n t : Nat) → DResult (List Int)
  | _, _, 0, _ => .ok []
  | qs, rs, n + 1, t => do
    let q ← (match qs with | q :: _ => DResult.ok q | [] => .panic "Residual::copy_signal: self.quotients()[t]")
    let p ← idx "Residual::copy_signal: self.rice_params()[t / part_len]" params (t / partLen)
    let r ← (match rs with | r :: _ => DResult.ok r | [] => .panic "Residual::copy_signal: self.remainders()[t]")
    -- `quotient << rice_param` in u32: panics (debug) iff the amount is ≥ 32, release masks it
    let sh ← (if p < 32 then DResult.ok p else if debug then .panic "Residual::copy_signal: shift amount"
              else .ok (p % 32))
    let shifted := (q * 2 ^ sh) % 2 ^ 32
    let v ← (if shifted + r < 2 ^ 32 then DResult.ok (shifted + r)
             else if debug then .panic "Residual::copy_signal: (q << p) + r overflow" else .ok ((shifted + r) % 2 ^ 32))
    let x ← decodeSignbitD debug v
    let xs ← residualSignalLoop debug params partLen qs.tail rs.tail n (t + 1)
    pure (x :: xs)

/-- `Residual::copy_signal`. -/
def residualSignal (debug : Bool) (r : Residual) : DResult (List Int) := do
  let partLen ← (if r.order < 64 then DResult.ok (r.blockSize / 2 ^ r.order)
                 else if debug then .panic "Residual::copy_signal: block_size >> partition_order"
                 else .ok (r.blockSize / 2 ^ (r.order % 64)))
  if partLen = 0 then .panic "Residual::copy_signal: assert!(part_len > 0)" else
  residualSignalLoop debug r.params partLen r.quotients r.remainders r.blockSize 0

/-- Prediction `Σ w[τ] · dest[t-1-τ]` in `i64`; `hist` is the already decoded signal, newest first. -/
def predict (debug : Bool) : (coefs hist : List Int) → (acc : Int) → DResult Int
  | [], _, acc => .ok acc
  | _ :: _, [], _ => .panic "decode_lpc: dest[t - 1 - tau]"
  | w :: ws, h :: hs, acc =>
    let prod := w * h
    let s := acc + prod
    let inI64 := fun (v : Int) => -(2 ^ 63 : Int) ≤ v && v < (2 ^ 63 : Int)
    if inI64 prod && inI64 s then predict debug ws hs s
    else if debug then .panic "decode_lpc: i64 overflow in pred" else predict debug ws hs (asSigned 64 s)

/-- The prediction loop of `decode_lpc`: `resid` are the residual values for `t = |hist| ..`. -/
def lpcLoop (debug : Bool) (coefs : List Int) (shift : Nat) : (resid hist : List Int) → DResult (List Int)
  | [], hist => .ok hist.reverse
  | e :: es, hist => do
    let pred ← predict debug coefs hist 0
    -- `(pred >> shift) as i32`
    let p32 := asSigned 32 (pred / (2 ^ shift : Int))
    let x ← i32op debug "decode_lpc: dest[t] += (pred >> shift) as i32" (e + p32)
    lpcLoop debug coefs shift es (x :: hist)

/-- `decode_lpc(warm_up, coefs, shift, residual, dest)` with `dest.len() = residual.signal_len()`. -/
def decodeLpc (debug : Bool) (warm : List Int) (coefs : List Int) (shift : Int) (r : Residual) :
    DResult (List Int) := do
  let e ← residualSignal debug r
  if warm.length > e.length then .panic "decode_lpc: dest[t] = *x (warm-up longer than the block)" else
  -- `shift as usize`: a negative `i8` becomes a huge shift amount
  let sh ← (if 0 ≤ shift ∧ shift < 64 then DResult.ok shift.toNat
            else if debug then .panic "decode_lpc: pred >> shift (shift amount)"
            else .ok ((shift % 64).toNat))
  lpcLoop debug coefs sh (e.drop warm.length) warm.reverse

def fixedCoefs : List (List Int) := [[], [1], [2, -1], [3, -3, 1], [4, -6, 4, -1]]

/-- `SubFrame::decode()`. -/
def decodeSubframe (debug : Bool) : SubFrame → DResult (List Int)
  | .constant n dc _ => .ok (List.replicate n dc)
  | .verbatim xs _ => .ok xs
  | .fixed warm res _ => do
    let cs ← idx "FixedLpc::copy_signal: FIXED_LPC_COEFS[order]" fixedCoefs warm.length
    decodeLpc debug warm cs 0 res
  | .lpc warm coefs shift _ res _ => decodeLpc debug warm coefs shift res

/-- Stereo decorrelation over `t = 0 .. n`, walking both channels. -/
def decorrelate (debug : Bool) (a : ChannelAssignment) : (n : Nat) → (c0 c1 : List Int) → DResult (List Int × List Int)
  | 0, c0, c1 => .ok (c0, c1)
  | n + 1, c0, c1 =>
    match c0, c1 with
    | x0 :: t0, x1 :: t1 => do
      let (y0, y1) ← (match a with
        | .independent _ => DResult.ok (x0, x1)
        | .leftSide => do
          let d ← i32op debug "Frame::copy_signal: channels[0][t] - channels[1][t]" (x0 - x1)
          pure (x0, d)
        | .rightSide => do
          let s ← i32op debug "Frame::copy_signal: channels[0][t] += channels[1][t]" (x0 + x1)
          pure (s, x1)
        | .midSide => do
          let s := x1
          let m ← i32op debug "Frame::copy_signal: (mid << 1) + (s & 1)" (asSigned 32 (2 * x0) + s % 2)
          let a0 ← i32op debug "Frame::copy_signal: m + s" (m + s)
          let a1 ← i32op debug "Frame::copy_signal: m - s" (m - s)
          pure (a0 / 2, a1 / 2))
      let (r0, r1) ← decorrelate debug a n t0 t1
      pure (y0 :: r0, y1 :: r1)
    | _, _ => .panic "Frame::copy_signal: channels[ch][t]"

/-- `n` rounds of "one sample from every channel" (0 where a channel has ended). -/
def interleaveLoop : Nat → List (List Int) → List Int
  | 0, _ => []
  | n + 1, chans => chans.map (fun c => c.headD 0) ++ interleaveLoop n (chans.map List.tail)

/-- Interleaving `dest[t * channel_count + ch] = x`: every channel must have at most `blockSize`
samples (else the index is out of range); shorter channels leave zeros. -/
def interleave (blockSize : Nat) (chans : List (List Int)) : DResult (List Int) :=
  if chans.any (fun c => c.length > blockSize) then .panic "Frame::copy_signal: dest[t * channel_count + ch]"
  else .ok (interleaveLoop blockSize chans)

/-- `Decode for Frame`: `decode()` in the given build mode. -/
def decodeFrameMode (debug : Bool) (f : Frame) : DResult (List Int) := do
  let blockSize ← (match headerBlockSize f.header with
    | .ok n => DResult.ok n
    | .error _ => .panic "unreachable"
    | .panic s => .panic s)
  let chans ← f.subframes.mapM (decodeSubframe debug)
  let chans ← (match f.header.assignment with
    | .independent _ => DResult.ok chans
    | a =>
      match chans with
      | c0 :: c1 :: rest => do
        let (d0, d1) ← decorrelate debug a blockSize c0 c1
        pure (d0 :: d1 :: rest)
      | _ => if blockSize = 0 then DResult.ok chans else .panic "Frame::copy_signal: channels[1]")
  interleave blockSize chans

/-- The decoder as the DEBUG build computes it (overflow = panic). -/
def decodeFrame (f : Frame) : DResult (List Int) := decodeFrameMode true f

/-- The parser accepts `bytes` as exactly one frame, and the decoder (in the given build mode) panics
on the accepted frame. -/
def frameAcceptedDecoderPanics (debug : Bool) (info : StreamInfo) (bytes : List Nat) : Bool :=
  match parseFrame info true bytes with
  | .ok (f, []) => (decodeFrameMode debug f).isPanic
  | _ => false

/-! ### harness outcome (`harness/src/parser.rs: outcome`) -/

def decodeAll (debug : Bool) : List Frame → DResult (List Int)
  | [] => .ok []
  | f :: fs => do
    let a ← decodeFrameMode debug f
    let rest ← decodeAll debug fs
    pure (a ++ rest)

def outcomeCharMode (debug : Bool) (bytes : List Nat) (original : List Int) (fmt : Nat × Nat × Nat) : Char :=
  match parseStream bytes with
  | .error _ => 'e'
  | .panic _ => 'p'
  | .ok s =>
    match decodeAll debug s.frames with
    | .panic _ => 'q'
    | .ok audio =>
      if audio = original ∧ (s.info.rate, s.info.channels, s.info.bps) = fmt then 's' else 'd'

/-- Outcome in the DEBUG build. -/
def outcomeChar (bytes : List Nat) (original : List Int) (fmt : Nat × Nat × Nat) : Char :=
  outcomeCharMode true bytes original fmt

end FlacVerif.Repo
