/-
M6 — components (`datatype.rs`) with their bit layout (`bitrepr.rs` `write`) and their reported
bit counts (`count_bits`). Import-free.
-/
import FlacVerif.Model.Rice
import FlacVerif.Model.Codes
namespace FlacVerif

inductive SubFrame
  | constant (blockSize : Nat) (dc : Int) (bps : Nat)
  | verbatim (samples : List Int) (bps : Nat)
  | fixed (warmup : List Int) (res : Residual) (bps : Nat)
  | lpc (warmup : List Int) (coefs : List Int) (shift : Int) (precision : Nat) (res : Residual) (bps : Nat)
  deriving Repr, DecidableEq

namespace SubFrame

/-- `SubFrame::write`. -/
def bits : SubFrame → Bits
  | .constant _ dc bps => natToBits 8 0 ++ twoc bps dc
  | .verbatim xs bps => natToBits 8 2 ++ xs.flatMap (twoc bps)
  | .fixed warm res bps =>
      natToBits 8 (0x10 ||| (warm.length <<< 1)) ++ warm.flatMap (twoc bps) ++ res.bits
  | .lpc warm coefs shift precision res bps =>
      natToBits 8 (0x40 ||| ((coefs.length - 1) <<< 1)) ++ warm.flatMap (twoc bps) ++
        natToBits 4 (precision - 1) ++ twoc 5 shift ++ coefs.flatMap (twoc precision) ++ res.bits

/-- `SubFrame::count_bits`; `none` when the residual's count underflows. -/
def count : SubFrame → Option Nat
  | .constant _ _ bps => some (8 + bps)
  | .verbatim xs bps => some (8 + xs.length * bps)
  | .fixed warm res bps => res.count.map fun c => 8 + bps * warm.length + c
  | .lpc _ coefs _ precision res bps =>
      res.count.map fun c => 8 + bps * coefs.length + 4 + 5 + precision * coefs.length + c

def blockSize : SubFrame → Nat
  | .constant n _ _ => n
  | .verbatim xs _ => xs.length
  | .fixed _ res _ => res.blockSize
  | .lpc _ _ _ _ res _ => res.blockSize

def bps : SubFrame → Nat
  | .constant _ _ b => b | .verbatim _ b => b | .fixed _ _ b => b | .lpc _ _ _ _ _ b => b

def inRange (b : Nat) (v : Int) : Bool := -(2 ^ (b - 1) : Int) ≤ v && v < (2 ^ (b - 1) : Int)

/-- Well-formedness of a subframe (what `verify` has to guarantee for serialisability). -/
def WF : SubFrame → Prop
  | .constant n dc b => 1 ≤ n ∧ 1 ≤ b ∧ b ≤ 32 ∧ inRange b dc = true
  | .verbatim xs b => 1 ≤ xs.length ∧ 1 ≤ b ∧ b ≤ 32 ∧ ∀ x ∈ xs, inRange b x = true
  | .fixed warm res b => warm.length ≤ 4 ∧ warm.length = res.warmup ∧ res.WF ∧ warm.length < res.blockSize ∧
      1 ≤ b ∧ b ≤ 32 ∧ ∀ x ∈ warm, inRange b x = true
  | .lpc warm coefs shift precision res b =>
      1 ≤ coefs.length ∧ coefs.length ≤ 32 ∧ warm.length = coefs.length ∧ warm.length = res.warmup ∧ res.WF ∧
      warm.length < res.blockSize ∧ 1 ≤ precision ∧ precision ≤ 15 ∧ 0 ≤ shift ∧ shift ≤ 15 ∧
      (∀ c ∈ coefs, inRange precision c = true) ∧ 1 ≤ b ∧ b ≤ 32 ∧ ∀ x ∈ warm, inRange b x = true

end SubFrame

structure FrameHeader where
  isVariable : Bool
  blockSizeSpec : BlockSizeSpec
  assignment : ChannelAssignment
  sampleSizeTag : Nat
  sampleRateSpec : SampleRateSpec
  frameNumber : Nat
  startSample : Nat
  deriving Repr, DecidableEq

namespace FrameHeader

def number (h : FrameHeader) : Nat := if h.isVariable then h.startSample else h.frameNumber

/-- The bytes `FrameHeader::write` buffers before the CRC-8; `none` = `RangeError`. -/
def bodyBits (h : FrameHeader) : Option Bits := do
  let num ← encodeUtf8like h.number
  if h.assignment.tag > 15 then none else
  some (natToBits 16 (0xFFF8 + (if h.isVariable then 1 else 0)) ++
    natToBits 8 ((h.blockSizeSpec.tag <<< 4) ||| h.sampleRateSpec.tag) ++
    natToBits 4 h.assignment.tag ++ natToBits 4 (h.sampleSizeTag <<< 1) ++
    bytesToBits num ++ h.blockSizeSpec.extraBits ++ h.sampleRateSpec.extraBits)

def bits (p8 : CrcParams) (h : FrameHeader) : Option Bits := do
  let b ← h.bodyBits
  some (b ++ natToBits 8 (crcBits p8 b))

/-- `FrameHeader::count_bits`. -/
def count (h : FrameHeader) : Nat :=
  40 + 8 * utf8likeBytesize h.number + h.blockSizeSpec.extraBits.length + h.sampleRateSpec.extraBits.length

end FrameHeader

structure Frame where
  header : FrameHeader
  subframes : List SubFrame
  deriving Repr, DecidableEq

namespace Frame

def padTo8 (bs : Bits) : Bits := bs ++ List.replicate ((8 - bs.length % 8) % 8) false

/-- `Frame::write` (without a precomputed bitstream). -/
def bits (p8 p16 : CrcParams) (f : Frame) : Option Bits := do
  let h ← f.header.bits p8
  let body := padTo8 (h ++ f.subframes.flatMap SubFrame.bits)
  some (body ++ natToBits 16 (crcBits p16 body))

/-- `Frame::count_bits` (without a precomputed bitstream). -/
def count (f : Frame) : Option Nat := do
  let subs ← f.subframes.mapM SubFrame.count
  let body := f.header.count + subs.foldl (· + ·) 0
  some ((body + 7) / 8 * 8 + 16)

end Frame

structure StreamInfo where
  minBlock : Nat
  maxBlock : Nat
  minFrame : Nat
  maxFrame : Nat
  rate : Nat
  channels : Nat
  bps : Nat
  total : Nat
  md5 : List Nat
  deriving Repr, DecidableEq

namespace StreamInfo

/-- `StreamInfo::write` (after fix F9: unknown (0,0) frame sizes while min > max). -/
def bits (s : StreamInfo) : Bits :=
  let (mn, mx) := if s.minFrame > s.maxFrame then (0, 0) else (s.minFrame, s.maxFrame)
  natToBits 16 s.minBlock ++ natToBits 16 s.maxBlock ++ natToBits 24 mn ++ natToBits 24 mx ++
  natToBits 20 s.rate ++ natToBits 3 (s.channels - 1) ++ natToBits 5 (s.bps - 1) ++ natToBits 36 s.total ++
  bytesToBits s.md5

def empty (rate channels bps : Nat) : StreamInfo :=
  { minBlock := 65535, maxBlock := 0, minFrame := 2 ^ 32 - 1, maxFrame := 0, rate, channels, bps, total := 0,
    md5 := List.replicate 16 0 }

/-- `update_frame_info`. -/
def addFrame (s : StreamInfo) (blockSize frameBytes : Nat) : StreamInfo :=
  { s with minBlock := min blockSize s.minBlock, maxBlock := max blockSize s.maxBlock,
           minFrame := min frameBytes s.minFrame, maxFrame := max frameBytes s.maxFrame,
           total := s.total + blockSize }

end StreamInfo

/-- A metadata block other than STREAMINFO. -/
structure UnknownBlock where
  tag : Nat
  data : List Nat
  deriving Repr, DecidableEq

structure Stream where
  info : StreamInfo
  metadata : List UnknownBlock
  frames : List Frame
  deriving Repr, DecidableEq

namespace Stream

def blockHeader (isLast : Bool) (tag len : Nat) : Bits :=
  natToBits 8 (tag + if isLast then 0x80 else 0) ++ natToBits 24 len

/-- `Stream::write`. -/
def bits (p8 p16 : CrcParams) (s : Stream) : Option Bits := do
  let frames ← s.frames.mapM (Frame.bits p8 p16)
  let nmeta := s.metadata.length
  let metas := (List.range nmeta).flatMap fun i =>
    let m := s.metadata.getD i ⟨0, []⟩
    blockHeader (i + 1 = nmeta) m.tag m.data.length ++ bytesToBits m.data
  some (bytesToBits [0x66, 0x4C, 0x61, 0x43] ++ blockHeader (nmeta = 0) 0 34 ++ s.info.bits ++ metas ++ frames.flatten)

def count (s : Stream) : Option Nat := do
  let frames ← s.frames.mapM Frame.count
  some (32 + (32 + 272) + (s.metadata.map fun m => 32 + 8 * m.data.length).foldl (· + ·) 0 + frames.foldl (· + ·) 0)

end Stream
end FlacVerif
