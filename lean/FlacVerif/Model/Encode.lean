/-
M7 (functional view) — the encoder's decision logic, mirrored statement by statement:
`encode_subframe`, `fixed_lpc`, `select_order_and_encode_residual`, `estimated_qlpc`
(coding.rs:204-421), `encode_frame_impl`, `try_stereo_coding`, `encode_frame` (coding.rs:423-560).

Floating point is not modelled: the two float-derived inputs of the integer decision logic — the
quantised LPC parameters produced by `estimated_qlpc` and the per-order entropy estimates of the
`ApproxEnt` selector — are read from an *oracle log* (`OEvent`s in the order the code produces
them; hook 3 of DESIGN section 5 records exactly this log). Everything downstream of those
integers is computed here. Import-free.
-/
import FlacVerif.Model.Component
import FlacVerif.Model.Predict
namespace FlacVerif

/-- One float-derived value consumed by the integer decision logic. -/
inductive OEvent
  | qlpc (coefs : List Int) (shift : Int) (precision : Nat)
  | est (order bits : Nat)
  deriving Repr, DecidableEq

/-- `config::SubFrameCoding` (the integer-relevant part). -/
structure SubCfg where
  useConstant : Bool
  useFixed : Bool
  useLpc : Bool
  fixedMaxOrder : Nat
  bitCount : Bool        -- `OrderSel::BitCount` (else `ApproxEnt`)
  maxP : Nat
  deriving Repr, DecidableEq

structure StereoCfg where
  useLeftSide : Bool
  useRightSide : Bool
  useMidSide : Bool
  deriving Repr, DecidableEq

def minBlockForPrediction : Nat := 64

/-- `Verbatim::count_bits_from_metadata`. -/
def verbatimBits (n bps : Nat) : Nat := 8 + n * bps

/-- `is_constant`. -/
def isConstant : List Int → Bool
  | [] => true
  | x :: xs => xs.all (· == x)

/-- `encode_residual`: search + split. `none` = a panic site of the Rust code (search assert,
`encode_signbit` overflow). -/
def encodeResidual (maxP : Nat) (errors : List Int) (warm : Nat) : Option Residual := do
  let prc ← search errors warm maxP
  some (Residual.ofErrors errors warm prc.order prc.ps)

/-- First minimum by key (`Iterator::min_by_key` returns the first of several equal minima). -/
def firstMinBy {α : Type} (key : α → Nat) : List α → Option α
  | [] => none
  | x :: xs => some (xs.foldl (fun best y => if key y < key best then y else best) x)

/-- Takes `k` `est` events from the head of the log (`none` if the log does not supply them). -/
def takeEsts : Nat → List OEvent → Option (List Nat × List OEvent)
  | 0, log => some ([], log)
  | k + 1, .est _ b :: log => (takeEsts k log).map fun (bs, l) => (b :: bs, l)
  | _ + 1, _ => none

/-- `fixed_lpc` (before the final size filter of `encode_subframe`). Returns the candidate (if any)
and the rest of the oracle log. -/
def fixedCandidate (cfg : SubCfg) (xs : List Int) (bps baseline : Nat) (log : List OEvent) :
    Option (Option SubFrame × List OEvent) := do
  let norders := min (cfg.fixedMaxOrder + 1) 5
  if cfg.bitCount then
    let cands ← (List.range norders).mapM fun k => do
      let prc ← search (diffs k xs) k cfg.maxP
      some (k, prc, bps * k + prc.codeBits)
    match firstMinBy (fun c => c.2.2) cands with
    | none => some (none, log)
    | some (k, prc, bits) =>
      if bits < baseline then
        some (some (.fixed (xs.take k) (Residual.ofErrors (diffs k xs) k prc.order prc.ps) bps), log)
      else some (none, log)
  else
    let (ests, log) ← takeEsts norders log
    let cands := (List.range norders).map fun k => (k, ests.getD k 0 + bps * k)
    match firstMinBy (fun c => c.2) cands with
    | none => some (none, log)
    | some (k, bits) =>
      if bits < baseline then do
        let res ← encodeResidual cfg.maxP (diffs k xs) k
        some (some (.fixed (xs.take k) res bps), log)
      else some (none, log)

/-- constant.rs `qlpc::MAX_ORDER` (= `MAX_LPC_ORDER` of coding.rs): the capacity of the warm-up vector
`heapless::Vec<i32, MAX_LPC_ORDER>` of an `Lpc` sub-frame.  (Theorems/C09Gen.lean, `maxLpcOrder_gen`, proves it
equal to the constant generated from constant.rs.) -/
def maxLpcOrder : Nat := 24

/-- `estimated_qlpc`: `none` = log-shape mismatch or a panic site; `some (none, _)` = `compute_error`
reported an error value that is not a FLAC residual, the candidate is dropped (`encode_residual` is not
called).  The last panic site is `heapless::Vec::from_slice(&signal[0..order]).expect("LPC order exceeded the
maximum")` (coding.rs:391-392), reached after `encode_residual` has returned: a parameter set of more than
`maxLpcOrder` coefficients does not fit the warm-up vector. -/
def lpcCandidate (cfg : SubCfg) (xs : List Int) (bps : Nat) (log : List OEvent) :
    Option (Option SubFrame × List OEvent) :=
  match log with
  | .qlpc coefs shift precision :: log =>
    (computeError coefs shift.toNat xs).bind fun r =>
      if r.2 then
        (encodeResidual cfg.maxP r.1 coefs.length).bind fun res =>
          if coefs.length ≤ maxLpcOrder then
            some (some (.lpc (xs.take coefs.length) coefs shift precision res bps), log)
          else none
      else some (none, log)
  | _ => none

/-- Keeps a candidate only if its reported size is strictly below `limit`
(`.filter(|x| x.count_bits() < baseline_bits)` / `(candidate.count_bits() < baseline_bits).then_some`). -/
def keepBelow (limit : Nat) (c : Option SubFrame) : Option SubFrame :=
  c.filter fun s => match s.count with | some n => decide (n < limit) | none => false

/-- `baseline_bits` after the fixed candidate (coding.rs:407-409). -/
def baselineAfter (baseline : Nat) (fixed : Option SubFrame) : Nat :=
  match fixed.bind SubFrame.count with
  | some n => min baseline n
  | none => baseline

/-- The fixed-predictor stage of `encode_subframe`. -/
def fixedStage (cfg : SubCfg) (xs : List Int) (bps baseline : Nat) (log : List OEvent) :
    Option (Option SubFrame × List OEvent) :=
  if !(decide (xs.length < minBlockForPrediction)) && cfg.useFixed then
    (fixedCandidate cfg xs bps baseline log).map fun (c, log) => (keepBelow baseline c, log)
  else some (none, log)

/-- The LPC stage of `encode_subframe`. -/
def lpcStage (cfg : SubCfg) (xs : List Int) (bps limit : Nat) (log : List OEvent) :
    Option (Option SubFrame × List OEvent) :=
  if !(decide (xs.length < minBlockForPrediction)) && cfg.useLpc then
    (lpcCandidate cfg xs bps log).map fun (c, log) => (keepBelow limit c, log)
  else some (none, log)

/-- `encode_subframe`. -/
def encodeSubframe (cfg : SubCfg) (xs : List Int) (bps : Nat) (log : List OEvent) :
    Option (SubFrame × List OEvent) :=
  if cfg.useConstant && isConstant xs then
    some (.constant xs.length (xs.headD 0) bps, log)
  else
    let baseline := verbatimBits xs.length bps
    (fixedStage cfg xs bps baseline log).bind fun (fixed, log) =>
    (lpcStage cfg xs bps (baselineAfter baseline fixed) log).bind fun (lpc, log) =>
    some ((lpc.or fixed).getD (.verbatim xs bps), log)

/-- The per-channel loop of `encode_frame_impl`. -/
def encodeChannels (cfg : SubCfg) (asg : ChannelAssignment) (bps : Nat) :
    List (List Int) → Nat → List OEvent → Option (List SubFrame × List OEvent)
  | [], _, log => some ([], log)
  | c :: cs, ch, log => do
    let (s, log) ← encodeSubframe cfg c (bps + asg.bpsOffset ch) log
    let (ss, log) ← encodeChannels cfg asg bps cs (ch + 1) log
    some (s :: ss, log)

def headerFor (asg : ChannelAssignment) (n bps rate number : Nat) : Option FrameHeader := do
  let bss ← BlockSizeSpec.fromSize n
  some { isVariable := false, blockSizeSpec := bss, assignment := asg, sampleSizeTag := sampleSizeTag bps,
         sampleRateSpec := (SampleRateSpec.fromFreq rate).getD .unspecified, frameNumber := number,
         startSample := 0 }

/-- Bits of a stereo recombination given the four subframe sizes (coding.rs:503-520). -/
def stereoCost (cl cr cm cs : Nat) : ChannelAssignment → Nat
  | .leftSide => cl + cs | .rightSide => cr + cs | .midSide => cm + cs | .independent _ => cl + cr

/-- The selection loop of `try_stereo_coding`: starts from left+right, a recombination replaces the
current best only if strictly cheaper (coding.rs:522-529). -/
def chooseStereo (st : StereoCfg) (cl cr cm cs : Nat) : ChannelAssignment :=
  let combos : List (Option ChannelAssignment) :=
    [ if st.useLeftSide then some .leftSide else none,
      if st.useRightSide then some .rightSide else none,
      if st.useMidSide then some .midSide else none ]
  combos.foldl (fun best c =>
    match c with
    | some a => if stereoCost cl cr cm cs a < stereoCost cl cr cm cs best then a else best
    | none => best) (ChannelAssignment.independent 2)

/-- `select_channels`. -/
def selectChannels (l r m s : SubFrame) : ChannelAssignment → SubFrame × SubFrame
  | .leftSide => (l, s) | .rightSide => (s, r) | .midSide => (m, s) | .independent _ => (l, r)

def cnt (s : SubFrame) : Nat := s.count.getD 0

/-- `encode_frame` followed by the frame-number assignment of `encode_fixed_size_frame`.
`chans` = the filled part of each channel of the frame buffer. -/
def encodeFrame (cfg : SubCfg) (st : StereoCfg) (chans : List (List Int)) (bps rate number : Nat)
    (log : List OEvent) : Option (Frame × List OEvent) :=
  let n := (chans.headD []).length
  let nch := chans.length
  (encodeChannels cfg (.independent nch) bps chans 0 log).bind fun (indep, log) =>
  match chans, indep with
  | [l, r], [sl, sr] =>
    let ms := List.zipWith midSide l r
    (encodeChannels cfg .midSide bps [ms.map (·.1), ms.map (·.2)] 0 log).bind fun (msSubs, log) =>
    match msSubs with
    | [sm, ss] =>
      let asg := chooseStereo st (cnt sl) (cnt sr) (cnt sm) (cnt ss)
      let pick := selectChannels sl sr sm ss asg
      (headerFor asg n bps rate number).map fun h => ({ header := h, subframes := [pick.1, pick.2] }, log)
    | _ => none
  | _, _ =>
    if nch = 2 then none else
    (headerFor (.independent nch) n bps rate number).map fun h => ({ header := h, subframes := indep }, log)

end FlacVerif
