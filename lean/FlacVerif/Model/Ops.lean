/-
M6 (second half) — the sequence of `BitSink` operations each component's `write` issues to the
caller's sink (`bitrepr.rs:172-590`), and `write` against a sink that fails on its k-th operation.
Import-free.
-/
import FlacVerif.Model.Sink
import FlacVerif.Model.Component
namespace FlacVerif

/-- `Residual::write`. -/
def Residual.ops (r : Residual) : List Op :=
  .writeLsbs 32 r.order 6 ::
    (List.range r.nparts).flatMap fun k =>
      let p := r.params.getD k 0
      let start := max r.warmup (k * r.partLen)
      let stop := (k + 1) * r.partLen
      .writeLsbs 8 p 4 ::
        (List.range (stop - start)).flatMap fun i =>
          let t := start + i
          [ .writeZeros (r.quotients.getD t 0),
            .writeMsbs 32 (((r.remainders.getD t 0 ||| (1 <<< p)) <<< (32 - (p + 1))) % 2 ^ 32) (p + 1) ]

/-- `SubFrame::write`. -/
def SubFrame.ops : SubFrame → List Op
  | .constant _ dc bps => [.write 8 0, .writeTwoc dc bps]
  | .verbatim xs bps => .write 8 2 :: xs.map (fun x => .writeTwoc x bps)
  | .fixed warm res bps =>
      .write 8 ((0x10 ||| (warm.length <<< 1)) % 256) :: warm.map (fun x => .writeTwoc x bps) ++ res.ops
  | .lpc warm coefs shift precision res bps =>
      .write 8 ((0x40 ||| (((coefs.length - 1) % 256) <<< 1)) % 256) ::
        (warm.take coefs.length).map (fun x => .writeTwoc x bps) ++
        [.writeLsbs 64 (precision - 1) 4, .writeTwoc shift 5] ++
        coefs.map (fun c => .writeTwoc c precision) ++ res.ops

/-- `FrameHeader::write`: the header is assembled in a scratch sink and forwarded as bytes,
followed by its CRC-8. `none` = `RangeError`. -/
def FrameHeader.ops (p8 : CrcParams) (h : FrameHeader) : Option (List Op) := do
  let b ← h.bodyBits
  some [.writeBytesAligned (packBytes b), .write 8 (crcBits p8 b)]

/-- `Frame::write` without a precomputed bitstream: body bytes, then the CRC-16. -/
def Frame.ops (p8 p16 : CrcParams) (f : Frame) : Option (List Op) := do
  let h ← f.header.bits p8
  let body := Frame.padTo8 (h ++ f.subframes.flatMap SubFrame.bits)
  some [.writeBytesAligned (packBytes body), .write 16 (crcBits p16 body)]

/-- `Frame::write` with a precomputed bitstream. -/
def Frame.opsPrecomputed (p8 p16 : CrcParams) (f : Frame) : Option (List Op) := do
  let b ← f.bits p8 p16
  some [.writeBytesAligned (packBytes b)]

/-- `StreamInfo::write`. -/
def StreamInfo.ops (s : StreamInfo) : List Op :=
  let (mn, mx) := if s.minFrame > s.maxFrame then (0, 0) else (s.minFrame, s.maxFrame)
  [ .write 16 (s.minBlock % 2 ^ 16), .write 16 (s.maxBlock % 2 ^ 16),
    .writeLsbs 32 (mn % 2 ^ 32) 24, .writeLsbs 32 (mx % 2 ^ 32) 24,
    .writeLsbs 32 (s.rate % 2 ^ 32) 20, .writeLsbs 8 ((s.channels - 1) % 256) 3,
    .writeLsbs 8 ((s.bps - 1) % 256) 5, .writeLsbs 64 (s.total % 2 ^ 64) 36, .writeBytesAligned s.md5 ]

/-- `MetadataBlock::write` header: type byte and 24-bit length. -/
def blockHeaderOps (isLast : Bool) (tag len : Nat) : List Op :=
  [.write 8 ((tag + if isLast then 0x80 else 0) % 256), .writeLsbs 32 (len % 2 ^ 32) 24]

/-- `Stream::write`. -/
def Stream.ops (p8 p16 : CrcParams) (s : Stream) : Option (List Op) := do
  let frames ← s.frames.mapM (Frame.ops p8 p16)
  let nmeta := s.metadata.length
  let metas := (List.range nmeta).flatMap fun i =>
    let m := s.metadata.getD i ⟨0, []⟩
    blockHeaderOps (i + 1 = nmeta) m.tag m.data.length ++ [.writeBytesAligned m.data]
  some (.writeBytesAligned [0x66, 0x4C, 0x61, 0x43] :: blockHeaderOps (nmeta = 0) 0 34 ++ s.info.ops ++ metas ++ frames.flatten)

/-! ### writing to a sink that fails on its `k`-th required operation -/

inductive WriteOutcome
  | done                       -- `Ok(())`
  | sinkError (accepted : List Op)   -- `Err(OutputError::Sink(_))`, with the operations the sink accepted before
  deriving Repr, DecidableEq

/-- `BitRepr::write` of a component whose operation list (expanded into the operations a sink
implementing only the required trait methods receives) is `ops`, against a sink that returns an
error from its `k`-th call (0-based): every sink error is mapped with `from_sink` and returned
with `?`, so the sink has accepted exactly the first `k` operations. -/
def writeFailing (ops : List Op) (k : Nat) : WriteOutcome :=
  let ex := ops.flatMap Op.expand
  if k < ex.length then .sinkError (ex.take k) else .done

end FlacVerif
