/-
M7 — stream assembly of `encode_with_fixed_block_size` (coding.rs:605-660, par.rs:330-445):
STREAMINFO book-keeping, frame numbering, the MD5 input. Import-free.
-/
import FlacVerif.Model.Component
import FlacVerif.Model.Rfc
namespace FlacVerif

/-- `update_frame_info` with the integer casts of the code (`as u16`, `as u32`). -/
def StreamInfo.addFrameCast (s : StreamInfo) (blockSize frameBits : Nat) : StreamInfo :=
  let b := blockSize % 2 ^ 16
  let f := (frameBits / 8) % 2 ^ 32
  { s with minBlock := min b s.minBlock, maxBlock := max b s.maxBlock,
           minFrame := min f s.minFrame, maxFrame := max f s.maxFrame, total := s.total + b }

/-- STREAMINFO as both encode paths leave it: `set_block_sizes(bs, bs)`, one `add_frame` per frame
(`frames` = (block size, `count_bits`) per frame, in stream order), `set_block_sizes(bs, bs)` again
(fix of F1), `set_md5_digest`, `set_total_samples`. -/
def assembleInfo (rate channels bps bs : Nat) (frames : List (Nat × Nat)) (total : Nat) (md5 : List Nat) : StreamInfo :=
  let s0 := { StreamInfo.empty rate channels bps with minBlock := bs, maxBlock := bs }
  let s1 := frames.foldl (fun s f => s.addFrameCast f.1 f.2) s0
  { s1 with minBlock := bs, maxBlock := bs, md5 := md5, total := total }

/-- The bytes hashed for the MD5 signature: interleaved samples, little endian,
`⌈bps/8⌉` bytes each (`Context::fill_interleaved`: `v.to_le_bytes()[0..bytes_per_sample]`). -/
def md5Input (bps : Nat) (interleaved : List Int) : List Nat :=
  interleaved.flatMap (Rfc.toLeBytes ((bps + 7) / 8))

/-- `Context` after a sequence of `fill_interleaved` calls: (hashed bytes, sample count, frame count).
An empty fill is ignored (source.rs:254-256). -/
structure Ctx where
  hashed : List Nat
  samples : Nat
  frames : Nat
  deriving Repr, DecidableEq

def Ctx.fillInterleaved (c : Ctx) (bps channels : Nat) (block : List Int) : Ctx :=
  if block.isEmpty then c else
  ⟨c.hashed ++ md5Input bps block, c.samples + block.length / channels, c.frames + 1⟩

/-- `Context::fill_le_bytes` (source.rs:267-275). -/
def Ctx.fillLeBytes (c : Ctx) (channels bytesPerSample : Nat) (bytes : List Nat) : Ctx :=
  if bytes.isEmpty then c else
  ⟨c.hashed ++ bytes, c.samples + bytes.length / channels / bytesPerSample, c.frames + 1⟩

end FlacVerif
