/-
Helper lemmas for C13, part 1: the `u32` table arithmetic of the partitioned-Rice parameter search
(`Table.fromErrors`, `Table.merge`, `Table.minimizer`) computes saturated partition costs.
-/
import FlacVerif.Model.Rice
namespace FlacVerif
namespace RiceSearch

/-! ### generic list facts -/

theorem foldl_add_eq (l : List Nat) (a : Nat) : l.foldl (· + ·) a = a + l.sum := by
  induction l generalizing a with
  | nil => simp
  | cons x l ih => simp only [List.foldl_cons, List.sum_cons, ih]; omega

theorem getD_map_range {α : Type} (f : Nat → α) (n p : Nat) (d : α) (hp : p < n) :
    ((List.range n).map f).getD p d = f p := by
  simp [List.getD_eq_getElem?_getD, List.getElem?_range hp]

theorem sum_map_le (l : List Nat) (f g : Nat → Nat) (h : ∀ x ∈ l, f x ≤ g x) :
    (l.map f).sum ≤ (l.map g).sum := by
  induction l with
  | nil => simp
  | cons x l ih =>
    simp only [List.map_cons, List.sum_cons]
    have h1 := h x (by simp)
    have h2 := ih (fun y hy => h y (by simp [hy]))
    omega

theorem le_foldl_max (l : List Nat) (a : Nat) : a ≤ l.foldl max a := by
  induction l generalizing a with
  | nil => simp
  | cons x l ih => exact Nat.le_trans (Nat.le_max_left _ _) (ih _)

theorem mem_le_foldl_max (l : List Nat) (a x : Nat) (hx : x ∈ l) : x ≤ l.foldl max a := by
  induction l generalizing a with
  | nil => cases hx
  | cons y l ih =>
    simp only [List.foldl_cons]
    rcases List.mem_cons.mp hx with h | h
    · subst h; exact Nat.le_trans (Nat.le_max_right _ _) (le_foldl_max l _)
    · exact ih _ h

theorem foldl_min_le (l : List Nat) (a : Nat) : l.foldl min a ≤ a := by
  induction l generalizing a with
  | nil => simp
  | cons x l ih => exact Nat.le_trans (ih _) (Nat.min_le_left _ _)

theorem foldl_min_le_mem (l : List Nat) (a x : Nat) (hx : x ∈ l) : l.foldl min a ≤ x := by
  induction l generalizing a with
  | nil => cases hx
  | cons y l ih =>
    simp only [List.foldl_cons]
    rcases List.mem_cons.mp hx with h | h
    · subst h; exact Nat.le_trans (foldl_min_le l _) (Nat.min_le_right _ _)
    · exact ih _ h

theorem foldl_min_mem (l : List Nat) (a : Nat) : l.foldl min a = a ∨ l.foldl min a ∈ l := by
  induction l generalizing a with
  | nil => simp
  | cons x l ih =>
    simp only [List.foldl_cons]
    rcases ih (min a x) with h | h
    · rw [h]
      rcases Nat.le_total a x with hax | hax
      · left; exact Nat.min_eq_left hax
      · right; rw [Nat.min_eq_right hax]; simp
    · right; exact List.mem_cons_of_mem _ h

/-! ### saturation and the cost function -/

/-- Saturation at `maxPToBits = 2^28 - 1`. -/
def sat (x : Nat) : Nat := min x maxPToBits

/-- Sum of the Rice quotients. -/
def qsum (p : Nat) : List Nat → Nat
  | [] => 0
  | e :: es => (e >>> p) + qsum p es

/-- The table the implementation is supposed to hold for the errors `es`. -/
def satTable (es : List Nat) : Table := (List.range 16).map fun p => sat (partCost p es)

theorem qsum_append (p : Nat) (x y : List Nat) : qsum p (x ++ y) = qsum p x + qsum p y := by
  induction x with
  | nil => simp [qsum]
  | cons e x ih => simp only [List.cons_append, qsum, ih]; omega

theorem partCost_eq (p : Nat) (es : List Nat) :
    partCost p es = 4 + qsum p es + es.length * (p + 1) := by
  unfold partCost
  rw [foldl_add_eq]
  induction es with
  | nil => simp [qsum]
  | cons e es ih =>
    simp only [List.map_cons, List.sum_cons, qsum, List.length_cons, Nat.add_mul] at ih ⊢
    omega

theorem partCost_ge (p : Nat) (es : List Nat) : 4 ≤ partCost p es := by
  rw [partCost_eq]; omega

theorem partCost_append (p : Nat) (x y : List Nat) :
    partCost p (x ++ y) + 4 = partCost p x + partCost p y := by
  simp only [partCost_eq, qsum_append, List.length_append, Nat.add_mul]; omega

theorem sat_le (x : Nat) : sat x ≤ x := by unfold sat; omega
theorem sat_le_max (x : Nat) : sat x ≤ 2 ^ 28 - 1 := by unfold sat maxPToBits; omega
theorem sat_eq_of_lt (x : Nat) (h : sat x < 2 ^ 28 - 1) : sat x = x := by
  unfold sat maxPToBits at *; omega
theorem sat_mono {x y : Nat} (h : x ≤ y) : sat x ≤ sat y := by unfold sat; omega

theorem satTable_getD (es : List Nat) (p : Nat) (hp : p < 16) :
    (satTable es).getD p 0 = sat (partCost p es) := getD_map_range _ _ _ _ hp

theorem satTable_length (es : List Nat) : (satTable es).length = 16 := by simp [satTable]

/-! ### `from_errors` -/

theorem shiftRight_lt (e p b : Nat) (h : e < b) : e >>> p < b := by
  rw [Nat.shiftRight_eq_div_pow]
  exact Nat.lt_of_le_of_lt (Nat.div_le_self _ _) h

/-- Slow path: element-wise saturating accumulation is the saturated sum. -/
theorem accSlow_fold (p : Nat) (es : List Nat) (a : Nat) (ha : a ≤ 2 ^ 28 - 1) :
    es.foldl (fun a e => min ((a + min (e >>> p) maxPToBits) % u32) maxPToBits) a
      = sat (a + qsum p es) := by
  induction es generalizing a with
  | nil => simp only [List.foldl_nil, qsum, sat, maxPToBits]; omega
  | cons e es ih =>
    simp only [List.foldl_cons, qsum]
    have hstep : min ((a + min (e >>> p) maxPToBits) % u32) maxPToBits = sat (a + (e >>> p)) := by
      unfold sat maxPToBits u32
      have : a + min (e >>> p) (2 ^ 28 - 1) < 2 ^ 32 := by omega
      rw [Nat.mod_eq_of_lt this]; omega
    rw [hstep, ih _ (sat_le_max _)]
    unfold sat maxPToBits; omega

/-- One chunk of the fast path does not wrap. -/
theorem chunk_fold (p : Nat) (chunk : List Nat) (a : Nat)
    (hb : a + 2 ^ 27 * chunk.length < 2 ^ 32) (hc : ∀ e ∈ chunk, e < 2 ^ 27) :
    chunk.foldl (fun a e => (a + (e >>> p)) % u32) a = a + qsum p chunk := by
  induction chunk generalizing a with
  | nil => simp [qsum]
  | cons e chunk ih =>
    simp only [List.foldl_cons, qsum, List.length_cons] at hb ⊢
    have he : e >>> p < 2 ^ 27 := shiftRight_lt _ _ _ (hc e (by simp))
    have h1 : a + (e >>> p) < 2 ^ 32 := by omega
    unfold u32
    rw [Nat.mod_eq_of_lt h1]
    have := ih (a + (e >>> p)) (by omega) (fun x hx => hc x (by simp [hx]))
    unfold u32 at this
    rw [this]; omega

/-- Fast path: per-chunk clamping equals saturating the total. -/
theorem accFast_go (p : Nat) (fuel : Nat) (rest : List Nat) (acc : Nat)
    (hf : rest.length < fuel) (ha : acc ≤ 2 ^ 28 - 1) (hc : ∀ e ∈ rest, e < 2 ^ 27) :
    Table.accFast.go p acc rest fuel = sat (acc + qsum p rest) := by
  induction fuel generalizing rest acc with
  | zero => omega
  | succ fuel ih =>
    unfold Table.accFast.go
    cases rest with
    | nil => simp only [List.isEmpty_nil, ↓reduceIte, qsum, sat, maxPToBits]; omega
    | cons e rest =>
      simp only [List.isEmpty_cons, Bool.false_eq_true, ↓reduceIte]
      have hlen : ((e :: rest).take 16).length ≤ 16 := by
        rw [List.length_take]; omega
      have hchunk := chunk_fold p ((e :: rest).take 16) acc (by omega)
        (fun x hx => hc x (List.mem_of_mem_take hx))
      rw [hchunk]
      have hq : qsum p (e :: rest) = qsum p ((e :: rest).take 16) + qsum p ((e :: rest).drop 16) := by
        rw [← qsum_append, List.take_append_drop]
      have hmin : min (acc + qsum p ((e :: rest).take 16)) maxPToBits
          = sat (acc + qsum p ((e :: rest).take 16)) := rfl
      rw [hmin, ih ((e :: rest).drop 16) _ (by rw [List.length_drop]; simp only [List.length_cons] at hf ⊢; omega)
        (sat_le_max _) (fun x hx => hc x (List.mem_of_mem_drop hx)), hq]
      unfold sat maxPToBits; omega

theorem accSlow_getD (es : List Nat) (p : Nat) (hp : p < 16) :
    (Table.accSlow es).getD p 0 = sat (qsum p es) := by
  unfold Table.accSlow
  rw [getD_map_range _ _ _ _ hp, accSlow_fold p es 0 (by omega)]
  simp

theorem accFast_getD (es : List Nat) (p : Nat) (hp : p < 16) (hc : ∀ e ∈ es, e < 2 ^ 27) :
    (Table.accFast es).getD p 0 = sat (qsum p es) := by
  unfold Table.accFast
  rw [getD_map_range _ _ _ _ hp, accFast_go p _ es 0 (by omega) (by omega) hc]
  simp

/-- (1) `from_errors(errors, 4)` is the saturated cost table, for fewer than `2^16` errors. -/
theorem fromErrors_eq (es : List Nat) (hlen : es.length < 2 ^ 16) :
    Table.fromErrors es 4 = satTable es := by
  unfold Table.fromErrors satTable
  apply List.map_congr_left
  intro p hp
  have hp : p < 16 := List.mem_range.mp hp
  have hacc : (if es.foldl max 0 ≥ 2 ^ 27 then Table.accSlow es else Table.accFast es).getD p 0
      = sat (qsum p es) := by
    split
    · exact accSlow_getD es p hp
    · rename_i h
      exact accFast_getD es p hp (fun e he => by
        have := mem_le_foldl_max es 0 e he
        omega)
  have hn : es.length % u32 = es.length := Nat.mod_eq_of_lt (by unfold u32; omega)
  simp only [] at hacc ⊢
  rw [hacc, partCost_eq, hn]
  have ht : es.length * (p + 1) ≤ 2 ^ 16 * 16 := Nat.mul_le_mul (by omega) (by omega)
  generalize es.length * (p + 1) = t at ht ⊢
  generalize qsum p es = q
  unfold sat maxPToBits u32
  omega

/-! ### `merge` -/

/-- (2) merging the saturated tables of two adjacent partitions gives the saturated table of the
concatenation. -/
theorem merge_eq (x y : List Nat) :
    Table.merge (satTable x) (satTable y) 4 = satTable (x ++ y) := by
  unfold Table.merge
  conv => rhs; unfold satTable
  apply List.map_congr_left
  intro p hp
  have hp : p < 16 := List.mem_range.mp hp
  rw [satTable_getD x p hp, satTable_getD y p hp]
  have h1 := partCost_ge p x
  have h2 := partCost_ge p y
  have h3 := partCost_append p x y
  generalize partCost p x = cx at *
  generalize partCost p y = cy at *
  generalize partCost p (x ++ y) = cz at *
  unfold sat maxPToBits u32
  omega

/-! ### `minimizer` -/

theorem pack_val (b p : Nat) (hb : b < 2 ^ 28) (hp : p < 16) :
    ((b <<< 4) % u32) ||| p = b * 16 + p := by
  have h1 : b <<< 4 = b * 16 := by rw [Nat.shiftLeft_eq]
  have h2 : (b <<< 4) % u32 = b <<< 4 := Nat.mod_eq_of_lt (by rw [h1]; unfold u32; omega)
  rw [h2, ← Nat.shiftLeft_add_eq_or_of_lt (by omega : p < 2 ^ 4), h1]

theorem pack_max (p : Nat) (hp : p < 16) :
    (((u32 - 1) <<< 4) % u32) ||| p = (2 ^ 28 - 1) * 16 + p := by
  have : ((u32 - 1) <<< 4) % u32 = ((2 ^ 28 - 1) <<< 4) % u32 := by decide
  rw [this, pack_val _ p (by omega) hp]

/-- (3) `minimizer` returns an index `≤ maxP` with its table entry, and the entry is minimal among
the indices `≤ maxP`; requires entries below `2^28` (no bits lost in the packing). -/
theorem minimizer_spec (t : Table) (maxP : Nat) (ht : ∀ p, p < 16 → t.getD p 0 < 2 ^ 28) :
    (t.minimizer maxP).1 ≤ maxP ∧ (t.minimizer maxP).1 < 16 ∧
    (t.minimizer maxP).2 = t.getD (t.minimizer maxP).1 0 ∧
    ∀ p, p ≤ maxP → p < 16 → (t.minimizer maxP).2 ≤ t.getD p 0 := by
  -- uniform description of the packed words
  let b' : Nat → Nat := fun p => if p ≤ maxP then t.getD p 0 else 2 ^ 28 - 1
  have hb' : ∀ p, p < 16 → b' p < 2 ^ 28 := by
    intro p hp; simp only [b']; split
    · exact ht p hp
    · omega
  have hpacked : (List.range 16).map (fun p =>
      ((((if p ≤ maxP then t.getD p 0 else u32 - 1)) <<< 4) % u32) ||| p)
      = (List.range 16).map (fun p => b' p * 16 + p) := by
    apply List.map_congr_left
    intro p hp
    have hp : p < 16 := List.mem_range.mp hp
    simp only [b']
    split
    · exact pack_val _ p (ht p hp) hp
    · exact pack_max p hp
  unfold Table.minimizer
  simp only [hpacked]
  generalize hm : ((List.range 16).map (fun p => b' p * 16 + p)).foldl min (u32 - 1) = m
  have hle : ∀ p, p < 16 → m ≤ b' p * 16 + p := by
    intro p hp
    rw [← hm]
    apply foldl_min_le_mem
    exact List.mem_map.mpr ⟨p, List.mem_range.mpr hp, rfl⟩
  have h0 : b' 0 = t.getD 0 0 := by simp [b']
  have hm0 := hle 0 (by omega)
  have ht0 := ht 0 (by omega)
  have hmem : m ∈ (List.range 16).map (fun p => b' p * 16 + p) := by
    rcases foldl_min_mem ((List.range 16).map (fun p => b' p * 16 + p)) (u32 - 1) with h | h
    · rw [hm] at h; unfold u32 at h; omega
    · rw [hm] at h; exact h
  obtain ⟨q, hq, hmq⟩ := List.mem_map.mp hmem
  have hq : q < 16 := List.mem_range.mp hq
  have hbq := hb' q hq
  have hmod : m % 16 = q := by omega
  have hdiv : m >>> 4 = b' q := by rw [Nat.shiftRight_eq_div_pow]; omega
  simp only [hmod, hdiv]
  have hqle : q ≤ maxP := by
    by_cases h : q ≤ maxP
    · exact h
    · have : b' q = 2 ^ 28 - 1 := by simp [b', h]
      omega
  have hbq' : b' q = t.getD q 0 := by simp [b', hqle]
  refine ⟨hqle, hq, hbq', ?_⟩
  intro p hp hp16
  have := hle p hp16
  have hbp : b' p = t.getD p 0 := by simp [b', hp]
  omega

theorem satTable_lt (es : List Nat) (p : Nat) (hp : p < 16) : (satTable es).getD p 0 < 2 ^ 28 := by
  rw [satTable_getD es p hp]
  have := sat_le_max (partCost p es)
  omega

/-- `minimizer` on a saturated table. -/
theorem minimizer_satTable (es : List Nat) (maxP : Nat) :
    ((satTable es).minimizer maxP).1 ≤ maxP ∧ ((satTable es).minimizer maxP).1 < 16 ∧
    ((satTable es).minimizer maxP).2 = sat (partCost ((satTable es).minimizer maxP).1 es) ∧
    ∀ p, p ≤ maxP → p < 16 → ((satTable es).minimizer maxP).2 ≤ sat (partCost p es) := by
  obtain ⟨h1, h2, h3, h4⟩ := minimizer_spec (satTable es) maxP (satTable_lt es)
  refine ⟨h1, h2, ?_, ?_⟩
  · rw [h3, satTable_getD es _ h2]
  · intro p hp hp16
    rw [← satTable_getD es p hp16]
    exact h4 p hp hp16

end RiceSearch
end FlacVerif
