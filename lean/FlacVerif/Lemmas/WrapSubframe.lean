/-
Wrapping decoder (C01, release build), part 4: `SubFrame::decode()` of the release build returns the
input block for every sub-frame `encode_subframe` can return — for every oracle log satisfying
`OEvent.Ok`.
-/
import FlacVerif.Lemmas.WrapLpc
import FlacVerif.Lemmas.StrictSubframe
namespace FlacVerif
namespace Wrap
open Repo

theorem i32_of_inRange (bps : Nat) (hb : bps ≤ 32) (x : Int) (hx : SubFrame.inRange bps x = true) :
    -(2 ^ 31 : Int) ≤ x ∧ x < 2 ^ 31 := by
  have := (Strict.inRange_iff bps x).1 hx
  have hcast1 : ((2 : Int) ^ (bps - 1)) = ((2 ^ (bps - 1) : Nat) : Int) := (Int.natCast_pow 2 (bps - 1)).symm
  have hle : (2 : Nat) ^ (bps - 1) ≤ 2 ^ 31 := Nat.pow_le_pow_right (by decide) (by omega)
  rw [hcast1] at this
  omega

theorem coef_bound (precision : Nat) (hp : precision ≤ 15) (c : Int) (hc : SubFrame.inRange precision c = true) :
    -(2 ^ 15 : Int) ≤ c ∧ c ≤ 2 ^ 15 := by
  have := (Strict.inRange_iff precision c).1 hc
  have hcast1 : ((2 : Int) ^ (precision - 1)) = ((2 ^ (precision - 1) : Nat) : Int) :=
    (Int.natCast_pow 2 (precision - 1)).symm
  have hle : (2 : Nat) ^ (precision - 1) ≤ 2 ^ 14 := Nat.pow_le_pow_right (by decide) (by omega)
  rw [hcast1] at this
  omega

theorem fixedCoefs_facts (k : Nat) (hk : k ≤ 4) :
    Repo.fixedCoefs[k]? = some (FlacVerif.fixedCoefs k) ∧ (FlacVerif.fixedCoefs k).length = k ∧
    ∀ c ∈ FlacVerif.fixedCoefs k, -(2 ^ 15 : Int) ≤ c ∧ c ≤ 2 ^ 15 := by
  have : k = 0 ∨ k = 1 ∨ k = 2 ∨ k = 3 ∨ k = 4 := by omega
  rcases this with rfl | rfl | rfl | rfl | rfl <;> decide

theorem decode_fixed (cfg : SubCfg) (xs : List Int) (bps : Nat) (s : SubFrame)
    (hn : 64 ≤ xs.length) (hlen : xs.length < 2 ^ 16) (hb : 1 ≤ bps ∧ bps ≤ 25)
    (hx : ∀ x ∈ xs, SubFrame.inRange bps x = true) (hmax : cfg.maxP ≤ 14)
    (hs : Strict.FixedShape cfg xs bps s) : decodeSubframe false s = .ok xs := by
  obtain ⟨k, prc, hk4, hsearch, rfl⟩ := hs
  obtain ⟨hdl, hdr, hdd⟩ := Strict.diffs_fixed bps hb xs hx k hk4 (by omega)
  obtain ⟨_, h15, hpl, hdvd, hw, hp⟩ := Strict.search_space (diffs k xs) k cfg.maxP prc
    (Strict.fits_of_range _ hdr) (by rw [hdl]; omega) (by rw [hdl]; exact hlen) hmax hsearch
  obtain ⟨hidx, hcl, hcb⟩ := fixedCoefs_facts k hk4
  have hwl : (xs.take k).length = k := by rw [List.length_take]; omega
  unfold decodeSubframe
  simp only [idx, hwl, hidx, DResult.ok_bind]
  have hed : (diffs k xs).drop (FlacVerif.fixedCoefs k).length =
      (lpcResidual (FlacVerif.fixedCoefs k) 0 xs).map wrap32 := by
    rw [hcl, hdd]
    unfold fixedResidual
    symm
    have hmem : ∀ e ∈ lpcResidual (FlacVerif.fixedCoefs k) 0 xs, wrap32 e = e := by
      intro e he
      have h1 : e ∈ (diffs k xs).drop k := by rw [hdd]; exact he
      have := hdr e (List.mem_of_mem_drop h1)
      exact wrap32_id e (by omega) this.2
    calc (lpcResidual (FlacVerif.fixedCoefs k) 0 xs).map wrap32
        = (lpcResidual (FlacVerif.fixedCoefs k) 0 xs).map id := List.map_congr_left hmem
      _ = _ := List.map_id _
  have := decodeLpc_wrap xs (diffs k xs) (FlacVerif.fixedCoefs k) 0 prc.order prc.ps (by decide) (by omega) hcb
    (fun x hxm => i32_of_inRange bps (by omega) x (hx x hxm)) hdl (by omega) hed h15 hpl hdvd
    (by rw [hcl]; exact hw) hp hdr
  rw [hcl] at this
  exact this

theorem decode_lpc (cfg : SubCfg) (xs : List Int) (bps : Nat) (log : List OEvent) (s : SubFrame)
    (hn : 64 ≤ xs.length) (hlen : xs.length < 2 ^ 16) (hb : 1 ≤ bps ∧ bps ≤ 32)
    (hx : ∀ x ∈ xs, SubFrame.inRange bps x = true) (hmax : cfg.maxP ≤ 14)
    (hlog : ∀ e ∈ log, e.Ok) (hs : Strict.LpcShape cfg xs bps log s) : decodeSubframe false s = .ok xs := by
  obtain ⟨coefs, shift, precision, errors, prc, hmem, hce, hsearch, rfl⟩ := hs
  obtain ⟨hc1, hc32, hp1, hp15, hs0, hs15, hcr⟩ := hlog _ hmem
  replace hc32 : coefs.length ≤ 32 := by unfold maxLpcOrder at hc32; omega
  obtain ⟨hel, hef, hed⟩ := computeError_wrap coefs shift.toNat xs errors hce
  obtain ⟨herr, h15, hpl, hdvd, hw, hp⟩ := Strict.search_space errors coefs.length cfg.maxP prc hef
    (by rw [hel]; omega) (by rw [hel]; exact hlen) hmax hsearch
  unfold decodeSubframe
  have := decodeLpc_wrap xs errors coefs shift.toNat prc.order prc.ps (by omega) hc32
    (fun c hc => coef_bound precision hp15 c (hcr c hc))
    (fun x hxm => i32_of_inRange bps hb.2 x (hx x hxm)) hel (by omega) hed h15 hpl hdvd hw hp herr
  rw [Int.toNat_of_nonneg hs0] at this
  exact this

/-- Sub-frame level: the release-build decoder inverts `encode_subframe` for every admissible oracle. -/
theorem decodeSubframe_wrap (cfg : SubCfg) (xs : List Int) (bps : Nat) (log log' : List OEvent) (s : SubFrame)
    (hlen : xs.length < 2 ^ 16) (hb : 1 ≤ bps ∧ bps ≤ 25)
    (hx : ∀ x ∈ xs, SubFrame.inRange bps x = true) (hmax : cfg.maxP ≤ 14)
    (hlog : ∀ e ∈ log, e.Ok)
    (h : encodeSubframe cfg xs bps log = some (s, log')) : decodeSubframe false s = .ok xs := by
  rcases Strict.encodeSubframe_shape cfg xs bps log log' s h with ⟨hc, rfl⟩ | rfl | ⟨h64, hs⟩ | ⟨h64, log1, hsub, hs⟩
  · show DResult.ok (List.replicate xs.length (xs.headD 0)) = DResult.ok xs
    rw [← Strict.isConstant_replicate xs hc]
  · rfl
  · exact decode_fixed cfg xs bps s h64 hlen hb hx hmax hs
  · exact decode_lpc cfg xs bps log1 s h64 hlen ⟨hb.1, by omega⟩ hx hmax (fun e he => hlog e (hsub e he)) hs

end Wrap
end FlacVerif
