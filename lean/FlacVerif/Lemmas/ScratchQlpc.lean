/-
Helper lemmas for C10, site 2: `QLPC_ERROR_BUFFER` (`Scratch.qlpcErrors`) against the stateless
`computeError`. Core Lean only.
-/
import FlacVerif.Model.Scratch
import FlacVerif.Lemmas.ScratchFinder
namespace FlacVerif.Scratch
open FlacVerif

theorem mapM_congr_mem {α β : Type} (f g : α → Option β) (l : List α) (h : ∀ a ∈ l, f a = g a) :
    l.mapM f = l.mapM g := by
  induction l with
  | nil => rfl
  | cons a l ih =>
    rw [List.mapM_cons, List.mapM_cons, h a (by simp), ih (fun b hb => h b (by simp [hb]))]

@[simp] theorem vecFill_length {α : Type} (xs : List α) (v : α) : (vecFill xs v).length = xs.length := by
  simp [vecFill]

/-- After `fill(0)` every cell reads zero (also "past the end", where the default is zero). -/
theorem vecFill_getD (xs : List Int) (t : Nat) : (vecFill xs 0).getD t 0 = 0 := by
  simp only [vecFill, List.getD_eq_getElem?_getD, List.getElem?_map]
  cases xs[t]? <;> rfl

/-- `compute_error_impl::<i32>` on a buffer of the right length: `errors.fill(0)` removes every
trace of the old contents. -/
theorem computeErrorImpl32_eq (coefs : List Int) (shift : Nat) (xs errors : List Int)
    (h : errors.length = xs.length) :
    computeErrorImpl32 coefs shift xs errors = computeError32 coefs shift xs := by
  unfold computeErrorImpl32 computeError32From computeError32
  simp only [vecFill_length, h]
  apply mapM_congr_mem
  intro t ht
  have ht' : t < xs.length := by simpa using ht
  rw [if_neg (by omega), vecFill_getD]

theorem computeError64_length (coefs : List Int) (shift : Nat) (xs : List Int) :
    (computeError64 coefs shift xs).length = xs.length := by
  simp [computeError64]

theorem zipOverwrite_full {α : Type} (src dest : List α) (h : dest.length = src.length) :
    zipOverwrite src dest = src := by
  unfold zipOverwrite
  rw [List.take_of_length_le (by omega), List.drop_of_length_le (by omega), List.append_nil]

/-- `compute_error` on a caller buffer of exactly `signal.len()` cells. -/
theorem computeErrorInto_eq (coefs : List Int) (shift : Nat) (xs errors : List Int)
    (h : errors.length = xs.length) :
    computeErrorInto coefs shift xs errors = computeError coefs shift xs := by
  unfold computeErrorInto computeError
  rw [if_neg (by omega)]
  simp only []
  split
  · rw [computeErrorImpl32_eq coefs shift xs errors h]
  · rw [zipOverwrite_full _ _ (by rw [computeError64_length, h])]

theorem qlpcErrors_eq (stale : List Int) (coefs : List Int) (shift : Nat) (signal : List Int) :
    qlpcErrors stale coefs shift signal = computeError coefs shift signal := by
  unfold qlpcErrors
  exact computeErrorInto_eq coefs shift signal _ (vecResize_length _ _ _)

end FlacVerif.Scratch
