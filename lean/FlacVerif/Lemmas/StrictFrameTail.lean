/-
Strict round trip (C01/C02), part 14: the end of a frame — zero padding, CRC-16, channel
reconstruction and the final range check.
-/
import FlacVerif.Lemmas.StrictFrameLoop
import FlacVerif.Lemmas.StrictBytes
namespace FlacVerif
namespace Strict
open Rfc
open Repo (crc16_lt crc8_lt)

/-- Channel reconstruction as `readFrame` does it. -/
def reconstruct (chCode : Nat) (raw : List (List Int)) : List (List Int) :=
  if chCode < 8 then raw
  else
    let a := raw.getD 0 []
    let c := raw.getD 1 []
    let pairs := List.zipWith (fun x y =>
      if chCode = 8 then unLeftSide x y else if chCode = 9 then unRightSide x y else unMidSide x y) a c
    [pairs.map (·.1), pairs.map (·.2)]

theorem any_any_inRange (b : Nat) (chans : List (List Int))
    (h : ∀ c ∈ chans, ∀ x ∈ c, SubFrame.inRange b x = true) :
    (chans.any fun c => c.any fun x => !Rfc.inRange b x) = false := by
  rw [List.any_eq_false]
  intro c hc
  rw [all_inRange b c (h c hc)]
  simp

theorem replicate_any_false (n : Nat) : (List.replicate n false).any id = false := by
  rw [List.any_eq_false]
  intro x hx
  rw [List.eq_of_mem_replicate hx]; simp

theorem frameTail_ok (PRE PAD body fb : Bits) (more : List Nat) (number n b chCode bsCode srCode ssCode : Nat)
    (subs : List SubRep) (chans : List (List Int))
    (hpad : PAD = List.replicate ((8 - PRE.length % 8) % 8) false) (hbody : body = PRE ++ PAD)
    (hfb : fb = body ++ natToBits 16 (crcBits rfcCrc16 body))
    (hrec : reconstruct chCode (subs.reverse.map (·.samples)) = chans)
    (hrange : ∀ c ∈ chans, ∀ x ∈ c, SubFrame.inRange b x = true) :
    frameTail (fb ++ bytesToBits more).length (packBytes fb ++ more) number n b chCode bsCode srCode ssCode
        (PAD ++ (natToBits 16 (crcBits rfcCrc16 body) ++ bytesToBits more), subs) =
      .ok (⟨number, n, body.length / 8 + 2, chCode, bsCode, srCode, ssCode, subs.reverse, chans⟩, more,
        bytesToBits more) := by
  have hpl : PAD.length = (8 - PRE.length % 8) % 8 := by rw [hpad]; simp
  have hbl : body.length = PRE.length + PAD.length := by rw [hbody]; simp
  have hb8 : body.length % 8 = 0 := by omega
  have hfl : fb.length = body.length + 16 := by rw [hfb]; simp
  have hcons : (fb ++ bytesToBits more).length -
      (PAD ++ (natToBits 16 (crcBits rfcCrc16 body) ++ bytesToBits more)).length = PRE.length := by
    simp only [List.length_append, natToBits_length, hfl]
    omega
  unfold frameTail
  simp only []
  rw [hcons, ← hpl, takeBits_append PAD _ _ _ rfl]
  simp only [ok_bind]
  have hany : PAD.any id = false := by rw [hpad]; exact replicate_any_false _
  rw [hany]
  simp only [Bool.false_eq_true, if_false]
  rw [readNat_natToBits_lt 16 _ _ _ (crc16_lt body)]
  simp only [ok_bind]
  have hbl2 : (PRE.length + PAD.length) / 8 = body.length / 8 := by rw [hbl]
  rw [hbl2]
  have htake : (packBytes fb ++ more).take (body.length / 8) = packBytes body := by
    rw [hfb]; exact take_packBytes body _ more hb8
  have hcrc : crc rfcCrc16 (packBytes body) = crcBits rfcCrc16 body := by
    unfold crc; rw [(bits_as_bytes body hb8).1]
  rw [htake, hcrc]
  simp only [ne_eq, not_true_eq_false, if_false]
  have hchans : (if chCode < 8 then subs.reverse.map (·.samples)
      else
        [(List.zipWith (fun x y =>
            if chCode = 8 then unLeftSide x y else if chCode = 9 then unRightSide x y else unMidSide x y)
          ((subs.reverse.map (·.samples)).getD 0 []) ((subs.reverse.map (·.samples)).getD 1 [])).map (·.1),
         (List.zipWith (fun x y =>
            if chCode = 8 then unLeftSide x y else if chCode = 9 then unRightSide x y else unMidSide x y)
          ((subs.reverse.map (·.samples)).getD 0 []) ((subs.reverse.map (·.samples)).getD 1 [])).map (·.2)]) = chans :=
    hrec
  rw [hchans, any_any_inRange b chans hrange]
  simp only [Bool.false_eq_true, if_false, pure_eq]
  have hdrop : (packBytes fb ++ more).drop (body.length / 8 + 2) = more := by
    have h8 : fb.length % 8 = 0 := by omega
    have hl := (bits_as_bytes fb h8).2
    rw [List.drop_append_of_le_length (by omega), List.drop_of_length_le (by omega)]
    rfl
  rw [hdrop]

end Strict
end FlacVerif
