/-
Strict round trip (C01/C02), part 16: `Frame.bits` against `Rfc.readFrame` (component level): the
header, the coded number, the extra fields, then `frameBody_ok`.
-/
import FlacVerif.Lemmas.StrictFrameBody
import FlacVerif.Theorems.C02
import FlacVerif.Lemmas.CountFrame
namespace FlacVerif
namespace Strict
open Rfc
open Repo (crc16_lt crc8_lt header_fixed_bits bytesToBits_length)

/-! ### the optional extra fields of the header -/

theorem bsExtra_read (bss : BlockSizeSpec) (k : Bits)
    (hcons : blockSizeOfCode bss.tag (C02.bsExtra bss) = bss.blockSize)
    (h6 : bss.tag = 6 → C02.bsExtra bss < 2 ^ 8) (h7 : bss.tag = 7 → C02.bsExtra bss < 2 ^ 16) :
    (if bss.tag = 6 then readNat 8 (bss.extraBits ++ k) "block size byte"
      else if bss.tag = 7 then readNat 16 (bss.extraBits ++ k) "block size word"
      else pure (0, bss.extraBits ++ k)) = .ok (C02.bsExtra bss, k) := by
  cases bss with
  | reserved => rfl
  | s192 => rfl
  | pow2Mul576 x =>
    have hp := Nat.two_pow_pos x
    have ht : (BlockSizeSpec.pow2Mul576 x).tag = 2 + x := rfl
    have h6' : ¬ (BlockSizeSpec.pow2Mul576 x).tag = 6 := by
      intro h
      rw [h] at hcons
      simp [BlockSizeSpec.blockSize, blockSizeOfCode, C02.bsExtra] at hcons
      omega
    have h7' : ¬ (BlockSizeSpec.pow2Mul576 x).tag = 7 := by
      intro h
      rw [h] at hcons
      simp [BlockSizeSpec.blockSize, blockSizeOfCode, C02.bsExtra] at hcons
      omega
    rw [if_neg h6', if_neg h7']; rfl
  | extraByte v =>
    have ht : (BlockSizeSpec.extraByte v).tag = 6 := rfl
    rw [if_pos ht]
    exact readNat_natToBits_lt 8 v k _ (h6 ht)
  | extraTwoBytes v =>
    have ht : (BlockSizeSpec.extraTwoBytes v).tag = 7 := rfl
    rw [if_neg (by rw [ht]; decide), if_pos ht]
    exact readNat_natToBits_lt 16 v k _ (h7 ht)
  | pow2Mul256 x =>
    have ht : (BlockSizeSpec.pow2Mul256 x).tag = 8 + x := rfl
    rw [if_neg (by rw [ht]; omega), if_neg (by rw [ht]; omega)]; rfl

theorem srExtra_read (srs : SampleRateSpec) (k : Bits)
    (hfix : ∀ t, srs = .fixed t → t ≤ 11)
    (h12 : srs.tag = 12 → C02.srExtra srs < 2 ^ 8) (h13 : srs.tag = 13 ∨ srs.tag = 14 → C02.srExtra srs < 2 ^ 16) :
    (if srs.tag = 12 then readNat 8 (srs.extraBits ++ k) "sample rate byte"
      else if srs.tag = 13 ∨ srs.tag = 14 then readNat 16 (srs.extraBits ++ k) "sample rate word"
      else pure (0, srs.extraBits ++ k)) = .ok (C02.srExtra srs, k) := by
  cases srs with
  | unspecified => rfl
  | fixed t =>
    have := hfix t rfl
    have ht : (SampleRateSpec.fixed t).tag = t := rfl
    rw [if_neg (by rw [ht]; omega), if_neg (by rw [ht]; omega)]; rfl
  | kHz v =>
    have ht : (SampleRateSpec.kHz v).tag = 12 := rfl
    rw [if_pos ht]
    exact readNat_natToBits_lt 8 v k _ (h12 ht)
  | hz v =>
    have ht : (SampleRateSpec.hz v).tag = 13 := rfl
    rw [if_neg (by rw [ht]; decide), if_pos (Or.inl ht)]
    exact readNat_natToBits_lt 16 v k _ (h13 (Or.inl ht))
  | daHz v =>
    have ht : (SampleRateSpec.daHz v).tag = 14 := rfl
    rw [if_neg (by rw [ht]; decide), if_pos (Or.inr ht)]
    exact readNat_natToBits_lt 16 v k _ (h13 (Or.inr ht))

theorem bsExtra_len8 (bss : BlockSizeSpec) : bss.extraBits.length % 8 = 0 := by
  cases bss <;> simp [BlockSizeSpec.extraBits]
theorem srExtra_len8 (srs : SampleRateSpec) : srs.extraBits.length % 8 = 0 := by
  cases srs <;> simp [SampleRateSpec.extraBits]

/-- What the encoder's sample-rate spec satisfies, for every rate. -/
theorem srs_facts (rate : Nat) :
    let srs := (SampleRateSpec.fromFreq rate).getD .unspecified
    srs.tag ≤ 14 ∧ rateOfCode srs.tag (C02.srExtra srs) rate = some rate ∧ (∀ t, srs = .fixed t → t ≤ 11) ∧
    (srs.tag = 12 → C02.srExtra srs < 2 ^ 8) ∧ (srs.tag = 13 ∨ srs.tag = 14 → C02.srExtra srs < 2 ^ 16) := by
  intro srs
  have hall := C02.C02_samplerate_all rate
  have hfix : ∀ t, srs = .fixed t → t ≤ 11 := by
    intro t ht
    simp only [srs, SampleRateSpec.fromFreq] at ht
    cases hl : sampleRateTable.lookup rate with
    | some t' =>
      rw [hl] at ht
      simp only [Option.getD_some, SampleRateSpec.fixed.injEq] at ht
      subst ht
      exact (C02.lookup_sampleRate rate t' hl).2.1
    | none =>
      rw [hl] at ht
      simp only at ht
      split at ht
      · simp at ht
      · split at ht
        · simp at ht
        · split at ht <;> simp at ht
  cases hf : SampleRateSpec.fromFreq rate with
  | some spec =>
    rw [hf] at hall
    have hs : srs = spec := by simp only [srs, hf, Option.getD_some]
    rw [hs] at hfix ⊢
    exact ⟨hall.1, hall.2.1, hfix, hall.2.2.1, hall.2.2.2⟩
  | none =>
    rw [hf] at hall
    have hs : srs = .unspecified := by simp only [srs, hf, Option.getD_none]
    rw [hs]
    exact ⟨by decide, hall, fun t ht => (by cases ht), fun h => (by cases h), fun h => (by rcases h with h | h <;> cases h)⟩

theorem sst_facts (bps : Nat) :
    sampleSizeTag bps < 8 ∧ sampleSizeTag bps ≠ 3 ∧ bpsOfCode (sampleSizeTag bps) bps = some bps := by
  unfold sampleSizeTag
  repeat' split
  all_goals (subst_vars; simp [bpsOfCode])

theorem widthOf_tag (asg : ChannelAssignment) (bps i : Nat)
    (hasg : match asg with | .independent k => 1 ≤ k ∧ k ≤ 8 | _ => True) :
    widthOf asg.tag bps i = bps + asg.bpsOffset i := by
  cases asg with
  | independent k =>
    simp only at hasg
    have ht : (ChannelAssignment.independent k).tag = k - 1 := rfl
    unfold widthOf
    rw [if_neg (by rw [ht]; omega)]; rfl
  | leftSide => by_cases h : i = 1 <;> simp [widthOf, ChannelAssignment.tag, ChannelAssignment.bpsOffset, h]
  | rightSide => by_cases h : i = 0 <;> simp [widthOf, ChannelAssignment.tag, ChannelAssignment.bpsOffset, h]
  | midSide => by_cases h : i = 1 <;> simp [widthOf, ChannelAssignment.tag, ChannelAssignment.bpsOffset, h]

theorem bsExtra_read' {β : Type} (bss : BlockSizeSpec) (k : Bits) (F : Nat × Bits → R β)
    (hcons : blockSizeOfCode bss.tag (C02.bsExtra bss) = bss.blockSize)
    (h6 : bss.tag = 6 → C02.bsExtra bss < 2 ^ 8) (h7 : bss.tag = 7 → C02.bsExtra bss < 2 ^ 16) :
    (if bss.tag = 6 then (readNat 8 (bss.extraBits ++ k) "block size byte" >>= F)
      else if bss.tag = 7 then (readNat 16 (bss.extraBits ++ k) "block size word" >>= F)
      else F (0, bss.extraBits ++ k)) = F (C02.bsExtra bss, k) := by
  have h := bsExtra_read bss k hcons h6 h7
  by_cases c6 : bss.tag = 6
  · rw [if_pos c6] at h ⊢; rw [h]; rfl
  · rw [if_neg c6] at h ⊢
    by_cases c7 : bss.tag = 7
    · rw [if_pos c7] at h ⊢; rw [h]; rfl
    · rw [if_neg c7] at h ⊢
      simp only [pure_eq, Except.ok.injEq] at h
      rw [h]

theorem srExtra_read' {β : Type} (srs : SampleRateSpec) (k : Bits) (F : Nat × Bits → R β)
    (hfix : ∀ t, srs = .fixed t → t ≤ 11)
    (h12 : srs.tag = 12 → C02.srExtra srs < 2 ^ 8) (h13 : srs.tag = 13 ∨ srs.tag = 14 → C02.srExtra srs < 2 ^ 16) :
    (if srs.tag = 12 then (readNat 8 (srs.extraBits ++ k) "sample rate byte" >>= F)
      else if srs.tag = 13 ∨ srs.tag = 14 then (readNat 16 (srs.extraBits ++ k) "sample rate word" >>= F)
      else F (0, srs.extraBits ++ k)) = F (C02.srExtra srs, k) := by
  have h := srExtra_read srs k hfix h12 h13
  by_cases c6 : srs.tag = 12
  · rw [if_pos c6] at h ⊢; rw [h]; rfl
  · rw [if_neg c6] at h ⊢
    by_cases c7 : srs.tag = 13 ∨ srs.tag = 14
    · rw [if_pos c7] at h ⊢; rw [h]; rfl
    · rw [if_neg c7] at h ⊢
      simp only [pure_eq, Except.ok.injEq] at h
      rw [h]

/-! ### the coded number -/

theorem frameNum_ok (info : Info) (number total : Nat) (H32 : Bits) (num : List Nat) (X : Bits) (more : List Nat)
    (bss : BlockSizeSpec) (srs : SampleRateSpec) (Y : Bits) (chCode ssCode : Nat)
    (h32 : H32.length = 32) (hnum : encodeUtf8like number = some num) (hlt : number < 2 ^ 31)
    (hX : X = bss.extraBits ++ (srs.extraBits ++ Y))
    (hcons : blockSizeOfCode bss.tag (C02.bsExtra bss) = bss.blockSize)
    (h6 : bss.tag = 6 → C02.bsExtra bss < 2 ^ 8) (h7 : bss.tag = 7 → C02.bsExtra bss < 2 ^ 16)
    (hfix : ∀ t, srs = .fixed t → t ≤ 11)
    (h12 : srs.tag = 12 → C02.srExtra srs < 2 ^ 8) (h13 : srs.tag = 13 ∨ srs.tag = 14 → C02.srExtra srs < 2 ^ 16)
    (fbRest : Bits) :
    frameNum info number total (packBytes (H32 ++ (bytesToBits num ++ fbRest)) ++ more) bss.tag srs.tag chCode ssCode
        (bytesToBits num ++ X) =
      frameBody info total (packBytes (H32 ++ (bytesToBits num ++ fbRest)) ++ more) number bss.tag srs.tag chCode ssCode
        (C02.bsExtra bss) (C02.srExtra srs) Y := by
  obtain ⟨num', hnum', _, hbytes⟩ := Count.utf8like number (by omega)
  rw [hnum] at hnum'
  simp only [Option.some.injEq] at hnum'
  subst hnum'
  have hdrop : (packBytes (H32 ++ (bytesToBits num ++ fbRest)) ++ more).drop 4 = num ++ (packBytes fbRest ++ more) := by
    have h4 : H32.length / 8 = 4 := by omega
    have := drop_packBytes H32 (bytesToBits num ++ fbRest) more (by omega)
    rw [h4] at this
    rw [this, packBytes_append num.length _ _ (by rw [bytesToBits_length]), packBytes_bytesToBits num hbytes,
      List.append_assoc]
  unfold frameNum
  simp only []
  rw [hdrop, decodeUtf8like_encode number hlt num _ hnum]
  simp only [pure_eq, ok_bind]
  rw [if_neg (by omega : ¬ number ≥ 2 ^ 31)]
  simp only [ne_eq, not_true_eq_false, if_false]
  have hd : (bytesToBits num ++ X).drop (8 * num.length) = X := by
    rw [List.drop_append_of_le_length (by rw [bytesToBits_length]; omega),
      List.drop_of_length_le (by rw [bytesToBits_length]; omega)]
    rfl
  rw [hd, hX]
  refine Eq.trans (bsExtra_read' bss (srs.extraBits ++ Y) _ hcons h6 h7) ?_
  exact srExtra_read' srs Y _ hfix h12 h13


/-! ### the whole frame -/

/-- **Frame level, component side.** `Frame::write` of a frame whose header was built by the encoder
(`headerFor`) and whose sub-frames are each read back by the strict reader is accepted by
`Rfc.readFrame`, which consumes exactly the frame and reconstructs `chans`. -/
theorem readFrame_frame (f : Frame) (fb : Bits) (more : List Nat) (info : Info) (n bps rate number : Nat)
    (raws chans : List (List Int))
    (hbits : f.bits rfcCrc8 rfcCrc16 = some fb)
    (hvar : f.header.isVariable = false) (hnumeq : f.header.frameNumber = number) (hnum : number < 2 ^ 31)
    (hbss : BlockSizeSpec.fromSize n = some f.header.blockSizeSpec) (hn : 1 ≤ n ∧ n ≤ 65535)
    (hsrs : f.header.sampleRateSpec = (SampleRateSpec.fromFreq rate).getD .unspecified)
    (hsst : f.header.sampleSizeTag = sampleSizeTag bps)
    (hasg : match f.header.assignment with | .independent k => 1 ≤ k ∧ k ≤ 8 | _ => True)
    (hinfo : info.rate = rate ∧ info.channels = f.header.assignment.channels ∧ info.bps = bps)
    (hsl : f.subframes.length = f.header.assignment.channels) (hrl : raws.length = f.header.assignment.channels)
    (hsub : ∀ i (h1 : i < f.subframes.length) (h2 : i < raws.length), ∀ k, ∃ rep,
      readSubframe n (bps + f.header.assignment.bpsOffset i) (f.subframes[i].bits ++ k) = .ok (rep, k) ∧
        rep.samples = raws[i])
    (hrec : reconstruct f.header.assignment.tag raws = chans)
    (hrange : ∀ c ∈ chans, ∀ x ∈ c, SubFrame.inRange bps x = true) :
    ∃ rep, readFrame info number (packBytes fb ++ more) (fb ++ bytesToBits more) = .ok (rep, more, bytesToBits more) ∧
      rep.channels = chans ∧ rep.blockSize = n ∧ rep.number = number ∧ rep.byteLen * 8 = fb.length := by
  obtain ⟨hrate, hch, hbps⟩ := hinfo
  -- facts about the header codes
  obtain ⟨spec, hspec, hb1, hb15, hbsz, hbdec, hb6, hb7⟩ := C02.C02_blocksize_all n hn.1 hn.2
  rw [hbss] at hspec
  simp only [Option.some.injEq] at hspec
  subst hspec
  obtain ⟨hs14, hsdec, hsfix, hs12, hs13⟩ := srs_facts rate
  rw [← hsrs] at hs14 hsdec hsfix hs12 hs13
  obtain ⟨hss8, hss3, hssdec⟩ := sst_facts bps
  obtain ⟨hc10, hcch⟩ := C02.C02_channel_code f.header.assignment hasg
  have hnumber : f.header.number = number := by simp [FrameHeader.number, hvar, hnumeq]
  -- the emitted bits
  unfold Frame.bits FrameHeader.bits FrameHeader.bodyBits at hbits
  rw [hnumber] at hbits
  obtain ⟨num, hnumenc, _, _⟩ := Count.utf8like number (by omega)
  simp only [hnumenc, Option.bind_eq_bind, Option.bind_some, show ¬ f.header.assignment.tag > 15 by omega, if_false,
    hvar, Bool.false_eq_true, Option.some.injEq] at hbits
  -- names
  generalize hHB : natToBits 16 (0xFFF8 + 0) ++
      natToBits 8 ((f.header.blockSizeSpec.tag <<< 4) ||| f.header.sampleRateSpec.tag) ++
      natToBits 4 f.header.assignment.tag ++ natToBits 4 (f.header.sampleSizeTag <<< 1) ++ bytesToBits num ++
      f.header.blockSizeSpec.extraBits ++ f.header.sampleRateSpec.extraBits = HB at hbits
  have hHB8 : HB.length % 8 = 0 := by
    rw [← hHB]
    simp only [List.length_append, natToBits_length, bytesToBits_length]
    have := bsExtra_len8 f.header.blockSizeSpec
    have := srExtra_len8 f.header.sampleRateSpec
    omega
  have hfixed := header_fixed_bits 0 f.header.blockSizeSpec.tag f.header.sampleRateSpec.tag f.header.assignment.tag
    f.header.sampleSizeTag (by omega) (by omega)
  generalize hPAD : List.replicate
    ((8 - (HB ++ (natToBits 8 (crcBits rfcCrc8 HB) ++ f.subframes.flatMap SubFrame.bits)).length % 8) % 8) false = PAD
  generalize hbody : (HB ++ (natToBits 8 (crcBits rfcCrc8 HB) ++ f.subframes.flatMap SubFrame.bits)) ++ PAD = body
  have hfb : fb = body ++ natToBits 16 (crcBits rfcCrc16 body) := by
    rw [← hbits, ← hbody, ← hPAD]
    simp only [Frame.padTo8, List.append_assoc]
  -- the body, via `frameBody_ok`
  have hsub' : ∀ i (h1 : i < f.subframes.length) (h2 : i < raws.length), ∀ k, ∃ rep,
      readSubframe n (widthOf f.header.assignment.tag info.bps (0 + i)) (f.subframes[i].bits ++ k) = .ok (rep, k) ∧
        rep.samples = raws[i] := by
    intro i h1 h2 k
    rw [Nat.zero_add, hbps, widthOf_tag _ _ _ hasg]
    exact hsub i h1 h2 k
  obtain ⟨rep, hrep, hr1, hr2, hr3, hr4⟩ := frameBody_ok HB PAD body fb more info number n f.header.assignment.tag
    f.header.blockSizeSpec.tag f.header.sampleRateSpec.tag f.header.sampleSizeTag
    (C02.bsExtra f.header.blockSizeSpec) (C02.srExtra f.header.sampleRateSpec) f.subframes raws chans
    hHB8 hPAD.symm hbody.symm hfb hbdec hn (by rw [hrate]; exact hsdec) (by rw [hsst, hbps]; exact hssdec)
    (by rw [hcch, hch]) (by rw [hsl, hch]) (by rw [hrl, hch]) hsub' hrec (by rw [hbps]; exact hrange)
  refine ⟨rep, ?_, hr1, hr2, hr3, ?_⟩
  · -- the header, via `readFrame_eq` and `frameNum_ok`
    have hfb1 : fb = (natToBits 16 (0xFFF8 + 0) ++
        natToBits 8 ((f.header.blockSizeSpec.tag <<< 4) ||| f.header.sampleRateSpec.tag) ++
        natToBits 4 f.header.assignment.tag ++ natToBits 4 (f.header.sampleSizeTag <<< 1)) ++
        (bytesToBits num ++ (f.header.blockSizeSpec.extraBits ++ (f.header.sampleRateSpec.extraBits ++
          (natToBits 8 (crcBits rfcCrc8 HB) ++ (f.subframes.flatMap SubFrame.bits ++
            (PAD ++ natToBits 16 (crcBits rfcCrc16 body))))))) := by
      rw [hfb, ← hbody, ← hHB]
      simp only [List.append_assoc]
    have hall : fb ++ bytesToBits more = natToBits 15 0x7FFC ++ (natToBits 1 0 ++
        (natToBits 4 f.header.blockSizeSpec.tag ++ (natToBits 4 f.header.sampleRateSpec.tag ++
        (natToBits 4 f.header.assignment.tag ++ (natToBits 3 f.header.sampleSizeTag ++ (natToBits 1 0 ++
        (bytesToBits num ++ (f.header.blockSizeSpec.extraBits ++ (f.header.sampleRateSpec.extraBits ++
          (natToBits 8 (crcBits rfcCrc8 HB) ++ (f.subframes.flatMap SubFrame.bits ++
            (PAD ++ (natToBits 16 (crcBits rfcCrc16 body) ++ bytesToBits more))))))))))))) := by
      conv => lhs; rw [hfb1, hfixed]
      simp only [List.append_assoc]
    rw [readFrame_eq, hall]
    rw [readNat_natToBits_lt 15 _ _ _ (by decide)]
    simp only [ok_bind, ne_eq, not_true_eq_false, if_false]
    rw [readNat_natToBits_lt 1 0 _ _ (by decide)]
    simp only [ok_bind, not_true_eq_false, if_false]
    rw [readNat_natToBits_lt 4 _ _ _ (by omega)]
    simp only [ok_bind]
    rw [if_neg (by omega : ¬ f.header.blockSizeSpec.tag = 0)]
    rw [readNat_natToBits_lt 4 _ _ _ (by omega)]
    simp only [ok_bind]
    rw [if_neg (by omega : ¬ f.header.sampleRateSpec.tag = 15)]
    rw [readNat_natToBits_lt 4 _ _ _ (by omega)]
    simp only [ok_bind]
    rw [if_neg (by omega : ¬ f.header.assignment.tag > 10)]
    rw [readNat_natToBits_lt 3 _ _ _ (by rw [hsst]; exact hss8)]
    simp only [ok_bind]
    rw [if_neg (by rw [hsst]; exact hss3)]
    rw [readNat_natToBits_lt 1 0 _ _ (by decide)]
    simp only [ok_bind, not_true_eq_false, if_false]
    rw [← hall]
    conv => lhs; arg 4; rw [hfb1]
    rw [frameNum_ok info number _ _ num _ more f.header.blockSizeSpec f.header.sampleRateSpec _ _ _
      (by simp) hnumenc hnum rfl (by rw [hbdec, hbsz]) hb6 hb7 hsfix hs12 hs13]
    rw [← hfb1]
    exact hrep
  · rw [hr4, hfb]
    have hb8 : body.length % 8 = 0 := by
      rw [← hbody, ← hPAD]
      simp only [List.length_append, List.length_replicate]
      omega
    simp only [List.length_append, natToBits_length]
    omega

end Strict
end FlacVerif
