/-
Strict round trip (C01/C02), part 5: `compute_error` (the `i32` path with overflow checks and the
`i64` path with its range flag) against the exact LPC residual `lpcResidual` a decoder inverts.
-/
import FlacVerif.Lemmas.StrictFixed
namespace FlacVerif
namespace Strict

/-- The exact accumulator of `compute_error` at position `t`. -/
def accE (coefs xs : List Int) (t : Nat) : Int :=
  (List.range coefs.length).foldl (fun (a : Int) j =>
    if t ≥ j + 1 then a + coefs.getD j 0 * xs.getD (t - 1 - j) 0 else a) 0

/-- The exact prediction error at position `t`. -/
def errE (coefs : List Int) (shift : Nat) (xs : List Int) (t : Nat) : Int :=
  xs.getD t 0 - (accE coefs xs t >>> shift)

theorem foldl_congr_mem {α β : Type} (f g : α → β → α) (l : List β) (a : α)
    (h : ∀ a, ∀ b ∈ l, f a b = g a b) : l.foldl f a = l.foldl g a := by
  induction l generalizing a with
  | nil => rfl
  | cons x xs ih =>
    rw [List.foldl_cons, List.foldl_cons, h a x (by simp), ih _ (fun a b hb => h a b (by simp [hb]))]

theorem dot_eq (cs hs : List Int) (a0 : Int) (h : cs.length ≤ hs.length) :
    (List.range cs.length).foldl (fun (a : Int) j => a + cs.getD j 0 * hs.getD j 0) a0 =
      (List.zipWith (· * ·) cs hs).foldl (· + ·) a0 := by
  induction cs generalizing hs a0 with
  | nil => rfl
  | cons c cs ih =>
    match hs, h with
    | x :: hs, h =>
      rw [List.length_cons, List.range_succ_eq_map, List.foldl_cons, List.foldl_map, List.zipWith_cons_cons,
        List.foldl_cons]
      simp only [List.getD_cons_zero, List.getD_cons_succ]
      exact ih hs _ (by simpa using h)

theorem getD_append_left' (a b : List Int) (i : Nat) (h : i < a.length) : (a ++ b).getD i 0 = a.getD i 0 := by
  rw [List.getD_eq_getElem?_getD, List.getD_eq_getElem?_getD, List.getElem?_append_left h]

theorem getD_reverse' (a : List Int) (j : Nat) (h : j < a.length) : a.reverse.getD j 0 = a.getD (a.length - 1 - j) 0 := by
  rw [List.getD_eq_getElem?_getD, List.getD_eq_getElem?_getD, List.getElem?_reverse h]

/-- At the end of a prefix at least as long as the predictor, the accumulator is the RFC's
prediction sum over the reversed history. -/
theorem accE_eq (coefs pre suf : List Int) (h : coefs.length ≤ pre.length) :
    accE coefs (pre ++ suf) pre.length = (List.zipWith (· * ·) coefs pre.reverse).foldl (· + ·) 0 := by
  unfold accE
  rw [← dot_eq coefs pre.reverse 0 (by simpa using h)]
  apply foldl_congr_mem
  intro a j hj
  rw [List.mem_range] at hj
  have h1 : pre.length ≥ j + 1 := by omega
  rw [if_pos h1, getD_append_left' _ _ _ (by omega), getD_reverse' _ _ (by omega)]

theorem errE_eq (coefs : List Int) (shift : Nat) (pre : List Int) (y : Int) (ys : List Int)
    (h : coefs.length ≤ pre.length) :
    errE coefs shift (pre ++ y :: ys) pre.length = y - predict coefs shift pre.reverse := by
  unfold errE predict
  rw [accE_eq coefs pre (y :: ys) h]
  congr 1
  rw [List.getD_eq_getElem?_getD, List.getElem?_append_right (Nat.le_refl _)]
  simp

theorem residualFrom_eq (coefs : List Int) (shift : Nat) (xs ys pre : List Int)
    (h : coefs.length ≤ pre.length) (hx : xs = pre ++ ys) :
    residualFrom coefs shift pre.reverse ys = (List.range' pre.length ys.length).map (errE coefs shift xs) := by
  induction ys generalizing pre with
  | nil => rfl
  | cons y ys ih =>
    rw [residualFrom, List.length_cons, List.range'_succ, List.map_cons]
    congr 1
    · rw [hx, errE_eq coefs shift pre y ys h]
    · have := ih (pre ++ [y]) (by simp; omega) (by rw [hx]; simp)
      rw [List.reverse_append, List.reverse_singleton, List.singleton_append, List.length_append,
        List.length_singleton] at this
      exact this

/-- The exact LPC residual, position by position. -/
theorem lpcResidual_eq (coefs : List Int) (shift : Nat) (xs : List Int) :
    lpcResidual coefs shift xs =
      (List.range' coefs.length (xs.length - coefs.length)).map (errE coefs shift xs) := by
  unfold lpcResidual
  simp only []
  by_cases h : coefs.length ≤ xs.length
  · have := residualFrom_eq coefs shift xs (xs.drop coefs.length) (xs.take coefs.length)
      (by rw [List.length_take]; omega) (List.take_append_drop _ _).symm
    rw [List.length_take, List.length_drop, Nat.min_eq_left h] at this
    exact this
  · have h1 : xs.drop coefs.length = [] := List.drop_of_length_le (by omega)
    have h2 : xs.length - coefs.length = 0 := by omega
    rw [h1, h2]; rfl

/-! ### the `i32` path -/

theorem foldl_none {β : Type} (f : Option Int → β → Option Int) (hf : ∀ j, f none j = none) (l : List β) :
    l.foldl f none = none := by
  induction l with
  | nil => rfl
  | cons x xs ih => rw [List.foldl_cons, hf, ih]

theorem foldl_opt {β : Type} (f : Option Int → β → Option Int) (g : Int → β → Int) (hf : ∀ j, f none j = none)
    (hg : ∀ a j r, f (some a) j = some r → r = g a j) (l : List β) (a0 r : Int)
    (h : l.foldl f (some a0) = some r) : r = l.foldl g a0 := by
  induction l generalizing a0 with
  | nil => simp only [List.foldl_nil, Option.some.injEq] at h; exact h.symm
  | cons x xs ih =>
    rw [List.foldl_cons] at h
    cases hx : f (some a0) x with
    | none => rw [hx, foldl_none f hf] at h; cases h
    | some a1 =>
      rw [hx] at h
      rw [List.foldl_cons, ← hg a0 x a1 hx]
      exact ih a1 h

theorem mapM_spec {α β : Type} (F : α → Option β) (G : α → β) (P : β → Prop)
    (h : ∀ t v, F t = some v → v = G t ∧ P v) (l : List α) (ys : List β) (hm : l.mapM F = some ys) :
    ys = l.map G ∧ ∀ v ∈ ys, P v := by
  induction l generalizing ys with
  | nil =>
    simp only [List.mapM_nil, Option.pure_def, Option.some.injEq] at hm
    subst hm
    exact ⟨rfl, fun v hv => by simp at hv⟩
  | cons x xs ih =>
    simp only [List.mapM_cons, Option.pure_def, Option.bind_eq_bind, Option.bind_eq_some_iff,
      Option.some.injEq] at hm
    obtain ⟨y, hy, ys', hys, rfl⟩ := hm
    obtain ⟨e1, e2⟩ := h x y hy
    obtain ⟨i1, i2⟩ := ih ys' hys
    refine ⟨by rw [List.map_cons, ← e1, ← i1], ?_⟩
    intro v hv
    simp only [List.mem_cons] at hv
    rcases hv with rfl | hv
    · exact e2
    · exact i2 v hv

theorem computeError32_spec (coefs : List Int) (shift : Nat) (xs errors : List Int)
    (h : computeError32 coefs shift xs = some errors) :
    errors = (List.range xs.length).map (fun t => if t < coefs.length then 0 else errE coefs shift xs t) ∧
    ∀ e ∈ errors, fitsI32 e = true := by
  unfold computeError32 at h
  refine mapM_spec _ _ _ ?_ _ _ h
  intro t v hv
  simp only [Option.bind_eq_some_iff] at hv
  obtain ⟨a, ha, hv⟩ := hv
  have hacc : a = accE coefs xs t := by
    unfold accE
    refine foldl_opt _ _ (fun j => rfl) ?_ _ 0 a ha
    intro a j r hr
    simp only [Option.bind_some] at hr
    split at hr
    · split at hr
      · simp only [Option.some.injEq] at hr
        rw [if_pos (by assumption)]; exact hr.symm
      · cases hr
    · simp only [Option.some.injEq] at hr
      rw [if_neg (by assumption)]; exact hr.symm
  subst hacc
  split at hv
  · rename_i hfit
    simp only [Option.some.injEq] at hv
    subst hv
    refine ⟨rfl, ?_⟩
    split
    · decide
    · exact hfit
  · cases hv

/-! ### both paths -/

theorem wrap32_fits (v : Int) : fitsI32 (wrap32 v) = true := by
  unfold fitsI32 wrap32
  have h1 := Int.emod_nonneg (v + 2 ^ 31) (show (2 ^ 32 : Int) ≠ 0 by decide)
  have h2 := Int.emod_lt_of_pos (v + 2 ^ 31) (show (0 : Int) < 2 ^ 32 by decide)
  simp only [Bool.and_eq_true, decide_eq_true_eq]
  omega

theorem fitsI32_iff (v : Int) : fitsI32 v = true ↔ -(2 ^ 31 : Int) ≤ v ∧ v < (2 ^ 31 : Int) := by
  simp [fitsI32]

theorem map_ite_drop (f : Nat → Int) (n o : Nat) :
    ((List.range n).map (fun t => if t < o then 0 else f t)).drop o = (List.range' o (n - o)).map f := by
  rw [← List.map_drop, List.range_eq_range', List.drop_range', Nat.zero_add, Nat.mul_one]
  apply List.map_congr_left
  intro t ht
  rw [List.mem_range'_1] at ht
  rw [if_neg (by omega)]

/-- `compute_error` takes the `i64` path (instead of the checked `i32` path):
`maxabs(signal) · (Σ|coef| + 1) ≥ i32::MAX`. -/
def lpcWide (coefs xs : List Int) : Prop :=
  ¬ (xs.foldl (fun m x => max m x.natAbs) 0) * ((coefs.foldl (fun s c => s + c.natAbs) 0) + 1) < 2 ^ 31 - 1

instance (coefs xs : List Int) : Decidable (lpcWide coefs xs) := by unfold lpcWide; infer_instance

theorem computeErrorExact64_eq (coefs : List Int) (shift : Nat) (xs : List Int) :
    computeErrorExact64 coefs shift xs =
      (List.range xs.length).map (fun t => if t < coefs.length then 0 else errE coefs shift xs t) := rfl

theorem computeError64_eq (coefs : List Int) (shift : Nat) (xs : List Int) :
    computeError64 coefs shift xs =
      (List.range xs.length).map (fun t => if t < coefs.length then 0 else wrap32 (errE coefs shift xs t)) := rfl

/-- The flag of the `i64` path says: every exact error after the warm-up lies in `-(2^31-1) ..= 2^31-1`. -/
theorem fitsResidual64_iff (coefs : List Int) (shift : Nat) (xs : List Int) :
    fitsResidual64 coefs shift xs = true ↔
      ∀ t, coefs.length ≤ t → t < xs.length → (errE coefs shift xs t).natAbs ≤ 2 ^ 31 - 1 := by
  unfold fitsResidual64
  rw [computeErrorExact64_eq, List.all_eq_true]
  simp only [List.mem_map, List.mem_range, decide_eq_true_eq]
  constructor
  · intro h t h1 h2
    have := h _ ⟨t, h2, rfl⟩
    rwa [if_neg (by omega)] at this
  · rintro h e ⟨t, ht, rfl⟩
    split
    · decide
    · exact h t (by omega) ht

/-- The exact LPC residual lies in `-(2^31-1) ..= 2^31-1` (the range of FLAC residuals) — what the flag
of `compute_error` reports on the `i64` path. -/
theorem fitsResidual64_iff_residual (coefs : List Int) (shift : Nat) (xs : List Int) :
    fitsResidual64 coefs shift xs = true ↔ ∀ e ∈ lpcResidual coefs shift xs, e.natAbs ≤ 2 ^ 31 - 1 := by
  rw [fitsResidual64_iff, lpcResidual_eq]
  simp only [List.mem_map, List.mem_range'_1]
  constructor
  · rintro h e ⟨t, ⟨h1, h2⟩, rfl⟩
    exact h t h1 (by omega)
  · intro h t h1 h2
    exact h _ ⟨t, ⟨h1, by omega⟩, rfl⟩

/-- Whenever `compute_error` returns, its buffer has one entry per sample and every entry is an `i32`. -/
theorem computeError_fits (coefs : List Int) (shift : Nat) (xs errors : List Int) {fits : Bool}
    (h : computeError coefs shift xs = some (errors, fits)) :
    errors.length = xs.length ∧ ∀ e ∈ errors, fitsI32 e = true := by
  unfold computeError at h
  simp only [] at h
  split at h
  · simp only [Option.map_eq_some_iff, Prod.mk.injEq] at h
    obtain ⟨es, h, rfl, _⟩ := h
    obtain ⟨e1, e2⟩ := computeError32_spec coefs shift xs es h
    exact ⟨by rw [e1]; simp, e2⟩
  · simp only [Option.some.injEq, Prod.mk.injEq] at h
    obtain ⟨rfl, _⟩ := h
    refine ⟨by simp [computeError64], ?_⟩
    intro e he
    simp only [computeError64, List.mem_map, List.mem_range] at he
    obtain ⟨t, _, rfl⟩ := he
    split
    · decide
    · exact wrap32_fits _

/-- **`compute_error` with flag `true`, for ANY coefficients, shift and signal.** The buffer has one
entry per sample, every entry is an `i32`, and the entries after the warm-up are the EXACT LPC residual
(no wrapping happened): on the checked `i32` path an overflow is a panic, and on the `i64` path the flag
says the exact values lie in `-(2^31-1) ..= 2^31-1`. No oracle hypothesis. -/
theorem computeError_spec (coefs : List Int) (shift : Nat) (xs errors : List Int)
    (h : computeError coefs shift xs = some (errors, true)) :
    errors.length = xs.length ∧ (∀ e ∈ errors, fitsI32 e = true) ∧
    errors.drop coefs.length = lpcResidual coefs shift xs := by
  obtain ⟨hl, hf⟩ := computeError_fits coefs shift xs errors h
  refine ⟨hl, hf, ?_⟩
  unfold computeError at h
  simp only [] at h
  split at h
  · simp only [Option.map_eq_some_iff, Prod.mk.injEq] at h
    obtain ⟨es, h, rfl, _⟩ := h
    obtain ⟨e1, _⟩ := computeError32_spec coefs shift xs es h
    rw [e1, map_ite_drop, lpcResidual_eq]
  · simp only [Option.some.injEq, Prod.mk.injEq] at h
    obtain ⟨rfl, hflag⟩ := h
    rw [fitsResidual64_iff] at hflag
    rw [computeError64_eq, map_ite_drop, lpcResidual_eq]
    apply List.map_congr_left
    intro t ht
    rw [List.mem_range'_1] at ht
    have := hflag t ht.1 (by omega)
    exact wrap32_id _ (by omega) (by omega)

end Strict
end FlacVerif
