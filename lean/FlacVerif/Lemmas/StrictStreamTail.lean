/-
Strict round trip (C01/C02), part 23: the end of `analyze` — the stream-level consistency loop, the
sample count, the reassembled audio and the MD5 check.
-/
import FlacVerif.Lemmas.StrictBlocks
namespace FlacVerif
namespace Strict
open Rfc

theorem checkFrame_ok (minBlock maxBlock minFrame maxFrame nfr : Nat) (f : FrameRep) (i : Nat)
    (h1 : i + 1 < nfr → f.blockSize = maxBlock ∧ minBlock ≤ f.blockSize)
    (h2 : ¬ i + 1 < nfr → f.blockSize ≤ maxBlock)
    (h3 : maxFrame ≠ 0 → minFrame ≤ f.byteLen ∧ f.byteLen ≤ maxFrame) :
    checkFrame minBlock maxBlock minFrame maxFrame nfr (f, i) PUnit.unit = .ok (ForInStep.yield PUnit.unit) := by
  have h3' : ¬ (maxFrame ≠ 0 ∧ (f.byteLen < minFrame ∨ f.byteLen > maxFrame)) := by
    intro h
    have := h3 h.1
    omega
  unfold checkFrame
  simp only []
  by_cases hi : i + 1 < nfr
  · obtain ⟨e1, e2⟩ := h1 hi
    rw [if_pos hi, if_neg (by simp [e1]), if_neg (by omega), if_neg h3']
    rfl
  · have e := h2 hi
    rw [if_neg hi, if_neg (by omega), if_neg h3']
    rfl

theorem consistency_list (minBlock maxBlock minFrame maxFrame nfr : Nat) :
    ∀ (l : List FrameRep) (k : Nat),
      (∀ j (hj : j < l.length), (k + j + 1 < nfr → l[j].blockSize = maxBlock ∧ minBlock ≤ l[j].blockSize) ∧
        (¬ k + j + 1 < nfr → l[j].blockSize ≤ maxBlock) ∧
        (maxFrame ≠ 0 → minFrame ≤ l[j].byteLen ∧ l[j].byteLen ≤ maxFrame)) →
      forIn (l.zipIdx k) PUnit.unit (checkFrame minBlock maxBlock minFrame maxFrame nfr) = .ok PUnit.unit := by
  intro l
  induction l with
  | nil => intro k _; rfl
  | cons f l ih =>
    intro k h
    have h0 := h 0 (by simp)
    simp only [Nat.add_zero, List.getElem_cons_zero] at h0
    rw [List.zipIdx_cons, List.forIn_cons, checkFrame_ok minBlock maxBlock minFrame maxFrame nfr f k h0.1 h0.2.1 h0.2.2]
    simp only [ok_bind]
    apply ih (k + 1)
    intro j hj
    have := h (j + 1) (by simp; omega)
    simp only [List.getElem_cons_succ] at this
    rw [show k + (j + 1) = k + 1 + j by omega] at this
    exact this

theorem consistency_ok (minBlock maxBlock minFrame maxFrame : Nat) (reps : List FrameRep)
    (h : ∀ j (hj : j < reps.length), (j + 1 < reps.length → reps[j].blockSize = maxBlock ∧ minBlock ≤ reps[j].blockSize) ∧
        (¬ j + 1 < reps.length → reps[j].blockSize ≤ maxBlock) ∧
        (maxFrame ≠ 0 → minFrame ≤ reps[j].byteLen ∧ reps[j].byteLen ≤ maxFrame)) :
    consistency minBlock maxBlock minFrame maxFrame reps = .ok PUnit.unit := by
  unfold consistency
  apply consistency_list _ _ _ _ _ reps 0
  intro j hj
  rw [Nat.zero_add]
  exact h j hj

theorem foldl_add_sum (l : List Nat) (a : Nat) : l.foldl (· + ·) a = a + l.sum := by
  induction l generalizing a with
  | nil => simp
  | cons x xs ih => rw [List.foldl_cons, ih, List.sum_cons]; omega

/-- `analyze` after the frame loop, for frames that decode the blocks of `chans`. -/
theorem analyzeTail_ok (md5 : List Nat → List Nat) (info : Info) (minBlock maxBlock minFrame maxFrame total : Nat)
    (md5v : List Nat) (nblocks : Nat) (reps : List FrameRep) (chans : List (List Int)) (bps : Nat)
    (hcons : ∀ j (hj : j < reps.length),
        (j + 1 < reps.length → reps[j].blockSize = maxBlock ∧ minBlock ≤ reps[j].blockSize) ∧
        (¬ j + 1 < reps.length → reps[j].blockSize ≤ maxBlock) ∧
        (maxFrame ≠ 0 → minFrame ≤ reps[j].byteLen ∧ reps[j].byteLen ≤ maxFrame))
    (hsum : (reps.map (·.blockSize)).sum = total)
    (haudio : (List.range info.channels).map (fun c => reps.flatMap fun f => f.channels.getD c []) = chans)
    (hbps : info.bps = bps) (hmd5 : md5v = md5 (md5Input bps (interleave chans))) :
    analyzeTail md5 info minBlock maxBlock minFrame maxFrame total md5v nblocks reps.reverse =
      .ok ⟨info, nblocks, reps, chans⟩ := by
  unfold analyzeTail
  simp only [List.reverse_reverse]
  rw [consistency_ok minBlock maxBlock minFrame maxFrame reps hcons]
  simp only [ok_bind]
  rw [foldl_add_sum, Nat.zero_add, hsum]
  rw [if_neg (by simp)]
  rw [haudio]
  have hpcm : List.flatMap (toLeBytes ((info.bps + 7) / 8)) (interleave chans) = md5Input bps (interleave chans) := by
    rw [hbps]; rfl
  by_cases hany : (md5v.any fun x => decide (x ≠ 0)) = true
  · rw [if_pos hany]
    rw [hpcm, if_neg (by rw [hmd5]; simp)]
    rfl
  · rw [if_neg hany]
    rfl

end Strict
end FlacVerif
