/-
Strict round trip (C01/C02), part 15: the middle of a frame — header CRC-8, code tables, STREAMINFO
checks and the sub-frames.
-/
import FlacVerif.Lemmas.StrictFrameTail
namespace FlacVerif
namespace Strict
open Rfc
open Repo (crc16_lt crc8_lt)

theorem frameBody_ok (HB PAD body fb : Bits) (more : List Nat) (info : Info)
    (number n chCode bsCode srCode ssCode bsExtra srExtra : Nat)
    (subs : List SubFrame) (raws chans : List (List Int))
    (hHB8 : HB.length % 8 = 0)
    (hpad : PAD = List.replicate
      ((8 - (HB ++ (natToBits 8 (crcBits rfcCrc8 HB) ++ subs.flatMap SubFrame.bits)).length % 8) % 8) false)
    (hbody : body = (HB ++ (natToBits 8 (crcBits rfcCrc8 HB) ++ subs.flatMap SubFrame.bits)) ++ PAD)
    (hfb : fb = body ++ natToBits 16 (crcBits rfcCrc16 body))
    (hbs : blockSizeOfCode bsCode bsExtra = some n) (hn : 1 ≤ n ∧ n ≤ 65535)
    (hrate : rateOfCode srCode srExtra info.rate = some info.rate)
    (hbps : bpsOfCode ssCode info.bps = some info.bps)
    (hnch : (if chCode < 8 then chCode + 1 else 2) = info.channels)
    (hsl : subs.length = info.channels) (hrl : raws.length = info.channels)
    (hsub : ∀ i (h1 : i < subs.length) (h2 : i < raws.length), ∀ k, ∃ rep,
      readSubframe n (widthOf chCode info.bps (0 + i)) (subs[i].bits ++ k) = .ok (rep, k) ∧ rep.samples = raws[i])
    (hrec : reconstruct chCode raws = chans)
    (hrange : ∀ c ∈ chans, ∀ x ∈ c, SubFrame.inRange info.bps x = true) :
    ∃ rep, frameBody info (fb ++ bytesToBits more).length (packBytes fb ++ more) number bsCode srCode chCode ssCode
        bsExtra srExtra
        (natToBits 8 (crcBits rfcCrc8 HB) ++ (subs.flatMap SubFrame.bits ++
          (PAD ++ (natToBits 16 (crcBits rfcCrc16 body) ++ bytesToBits more)))) = .ok (rep, more, bytesToBits more) ∧
      rep.channels = chans ∧ rep.blockSize = n ∧ rep.number = number ∧ rep.byteLen = body.length / 8 + 2 := by
  have hfbeq : fb ++ bytesToBits more = HB ++ (natToBits 8 (crcBits rfcCrc8 HB) ++ (subs.flatMap SubFrame.bits ++
      (PAD ++ (natToBits 16 (crcBits rfcCrc16 body) ++ bytesToBits more)))) := by
    rw [hfb, hbody]; simp only [List.append_assoc]
  have hlen : (fb ++ bytesToBits more).length - (natToBits 8 (crcBits rfcCrc8 HB) ++ (subs.flatMap SubFrame.bits ++
      (PAD ++ (natToBits 16 (crcBits rfcCrc16 body) ++ bytesToBits more)))).length = HB.length := by
    rw [hfbeq, List.length_append]; omega
  unfold frameBody
  simp only []
  rw [hlen, readNat_natToBits_lt 8 _ _ _ (crc8_lt HB)]
  simp only [ok_bind]
  have htake : (packBytes fb ++ more).take (HB.length / 8) = packBytes HB := by
    have : fb = HB ++ ((natToBits 8 (crcBits rfcCrc8 HB) ++ subs.flatMap SubFrame.bits) ++ PAD ++
        natToBits 16 (crcBits rfcCrc16 body)) := by
      rw [hfb, hbody]; simp only [List.append_assoc]
    rw [this]; exact take_packBytes HB _ more hHB8
  have hcrc : crc rfcCrc8 (packBytes HB) = crcBits rfcCrc8 HB := by
    unfold crc; rw [(bits_as_bytes HB hHB8).1]
  rw [htake, hcrc]
  simp only [ne_eq, not_true_eq_false, if_false, hbs, pure_eq, ok_bind]
  rw [if_neg (by omega : ¬ (n = 0 ∨ n > 65535))]
  simp only [hrate, not_true_eq_false, if_false, hbps, hnch]
  rw [frameLoop_eq]
  obtain ⟨reps, hreps, hmap⟩ := readSubframes_ok n info.bps chCode subs raws 0 (by omega) hsub
    (PAD ++ (natToBits 16 (crcBits rfcCrc16 body) ++ bytesToBits more))
  rw [← hsl, hreps]
  simp only [ok_bind, pure_eq]
  have := frameTail_ok (HB ++ (natToBits 8 (crcBits rfcCrc8 HB) ++ subs.flatMap SubFrame.bits)) PAD body fb more
    number n info.bps chCode bsCode srCode ssCode reps.reverse chans hpad hbody hfb
    (by rw [List.reverse_reverse, hmap]; exact hrec) hrange
  rw [this]
  exact ⟨_, rfl, rfl, rfl, rfl, rfl⟩

end Strict
end FlacVerif
