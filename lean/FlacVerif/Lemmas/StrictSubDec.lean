/-
Strict round trip (C01/C02), part 7: `SubFrame.bits` against `Rfc.readSubframe`, constructor by
constructor.
-/
import FlacVerif.Lemmas.StrictSearch
namespace FlacVerif
namespace Strict
open Rfc

/-! ### `readSubframe`, cut into pieces (each piece is definitionally the corresponding part) -/

def finishSub (n b start : Nat) (rep : SubRep) (rest : Bits) : R (SubRep × Bits) :=
  if rep.samples.length ≠ n then .error "subframe: wrong number of samples"
  else if rep.samples.any (fun x => !Rfc.inRange b x) then .error "subframe: reconstructed sample outside the sample width"
  else .ok ({ rep with bps := b, bitLen := start - rest.length }, rest)

def subConstant (n b start : Nat) (bs : Bits) : R (SubRep × Bits) := do
  let (v, bs) ← readInt b bs "constant value"
  finishSub n b start { kind := .constant, samples := List.replicate n v } bs

def subVerbatim (n b start : Nat) (bs : Bits) : R (SubRep × Bits) := do
  let (xs, bs) ← readInts n b bs "verbatim samples"
  finishSub n b start { kind := .verbatim, samples := xs } bs

def subFixed (n b start k : Nat) (bs : Bits) : R (SubRep × Bits) := do
  if k ≥ n then throw "subframe: fixed predictor order not below the block size"
  let (warm, bs) ← readInts k b bs "fixed warm-up"
  let (res, bs) ← readResidual n k bs
  finishSub n b start { kind := .fixed, order := k, partOrder := res.order, params := res.params,
                        residual := res.values, samples := fixedRestore k warm res.values } bs

def subLpc (n b start k : Nat) (bs : Bits) : R (SubRep × Bits) := do
  if k ≥ n then throw "subframe: LPC order not below the block size"
  let (warm, bs) ← readInts k b bs "LPC warm-up"
  let (prec1, bs) ← readNat 4 bs "LPC precision"
  if prec1 = 15 then throw "subframe: invalid coefficient precision code 1111"
  let (shift, bs) ← readInt 5 bs "LPC shift"
  if shift < 0 then throw "subframe: negative LPC shift"
  let (coefs, bs) ← readInts k (prec1 + 1) bs "LPC coefficients"
  let (res, bs) ← readResidual n k bs
  finishSub n b start { kind := .lpc, order := k, precision := prec1 + 1, shift := shift.toNat, coefs := coefs,
                        partOrder := res.order, params := res.params, residual := res.values,
                        samples := lpcRestore coefs shift.toNat warm res.values } bs

def subBody (n b start ty : Nat) (bs : Bits) : R (SubRep × Bits) :=
  if ty = 0 then subConstant n b start bs
  else if ty = 1 then subVerbatim n b start bs
  else if 8 ≤ ty ∧ ty ≤ 12 then subFixed n b start (ty - 8) bs
  else if ty ≥ 32 then subLpc n b start (ty - 31) bs
  else .error "subframe: reserved subframe type"

theorem readSubframe_eq (n b : Nat) (bs : Bits) :
    readSubframe n b bs = (do
      let (pad, bs1) ← readNat 1 bs "subframe padding bit"
      if pad ≠ 0 then throw "subframe: padding bit set"
      let (ty, bs2) ← readNat 6 bs1 "subframe type"
      let (wasted, bs3) ← readNat 1 bs2 "wasted-bits flag"
      if wasted ≠ 0 then throw "subframe: wasted bits (never emitted by this encoder)"
      subBody n b bs.length ty bs3) := by
  unfold readSubframe subBody subConstant subVerbatim subFixed subLpc finishSub
  rfl


/-- The 8 header bits of a subframe: padding bit, 6-bit type, wasted-bits flag. -/
theorem hdr_split (ty : Nat) (hty : ty < 64) :
    natToBits 8 (2 * ty) = natToBits 1 0 ++ (natToBits 6 ty ++ natToBits 1 0) := by
  have h1 := natToBits_split 1 7 (2 * ty)
  have h2 := natToBits_split 6 1 (2 * ty)
  have e1 : 2 * ty / 2 ^ 7 = 0 := Nat.div_eq_of_lt (by omega)
  have e2 : 2 * ty / 2 ^ 1 = ty := by omega
  rw [e1] at h1
  rw [e2] at h2
  have e3 : natToBits 1 (2 * ty) = natToBits 1 0 := by
    apply natToBits_congr
    intro j hj
    have : j = 0 := by omega
    subst this
    simp [Nat.testBit_zero]
  rw [show (8 : Nat) = 1 + 7 from rfl, h1, show (7 : Nat) = 6 + 1 from rfl, h2, e3]

theorem readSubframe_hdr (n b ty : Nat) (rest : Bits) (hty : ty < 64) :
    readSubframe n b (natToBits 8 (2 * ty) ++ rest) = subBody n b (8 + rest.length) ty rest := by
  rw [readSubframe_eq]
  have hlen : (natToBits 8 (2 * ty) ++ rest).length = 8 + rest.length := by simp
  rw [hlen, hdr_split ty hty, List.append_assoc, List.append_assoc]
  rw [readNat_natToBits_lt 1 0 _ _ (by decide)]
  simp only [ok_bind]
  rw [if_neg (by decide : ¬ (0 ≠ 0))]
  rw [readNat_natToBits_lt 6 ty _ _ (by omega)]
  simp only [ok_bind]
  rw [readNat_natToBits_lt 1 0 _ _ (by decide)]
  simp only [ok_bind]
  rw [if_neg (by decide : ¬ (0 ≠ 0))]

theorem all_inRange (b : Nat) (xs : List Int) (hx : ∀ x ∈ xs, SubFrame.inRange b x = true) :
    (xs.any fun x => !Rfc.inRange b x) = false := by
  rw [List.any_eq_false]
  intro x hxm
  have := hx x hxm
  rw [rfc_inRange_eq]
  simp [this]

theorem finishSub_ok (n b start : Nat) (rep : SubRep) (rest : Bits) (hl : rep.samples.length = n)
    (hr : ∀ x ∈ rep.samples, SubFrame.inRange b x = true) :
    finishSub n b start rep rest = .ok ({ rep with bps := b, bitLen := start - rest.length }, rest) := by
  unfold finishSub
  rw [if_neg (by simp [hl]), all_inRange b _ hr]
  simp

theorem or_shl1 (i x : Nat) (hx : 2 * x < 2 ^ i) : 2 ^ i ||| (x <<< 1) = 2 ^ i + 2 * x := by
  have h1 : x <<< 1 = 2 * x := by rw [Nat.shiftLeft_eq]; omega
  rw [h1]
  have := Nat.two_pow_add_eq_or_of_lt hx 1
  rw [Nat.mul_one] at this
  exact this.symm

/-! ### the four subframe kinds -/

theorem readSubframe_constant (n b : Nat) (dc : Int) (k : Bits) (h1 : 1 ≤ b) (hdc : SubFrame.inRange b dc = true) :
    ∃ rep, readSubframe n b ((SubFrame.constant n dc b).bits ++ k) = .ok (rep, k) ∧
      rep.samples = List.replicate n dc ∧ rep.bitLen = (SubFrame.constant n dc b).bits.length := by
  simp only [SubFrame.bits]
  rw [List.append_assoc, show (0 : Nat) = 2 * 0 from rfl, readSubframe_hdr n b 0 _ (by decide)]
  unfold subBody subConstant
  rw [if_pos rfl, readInt_twoc b dc k _ h1 hdc]
  simp only [ok_bind]
  rw [finishSub_ok _ _ _ _ _ (by simp) (by
    intro x hx
    rw [List.eq_of_mem_replicate hx]; exact hdc)]
  refine ⟨_, rfl, rfl, ?_⟩
  simp only [List.length_append, natToBits_length, twoc_length]
  omega

theorem readSubframe_verbatim (xs : List Int) (b : Nat) (k : Bits) (h1 : 1 ≤ b)
    (hx : ∀ x ∈ xs, SubFrame.inRange b x = true) :
    ∃ rep, readSubframe xs.length b ((SubFrame.verbatim xs b).bits ++ k) = .ok (rep, k) ∧
      rep.samples = xs ∧ rep.bitLen = (SubFrame.verbatim xs b).bits.length := by
  simp only [SubFrame.bits]
  rw [List.append_assoc, show (2 : Nat) = 2 * 1 from rfl, readSubframe_hdr _ b 1 _ (by decide)]
  unfold subBody subVerbatim
  rw [if_neg (by decide : ¬ (1 = 0)), if_pos rfl, readInts_twoc b xs k _ h1 hx]
  simp only [ok_bind]
  rw [finishSub_ok xs.length b _ _ _ rfl hx]
  refine ⟨_, rfl, rfl, ?_⟩
  simp only [List.length_append, natToBits_length]
  omega

theorem readSubframe_fixed (xs : List Int) (b kord : Nat) (res : Residual) (o : Nat) (ps : List Nat) (k : Bits)
    (h1 : 1 ≤ b) (hx : ∀ x ∈ xs, SubFrame.inRange b x = true) (hk : kord ≤ 4) (hkn : kord < xs.length)
    (hres : readResidual xs.length kord (res.bits ++ k) = .ok (⟨o, ps, fixedResidual kord xs⟩, k)) :
    ∃ rep, readSubframe xs.length b ((SubFrame.fixed (xs.take kord) res b).bits ++ k) = .ok (rep, k) ∧
      rep.samples = xs ∧ rep.bitLen = (SubFrame.fixed (xs.take kord) res b).bits.length := by
  have hwl : (xs.take kord).length = kord := by rw [List.length_take]; omega
  simp only [SubFrame.bits]
  rw [hwl, show (0x10 : Nat) = 2 ^ 4 from rfl, or_shl1 4 kord (by omega),
    show 2 ^ 4 + 2 * kord = 2 * (8 + kord) by omega, List.append_assoc, List.append_assoc,
    readSubframe_hdr _ b (8 + kord) _ (by omega)]
  unfold subBody subFixed
  rw [if_neg (by omega : ¬ (8 + kord = 0)), if_neg (by omega : ¬ (8 + kord = 1)),
    if_pos (by omega : 8 ≤ 8 + kord ∧ 8 + kord ≤ 12), show 8 + kord - 8 = kord by omega,
    if_neg (by omega : ¬ kord ≥ xs.length)]
  have hrd := readInts_twoc b (xs.take kord) (res.bits ++ k) "fixed warm-up" h1
    (fun x hxm => hx x (List.mem_of_mem_take hxm))
  rw [hwl] at hrd
  rw [hrd]
  simp only [ok_bind]
  rw [hres]
  simp only [ok_bind]
  have hrest : fixedRestore kord (xs.take kord) (fixedResidual kord xs) = xs := fixedRestore_fixedResidual kord xs hk
  rw [finishSub_ok _ _ _ _ _ (by simp only; rw [hrest]) (by simp only; rw [hrest]; exact hx)]
  refine ⟨_, rfl, hrest, ?_⟩
  simp only [List.length_append, natToBits_length]
  omega

theorem readSubframe_lpc (xs : List Int) (b : Nat) (coefs : List Int) (shift : Int) (precision : Nat)
    (res : Residual) (o : Nat) (ps : List Nat) (k : Bits)
    (h1 : 1 ≤ b) (hx : ∀ x ∈ xs, SubFrame.inRange b x = true)
    (hc1 : 1 ≤ coefs.length) (hc32 : coefs.length ≤ 32) (hkn : coefs.length < xs.length)
    (hp1 : 1 ≤ precision) (hp15 : precision ≤ 15) (hs0 : 0 ≤ shift) (hs15 : shift ≤ 15)
    (hcr : ∀ c ∈ coefs, SubFrame.inRange precision c = true)
    (hres : readResidual xs.length coefs.length (res.bits ++ k) =
      .ok (⟨o, ps, lpcResidual coefs shift.toNat xs⟩, k)) :
    ∃ rep, readSubframe xs.length b ((SubFrame.lpc (xs.take coefs.length) coefs shift precision res b).bits ++ k) =
        .ok (rep, k) ∧
      rep.samples = xs ∧
      rep.bitLen = (SubFrame.lpc (xs.take coefs.length) coefs shift precision res b).bits.length := by
  have hwl : (xs.take coefs.length).length = coefs.length := by rw [List.length_take]; omega
  simp only [SubFrame.bits]
  rw [show (0x40 : Nat) = 2 ^ 6 from rfl, or_shl1 6 (coefs.length - 1) (by omega),
    show 2 ^ 6 + 2 * (coefs.length - 1) = 2 * (31 + coefs.length) by omega]
  simp only [List.append_assoc]
  rw [readSubframe_hdr _ b (31 + coefs.length) _ (by omega)]
  unfold subBody subLpc
  rw [if_neg (by omega : ¬ (31 + coefs.length = 0)), if_neg (by omega : ¬ (31 + coefs.length = 1)),
    if_neg (by omega : ¬ (8 ≤ 31 + coefs.length ∧ 31 + coefs.length ≤ 12)),
    if_pos (by omega : 31 + coefs.length ≥ 32), show 31 + coefs.length - 31 = coefs.length by omega,
    if_neg (by omega : ¬ coefs.length ≥ xs.length)]
  have hrd := readInts_twoc b (xs.take coefs.length)
    (natToBits 4 (precision - 1) ++ (twoc 5 shift ++ (coefs.flatMap (twoc precision) ++ (res.bits ++ k))))
    "LPC warm-up" h1 (fun x hxm => hx x (List.mem_of_mem_take hxm))
  rw [hwl] at hrd
  rw [hrd]
  simp only [ok_bind]
  rw [readNat_natToBits_lt 4 (precision - 1) _ _ (by omega)]
  simp only [ok_bind]
  rw [if_neg (by omega : ¬ (precision - 1 = 15))]
  rw [readInt_twoc 5 shift _ _ (by decide) (by rw [inRange_iff]; constructor <;> omega)]
  simp only [ok_bind]
  rw [if_neg (by omega : ¬ shift < 0)]
  rw [show precision - 1 + 1 = precision by omega, readInts_twoc precision coefs _ _ hp1 hcr]
  simp only [ok_bind]
  rw [hres]
  simp only [ok_bind]
  have hrest : lpcRestore coefs shift.toNat (xs.take coefs.length) (lpcResidual coefs shift.toNat xs) = xs :=
    lpcRestore_lpcResidual coefs shift.toNat xs
  rw [finishSub_ok _ _ _ _ _ (by simp only; rw [hrest]) (by simp only; rw [hrest]; exact hx)]
  refine ⟨_, rfl, hrest, ?_⟩
  simp only [List.length_append, natToBits_length, twoc_length]
  omega

end Strict
end FlacVerif
