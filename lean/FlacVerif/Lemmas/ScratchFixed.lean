/-
Helper lemmas for C10, site 1: `FIXED_LPC_ERRORS` / `reset_fixed_lpc_errors` on stale `SimdVec`s
(`Scratch.resetFixedLpcErrors`) against the stateless `diffs`. Core Lean only.
-/
import FlacVerif.Model.Scratch
import FlacVerif.Lemmas.ScratchFinder
namespace FlacVerif.Scratch
open FlacVerif

/-! ### one vector of the rotate / carry loop -/

theorem go_nil (c : Int) : diff1.go c [] = [] := by simp [diff1.go]

theorem go_cons (c x : Int) (rest : List Int) :
    diff1.go c (x :: rest) = wrap32 (x - c) :: diff1.go x rest := by simp [diff1.go]

theorem zipWith_dropLast (x : List Int) (c : Int) :
    List.zipWith (fun a b => wrap32 (a - b)) x (c :: x.dropLast) = diff1.go c x := by
  induction x generalizing c with
  | nil => simp [go_nil]
  | cons a rest ih =>
    cases rest with
    | nil => simp [go_cons, go_nil]
    | cons b r =>
      rw [List.dropLast_cons_cons, List.zipWith_cons_cons, go_cons, ih a]

theorem go_length (c : Int) (x : List Int) : (diff1.go c x).length = x.length := by
  induction x generalizing c with
  | nil => simp [go_nil]
  | cons a rest ih => simp [go_cons, ih]

theorem go_append (c : Int) (x y : List Int) :
    diff1.go c (x ++ y) = diff1.go c x ++ diff1.go (x.getLast?.getD c) y := by
  induction x generalizing c with
  | nil => simp [go_nil]
  | cons a rest ih =>
    rw [List.cons_append, go_cons, go_cons, ih a, List.cons_append]
    congr 2
    cases rest with
    | nil => simp
    | cons b r =>
      simp only [List.getLast?_cons_cons]
      cases h : (b :: r).getLast? with
      | none => simp at h
      | some v => rfl

theorem go_take (c : Int) (x : List Int) (n : Nat) : diff1.go c (x.take n) = (diff1.go c x).take n := by
  induction x generalizing c n with
  | nil => simp [go_nil]
  | cons a rest ih =>
    cases n with
    | zero => simp [go_nil]
    | succ n => simp [go_cons, ih]

theorem diffs_take (k : Nat) (x : List Int) (n : Nat) : diffs k (x.take n) = (diffs k x).take n := by
  induction k with
  | zero => rfl
  | succ k ih => simp only [diffs, diff1, ih, go_take]

theorem diffs_length (k : Nat) (x : List Int) : (diffs k x).length = x.length := by
  induction k with
  | zero => rfl
  | succ k ih => simp only [diffs, diff1, go_length, ih]

/-- The vector statement `x - (x.rotate_elements_right::<1>() with lane 0 := carry)` is the scalar
difference pass continued with `carry`; the new carry is the last lane. -/
theorem diffVec_eq (x : Vec16) (c : Int) (hx : x ≠ []) :
    diffVec x c = (diff1.go c x, x.getLast?.getD c) := by
  unfold diffVec rotateRight1
  cases hl : x.getLast? with
  | none => simp [List.getLast?_eq_none_iff] at hl; exact absurd hl hx
  | some l =>
    simp only [List.headD_cons, List.set_cons_zero, zipWith_dropLast, Option.getD_some]

/-! ### the whole loop over vectors -/

/-- The loop as a pure map with carry. -/
def diffVecs : Int → List Vec16 → List Vec16
  | _, [] => []
  | c, x :: rest => (diffVec x c).1 :: diffVecs (diffVec x c).2 rest

theorem take_set_succ {α : Type} (l : List α) (i : Nat) (a : α) (h : i < l.length) :
    (l.set i a).take (i + 1) = l.take i ++ [a] := by
  induction l generalizing i with
  | nil => simp at h
  | cons b l ih =>
    cases i with
    | zero => simp
    | succ i =>
      simp only [List.length_cons, Nat.add_lt_add_iff_right] at h
      simp [ih i h]

/-- With `errors[next].simd_len() = errors[order].simd_len()` every vector of the destination is
overwritten: nothing of the stale (resized) destination survives. -/
theorem diffLoop_eq (t : Nat) (c : Int) (prev next : List Vec16) (h : next.length = t + prev.length) :
    diffLoop t c prev next = next.take t ++ diffVecs c prev := by
  induction prev generalizing t c next with
  | nil =>
    simp only [diffLoop, diffVecs, List.append_nil]
    rw [List.take_of_length_le (by simp at h; omega)]
  | cons x rest ih =>
    simp only [diffLoop, diffVecs]
    rw [ih (t + 1) _ (next.set t (diffVec x c).1) (by simp at h ⊢; omega),
      take_set_succ _ _ _ (by simp at h; omega)]
    simp

/-- `n` whole vectors of 16 lanes. -/
def Shape (n : Nat) (inner : List Vec16) : Prop := inner.length = n ∧ ∀ v ∈ inner, v.length = 16

theorem diffVecs_shape (n : Nat) (c : Int) (inner : List Vec16) (h : Shape n inner) :
    Shape n (diffVecs c inner) := by
  induction inner generalizing n c with
  | nil => exact h
  | cons x rest ih =>
    obtain ⟨hl, hv⟩ := h
    have hx : x.length = 16 := hv x (by simp)
    have hne : x ≠ [] := by intro e; rw [e] at hx; simp at hx
    have hr := ih (n - 1) (diffVec x c).2 ⟨by simp at hl; omega, fun v hm => hv v (by simp [hm])⟩
    refine ⟨by simp [diffVecs, hr.1] at hl ⊢; omega, ?_⟩
    intro v hm
    simp only [diffVecs, List.mem_cons] at hm
    rcases hm with hm | hm
    · rw [hm, diffVec_eq x c hne]; simp [go_length, hx]
    · exact hr.2 v hm

theorem flat_diffVecs (c : Int) (inner : List Vec16) (h : ∀ v ∈ inner, v.length = 16) :
    flat (diffVecs c inner) = diff1.go c (flat inner) := by
  induction inner generalizing c with
  | nil => simp [diffVecs, flat, go_nil]
  | cons x rest ih =>
    have hx : x.length = 16 := h x (by simp)
    have hne : x ≠ [] := by intro e; rw [e] at hx; simp at hx
    have := ih (diffVec x c).2 (fun v hm => h v (by simp [hm]))
    simp only [flat] at this ⊢
    simp only [diffVecs, List.flatten_cons, this, go_append]
    rw [diffVec_eq x c hne]

/-! ### packing -/

theorem chunk16_spec (n : Nat) (xs : List Int) (h : xs.length = 16 * n) :
    Shape n (chunk16 n xs) ∧ flat (chunk16 n xs) = xs := by
  induction n generalizing xs with
  | zero =>
    have : xs = [] := List.eq_nil_of_length_eq_zero (by omega)
    subst this
    exact ⟨⟨rfl, fun v hv => by cases hv⟩, rfl⟩
  | succ n ih =>
    obtain ⟨⟨h1, h2⟩, h3⟩ := ih (xs.drop 16) (by simp; omega)
    refine ⟨⟨by simp [chunk16, h1], ?_⟩, ?_⟩
    · intro v hv
      simp only [chunk16, List.mem_cons] at hv
      rcases hv with hv | hv
      · rw [hv]; simp; omega
      · exact h2 v hv
    · simp only [flat] at h3 ⊢
      simp only [chunk16, List.flatten_cons, h3, List.take_append_drop]

theorem flat_replicate_zeroV (n : Nat) : flat (List.replicate n zeroV) = List.replicate (16 * n) 0 := by
  induction n with
  | zero => rfl
  | succ n ih =>
    simp only [flat] at ih ⊢
    rw [List.replicate_succ, List.flatten_cons, ih, zeroV, List.replicate_append_replicate]
    congr 1; omega

/-- The signal followed by the zero lanes of the last vector. -/
def padded (signal : List Int) : List Int :=
  signal ++ List.replicate (16 * ((signal.length + 16 - 1) / 16) - signal.length) 0

theorem padded_length (signal : List Int) : (padded signal).length = 16 * ((signal.length + 16 - 1) / 16) := by
  simp only [padded, List.length_append, List.length_replicate]; omega

/-- `pack_into_simd_vec` clears the destination first: the result does not depend on it. -/
theorem packIntoSimdVec_eq (src : List Int) (dest : List Vec16) :
    packIntoSimdVec src dest = chunk16 ((src.length + 16 - 1) / 16) (padded src) := by
  unfold packIntoSimdVec padded
  simp only [vecClear, vecResize_nil, List.length_replicate, flat_replicate_zeroV, List.drop_replicate]

/-! ### the five error signals -/

/-- `errors[k]` after the reset, as a closed expression in the signal. -/
def errAt (signal : List Int) : Nat → SimdVec
  | 0 => ⟨chunk16 ((signal.length + 16 - 1) / 16) (padded signal), signal.length⟩
  | k + 1 => ⟨diffVecs 0 (errAt signal k).inner, signal.length⟩

theorem errAt_spec (signal : List Int) (k : Nat) :
    Shape ((signal.length + 16 - 1) / 16) (errAt signal k).inner ∧
    flat (errAt signal k).inner = diffs k (padded signal) ∧ (errAt signal k).len = signal.length := by
  induction k with
  | zero =>
    obtain ⟨h1, h2⟩ := chunk16_spec _ (padded signal) (padded_length signal)
    exact ⟨h1, h2, rfl⟩
  | succ k ih =>
    obtain ⟨h1, h2, _⟩ := ih
    refine ⟨diffVecs_shape _ _ _ h1, ?_, rfl⟩
    simp only [errAt, flat_diffVecs 0 _ h1.2, h2, diffs, diff1]

theorem errAt_asRef (signal : List Int) (k : Nat) : (errAt signal k).asRef = diffs k signal := by
  obtain ⟨_, h2, h3⟩ := errAt_spec signal k
  unfold SimdVec.asRef
  rw [h2, h3, ← diffs_take]
  simp [padded]

/-- One round of the order loop: the destination `errors[order+1]` is resized (stale vectors are
kept) and then every one of its vectors is overwritten. -/
theorem fixedStep_eq (signal : List Int) (errors : List SimdVec) (order : Nat)
    (hprev : errors.getD order default = errAt signal order) :
    fixedStep signal.length errors order = errors.set (order + 1) (errAt signal (order + 1)) := by
  unfold fixedStep
  simp only [hprev, SimdVec.resize]
  have hs := (errAt_spec signal order).1
  rw [diffLoop_eq 0 0 _ _ (by rw [vecResize_length, hs.1]; omega)]
  simp [errAt]

theorem resetFixedLpcErrors_eq (s0 s1 s2 s3 s4 : SimdVec) (signal : List Int) :
    resetFixedLpcErrors [s0, s1, s2, s3, s4] signal
      = [errAt signal 0, errAt signal 1, errAt signal 2, errAt signal 3, errAt signal 4] := by
  unfold resetFixedLpcErrors
  have hr : List.range 4 = [0, 1, 2, 3] := by decide
  have h0 : ([s0, s1, s2, s3, s4].set 0 (([s0, s1, s2, s3, s4].getD 0 default).resetFromSlice signal))
      = [errAt signal 0, s1, s2, s3, s4] := by
    simp [SimdVec.resetFromSlice, packIntoSimdVec_eq, errAt]
  rw [hr, h0]
  simp only [List.foldl_cons, List.foldl_nil]
  rw [fixedStep_eq signal _ 0 (by simp)]
  simp only [List.set_cons_succ, List.set_cons_zero]
  rw [fixedStep_eq signal _ 1 (by simp)]
  simp only [List.set_cons_succ, List.set_cons_zero]
  rw [fixedStep_eq signal _ 2 (by simp)]
  simp only [List.set_cons_succ, List.set_cons_zero]
  rw [fixedStep_eq signal _ 3 (by simp)]
  simp only [List.set_cons_succ, List.set_cons_zero]

end FlacVerif.Scratch
