/-
Round-trip lemmas writer → parser mirror (`Residual.bits`, `SubFrame.bits`, `Frame.bits` of
`Model/Component.lean` against `Model/RepoParser.lean`), used by C15.
-/
import FlacVerif.Lemmas.RepoSat
namespace FlacVerif.Repo
open PResult

/-! ### primitives -/

theorem takeBits_natToBits (w c v : Nat) (k : Bits) (h : c ≤ w) :
    takeBits w c (natToBits c v ++ k) = .ok (v % 2 ^ c, k) := by
  unfold takeBits
  by_cases hc : c = 0
  · subst hc; simp [natToBits, Nat.mod_one]
  · have hlen : ¬ (natToBits c v ++ k).length < c := by simp
    have hw : ¬ w < c := by omega
    simp only [hc, hlen, hw, if_false]
    have h1 : List.take c (natToBits c v ++ k) = natToBits c v := by
      rw [List.take_append_of_le_length (by simp)]
      rw [List.take_of_length_le (by simp)]
    have h2 : List.drop c (natToBits c v ++ k) = k := by
      rw [List.drop_append_of_le_length (by simp)]
      rw [List.drop_of_length_le (by simp)]
      rfl
    rw [h1, h2, bitsToNat_natToBits]

theorem takeBits_natToBits_lt (w c v : Nat) (k : Bits) (h : c ≤ w) (hv : v < 2 ^ c) :
    takeBits w c (natToBits c v ++ k) = .ok (v, k) := by
  rw [takeBits_natToBits w c v k h, Nat.mod_eq_of_lt hv]

theorem unaryCode_unary (q : Nat) (k : Bits) : unaryCode (List.replicate q false ++ true :: k) = .ok (q, k) := by
  induction q with
  | zero => simp [unaryCode]
  | succ q ih =>
    rw [List.replicate_succ, List.cons_append, unaryCode, ih]

theorem natToBits_congr (w a b : Nat) (h : ∀ j, j < w → a.testBit j = b.testBit j) :
    natToBits w a = natToBits w b := by
  induction w with
  | zero => rfl
  | succ w ih =>
    rw [natToBits, natToBits, h w (by omega), ih (fun j hj => h j (by omega))]

theorem natToBits_stop (p rem : Nat) :
    natToBits (p + 1) (rem ||| (1 <<< p)) = true :: natToBits p rem := by
  rw [natToBits]
  congr 1
  · rw [Nat.testBit_or, Nat.testBit_shiftLeft]; simp
  · apply natToBits_congr
    intro j hj
    rw [Nat.testBit_or, Nat.testBit_shiftLeft]
    have : ¬ j ≥ p := by omega
    simp [this]

/-- One Rice-coded sample is read back. -/
theorem read_sampleBits (p q rem : Nat) (k : Bits) (hp : p ≤ 32) (hr : rem < 2 ^ p) :
    (do let (q', i) ← unaryCode (Residual.sampleBits p q rem ++ k)
        let (r', i) ← takeBits 32 p i
        pure ((q', r'), i) : PResult ((Nat × Nat) × Bits)) = .ok ((q, rem), k) := by
  unfold Residual.sampleBits
  rw [natToBits_stop p rem, List.append_assoc, List.cons_append, unaryCode_unary]
  simp only [ok_bind]
  rw [takeBits_natToBits_lt 32 p rem k hp hr]
  rfl


theorem natToBits_split (a b n : Nat) : natToBits (a + b) n = natToBits a (n / 2 ^ b) ++ natToBits b n := by
  induction a with
  | zero => simp [natToBits]
  | succ a ih =>
    have : a + 1 + b = (a + b) + 1 := by omega
    rw [this, natToBits, natToBits, ih, Nat.testBit_div_two_pow]
    first | rfl | (rw [Nat.add_comm b a]; rfl)

/-! ### residual: list slices -/

/-- `n` entries of `l` from index `t` (default 0). -/
def sliceD (l : List Nat) : (n t : Nat) → List Nat
  | 0, _ => []
  | n + 1, t => l.getD t 0 :: sliceD l n (t + 1)

theorem sliceD_add (l : List Nat) (a b t : Nat) : sliceD l (a + b) t = sliceD l a t ++ sliceD l b (t + a) := by
  induction a generalizing t with
  | zero => simp [sliceD]
  | succ a ih =>
    have : a + 1 + b = (a + b) + 1 := by omega
    rw [this, sliceD, sliceD, ih (t + 1)]
    simp only [List.cons_append]
    congr 3
    omega

theorem sliceD_length (l : List Nat) (n t : Nat) : (sliceD l n t).length = n := by
  induction n generalizing t with
  | zero => rfl
  | succ n ih => simp [sliceD, ih]

theorem sliceD_all (l : List Nat) (n t : Nat) (h : t + n = l.length) : sliceD l n t = l.drop t := by
  induction n generalizing t with
  | zero =>
    rw [sliceD, List.drop_of_length_le (by omega)]
  | succ n ih =>
    rw [sliceD, ih (t + 1) (by omega)]
    have ht : t < l.length := by omega
    rw [List.getD_eq_getElem?_getD, List.getElem?_eq_getElem ht]
    simp only [Option.getD_some]
    exact (List.drop_eq_getElem_cons ht).symm

theorem sliceD_mem (l : List Nat) (n t x : Nat) (hx : x ∈ sliceD l n t) : ∃ j, j < n ∧ x = l.getD (t + j) 0 := by
  induction n generalizing t with
  | zero => simp [sliceD] at hx
  | succ n ih =>
    simp only [sliceD, List.mem_cons] at hx
    rcases hx with hx | hx
    · exact ⟨0, by omega, by simpa using hx⟩
    · obtain ⟨j, hj, hxj⟩ := ih (t + 1) hx
      exact ⟨j + 1, by omega, by rw [hxj]; congr 1; omega⟩

/-- The samples `t .. t+n` of one partition, as `Residual::write` lays them out. -/
def sampBits (p w : Nat) (qs rs : List Nat) : (n t : Nat) → Bits
  | 0, _ => []
  | n + 1, t =>
    (if t < w then [] else Residual.sampleBits p (qs.getD t 0) (rs.getD t 0)) ++ sampBits p w qs rs n (t + 1)

theorem sampBits_eq (p w : Nat) (qs rs : List Nat) (n t : Nat) :
    sampBits p w qs rs n t =
      (List.range (t + n - max w t)).flatMap fun i =>
        Residual.sampleBits p (qs.getD (max w t + i) 0) (rs.getD (max w t + i) 0) := by
  induction n generalizing t with
  | zero =>
    have : t + 0 - max w t = 0 := by omega
    rw [this]; rfl
  | succ n ih =>
    rw [sampBits, ih (t + 1)]
    by_cases h : t < w
    · simp only [h, if_true, List.nil_append]
      have h1 : max w (t + 1) = max w t := by omega
      have h2 : t + 1 + n = t + (n + 1) := by omega
      rw [h1, h2]
    · simp only [h, if_false]
      have h1 : max w (t + 1) = t + 1 := by omega
      have h2 : max w t = t := by omega
      have h3 : t + 1 + n - (t + 1) = n := by omega
      have h4 : t + (n + 1) - t = n + 1 := by omega
      rw [h1, h2, h3, h4, List.range_succ_eq_map, List.flatMap_cons, List.flatMap_map]
      simp only [Nat.add_zero]
      congr 1
      congr 1
      funext i
      have : t + 1 + i = t + (i + 1) := by omega
      rw [this]

theorem residualSamples_read (p w : Nat) (qs rs : List Nat) (hp : p ≤ 32) (n t : Nat) (k : Bits)
    (hz : ∀ j, j < n → t + j < w → qs.getD (t + j) 0 = 0 ∧ rs.getD (t + j) 0 = 0)
    (hr : ∀ j, j < n → ¬ t + j < w → rs.getD (t + j) 0 < 2 ^ p ∧ qs.getD (t + j) 0 < 2 ^ 32) :
    residualSamples p w n t (sampBits p w qs rs n t ++ k) = .ok ((sliceD qs n t, sliceD rs n t), k) := by
  induction n generalizing t with
  | zero => rfl
  | succ n ih =>
    have ih' := ih (t + 1)
      (fun j hj hlt => by have := hz (j + 1) (by omega) (by omega); rwa [show t + (j + 1) = t + 1 + j by omega] at this)
      (fun j hj hlt => by have := hr (j + 1) (by omega) (by omega); rwa [show t + (j + 1) = t + 1 + j by omega] at this)
    rw [residualSamples, sampBits]
    by_cases h : t < w
    · simp only [h, if_true, List.nil_append]
      rw [ih']
      obtain ⟨h1, h2⟩ := hz 0 (by omega) (by simpa using h)
      simp only [Nat.add_zero] at h1 h2
      simp only [ok_bind, pure_eq, sliceD, h1, h2]
    · simp only [h, if_false]
      obtain ⟨h1, h2⟩ := hr 0 (by omega) (by simpa using h)
      simp only [Nat.add_zero] at h1 h2
      rw [List.append_assoc]
      have hrd := read_sampleBits p (qs.getD t 0) (rs.getD t 0) (sampBits p w qs rs n (t + 1) ++ k) hp h1
      -- replay the two reads
      unfold Residual.sampleBits at hrd ⊢
      rw [natToBits_stop, List.append_assoc, List.cons_append, unaryCode_unary] at hrd ⊢
      simp only [ok_bind] at hrd ⊢
      rw [takeBits_natToBits_lt 32 p _ _ hp h1] at hrd ⊢
      simp only [ok_bind]
      rw [ih']
      simp only [ok_bind, pure_eq, sliceD, Nat.mod_eq_of_lt h2]


theorem partBits_eq (r : Residual) (k : Nat) :
    r.partBits k = natToBits 4 (r.params.getD k 0) ++
      sampBits (r.params.getD k 0) r.warmup r.quotients r.remainders r.partLen (k * r.partLen) := by
  rw [sampBits_eq]
  unfold Residual.partBits
  simp only
  have : k * r.partLen + r.partLen = (k + 1) * r.partLen := by rw [Nat.succ_mul]
  rw [this]

theorem uadd_ok (w : Nat) (site : String) (a b : Nat) (h : a + b < 2 ^ w) : uadd w site a b = .ok (a + b) := by
  simp [uadd, h]
theorem usub_ok (site : String) (a b : Nat) (h : b ≤ a) : usub site a b = .ok (a - b) := by
  simp [usub, h]
theorem umul_ok (w : Nat) (site : String) (a b : Nat) (h : a * b < 2 ^ w) : umul w site a b = .ok (a * b) := by
  simp [umul, h]
theorem ushl_one_ok (w : Nat) (site : String) (k : Nat) (h : k < w) : ushl w site 1 k = .ok (2 ^ k) := by
  have : 2 ^ k % 2 ^ w = 2 ^ k := Nat.mod_eq_of_lt (Nat.pow_lt_pow_right (by decide) h)
  simp [ushl, h, this]
theorem passert_ok (c : Bool) (site : String) (h : c = true) : passert c site = .ok () := by
  simp [passert, h]

/-- The hypotheses on a residual that the partition loop needs (a consequence of `Residual.WF` plus the
`u32` range of the quotients and of the block size). -/
structure ResOk (r : Residual) : Prop where
  order : r.order ≤ 15
  params : ∀ j, j < 2 ^ r.order → r.params.getD j 0 ≤ 14
  zeros : ∀ t, t < r.warmup → r.quotients.getD t 0 = 0 ∧ r.remainders.getD t 0 = 0
  rems : ∀ t, t < r.blockSize → r.remainders.getD t 0 < 2 ^ (r.params.getD (t / r.partLen) 0)
  quots : ∀ t, r.quotients.getD t 0 < 2 ^ 32
  fits : 2 ^ r.order * r.partLen ≤ r.blockSize
  small : r.blockSize < 2 ^ 32

theorem residualParts_read (r : Residual) (h : ResOk r) (n part : Nat) (hn : part + n ≤ 2 ^ r.order) (k : Bits) :
    residualParts 4 r.partLen r.warmup n part ((List.range' part n).flatMap r.partBits ++ k) =
      .ok ((sliceD r.params n part, sliceD r.quotients (n * r.partLen) (part * r.partLen),
            sliceD r.remainders (n * r.partLen) (part * r.partLen)), k) := by
  induction n generalizing part with
  | zero => simp [residualParts, sliceD]
  | succ n ih =>
    have hpow : (2 : Nat) ^ r.order ≤ 2 ^ 15 := Nat.pow_le_pow_right (by decide) h.order
    have hpl : r.partLen ≤ r.blockSize := by
      have := h.fits
      have h1 : 1 * r.partLen ≤ 2 ^ r.order * r.partLen := Nat.mul_le_mul_right _ (Nat.two_pow_pos _)
      omega
    have hsm := h.small
    have hp14 := h.params part (by omega)
    rw [List.range'_succ, List.flatMap_cons, partBits_eq, List.append_assoc, List.append_assoc, residualParts]
    rw [takeBits_natToBits_lt 8 4 _ _ (by decide) (by omega)]
    simp only [ok_bind]
    have hb1 : r.partLen * part < 2 ^ 64 := by
      have : r.partLen * part ≤ 2 ^ 32 * 2 ^ 15 := Nat.mul_le_mul (by omega) (by omega)
      omega
    have hb2 : r.partLen * (part + 1) < 2 ^ 64 := by
      have : r.partLen * (part + 1) ≤ 2 ^ 32 * 2 ^ 15 := Nat.mul_le_mul (by omega) (by omega)
      omega
    rw [umul_ok 64 _ _ _ hb1, umul_ok 64 _ _ _ hb2]
    simp only [ok_bind]
    have hdiff : r.partLen * (part + 1) - r.partLen * part = r.partLen := by
      rw [Nat.mul_succ]; omega
    rw [hdiff, Nat.mul_comm part r.partLen]
    have hin : ∀ j, j < r.partLen → r.partLen * part + j < r.blockSize ∧ (r.partLen * part + j) / r.partLen = part := by
      intro j hj
      constructor
      · have h1 : r.partLen * (part + 1) ≤ r.partLen * 2 ^ r.order := Nat.mul_le_mul_left _ (by omega)
        have h2 := h.fits
        rw [Nat.mul_comm] at h2
        rw [Nat.mul_succ] at h1
        omega
      · rw [Nat.mul_add_div (by omega), Nat.div_eq_of_lt hj]; omega
    rw [residualSamples_read (r.params.getD part 0) r.warmup r.quotients r.remainders (by omega) r.partLen
      (r.partLen * part) _
      (fun j _ hlt => h.zeros _ hlt)
      (fun j hj _ => by
        obtain ⟨h1, h2⟩ := hin j hj
        have := h.rems _ h1
        rw [h2] at this
        exact ⟨this, h.quots _⟩)]
    simp only [ok_bind]
    rw [ih (part + 1) (by omega)]
    simp only [ok_bind, pure_eq]
    have e1 : (n + 1) * r.partLen = r.partLen + n * r.partLen := by rw [Nat.succ_mul]; omega
    have e2 : (part + 1) * r.partLen = r.partLen * part + r.partLen := by rw [Nat.succ_mul, Nat.mul_comm]
    rw [e1, sliceD_add r.quotients, sliceD_add r.remainders, e2]
    rfl


theorem getD_mem_or_default (l : List Nat) (t : Nat) : l.getD t 0 ∈ l ∨ l.getD t 0 = 0 := by
  by_cases ht : t < l.length
  · left
    rw [List.getD_eq_getElem?_getD, List.getElem?_eq_getElem ht]
    simp
  · right
    rw [List.getD_eq_getElem?_getD, List.getElem?_eq_none (by omega)]
    rfl

theorem partLen_eq (r : Residual) : r.partLen = r.blockSize / 2 ^ r.order := by
  unfold Residual.partLen
  rw [Nat.shiftRight_eq_div_pow]

theorem resOk_of_WF (r : Residual) (hwf : r.WF) (hq : ∀ q ∈ r.quotients, q < 2 ^ 32) (hbs : r.blockSize < 2 ^ 32) :
    ResOk r := by
  obtain ⟨ho, hpl, hdvd, hw, hpos, hql, hrl, hp14, hz, hrem⟩ := hwf
  refine ⟨ho, ?_, hz, hrem, ?_, ?_, hbs⟩
  · intro j hj
    rcases getD_mem_or_default r.params j with h | h
    · exact hp14 _ h
    · omega
  · intro t
    rcases getD_mem_or_default r.quotients t with h | h
    · exact hq _ h
    · rw [h]; exact Nat.two_pow_pos 32
  · rw [partLen_eq]; exact Nat.mul_div_le _ _

/-- (a) `Residual::write` followed by `parser::residual` is the identity on well-formed residuals whose
quotients and block size fit their Rust types (`u32`; block sizes are at most 65535). -/
theorem residual_read (r : Residual) (hwf : r.WF) (hq : ∀ q ∈ r.quotients, q < 2 ^ 32)
    (hbs : r.blockSize < 2 ^ 32) (k : Bits) :
    residual r.blockSize r.warmup (r.bits ++ k) = .ok (r, k) := by
  have hok := resOk_of_WF r hwf hq hbs
  obtain ⟨ho, hpl, hdvd, hw, hpos, hql, hrl, hp14, hz, hrem⟩ := hwf
  have hpow : (2 : Nat) ^ r.order ≤ 2 ^ 15 := Nat.pow_le_pow_right (by decide) ho
  unfold residual Residual.bits
  have h6 : natToBits 6 r.order = natToBits 2 0 ++ natToBits 4 r.order := by
    have := natToBits_split 2 4 r.order
    have h0 : r.order / 2 ^ 4 = 0 := Nat.div_eq_of_lt (by omega)
    rw [h0] at this
    exact this
  rw [h6, List.append_assoc, List.append_assoc]
  rw [takeBits_natToBits_lt 8 2 0 _ (by decide) (by decide)]
  simp only [ok_bind, if_true]
  rw [takeBits_natToBits_lt 8 4 r.order _ (by decide) (by omega)]
  simp only [ok_bind]
  rw [ushl_one_ok 64 _ r.order (by omega)]
  simp only [ok_bind]
  have hc0 : ¬ (2 ^ r.order = 0) := by have := Nat.two_pow_pos r.order; omega
  simp only [hc0, if_false]
  rw [← partLen_eq]
  unfold Residual.nparts
  rw [List.range_eq_range', residualParts_read r hok (2 ^ r.order) 0 (by omega) k]
  simp only [ok_bind]
  have hfull : 2 ^ r.order * r.partLen = r.blockSize := by
    rw [partLen_eq]; exact Nat.mul_div_cancel' hdvd
  have e1 : sliceD r.params (2 ^ r.order) 0 = r.params := by
    rw [sliceD_all _ _ _ (by omega)]; rfl
  have e2 : sliceD r.quotients (2 ^ r.order * r.partLen) (0 * r.partLen) = r.quotients := by
    rw [Nat.zero_mul, sliceD_all _ _ _ (by omega)]; rfl
  have e3 : sliceD r.remainders (2 ^ r.order * r.partLen) (0 * r.partLen) = r.remainders := by
    rw [Nat.zero_mul, sliceD_all _ _ _ (by omega)]; rfl
  rw [e1, e2, e3]
  rw [passert_ok _ _ (by simp [hpl])]
  simp only [ok_bind]
  have hmax : r.quotients.foldl max 0 < 2 ^ 32 := foldl_max_lt _ _ 0 (by decide) hq
  have hmul : r.quotients.foldl max 0 * r.blockSize < 2 ^ 64 :=
    calc r.quotients.foldl max 0 * r.blockSize < 2 ^ 32 * 2 ^ 32 := Nat.mul_lt_mul'' hmax hbs
      _ = 2 ^ 64 := by decide
  rw [umul_ok 64 _ _ _ hmul]
  simp only [ok_bind]
  have hsumq : r.quotients.foldl (· + ·) 0 + 0 < 2 ^ 64 := by
    have h1 := foldl_add_le r.quotients (2 ^ 32) 0 (fun q hq' => Nat.le_of_lt (hq q hq'))
    have h2 : r.quotients.length * 2 ^ 32 ≤ 2 ^ 32 * 2 ^ 32 := Nat.mul_le_mul (by omega) (Nat.le_refl _)
    omega
  have hsump : r.params.foldl (· + ·) 0 + 0 < 2 ^ 64 := by
    have h1 := foldl_add_le r.params 14 0 (fun p hp => hp14 p hp)
    have h2 : r.params.length * 14 ≤ 2 ^ 15 * 14 := Nat.mul_le_mul (by omega) (Nat.le_refl _)
    omega
  rw [uadd_ok 64 _ _ _ hsumq, uadd_ok 64 _ _ _ hsump]
  split <;> rfl


/-! ### samples -/

theorem uToI_eq (x bits : Nat) (h1 : 1 ≤ bits) (h2 : bits ≤ 30) (hx : x < 2 ^ bits) :
    uToI x bits = .ok (if x ≥ 2 ^ (bits - 1) then (x : Int) - (2 ^ bits : Int) else (x : Int)) := by
  unfold uToI
  have hp30 : (2 : Nat) ^ bits ≤ 2 ^ 30 := Nat.pow_le_pow_right (by decide) h2
  have hpm : (2 : Nat) ^ (bits - 1) ≤ 2 ^ 29 := Nat.pow_le_pow_right (by decide) (by omega)
  have hdbl : (2 : Nat) ^ bits = 2 * 2 ^ (bits - 1) := by
    have : bits = (bits - 1) + 1 := by omega
    conv => lhs; rw [this, Nat.pow_succ]
    omega
  rw [usub_ok _ bits 1 h1]
  simp only [ok_bind]
  rw [ushl_one_ok 64 _ (bits - 1) (by omega)]
  simp only [ok_bind]
  have hx31 : ¬ x ≥ 2 ^ 31 := by omega
  have hcast : ((2 : Int) ^ bits) = ((2 ^ bits : Nat) : Int) := (Int.natCast_pow 2 bits).symm
  by_cases hge : x ≥ 2 ^ (bits - 1)
  · simp only [hge, if_true]
    rw [ushl_one_ok 32 _ bits (by omega)]
    simp only [ok_bind, pure_eq]
    have has : asSigned 32 ((2 ^ bits : Nat) : Int) = (2 ^ bits : Int) := by
      have := asSigned32_two_pow bits h2
      rw [Nat.one_mul, Nat.mod_eq_of_lt (by omega)] at this
      exact this
    rw [has]
    simp only [hx31, if_false]
    have hin : inI32 ((x : Int) - 2 ^ bits) = true := by
      unfold inI32
      rw [hcast]
      simp only [Bool.and_eq_true, decide_eq_true_eq]
      constructor <;> omega
    simp only [hin, if_true]
  · rw [if_neg hge]
    simp only [ok_bind, pure_eq]
    rw [if_neg hx31]
    have hin : inI32 ((x : Int) - 0) = true := by
      unfold inI32
      simp only [Bool.and_eq_true, decide_eq_true_eq]
      constructor <;> omega
    rw [if_pos hin, if_neg hge, Int.sub_zero]

theorem inRange_iff (b : Nat) (v : Int) : SubFrame.inRange b v = true ↔ -(2 ^ (b - 1) : Int) ≤ v ∧ v < (2 ^ (b - 1) : Int) := by
  simp [SubFrame.inRange]

/-- Reading back one two's-complement sample. -/
theorem read_twoc (b : Nat) (v : Int) (k : Bits) (h1 : 1 ≤ b) (h2 : b ≤ 30) (hv : SubFrame.inRange b v = true)
    (w : Nat := 32) (hw : b ≤ w := by omega) :
    (do let (u, i) ← takeBits w b (twoc b v ++ k)
        let x ← uToI u b
        pure (x, i) : PResult (Int × Bits)) = .ok (v, k) := by
  rw [inRange_iff] at hv
  obtain ⟨hlo, hhi⟩ := hv
  unfold twoc
  have hp30 : (2 : Nat) ^ b ≤ 2 ^ 30 := Nat.pow_le_pow_right (by decide) h2
  have hdbl : (2 : Nat) ^ b = 2 * 2 ^ (b - 1) := by
    have : b = (b - 1) + 1 := by omega
    conv => lhs; rw [this, Nat.pow_succ]
    omega
  have hcast : ((2 : Int) ^ b) = ((2 ^ b : Nat) : Int) := (Int.natCast_pow 2 b).symm
  have hcast1 : ((2 : Int) ^ (b - 1)) = ((2 ^ (b - 1) : Nat) : Int) := (Int.natCast_pow 2 (b - 1)).symm
  rw [hcast1] at hlo hhi
  have hpos : (0 : Int) < ((2 ^ b : Nat) : Int) := by have := Nat.two_pow_pos b; omega
  have hmod_nonneg : 0 ≤ v % ((2 ^ b : Nat) : Int) := Int.emod_nonneg _ (by omega)
  have hmod_lt : v % ((2 ^ b : Nat) : Int) < ((2 ^ b : Nat) : Int) := Int.emod_lt_of_pos _ hpos
  have hxlt : (v % (2 ^ b : Int)).toNat < 2 ^ b := by
    rw [hcast]; omega
  rw [takeBits_natToBits_lt w b _ k hw hxlt]
  simp only [ok_bind]
  rw [uToI_eq _ b h1 h2 hxlt]
  simp only [ok_bind, pure_eq]
  congr 2
  rw [hcast]
  by_cases hneg : v < 0
  · have hm : v % ((2 ^ b : Nat) : Int) = v + ((2 ^ b : Nat) : Int) := by
      rw [← Int.add_emod_right v]
      exact Int.emod_eq_of_lt (by omega) (by omega)
    rw [hm]
    have : (v + ((2 ^ b : Nat) : Int)).toNat ≥ 2 ^ (b - 1) := by omega
    simp only [this, if_true]
    omega
  · have hm : v % ((2 ^ b : Nat) : Int) = v := Int.emod_eq_of_lt (by omega) (by omega)
    rw [hm]
    have : ¬ v.toNat ≥ 2 ^ (b - 1) := by omega
    simp only [this, if_false]
    omega

theorem rawSamplesLoop_read (bps : Nat) (h1 : 1 ≤ bps) (h2 : bps ≤ 30) (xs : List Int) (k : Bits)
    (hx : ∀ x ∈ xs, SubFrame.inRange bps x = true) :
    rawSamplesLoop bps xs.length (xs.flatMap (twoc bps) ++ k) = .ok (xs, k) := by
  induction xs with
  | nil => rfl
  | cons x xs ih =>
    rw [List.length_cons, rawSamplesLoop, List.flatMap_cons, List.append_assoc]
    have hr := read_twoc bps x (xs.flatMap (twoc bps) ++ k) h1 h2 (hx x (by simp))
    have hxlt : (x % (2 ^ bps : Int)).toNat < 2 ^ bps := by
      have hcast : ((2 : Int) ^ bps) = ((2 ^ bps : Nat) : Int) := (Int.natCast_pow 2 bps).symm
      have hpos : (0 : Int) < ((2 ^ bps : Nat) : Int) := by have := Nat.two_pow_pos bps; omega
      have := Int.emod_lt_of_pos x hpos
      have := Int.emod_nonneg x (show ((2 ^ bps : Nat) : Int) ≠ 0 by omega)
      rw [hcast]; omega
    unfold twoc at hr ⊢
    rw [takeBits_natToBits_lt 32 bps _ _ (by omega) hxlt] at hr ⊢
    simp only [ok_bind] at hr ⊢
    cases hu : uToI (x % 2 ^ bps).toNat bps with
    | ok v =>
      rw [hu] at hr
      simp only [ok_bind, pure_eq] at hr ⊢
      injection hr with hr
      injection hr with hr1 _
      subst hr1
      have := ih (fun y hy => hx y (by simp [hy]))
      unfold twoc at this
      rw [this]
      rfl
    | error e => rw [hu] at hr; cases hr
    | panic s => rw [hu] at hr; cases hr

theorem rawSamples_read (bps : Nat) (h1 : 1 ≤ bps) (h2 : bps ≤ 25) (xs : List Int) (k : Bits)
    (hx : ∀ x ∈ xs, SubFrame.inRange bps x = true) :
    rawSamples bps xs.length (xs.flatMap (twoc bps) ++ k) = .ok (xs, k) := by
  unfold rawSamples
  rw [passert_ok _ _ (by simpa using h2)]
  simp only [ok_bind]
  exact rawSamplesLoop_read bps h1 (by omega) xs k hx


/-! ### subframes -/

theorem subframeHeader_read (v : Nat) (k : Bits) (hv : v < 256) (he : v % 2 = 0) :
    subframeHeader (natToBits 8 v ++ k) = .ok (v / 2, k) := by
  unfold subframeHeader
  have h8 : natToBits 8 v = natToBits 7 (v / 2) ++ natToBits 1 v := by
    have := natToBits_split 7 1 v
    simpa using this
  rw [h8, List.append_assoc]
  rw [takeBits_natToBits_lt 8 7 (v / 2) _ (by decide) (by omega)]
  simp only [ok_bind]
  rw [takeBits_natToBits 8 1 v k (by decide)]
  simp only [ok_bind]
  have : v % 2 ^ 1 = 0 := by simpa using he
  simp [this]

theorem or_shl1 (i x : Nat) (hx : 2 * x < 2 ^ i) : 2 ^ i ||| (x <<< 1) = 2 ^ i + 2 * x := by
  have h1 : x <<< 1 = 2 * x := by rw [Nat.shiftLeft_eq]; omega
  rw [h1]
  have := Nat.two_pow_add_eq_or_of_lt hx 1
  rw [Nat.mul_one] at this
  exact this.symm

theorem asSigned_id (w : Nat) (v : Int) (hw : 1 ≤ w) (hlo : -(2 ^ (w - 1) : Int) ≤ v) (hhi : v < (2 ^ (w - 1) : Int)) :
    asSigned w v = v := by
  unfold asSigned
  have hdbl : (2 : Nat) ^ w = 2 * 2 ^ (w - 1) := by
    have : w = (w - 1) + 1 := by omega
    conv => lhs; rw [this, Nat.pow_succ]
    omega
  have hcast : ((2 : Int) ^ w) = ((2 ^ w : Nat) : Int) := (Int.natCast_pow 2 w).symm
  have hcast1 : ((2 : Int) ^ (w - 1)) = ((2 ^ (w - 1) : Nat) : Int) := (Int.natCast_pow 2 (w - 1)).symm
  rw [hcast1] at hlo hhi
  rw [hcast, hcast1]
  have hpos := Nat.two_pow_pos (w - 1)
  by_cases hneg : v < 0
  · have hm : v % ((2 ^ w : Nat) : Int) = v + ((2 ^ w : Nat) : Int) := by
      rw [← Int.add_emod_right v]
      exact Int.emod_eq_of_lt (by omega) (by omega)
    simp only [hm]
    have : ¬ (v + ((2 ^ w : Nat) : Int) < ((2 ^ (w - 1) : Nat) : Int)) := by omega
    rw [if_neg this]
    omega
  · have hm : v % ((2 ^ w : Nat) : Int) = v := Int.emod_eq_of_lt (by omega) (by omega)
    simp only [hm]
    rw [if_pos hhi]

theorem map_asSigned_id (w p : Nat) (hp1 : 1 ≤ p) (hpw : p ≤ w) (cs : List Int)
    (h : ∀ c ∈ cs, SubFrame.inRange p c = true) : cs.map (asSigned w) = cs := by
  induction cs with
  | nil => rfl
  | cons c cs ih =>
    rw [List.map_cons, ih (fun c' hc' => h c' (by simp [hc']))]
    congr 1
    have hc := (inRange_iff p c).1 (h c (by simp))
    have hmono : (2 : Int) ^ (p - 1) ≤ 2 ^ (w - 1) := by
      have h1 : ((2 : Int) ^ (p - 1)) = ((2 ^ (p - 1) : Nat) : Int) := (Int.natCast_pow 2 (p - 1)).symm
      have h2 : ((2 : Int) ^ (w - 1)) = ((2 ^ (w - 1) : Nat) : Int) := (Int.natCast_pow 2 (w - 1)).symm
      have : (2 : Nat) ^ (p - 1) ≤ 2 ^ (w - 1) := Nat.pow_le_pow_right (by decide) (by omega)
      rw [h1, h2]; omega
    exact asSigned_id w c (by omega) (by omega) (by omega)

theorem quantizedNew_ok (coefs : List Int) (order : Nat) (shift : Int) (precision : Nat)
    (ho : order ≤ 24) (hl : coefs.length = order) (hs0 : 0 ≤ shift) (hs1 : shift ≤ 15)
    (hp1 : 1 ≤ precision) (hp2 : precision ≤ 15) (hc : ∀ c ∈ coefs, SubFrame.inRange precision c = true) :
    quantizedNew coefs order shift precision = .ok (some ()) := by
  unfold quantizedNew
  have h1 : ¬ order > 24 := by omega
  have h2 : ¬ coefs.length ≠ order := by simp [hl]
  have h3 : ¬ (shift < 0 ∨ shift > 15) := by omega
  have h4 : ¬ (precision < 1 ∨ precision > 15) := by omega
  rw [if_neg h1, if_neg h2]
  rw [passert_ok _ _ (by simp [hl]), passert_ok _ _ (by simp; omega)]
  simp only [ok_bind]
  rw [if_neg h3, if_neg h4]
  rw [usub_ok _ _ _ hp1]
  simp only [ok_bind]
  rw [ushl_one_ok 32 _ _ (by omega)]
  simp only [ok_bind]
  have hpw : (2 : Nat) ^ (precision - 1) ≤ 2 ^ 14 := Nat.pow_le_pow_right (by decide) (by omega)
  have h5 : ¬ 2 ^ (precision - 1) ≥ 2 ^ 31 := by omega
  rw [if_neg h5]
  have hall : (coefs.all fun c => decide (-((2 ^ (precision - 1) : Nat) : Int) ≤ c) &&
      decide (c ≤ ((2 ^ (precision - 1) : Nat) : Int) - 1)) = true := by
    rw [List.all_eq_true]
    intro c hcm
    have := (inRange_iff precision c).1 (hc c hcm)
    have hcast1 : ((2 : Int) ^ (precision - 1)) = ((2 ^ (precision - 1) : Nat) : Int) :=
      (Int.natCast_pow 2 (precision - 1)).symm
    rw [hcast1] at this
    simp only [Bool.and_eq_true, decide_eq_true_eq]
    omega
  simp only [hall, if_true]
  rw [if_neg h1]

/-- Extra conditions under which the repository's parser reads a subframe back: what its Rust types and
its own limits impose beyond `SubFrame.WF` (bits-per-sample at most 25; LPC order at most
`MAX_LPC_ORDER = 24`; `u32` quotients; block size below `2^32`). -/
def SubOk : SubFrame → Prop
  | .constant _ _ b => b ≤ 25
  | .verbatim _ b => b ≤ 25
  | .fixed _ res b => b ≤ 25 ∧ (∀ q ∈ res.quotients, q < 2 ^ 32) ∧ res.blockSize < 2 ^ 32
  | .lpc _ coefs _ _ res b => b ≤ 25 ∧ coefs.length ≤ 24 ∧ (∀ q ∈ res.quotients, q < 2 ^ 32) ∧ res.blockSize < 2 ^ 32

instance (s : SubFrame) : Decidable s.WF := by
  cases s <;> (unfold SubFrame.WF; infer_instance)

instance (s : SubFrame) : Decidable (SubOk s) := by
  cases s <;> (unfold SubOk; infer_instance)

theorem constant_read (n : Nat) (dc : Int) (b : Nat) (k : Bits) (h1 : 1 ≤ b) (h2 : b ≤ 25)
    (hdc : SubFrame.inRange b dc = true) :
    constant n b ((SubFrame.constant n dc b).bits ++ k) = .ok (.constant n dc b, k) := by
  unfold constant SubFrame.bits
  rw [List.append_assoc, subframeHeader_read 0 _ (by decide) (by decide)]
  simp only [ok_bind]
  have hr := read_twoc b dc k h1 (by omega) hdc
  have hxlt : (dc % (2 ^ b : Int)).toNat < 2 ^ b := by
    have hcast : ((2 : Int) ^ b) = ((2 ^ b : Nat) : Int) := (Int.natCast_pow 2 b).symm
    have hpos : (0 : Int) < ((2 ^ b : Nat) : Int) := by have := Nat.two_pow_pos b; omega
    have := Int.emod_lt_of_pos dc hpos
    have := Int.emod_nonneg dc (show ((2 ^ b : Nat) : Int) ≠ 0 by omega)
    rw [hcast]; omega
  unfold twoc at hr ⊢
  rw [takeBits_natToBits_lt 32 b _ _ (by omega) hxlt] at hr ⊢
  simp only [ok_bind] at hr ⊢
  have hmod : b % 256 = b := Nat.mod_eq_of_lt (by omega)
  cases hu : uToI (dc % 2 ^ b).toNat b with
  | ok v =>
    rw [hu] at hr
    simp only [ok_bind, pure_eq] at hr ⊢
    injection hr with hr
    injection hr with hr1 _
    subst hr1
    simp [hmod]
  | error e => rw [hu] at hr; cases hr
  | panic s => rw [hu] at hr; cases hr


theorem verbatim_read (xs : List Int) (b : Nat) (k : Bits) (h1 : 1 ≤ b) (h2 : b ≤ 25)
    (hx : ∀ x ∈ xs, SubFrame.inRange b x = true) :
    verbatim xs.length b ((SubFrame.verbatim xs b).bits ++ k) = .ok (.verbatim xs b, k) := by
  unfold verbatim SubFrame.bits
  rw [List.append_assoc, subframeHeader_read 2 _ (by decide) (by decide)]
  simp only [ok_bind]
  rw [rawSamples_read b h1 h2 xs k hx]
  have hmod : b % 256 = b := Nat.mod_eq_of_lt (by omega)
  simp [hmod]

theorem fixedLpc_read (warm : List Int) (res : Residual) (b : Nat) (k : Bits)
    (hwf : (SubFrame.fixed warm res b).WF) (hok : SubOk (.fixed warm res b)) :
    fixedLpc res.blockSize b ((SubFrame.fixed warm res b).bits ++ k) = .ok (.fixed warm res b, k) := by
  obtain ⟨hl4, hlw, hres, _, hb1, _, hwr⟩ := hwf
  obtain ⟨hb2, hq, hbs⟩ := hok
  unfold fixedLpc
  simp only [SubFrame.bits]
  have hv : 0x10 ||| (warm.length <<< 1) = 16 + 2 * warm.length := or_shl1 4 warm.length (by omega)
  rw [hv, List.append_assoc, List.append_assoc, subframeHeader_read _ _ (by omega) (by omega)]
  simp only [ok_bind]
  have htt : (16 + 2 * warm.length) / 2 = 8 + warm.length := by omega
  rw [htt]
  have hc : ¬ ¬ (8 ≤ 8 + warm.length ∧ 8 + warm.length ≤ 12) := by omega
  rw [if_neg hc, usub_ok _ _ _ (by omega)]
  simp only [ok_bind]
  have ho : 8 + warm.length - 8 = warm.length := by omega
  rw [ho, rawSamples_read b hb1 hb2 warm _ hwr]
  simp only [ok_bind]
  have h4 : ¬ warm.length > 4 := by omega
  rw [if_neg h4, hlw, residual_read res hres hq hbs k]
  have hmod : b % 256 = b := Nat.mod_eq_of_lt (by omega)
  simp [hmod]

theorem quantizedParameters_read (coefs : List Int) (shift : Int) (precision : Nat) (k : Bits)
    (ho : coefs.length ≤ 24) (hs0 : 0 ≤ shift) (hs1 : shift ≤ 15) (hp1 : 1 ≤ precision) (hp2 : precision ≤ 15)
    (hc : ∀ c ∈ coefs, SubFrame.inRange precision c = true) :
    quantizedParameters coefs.length
      (natToBits 4 (precision - 1) ++ (twoc 5 shift ++ (coefs.flatMap (twoc precision) ++ k))) =
      .ok ((coefs, shift, precision), k) := by
  unfold quantizedParameters
  rw [takeBits_natToBits_lt 8 4 _ _ (by decide) (by omega)]
  simp only [ok_bind]
  rw [uadd_ok 64 _ _ _ (by omega)]
  simp only [ok_bind]
  have hprec : precision - 1 + 1 = precision := by omega
  rw [hprec]
  have hsr : SubFrame.inRange 5 shift = true := by
    rw [inRange_iff]; constructor <;> omega
  have hr := read_twoc 5 shift (coefs.flatMap (twoc precision) ++ k) (by decide) (by decide) hsr 8 (by decide)
  cases ht : takeBits 8 5 (twoc 5 shift ++ (coefs.flatMap (twoc precision) ++ k)) with
  | ok v =>
    obtain ⟨x, i2⟩ := v
    rw [ht] at hr
    simp only [ok_bind] at hr ⊢
    cases hu : uToI x 5 with
    | ok s =>
      rw [hu] at hr
      simp only [ok_bind, pure_eq] at hr ⊢
      injection hr with hr
      injection hr with hr1 hr2
      subst hr1; subst hr2
      rw [rawSamples_read precision hp1 (by omega) coefs k hc]
      simp only [ok_bind]
      rw [map_asSigned_id 16 precision hp1 (by omega) coefs hc]
      have hsh : asSigned 8 s = s := asSigned_id 8 s (by decide) (by omega) (by omega)
      rw [hsh, quantizedNew_ok coefs coefs.length s precision ho rfl hs0 hs1 hp1 hp2 hc]
      rfl
    | error e => rw [hu] at hr; cases hr
    | panic s => rw [hu] at hr; cases hr
  | error e => rw [ht] at hr; cases hr
  | panic s => rw [ht] at hr; cases hr

theorem lpc_read (warm coefs : List Int) (shift : Int) (precision : Nat) (res : Residual) (b : Nat) (k : Bits)
    (hwf : (SubFrame.lpc warm coefs shift precision res b).WF)
    (hok : SubOk (.lpc warm coefs shift precision res b)) :
    lpc res.blockSize b ((SubFrame.lpc warm coefs shift precision res b).bits ++ k) =
      .ok (.lpc warm coefs shift precision res b, k) := by
  obtain ⟨hc1, _, hwc, hlw, hres, _, hp1, hp2, hs0, hs1, hcr, hb1, _, hwr⟩ := hwf
  obtain ⟨hb2, hc24, hq, hbs⟩ := hok
  unfold lpc
  simp only [SubFrame.bits]
  have hv : 0x40 ||| ((coefs.length - 1) <<< 1) = 64 + 2 * (coefs.length - 1) :=
    or_shl1 6 (coefs.length - 1) (by omega)
  rw [hv]
  simp only [List.append_assoc]
  rw [subframeHeader_read _ _ (by omega) (by omega)]
  simp only [ok_bind]
  have htt : (64 + 2 * (coefs.length - 1)) / 2 = 32 + (coefs.length - 1) := by omega
  rw [htt]
  have hc : ¬ ¬ (0x20 ≤ 32 + (coefs.length - 1) ∧ 32 + (coefs.length - 1) < 0x40) := by omega
  rw [if_neg hc, usub_ok _ _ _ (by omega)]
  simp only [ok_bind]
  rw [uadd_ok 64 _ _ _ (by omega)]
  simp only [ok_bind]
  have ho : 32 + (coefs.length - 1) - 0x20 + 1 = warm.length := by omega
  rw [ho, rawSamples_read b hb1 hb2 warm _ hwr]
  simp only [ok_bind]
  have h24 : ¬ warm.length > 24 := by omega
  rw [if_neg h24, hwc, quantizedParameters_read coefs shift precision _ hc24 hs0 hs1 hp1 hp2 hcr]
  simp only [ok_bind]
  have hw' : coefs.length = res.warmup := by omega
  rw [hw', residual_read res hres hq hbs k]
  simp only [ok_bind]
  rw [passert_ok _ _ (by simp)]
  have hmod : b % 256 = b := Nat.mod_eq_of_lt (by omega)
  simp [hmod]


theorem constant_reject (n b v : Nat) (k : Bits) (hv : v < 256) (he : v % 2 = 0) (ht : v / 2 ≠ 0) :
    constant n b (natToBits 8 v ++ k) = .error false := by
  unfold constant
  rw [subframeHeader_read v k hv he]
  simp only [ok_bind]
  rw [if_pos ht]

theorem fixedLpc_reject (n b v : Nat) (k : Bits) (hv : v < 256) (he : v % 2 = 0)
    (ht : ¬ (8 ≤ v / 2 ∧ v / 2 ≤ 12)) : fixedLpc n b (natToBits 8 v ++ k) = .error false := by
  unfold fixedLpc
  rw [subframeHeader_read v k hv he]
  simp only [ok_bind]
  rw [if_pos ht]

theorem lpc_reject (n b v : Nat) (k : Bits) (hv : v < 256) (he : v % 2 = 0)
    (ht : ¬ (0x20 ≤ v / 2 ∧ v / 2 < 0x40)) : lpc n b (natToBits 8 v ++ k) = .error false := by
  unfold lpc
  rw [subframeHeader_read v k hv he]
  simp only [ok_bind]
  rw [if_pos ht]

theorem subframe_asserts (blockSize bps : Nat) (h2 : bps ≤ 25) (i : Bits) :
    subframe blockSize bps i =
      alt (constant blockSize bps) (alt (fixedLpc blockSize bps) (alt (lpc blockSize bps) (verbatim blockSize bps))) i := by
  unfold subframe bpsAssert
  have hb : decide (bps ≤ 25) = true := by simpa using h2
  simp only [passert_ok _ _ hb, ok_bind]

/-- (b) `SubFrame::write` followed by `parser::subframe` is the identity on well-formed subframes within
the repository's own limits (`SubOk`). -/
theorem subframe_read (s : SubFrame) (hwf : s.WF) (hok : SubOk s) (k : Bits) :
    subframe s.blockSize s.bps (s.bits ++ k) = .ok (s, k) := by
  cases s with
  | constant n dc b =>
    obtain ⟨_, hb1, _, hdc⟩ := hwf
    have hb2 : b ≤ 25 := hok
    simp only [SubFrame.blockSize, SubFrame.bps]
    rw [subframe_asserts _ _ hb2]
    unfold alt
    rw [constant_read n dc b k hb1 hb2 hdc]
  | verbatim xs b =>
    obtain ⟨_, hb1, _, hx⟩ := hwf
    have hb2 : b ≤ 25 := hok
    simp only [SubFrame.blockSize, SubFrame.bps]
    rw [subframe_asserts _ _ hb2]
    have hv := verbatim_read xs b k hb1 hb2 hx
    simp only [SubFrame.bits, List.append_assoc] at hv ⊢
    unfold alt
    rw [constant_reject _ _ 2 _ (by decide) (by decide) (by decide)]
    simp only
    rw [fixedLpc_reject _ _ 2 _ (by decide) (by decide) (by decide)]
    simp only
    rw [lpc_reject _ _ 2 _ (by decide) (by decide) (by decide)]
    simp only
    exact hv
  | fixed warm res b =>
    have hb2 : b ≤ 25 := hok.1
    have hl4 : warm.length ≤ 4 := hwf.1
    simp only [SubFrame.blockSize, SubFrame.bps]
    rw [subframe_asserts _ _ hb2]
    have hv := fixedLpc_read warm res b k hwf hok
    have he : 0x10 ||| (warm.length <<< 1) = 16 + 2 * warm.length := or_shl1 4 warm.length (by omega)
    simp only [SubFrame.bits, List.append_assoc, he] at hv ⊢
    unfold alt
    rw [constant_reject _ _ _ _ (by omega) (by omega) (by omega)]
    simp only
    rw [hv]
  | lpc warm coefs shift precision res b =>
    have hb2 : b ≤ 25 := hok.1
    have hc24 : coefs.length ≤ 24 := hok.2.1
    have hc1 : 1 ≤ coefs.length := hwf.1
    simp only [SubFrame.blockSize, SubFrame.bps]
    rw [subframe_asserts _ _ hb2]
    have hv := lpc_read warm coefs shift precision res b k hwf hok
    have he : 0x40 ||| ((coefs.length - 1) <<< 1) = 64 + 2 * (coefs.length - 1) :=
      or_shl1 6 (coefs.length - 1) (by omega)
    simp only [SubFrame.bits, List.append_assoc, he] at hv ⊢
    unfold alt
    rw [constant_reject _ _ _ _ (by omega) (by omega) (by omega)]
    simp only
    rw [fixedLpc_reject _ _ _ _ (by omega) (by omega) (by omega)]
    simp only
    rw [hv]

end FlacVerif.Repo
