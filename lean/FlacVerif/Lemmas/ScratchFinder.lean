/-
Helper lemmas for C10, site 4: `PrcParameterFinder::find` on stale buffers (`Scratch.find`)
against the stateless mirror `searchFolded` / `search`. Core Lean only.
-/
import FlacVerif.Model.Scratch
import FlacVerif.Lemmas.RiceSearchLoop
namespace FlacVerif.Scratch
open FlacVerif

/-! ### `Vec` primitives -/

@[simp] theorem vecResize_length {α : Type} (xs : List α) (n : Nat) (v : α) :
    (vecResize xs n v).length = n := by
  simp only [vecResize, List.length_append, List.length_take, List.length_replicate]; omega

theorem vecResize_nil {α : Type} (n : Nat) (v : α) : vecResize ([] : List α) n v = List.replicate n v := by
  simp [vecResize]

theorem mapM_some_length {α β : Type} (f : α → Option β) (l : List α) (r : List β)
    (h : l.mapM f = some r) : r.length = l.length := by
  induction l generalizing r with
  | nil => simp at h; subst h; rfl
  | cons a l ih =>
    rw [List.mapM_cons] at h
    cases hf : f a with
    | none => simp [hf] at h
    | some b =>
      cases hl : l.mapM f with
      | none => simp [hf, hl] at h
      | some bs =>
        simp [hf, hl] at h
        subst h
        simp [ih bs hl]

/-- With a destination of the right length every cell is overwritten. -/
theorem mapOverwrite_eq_mapM {α β : Type} (f : α → Option β) (src : List α) (dest : List β)
    (h : dest.length = src.length) : mapOverwrite f src dest = src.mapM f := by
  induction src generalizing dest with
  | nil =>
    cases dest with
    | nil => simp [mapOverwrite]
    | cons d ds => simp at h
  | cons x xs ih =>
    cases dest with
    | nil => simp at h
    | cons d ds =>
      simp only [List.length_cons, Nat.add_right_cancel_iff] at h
      rw [mapOverwrite, List.mapM_cons, ih ds h]
      rfl

theorem foldl_push {α β : Type} (g : α → β) (l : List α) (init : List β) :
    l.foldl (fun tb p => tb ++ [g p]) init = init ++ l.map g := by
  induction l generalizing init with
  | nil => simp
  | cons a l ih => simp [ih]

/-! ### `eval_partitions` into a stale vector -/

theorem evalInto_eq (maxP : Nat) (tables : List Table) (ps : List Nat) (acc : Nat)
    (h : tables.length ≤ ps.length) :
    evalInto maxP tables ps acc
      = (acc + (tables.map fun t => (t.minimizer maxP).2).sum,
         (tables.map fun t => (t.minimizer maxP).1) ++ ps.drop tables.length) := by
  induction tables generalizing ps acc with
  | nil => cases ps <;> simp [evalInto]
  | cons t ts ih =>
    cases ps with
    | nil => simp at h
    | cons p ps =>
      simp only [List.length_cons, Nat.add_le_add_iff_right] at h
      simp only [evalInto, ih ps _ h, List.map_cons, List.sum_cons, List.length_cons,
        List.drop_succ_cons, List.cons_append]
      congr 1; omega

/-- A vector of exactly the right length is completely overwritten: the stale contents of `ps`
do not matter and the result is that of the stateless `evalPartitions`. -/
theorem evalPartitionsInto_eq (tables : List Table) (ps : List Nat) (maxP : Nat)
    (h : ps.length = tables.length) :
    evalPartitionsInto tables ps maxP = some (evalPartitions tables maxP) := by
  unfold evalPartitionsInto
  rw [if_neg (by omega), evalInto_eq maxP tables ps 0 (by omega), RiceSearch.evalPartitions_eq,
    List.drop_of_length_le (by omega)]
  simp

/-! ### `merge_partitions` in place -/

def mergedAt (tb0 : List Table) (i : Nat) : Table := (tb0.getD (2 * i) []).merge (tb0.getD (2 * i + 1) []) 4

def mergeStep (tb : List Table) (k : Nat) : List Table :=
  tb.set k ((tb.getD (2 * k) []).merge (tb.getD (2 * k + 1) []) 4)

theorem mergeFold_spec (tb0 : List Table) (j : Nat) (hj : j ≤ tb0.length) :
    ((List.range j).foldl mergeStep tb0).length = tb0.length ∧
    ∀ i, ((List.range j).foldl mergeStep tb0).getD i [] = if i < j then mergedAt tb0 i else tb0.getD i [] := by
  induction j with
  | zero => simp
  | succ j ih =>
    obtain ⟨hl, hg⟩ := ih (by omega)
    rw [List.range_succ, List.foldl_append]
    simp only [List.foldl_cons, List.foldl_nil]
    generalize List.foldl mergeStep tb0 (List.range j) = X at hl hg ⊢
    refine ⟨by simp [mergeStep, hl], ?_⟩
    intro i
    have e1 := hg (2 * j)
    have e2 := hg (2 * j + 1)
    rw [if_neg (by omega)] at e1 e2
    unfold mergeStep
    rw [e1, e2]
    simp only [List.getD_eq_getElem?_getD, List.getElem?_set]
    by_cases hij : j = i
    · subst hij
      simp only [↓reduceIte, hl]
      rw [if_pos (by omega), if_pos (by omega)]
      simp [mergedAt, List.getD_eq_getElem?_getD]
    · simp only [hij, ↓reduceIte]
      have := hg i
      simp only [List.getD_eq_getElem?_getD] at this
      rw [this]
      by_cases h1 : i < j
      · rw [if_pos h1, if_pos (by omega)]
      · rw [if_neg h1, if_neg (by omega)]

/-- The in-place merge leaves in the first `nparts/2` cells what the stateless
`mergePartitions` computes from the first `nparts` tables. -/
theorem mergePartitionsInPlace_spec (tables : List Table) (nparts : Nat)
    (h1 : nparts ≤ tables.length) (h2 : nparts < 2 ^ 15) :
    ∃ tb, mergePartitionsInPlace tables nparts = some (tb, nparts / 2) ∧ tb.length = tables.length ∧
      tb.take (nparts / 2) = mergePartitions (tables.take nparts) := by
  have hm : nparts / 2 ≤ tables.length := by omega
  obtain ⟨hl, hg⟩ := mergeFold_spec tables (nparts / 2) hm
  refine ⟨(List.range (nparts / 2)).foldl mergeStep tables, ?_, hl, ?_⟩
  · unfold mergePartitionsInPlace
    rw [if_neg (by omega), if_neg (by omega)]
    rfl
  · apply List.ext_getElem
    · simp [mergePartitions, hl]; omega
    · intro i hi1 hi2
      have hi : i < nparts / 2 := by
        simp only [List.length_take] at hi1; omega
      have e := hg i
      rw [if_pos hi] at e
      have hlt : i < ((List.range (nparts / 2)).foldl mergeStep tables).length := by omega
      rw [List.getElem_take]
      have : ((List.range (nparts / 2)).foldl mergeStep tables)[i]
          = ((List.range (nparts / 2)).foldl mergeStep tables).getD i [] := by
        simp [List.getD_eq_getElem?_getD, List.getElem?_eq_getElem hlt]
      rw [this, e]
      simp only [mergePartitions, List.getElem_map, List.getElem_range, mergedAt]
      have a1 : (tables.take nparts).getD (2 * i) [] = tables.getD (2 * i) [] := by
        simp only [List.getD_eq_getElem?_getD, List.getElem?_take]
        rw [if_pos (by omega)]
      have a2 : (tables.take nparts).getD (2 * i + 1) [] = tables.getD (2 * i + 1) [] := by
        simp only [List.getD_eq_getElem?_getD, List.getElem?_take]
        rw [if_pos (by omega)]
      rw [a1, a2]

/-! ### the order loop -/

theorem evalPartitions_snd_length (tables : List Table) (maxP : Nat) :
    (evalPartitions tables maxP).2.length = tables.length := by
  rw [RiceSearch.evalPartitions_eq]; simp

theorem mergePartitions_length (tables : List Table) : (mergePartitions tables).length = tables.length / 2 := by
  simp [mergePartitions]

/-- The loop on the re-used vectors computes what the stateless loop computes, whatever `s.ps`
contains on entry. -/
theorem findLoop_spec (maxP fuel : Nat) (s : LoopSt) (h1 : s.nparts ≤ s.tables.length)
    (h2 : s.nparts = 2 ^ s.order) (h3 : s.order < 15) (h4 : s.minPs.length = 2 ^ s.minOrder) :
    ∃ s', findLoop maxP fuel s = some s' ∧ s'.minPs.length = 2 ^ s'.minOrder ∧
      (⟨s'.minOrder, s'.minPs, s'.minBits⟩ : PrcParameter)
        = searchFolded.loop maxP (s.tables.take s.nparts) s.order ⟨s.minOrder, s.minPs, s.minBits⟩ fuel := by
  induction fuel generalizing s with
  | zero => exact ⟨s, rfl, h4, by simp [searchFolded.loop]⟩
  | succ fuel ih =>
    unfold findLoop searchFolded.loop
    have hlen : (s.tables.take s.nparts).length = s.nparts := by simp [List.length_take]; omega
    by_cases hn : s.nparts ≤ 1
    · simp only [hn, ↓reduceIte, hlen]
      exact ⟨s, rfl, h4, rfl⟩
    · simp only [hn, ↓reduceIte, hlen]
      have hlt : s.nparts < 2 ^ 15 := by
        rw [h2]; exact Nat.pow_lt_pow_right (by omega) h3
      obtain ⟨tb, hm, hml, hmt⟩ := mergePartitionsInPlace_spec s.tables s.nparts h1 hlt
      have hpos : 1 ≤ s.order := by
        cases ho : s.order with
        | zero => rw [ho] at h2; omega
        | succ k => omega
      have hhalf : s.nparts / 2 = 2 ^ (s.order - 1) := by
        have : s.order = (s.order - 1) + 1 := by omega
        rw [h2]; conv => lhs; rw [this, Nat.pow_succ]
        omega
      have htk : (tb.take (s.nparts / 2)).length = s.nparts / 2 := by simp [List.length_take]; omega
      have hev := evalPartitionsInto_eq (tb.take (s.nparts / 2)) (vecResize s.ps (s.nparts / 2) 0) maxP
        (by rw [vecResize_length, htk])
      rw [hmt] at hev
      simp only [hm, Option.bind_eq_bind, Option.bind_some, hmt, hev]
      have hpl := evalPartitions_snd_length (mergePartitions (s.tables.take s.nparts)) maxP
      rw [mergePartitions_length, hlen] at hpl
      generalize hE : evalPartitions (mergePartitions (s.tables.take s.nparts)) maxP = E at hpl
      obtain ⟨bits, ps⟩ := E
      simp only at hpl ⊢
      by_cases hb : bits < s.minBits
      · simp only [hb, ↓reduceIte]
        have := ih ⟨tb, s.nparts / 2, s.order - 1, ps, vecExtend (vecClear s.minPs) ps, bits, s.order - 1⟩
          (by simp only; omega) (by simp only; exact hhalf) (by simp only; omega)
          (by simp only [vecExtend, vecClear, List.nil_append]; rw [hpl, hhalf])
        simp only [vecExtend, vecClear, List.nil_append] at this ⊢
        rw [hmt] at this
        exact this
      · simp only [hb, ↓reduceIte]
        have := ih ⟨tb, s.nparts / 2, s.order - 1, ps, s.minPs, s.minBits, s.minOrder⟩
          (by simp only; omega) (by simp only; exact hhalf) (by simp only; omega) (by simp only; exact h4)
        simp only at this ⊢
        rw [hmt] at this
        exact this

/-- With `2^15` partitions the `assert!` of `merge_partitions` fires in the first round. -/
theorem findLoop_none (maxP fuel : Nat) (s : LoopSt) (h : ¬ s.nparts < 2 ^ 15) :
    findLoop maxP (fuel + 1) s = none := by
  unfold findLoop
  have : ¬ s.nparts ≤ 1 := by omega
  simp only [this, ↓reduceIte, mergePartitionsInPlace]
  by_cases h' : s.nparts > s.tables.length
  · simp [h']
  · simp [h', h]

/-! ### the whole `find` -/

theorem finestOrder_le (size minPart o : Nat) (h : finestOrder size minPart = some o) : o ≤ 15 := by
  unfold finestOrder at h
  split at h
  · cases h
  · simp only at h
    split at h
    · cases h
    · simp only [Option.some.injEq] at h
      omega

/-- `find` on ANY stale state: the returned parameter is a function of `(signal, warm, maxP)`
only, namely `search` whenever the finest order is below 15. -/
theorem findResult_eq (st : FinderState) (signal : List Int) (warm maxP : Nat) :
    findResult st signal warm maxP =
      match finestOrder signal.length (max 64 warm) with
      | none => none
      | some o => if o < 15 then search signal warm maxP else none := by
  unfold findResult find search
  cases ho : finestOrder signal.length (max 64 warm) with
  | none => simp
  | some o =>
    simp only [Option.bind_eq_bind, Option.bind_some, vecClear, vecResize_nil]
    rw [mapOverwrite_eq_mapM encodeSignbit signal _ (by simp)]
    cases hes : signal.mapM encodeSignbit with
    | none => simp
    | some es =>
      have hlen := mapM_some_length _ _ _ hes
      simp only [Option.bind_some, foldl_push, List.nil_append]
      -- the finest tables
      generalize hT : (List.range (2 ^ o)).map (fun p =>
        Table.fromErrors ((es.take ((p + 1) * (signal.length / 2 ^ o))).drop
          (max (p * (signal.length / 2 ^ o)) warm)) 4) = T
      have hTl : T.length = 2 ^ o := by rw [← hT]; simp
      rw [evalPartitionsInto_eq T _ maxP (by rw [vecResize_length, hTl])]
      simp only [Option.bind_some]
      have hpl := evalPartitions_snd_length T maxP
      generalize hE : evalPartitions T maxP = E at hpl
      obtain ⟨bits0, ps0⟩ := E
      simp only at hpl ⊢
      by_cases h15 : o < 15
      · obtain ⟨s', hs', hl', hr'⟩ := findLoop_spec maxP 16 ⟨T, 2 ^ o, o, st.ps, ps0, bits0, o⟩
          (by simp only; omega) rfl h15 (by simp only; rw [hpl, hTl])
        simp only at hr'
        rw [List.take_of_length_le (by omega)] at hr'
        simp only [hs', Option.bind_some, Option.map_some, h15, ↓reduceIte, searchFolded, hlen, ho,
          Option.bind_eq_bind, hT, hE]
        rw [← hr']
        simp only [vecTruncate]
        rw [List.take_of_length_le (by omega)]
      · have ho15 : o = 15 := by have := finestOrder_le _ _ _ ho; omega
        simp only [h15, ↓reduceIte]
        rw [findLoop_none maxP 15 _ (by simp only; rw [ho15]; omega)]
        rfl

end FlacVerif.Scratch
