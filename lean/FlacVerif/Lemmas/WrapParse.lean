/-
Wrapping decoder (C01, release build), part 7: the repository's own READ path on the encoder's frames —
`Frame::write`, then `parser::frame` (C15), then `Frame::decode()` of the release build — returns the
interleaved input, for every oracle log satisfying `OEvent.Ok` (LPC orders within the parser's limit 24).
-/
import FlacVerif.Lemmas.WrapGood
import FlacVerif.Lemmas.CountFrame
namespace FlacVerif
namespace Wrap
open Repo

theorem chOk_tag (asg : ChannelAssignment) (h : ChOk asg) : asg.tag ≤ 15 := by
  cases asg with
  | independent k =>
    have : 1 ≤ k ∧ k ≤ 8 := h
    simp only [ChannelAssignment.tag]; omega
  | leftSide => decide
  | rightSide => decide
  | midSide => decide

/-- A frame made of a `headerFor` header and good sub-frames: serialisable, reported size = written
size, and within the parser's limits. -/
theorem frame_good_assemble (asg : ChannelAssignment) (hasg : ChOk asg) (subs : List SubFrame)
    (n bps rate number : Nat) (hdr : FrameHeader) (hn : 1 ≤ n ∧ n < 2 ^ 16) (hb : bps ≤ 24) (hnum : number < 2 ^ 32)
    (hh : headerFor asg n bps rate number = some hdr) (hsl : subs.length = asg.channels)
    (K : Nat) (hsub : ∀ i (h1 : i < subs.length), SubGood K n (bps + asg.bpsOffset i) subs[i])
    (info : StreamInfo) (hinfo : info.channels = asg.channels ∧ info.bps = bps) :
    (K ≤ 24 → FrameOk info ⟨hdr, subs⟩) ∧ ∃ fb, (Frame.mk hdr subs).bits rfcCrc8 rfcCrc16 = some fb ∧
      (Frame.mk hdr subs).count = some fb.length := by
  refine ⟨fun hK => frameOk_assemble asg hasg subs n bps rate number hdr hn hb hnum hh hsl K hK hsub info hinfo, ?_⟩
  have hwf : ∀ s ∈ subs, s.WF := by
    intro s hs
    obtain ⟨i, hi, rfl⟩ := List.getElem_of_mem hs
    exact (hsub i hi).1
  unfold headerFor at hh
  simp only [Option.bind_eq_bind, Option.bind_eq_some_iff, Option.some.injEq] at hh
  obtain ⟨bss, _, rfl⟩ := hh
  obtain ⟨fb, h1, h2, _⟩ := Count.frame_bits rfcCrc8 rfcCrc16
    (Frame.mk (FrameHeader.mk false bss asg (sampleSizeTag bps) ((SampleRateSpec.fromFreq rate).getD .unspecified) number 0) subs)
    (by simp only [FrameHeader.number, Bool.false_eq_true, if_false]; omega) (chOk_tag asg hasg) hwf
  exact ⟨fb, h1, h2⟩

/-- Every frame `encode_frame` returns is serialisable and within the limits of the repository's own
parser. -/
theorem frame_good (cfg : SubCfg) (st : StereoCfg) (chans : List (List Int)) (bps rate number n : Nat)
    (log log' : List OEvent) (f : Frame)
    (hch : 1 ≤ chans.length ∧ chans.length ≤ 8) (hlen : ∀ c ∈ chans, c.length = n) (hn : 1 ≤ n ∧ n < 2 ^ 16)
    (hb : 1 ≤ bps ∧ bps ≤ 24) (hx : ∀ c ∈ chans, ∀ x ∈ c, SubFrame.inRange bps x = true)
    (hnum : number < 2 ^ 32) (hmax : cfg.maxP ≤ 14) (hlog : ∀ e ∈ log, e.Ok)
    (K : Nat) (hord : ∀ c sh p, OEvent.qlpc c sh p ∈ log → c.length ≤ K)
    (h : encodeFrame cfg st chans bps rate number log = some (f, log'))
    (info : StreamInfo) (hinfo : info.channels = chans.length ∧ info.bps = bps) :
    (K ≤ 24 → FrameOk info f) ∧ ∃ fb, f.bits rfcCrc8 rfcCrc16 = some fb ∧ f.count = some fb.length := by
  have hhead : (chans.headD []).length = n := by
    cases chans with
    | nil => simp at hch
    | cons c cs => exact hlen c (by simp)
  unfold encodeFrame at h
  simp only [Option.bind_eq_some_iff] at h
  obtain ⟨⟨indep, l1⟩, hi, h⟩ := h
  rw [hhead] at h
  have hrng0 : ∀ i (h : i < chans.length), 1 ≤ bps + (ChannelAssignment.independent chans.length).bpsOffset (0 + i) ∧
      bps + (ChannelAssignment.independent chans.length).bpsOffset (0 + i) ≤ 25 ∧
      ∀ x ∈ chans[i], SubFrame.inRange (bps + (ChannelAssignment.independent chans.length).bpsOffset (0 + i)) x = true :=
    fun i hi' => ⟨by simp [ChannelAssignment.bpsOffset]; omega, by simp [ChannelAssignment.bpsOffset]; omega,
      by simpa [ChannelAssignment.bpsOffset] using hx _ (List.getElem_mem hi')⟩
  obtain ⟨hil, hisub, hidec⟩ := encodeChannels_wrap cfg (.independent chans.length) bps n hn hmax chans 0 log l1 indep
    hlen hrng0 hlog hi
  have hig := encodeChannels_good cfg (.independent chans.length) bps n hn hmax K chans 0 log l1 indep
    hlen hrng0 hlog hord hi
  split at h
  · rename_i l r sl sr heq
    simp only at heq
    subst heq
    simp only [Option.bind_eq_some_iff] at h
    obtain ⟨⟨msSubs, l2⟩, hm, h⟩ := h
    have hll : l.length = n := hlen l (by simp)
    have hrl : r.length = n := hlen r (by simp)
    obtain ⟨hmidr, hsider⟩ := Strict.midSide_range bps hb.1 l r (hx l (by simp)) (hx r (by simp))
    have hmg := encodeChannels_good cfg .midSide bps n hn hmax K
      [Strict.midOf l r, Strict.sideOf l r] 0 l1 l2 msSubs
      (by
        intro c hc
        simp only [List.mem_cons, List.not_mem_nil, or_false] at hc
        rcases hc with rfl | rfl <;> simp [hll, hrl])
      (Strict.two_facts (fun i c => 1 ≤ bps + ChannelAssignment.midSide.bpsOffset (0 + i) ∧
          bps + ChannelAssignment.midSide.bpsOffset (0 + i) ≤ 25 ∧
          ∀ x ∈ c, SubFrame.inRange (bps + ChannelAssignment.midSide.bpsOffset (0 + i)) x = true) _ _
        ⟨by simp [ChannelAssignment.bpsOffset]; omega, by simp [ChannelAssignment.bpsOffset]; omega,
          by simpa [ChannelAssignment.bpsOffset] using hmidr⟩
        ⟨by simp [ChannelAssignment.bpsOffset], by simp [ChannelAssignment.bpsOffset]; omega,
          by simpa [ChannelAssignment.bpsOffset] using hsider⟩)
      (fun e he => hlog e (hisub e he)) (fun c sh p hmem => hord c sh p (hisub _ hmem)) hm
    split at h
    · rename_i sm ss heq2
      simp only at heq2
      subst heq2
      simp only [Option.map_eq_some_iff, Prod.mk.injEq] at h
      obtain ⟨hdr, hhdr, hf, _⟩ := h
      subst hf
      have gsl := hig 0 (by simp)
      have gsr := hig 1 (by simp)
      have gsm := hmg 0 (by simp)
      have gss := hmg 1 (by simp)
      simp only [List.getElem_cons_zero, List.getElem_cons_succ, ChannelAssignment.bpsOffset, Nat.zero_add,
        Nat.add_zero, if_true, show ¬ ((0 : Nat) = 1) by decide, if_false] at gsl gsr gsm gss
      have hinfo2 : ∀ a : ChannelAssignment, a.channels = 2 → info.channels = a.channels ∧ info.bps = bps := by
        intro a ha
        rw [ha]
        exact ⟨by simpa using hinfo.1, hinfo.2⟩
      rcases Strict.chooseStereo_cases st (cnt sl) (cnt sr) (cnt sm) (cnt ss) with ha | ha | ha | ha
      · rw [ha] at hhdr ⊢
        simp only [selectChannels]
        exact frame_good_assemble (.independent 2) (by simp [ChOk]) [sl, sr] n bps rate number hdr hn hb.2 hnum hhdr rfl K
          (Strict.two_facts (fun i s => SubGood K n (bps + (ChannelAssignment.independent 2).bpsOffset i) s) sl sr
            (by simpa [ChannelAssignment.bpsOffset] using gsl) (by simpa [ChannelAssignment.bpsOffset] using gsr))
          info (hinfo2 _ rfl)
      · rw [ha] at hhdr ⊢
        simp only [selectChannels]
        exact frame_good_assemble .leftSide trivial [sl, ss] n bps rate number hdr hn hb.2 hnum hhdr rfl K
          (Strict.two_facts (fun i s => SubGood K n (bps + ChannelAssignment.leftSide.bpsOffset i) s) sl ss
            (by simpa [ChannelAssignment.bpsOffset] using gsl) (by simpa [ChannelAssignment.bpsOffset] using gss))
          info (hinfo2 _ rfl)
      · rw [ha] at hhdr ⊢
        simp only [selectChannels]
        exact frame_good_assemble .rightSide trivial [ss, sr] n bps rate number hdr hn hb.2 hnum hhdr rfl K
          (Strict.two_facts (fun i s => SubGood K n (bps + ChannelAssignment.rightSide.bpsOffset i) s) ss sr
            (by simpa [ChannelAssignment.bpsOffset] using gss) (by simpa [ChannelAssignment.bpsOffset] using gsr))
          info (hinfo2 _ rfl)
      · rw [ha] at hhdr ⊢
        simp only [selectChannels]
        exact frame_good_assemble .midSide trivial [sm, ss] n bps rate number hdr hn hb.2 hnum hhdr rfl K
          (Strict.two_facts (fun i s => SubGood K n (bps + ChannelAssignment.midSide.bpsOffset i) s) sm ss
            (by simpa [ChannelAssignment.bpsOffset] using gsm) (by simpa [ChannelAssignment.bpsOffset] using gss))
          info (hinfo2 _ rfl)
    · exact absurd h (by simp)
  · split at h
    · exact absurd h (by simp)
    · rename_i chans _ _ _ _
      simp only [Option.map_eq_some_iff, Prod.mk.injEq] at h
      obtain ⟨hdr, hhdr, hf, _⟩ := h
      subst hf
      exact frame_good_assemble (.independent chans.length) (by simpa [ChOk] using hch) indep n bps rate number hdr hn
        hb.2 hnum hhdr hil K
        (fun i h1 => by simpa [ChannelAssignment.bpsOffset] using hig i h1) info hinfo

/-- Frame level, write → parse → decode (see `C01_frame_wrap_roundtrip`). -/
theorem frame_wrap_roundtrip (cfg : SubCfg) (st : StereoCfg) (chans : List (List Int)) (bps rate number n : Nat)
    (log log' : List OEvent) (f : Frame)
    (hch : 1 ≤ chans.length ∧ chans.length ≤ 8) (hlen : ∀ c ∈ chans, c.length = n) (hn : 1 ≤ n ∧ n < 2 ^ 16)
    (hb : 1 ≤ bps ∧ bps ≤ 24) (hx : ∀ c ∈ chans, ∀ x ∈ c, SubFrame.inRange bps x = true)
    (hnum : number < 2 ^ 32) (hmax : cfg.maxP ≤ 14) (hlog : ∀ e ∈ log, e.Ok)
    (h : encodeFrame cfg st chans bps rate number log = some (f, log'))
    (info : StreamInfo) (hinfo : info.channels = chans.length ∧ info.bps = bps) (checkCrc : Bool) (more : List Nat) :
    ∃ fb, f.bits rfcCrc8 rfcCrc16 = some fb ∧
      parseFrame info checkCrc (packBytes fb ++ more) = .ok (f, more) ∧
      decodeFrameMode false f = .ok (Rfc.interleave chans) := by
  obtain ⟨hok, fb, hfb, _⟩ := frame_good cfg st chans bps rate number n log log' f hch hlen hn hb hx hnum hmax hlog 24
    (OEvent.ok_order_le log hlog) h info hinfo
  exact ⟨fb, hfb, parseFrame_read f info checkCrc fb more hfb (hok (Nat.le_refl _)),
    frame_wrapdec cfg st chans bps rate number n log log' f hch hlen hn hb hx hmax hlog h⟩

end Wrap
end FlacVerif
