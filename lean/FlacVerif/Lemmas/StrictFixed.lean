/-
Strict round trip (C01/C02), part 4: the fixed predictors. The encoder computes iterated wrapping
`i32` differences at all positions (`diffs`); for samples of at most 25 bits and order at most 4
nothing wraps, and after dropping the first `k` entries they are the exact fixed-predictor
residual of RFC 9639 (`fixedResidual`).
-/
import FlacVerif.Lemmas.StrictPrim
import FlacVerif.Lemmas.Predict
namespace FlacVerif
namespace Strict

/-- Exact first difference continuing from `prev`. -/
def ego (prev : Int) : List Int → List Int
  | [] => []
  | x :: rest => (x - prev) :: ego x rest

/-- Exact iterated differences (all positions). -/
def ediffs : Nat → List Int → List Int
  | 0, xs => xs
  | k + 1, xs => ego 0 (ediffs k xs)

theorem wrap32_id (v : Int) (h1 : -(2 ^ 31 : Int) ≤ v) (h2 : v < (2 ^ 31 : Int)) : wrap32 v = v := by
  unfold wrap32
  rw [Int.emod_eq_of_lt (by omega) (by omega)]
  omega

theorem go_exact (B : Int) (hB : 2 * B < 2 ^ 31) (ys : List Int) (prev : Int)
    (hp : -B ≤ prev ∧ prev ≤ B) (hy : ∀ y ∈ ys, -B ≤ y ∧ y ≤ B) :
    diff1.go prev ys = ego prev ys ∧ ∀ z ∈ ego prev ys, -(2 * B) ≤ z ∧ z ≤ 2 * B := by
  induction ys generalizing prev with
  | nil => exact ⟨rfl, fun z hz => by simp [ego] at hz⟩
  | cons y ys ih =>
    have hy0 := hy y (by simp)
    obtain ⟨e1, e2⟩ := ih y hy0 (fun z hz => hy z (by simp [hz]))
    refine ⟨?_, ?_⟩
    · rw [diff1.go, ego, e1, wrap32_id _ (by omega) (by omega)]
    · intro z hz
      simp only [ego, List.mem_cons] at hz
      rcases hz with rfl | hz
      · omega
      · exact e2 z hz

theorem diffs_exact (B : Int) (hB0 : 0 ≤ B) (xs : List Int) (hx : ∀ x ∈ xs, -B ≤ x ∧ x ≤ B) (k : Nat)
    (hk : 2 ^ k * B < 2 ^ 31) :
    diffs k xs = ediffs k xs ∧ ∀ z ∈ ediffs k xs, -(2 ^ k * B) ≤ z ∧ z ≤ 2 ^ k * B := by
  induction k with
  | zero =>
    refine ⟨rfl, ?_⟩
    intro z hz
    have := hx z hz
    simp only [Int.pow_zero, Int.one_mul]
    exact this
  | succ k ih =>
    have hpow : (2 : Int) ^ (k + 1) * B = 2 * (2 ^ k * B) := by rw [Int.pow_succ]; ac_rfl
    rw [hpow] at hk
    have hpos : (0 : Int) ≤ 2 ^ k * B := Int.mul_nonneg (Int.pow_nonneg (by decide)) hB0
    obtain ⟨e1, e2⟩ := ih (by omega)
    obtain ⟨g1, g2⟩ := go_exact (2 ^ k * B) hk (ediffs k xs) 0 (by omega) e2
    refine ⟨?_, ?_⟩
    · rw [diffs, e1, diff1, g1, ediffs]
    · rw [hpow]; exact g2

/-! ### the nested differences are the fixed predictors -/

theorem pred1 (a : Int) (h : List Int) : predict [1] 0 (a :: h) = a := by
  simp [predict]
theorem pred2 (a b : Int) (h : List Int) : predict [2, -1] 0 (b :: a :: h) = 2 * b - a := by
  simp [predict]; omega
theorem pred3 (a b c : Int) (h : List Int) : predict [3, -3, 1] 0 (c :: b :: a :: h) = 3 * c - 3 * b + a := by
  simp [predict]; omega
theorem pred4 (a b c d : Int) (h : List Int) :
    predict [4, -6, 4, -1] 0 (d :: c :: b :: a :: h) = 4 * d - 6 * c + 4 * b - a := by
  simp [predict]; omega

theorem fix0 (ys h : List Int) : residualFrom [] 0 h ys = ys := by
  induction ys generalizing h with
  | nil => rfl
  | cons y ys ih => simp [residualFrom, ih, predict]

theorem fix1 (ys : List Int) (a : Int) (h : List Int) : ego a ys = residualFrom [1] 0 (a :: h) ys := by
  induction ys generalizing a h with
  | nil => rfl
  | cons y ys ih => rw [ego, residualFrom, pred1, ih y (a :: h)]

theorem fix2 (ys : List Int) (a b : Int) (h : List Int) :
    ego (b - a) (ego b ys) = residualFrom [2, -1] 0 (b :: a :: h) ys := by
  induction ys generalizing a b h with
  | nil => rfl
  | cons y ys ih =>
    rw [ego, ego, residualFrom, pred2, ih b y (a :: h)]
    congr 1; omega

theorem fix3 (ys : List Int) (a b c : Int) (h : List Int) :
    ego (c - 2 * b + a) (ego (c - b) (ego c ys)) = residualFrom [3, -3, 1] 0 (c :: b :: a :: h) ys := by
  induction ys generalizing a b c h with
  | nil => rfl
  | cons y ys ih =>
    rw [ego, ego, ego, residualFrom, pred3, ← ih b c y (a :: h)]
    congr 1
    · omega
    · congr 1; omega

theorem fix4 (ys : List Int) (a b c d : Int) (h : List Int) :
    ego (d - 3 * c + 3 * b - a) (ego (d - 2 * c + b) (ego (d - c) (ego d ys))) =
      residualFrom [4, -6, 4, -1] 0 (d :: c :: b :: a :: h) ys := by
  induction ys generalizing a b c d h with
  | nil => rfl
  | cons y ys ih =>
    rw [ego, ego, ego, ego, residualFrom, pred4, ← ih b c d y (a :: h)]
    congr 1
    · omega
    · congr 1
      · omega
      · congr 1; omega

/-- The exact iterated differences, after the first `k` entries, are the RFC's fixed-predictor
residual of order `k`. -/
theorem ediffs_drop (k : Nat) (hk : k ≤ 4) (xs : List Int) (hl : k ≤ xs.length) :
    (ediffs k xs).drop k = fixedResidual k xs := by
  unfold fixedResidual lpcResidual
  rcases k with _ | _ | _ | _ | _ | k
  · simp [ediffs, fixedCoefs, fix0]
  · match xs, hl with
    | a :: ys, _ =>
      simp only [ediffs, ego, fixedCoefs, List.length_cons, List.length_nil, Nat.zero_add, List.drop_succ_cons,
        List.drop_zero, List.take_succ_cons, List.take_zero, List.reverse_cons, List.reverse_nil, List.nil_append]
      rw [fix1 ys a []]
  · match xs, hl with
    | a :: b :: ys, _ =>
      simp only [ediffs, ego, fixedCoefs, List.length_cons, List.length_nil, Nat.zero_add, List.drop_succ_cons,
        List.drop_zero, List.take_succ_cons, List.take_zero, List.reverse_cons, List.reverse_nil, List.nil_append,
        List.cons_append]
      rw [← fix2 ys a b []]
  · match xs, hl with
    | a :: b :: c :: ys, _ =>
      simp only [ediffs, ego, fixedCoefs, List.length_cons, List.length_nil, Nat.zero_add, List.drop_succ_cons,
        List.drop_zero, List.take_succ_cons, List.take_zero, List.reverse_cons, List.reverse_nil, List.nil_append,
        List.cons_append]
      rw [← fix3 ys a b c []]
      congr 1
      omega
  · match xs, hl with
    | a :: b :: c :: d :: ys, _ =>
      simp only [ediffs, ego, fixedCoefs, List.length_cons, List.length_nil, Nat.zero_add, List.drop_succ_cons,
        List.drop_zero, List.take_succ_cons, List.take_zero, List.reverse_cons, List.reverse_nil, List.nil_append,
        List.cons_append]
      rw [← fix4 ys a b c d []]
      congr 1
      · omega
      · congr 1
        omega
  · omega

theorem ego_length (p : Int) (ys : List Int) : (ego p ys).length = ys.length := by
  induction ys generalizing p with
  | nil => rfl
  | cons y ys ih => simp [ego, ih]

theorem ediffs_length (k : Nat) (xs : List Int) : (ediffs k xs).length = xs.length := by
  induction k with
  | zero => rfl
  | succ k ih => rw [ediffs, ego_length, ih]

/-- For samples of width at most 25 bits and order at most 4: `diffs` does not wrap, every entry
lies strictly inside `(-2^31, 2^31)`, and the entries after the first `k` are the exact residual. -/
theorem diffs_fixed (bps : Nat) (hb : 1 ≤ bps ∧ bps ≤ 25) (xs : List Int)
    (hx : ∀ x ∈ xs, SubFrame.inRange bps x = true) (k : Nat) (hk : k ≤ 4) (hl : k ≤ xs.length) :
    (diffs k xs).length = xs.length ∧
    (∀ e ∈ diffs k xs, -(2 ^ 31 : Int) < e ∧ e < (2 ^ 31 : Int)) ∧
    (diffs k xs).drop k = fixedResidual k xs := by
  have hB : ∀ x ∈ xs, -(2 ^ 24 : Int) ≤ x ∧ x ≤ 2 ^ 24 := by
    intro x hxm
    have := (inRange_iff bps x).1 (hx x hxm)
    have hcast1 : ((2 : Int) ^ (bps - 1)) = ((2 ^ (bps - 1) : Nat) : Int) := (Int.natCast_pow 2 (bps - 1)).symm
    have hle : (2 : Nat) ^ (bps - 1) ≤ 2 ^ 24 := Nat.pow_le_pow_right (by decide) (by omega)
    rw [hcast1] at this
    omega
  have hpow : (2 : Int) ^ k ≤ 2 ^ 4 := by
    have h1 : ((2 : Int) ^ k) = ((2 ^ k : Nat) : Int) := (Int.natCast_pow 2 k).symm
    have : (2 : Nat) ^ k ≤ 2 ^ 4 := Nat.pow_le_pow_right (by decide) hk
    rw [h1]; omega
  have hprod : (2 : Int) ^ k * 2 ^ 24 ≤ 2 ^ 28 := by
    have := Int.mul_le_mul_of_nonneg_right hpow (show (0 : Int) ≤ 2 ^ 24 by decide)
    omega
  obtain ⟨e1, e2⟩ := diffs_exact (2 ^ 24) (by decide) xs hB k (by omega)
  refine ⟨by rw [e1, ediffs_length], ?_, by rw [e1, ediffs_drop k hk xs hl]⟩
  intro e he
  rw [e1] at he
  have := e2 e he
  omega

end Strict
end FlacVerif
