/-
Control invariant of the protocol model: list lengths, what each main-thread pc implies, the
accounting of stop tokens (sent = queued + consumed), the shape of the encode queue (stop tokens only
after all work items) and the channel capacities.
-/
import FlacVerif.Lemmas.ParStep
import FlacVerif.Lemmas.ParList
namespace FlacVerif.Par

/-- The feed loop is over (`request_stop` and later). -/
def MPc.pastFeed : MPc → Prop
  | .stop _ | .reqStop | .joinH | .joinW _ | .done => True
  | _ => False

instance (m : MPc) : Decidable m.pastFeed := by
  cases m <;> simp only [MPc.pastFeed] <;> infer_instance

/-- Number of stop tokens the main thread has sent. -/
def MPc.nonesSent (W : Nat) : MPc → Nat
  | .stop r => W - r
  | .reqStop | .joinH | .joinW _ | .done => W
  | _ => 0

/-- How the feed loop ended. -/
def FeedEnd (p : Params) (s : State) : Prop :=
  (s.readErr = true → p.readFailAt = some s.k) ∧
  (s.readErr = false → s.k = p.blocks.length ∧ p.readFailAt ≠ some s.k)

def MainOk (p : Params) (s : State) : Prop :=
  match s.main with
  | .recv | .locked _ => s.readErr = false
  | .eofEmpty _ => s.readErr = false ∧ p.eofSendsEmpty = true ∧ s.k = p.blocks.length ∧
      p.readFailAt ≠ some s.k
  | .filledMd5 _ | .enq _ => s.readErr = false ∧ s.k < p.blocks.length ∧ p.readFailAt ≠ some s.k
  | .stop r => 0 < r ∧ r ≤ p.W ∧ FeedEnd p s
  | .reqStop | .joinH => FeedEnd p s
  | .joinW j => FeedEnd p s ∧ j < p.W ∧ s.hasher = .exited
  | .done => FeedEnd p s ∧ s.hasher = .exited ∧ s.exitedCount = p.W

structure InvC (p : Params) (s : State) : Prop where
  wlen : s.workers.length = p.W
  blen : s.bufs.length = 2 * p.W
  kle : s.k ≤ p.blocks.length
  nofail : ∀ j, j < s.k → p.readFailAt ≠ some j
  mainOk : MainOk p s
  nones : s.encodeQ.count none + s.exitedCount = s.main.nonesSent p.W
  shape : NSAN s.encodeQ
  drained : 0 < s.exitedCount → ∀ x ∈ s.encodeQ, x = none
  capR : s.refillQ.length ≤ p.refillCap
  capE : s.encodeQ.length ≤ p.encodeCap
  capM : s.md5Q.length ≤ md5Cap

theorem InvC.init (p : Params) : InvC p (init p) := by
  constructor <;> simp [Par.init, MainOk, MPc.nonesSent, State.exitedCount, NSAN, Params.nbuf,
    Params.refillCap, Params.encodeCap]
  · rw [List.count_replicate]; simp

theorem exited_set {s : State} {w : Nat} {a b : WPc} (h : s.workers[w]? = some a) :
    (s.workers.set w b).count .exited + (if a = .exited then 1 else 0) =
      s.exitedCount + (if b = .exited then 1 else 0) :=
  count_set_add s.workers w a b .exited h

theorem afterStop_nonesSent (W r : Nat) : (afterStop r).nonesSent W = W - r := by
  unfold afterStop; split
  · subst_vars; simp [MPc.nonesSent]
  · simp [MPc.nonesSent]

theorem Step.wlen {p : Params} {s s' : State} {e : Ev} (hs : Step p s e s') :
    s'.workers.length = s.workers.length := by
  cases hs <;> simp

theorem Step.blen {p : Params} {s s' : State} {e : Ev} (hs : Step p s e s') :
    s'.bufs.length = s.bufs.length := by
  cases hs <;> simp

def Ev.isRecvNone : Ev → Bool
  | .encode_recv _ none => true
  | _ => false

/-- exited workers stay exited and the count changes only by `encode_recv none` -/
theorem Step.exited {p : Params} {s s' : State} {e : Ev} (hs : Step p s e s') :
    s'.exitedCount = s.exitedCount + (if e.isRecvNone then 1 else 0) := by
  cases hs
  case enc_recv_some w id rest hw hq =>
    have := exited_set (b := .got id) hw; simp_all [State.exitedCount, Ev.isRecvNone]
  case enc_recv_none w rest hw hq =>
    have := exited_set (b := .exited) hw; simp_all [State.exitedCount, Ev.isRecvNone]
  case w_lock w id n x hw hx hn hl =>
    have := exited_set (b := .encoded id n (enc n x.blk)) hw; simp_all [State.exitedCount, Ev.isRecvNone]
  case refill_send w id n res hw hcap =>
    have := exited_set (b := .sent id n res) hw; simp_all [State.exitedCount, Ev.isRecvNone]
  case w_push w id n f hw =>
    have := exited_set (b := .idle) hw; simp_all [State.exitedCount, Ev.isRecvNone]
  case w_err w id n hw =>
    have := exited_set (b := .idle) hw; simp_all [State.exitedCount, Ev.isRecvNone]
  all_goals simp [State.exitedCount, Ev.isRecvNone]

theorem InvC.step_kle {p : Params} {s s' : State} {e : Ev} (h : InvC p s) (hs : Step p s e s') :
    s'.k ≤ p.blocks.length := by
  have h1 := h.kle; have h2 := h.mainOk
  cases hs <;> simp_all [MainOk] <;> omega

theorem InvC.step_nofail {p : Params} {s s' : State} {e : Ev} (h : InvC p s) (hs : Step p s e s') :
    ∀ j, j < s'.k → p.readFailAt ≠ some j := by
  have h1 := h.nofail; have h2 := h.mainOk
  cases hs
  case enc_send_some id hm hcap =>
    intro j hj
    simp only [MainOk, hm] at h2
    by_cases hjk : j = s.k
    · subst hjk; exact h2.2.2
    · exact h1 j (by simp at hj; omega)
  all_goals exact h1

theorem MainOk.mono {p : Params} {s s' : State} (h : MainOk p s) (hm : s'.main = s.main)
    (hr : s'.readErr = s.readErr) (hk : s'.k = s.k) (hh : s.hasher = .exited → s'.hasher = .exited)
    (he : s.exitedCount = p.W → s'.exitedCount = p.W) : MainOk p s' := by
  unfold MainOk FeedEnd at *
  rw [hm, hr, hk]
  cases hmain : s.main <;> simp only [hmain] at h ⊢ <;> first | exact h | skip
  · exact ⟨h.1, h.2.1, hh h.2.2⟩
  · exact ⟨h.1, hh h.2.1, he h.2.2⟩

theorem getElem?_some_lt {α : Type} {l : List α} {i : Nat} {a : α} (h : l[i]? = some a) :
    i < l.length := by
  rcases Nat.lt_or_ge i l.length with h1 | h1
  · exact h1
  · simp [List.getElem?_eq_none h1] at h

theorem getElem?_none_ge {α : Type} {l : List α} {i : Nat} (h : l[i]? = none) :
    l.length ≤ i := by
  rcases Nat.lt_or_ge i l.length with h1 | h1
  · simp [List.getElem?_eq_getElem h1] at h
  · exact h1

theorem Step.hasher_mono {p : Params} {s s' : State} {e : Ev} (hs : Step p s e s')
    (h : s.hasher = .exited) : s'.hasher = .exited := by
  cases hs <;> simp_all

theorem InvC.step_mainOk {p : Params} {s s' : State} {e : Ev} (h : InvC p s) (hs : Step p s e s') :
    MainOk p s' := by
  have h2 := h.mainOk
  have hkle := h.kle
  have hcl : s.exitedCount ≤ p.W := by
    have := h.wlen
    have : s.exitedCount ≤ s.workers.length := List.count_le_length
    omega
  have hmono : s.exitedCount = p.W → s'.exitedCount = p.W := by
    intro he
    have h1 := hs.exited
    have h2 : s'.exitedCount ≤ s'.workers.length := List.count_le_length
    have h3 := hs.wlen; have h4 := h.wlen
    split at h1 <;> omega
  have hhm := hs.hasher_mono
  cases hs
  case refill_recv id rest hm hq => simp_all [MainOk]
  case md5_data id b x hm hnf hcap hb hx =>
    have := getElem?_some_lt hb; simp_all [MainOk]
  case md5_eof id hm hnf hcap hb he =>
    have := getElem?_none_ge hb; simp_all [MainOk]; omega
  case md5_stop hm hcap => simpa [MainOk, FeedEnd, hm] using h2
  case f_filled id x hm hx => simp_all [MainOk]
  case f_eof_plain id hm hnf hk he =>
    simp only [MainOk, hm] at h2
    have hk' : s.k = p.blocks.length := by omega
    unfold afterStop; split <;> simp [MainOk, FeedEnd, h2, hk', hk' ▸ hnf] <;> omega
  case f_eof_empty id hm =>
    simp only [MainOk, hm] at h2
    obtain ⟨h21, h22, h23, h24⟩ := h2
    unfold afterStop; split <;> simp [MainOk, FeedEnd, h21, h23, h23 ▸ h24] <;> omega
  case f_read_err id hm hf =>
    unfold afterStop; split <;> simp [MainOk, FeedEnd, hf]
    omega
  case enc_send_some id hm hcap => simp_all [MainOk]
  case enc_send_none r hm hcap =>
    simp only [MainOk, hm] at h2
    unfold afterStop; split
    · simpa [MainOk, FeedEnd] using h2.2.2
    · simp only [MainOk, FeedEnd]; exact ⟨by omega, by omega, h2.2.2⟩
  case joined_hasher hm hh =>
    simp only [MainOk, hm] at h2
    split
    · simp only [MainOk, FeedEnd, State.exitedCount] at hcl ⊢; exact ⟨h2, hh, by omega⟩
    · simp only [MainOk, FeedEnd]; exact ⟨h2, by omega, hh⟩
  case joined_worker j hm hj =>
    simp only [MainOk, hm] at h2
    split
    · simp only [MainOk, FeedEnd, State.exitedCount] at hcl hj ⊢; exact ⟨h2.1, h2.2.2, by omega⟩
    · simp only [MainOk, FeedEnd]; exact ⟨h2.1, by omega, h2.2.2⟩
  all_goals exact h2.mono rfl rfl rfl hhm hmono

theorem InvC.step_nones {p : Params} {s s' : State} {e : Ev} (h : InvC p s) (hs : Step p s e s') :
    s'.encodeQ.count none + s'.exitedCount = s'.main.nonesSent p.W := by
  have h1 := h.nones
  have h2 := h.mainOk
  have hex := hs.exited
  rw [hex]
  clear hex
  cases hs
  case f_eof_plain id hm hnf hk he =>
    simp only [afterStop_nonesSent]; simp_all [MPc.nonesSent, Ev.isRecvNone]
  case f_eof_empty id hm =>
    simp only [afterStop_nonesSent]; simp_all [MPc.nonesSent, Ev.isRecvNone]
  case f_read_err id hm hf =>
    simp only [afterStop_nonesSent]; simp_all [MPc.nonesSent, Ev.isRecvNone]
  case enc_send_none r hm hcap =>
    simp only [MainOk, hm] at h2
    simp only [hm, MPc.nonesSent] at h1
    simp only [afterStop_nonesSent, List.count_append, Ev.isRecvNone]
    simp; omega
  case joined_hasher hm hh => split <;> simp_all [MPc.nonesSent, Ev.isRecvNone]
  case joined_worker j hm hj => split <;> simp_all [MPc.nonesSent, Ev.isRecvNone]
  all_goals simp_all [MPc.nonesSent, Ev.isRecvNone]
  all_goals omega

theorem InvC.step_shape {p : Params} {s s' : State} {e : Ev} (h : InvC p s) (hs : Step p s e s') :
    NSAN s'.encodeQ := by
  have h1 := h.shape
  have h2 := h.nones
  cases hs
  case enc_send_some id hm hcap =>
    simp only [hm, MPc.nonesSent] at h2
    exact NSAN_append_some id (by omega)
  case enc_send_none r hm hcap => exact NSAN_append_none h1
  case enc_recv_some w id rest hw hq => rw [hq] at h1; exact NSAN_tail h1
  case enc_recv_none w rest hw hq => rw [hq] at h1; exact NSAN_tail h1
  all_goals exact h1

theorem InvC.step_drained {p : Params} {s s' : State} {e : Ev} (h : InvC p s)
    (hs : Step p s e s') : 0 < s'.exitedCount → ∀ x ∈ s'.encodeQ, x = none := by
  have h1 := h.shape
  have h2 := h.nones
  have h3 := h.drained
  have hex := hs.exited
  rw [hex]
  clear hex
  cases hs
  case enc_send_some id hm hcap =>
    simp only [hm, MPc.nonesSent] at h2
    simp only [Ev.isRecvNone]; intro h0; simp at h0; omega
  case enc_send_none r hm hcap =>
    simp only [Ev.isRecvNone]
    intro h0 x hx
    rcases List.mem_append.1 hx with hx | hx
    · exact h3 (by simpa using h0) x hx
    · simpa using hx
  case enc_recv_some w id rest hw hq =>
    simp only [Ev.isRecvNone]
    intro h0
    have := h3 (by simpa using h0) (some id) (by simp [hq])
    simp at this
  case enc_recv_none w rest hw hq =>
    intro _
    rw [hq] at h1
    exact NSAN_none_head h1
  all_goals simpa [Ev.isRecvNone] using h3

theorem InvC.step_caps {p : Params} {s s' : State} {e : Ev} (h : InvC p s) (hs : Step p s e s') :
    s'.refillQ.length ≤ p.refillCap ∧ s'.encodeQ.length ≤ p.encodeCap ∧ s'.md5Q.length ≤ md5Cap := by
  have h1 := h.capR; have h2 := h.capE; have h3 := h.capM
  cases hs <;> simp_all <;> omega

theorem InvC.step {p : Params} {s s' : State} {e : Ev} (h : InvC p s) (hs : Step p s e s') :
    InvC p s' where
  wlen := hs.wlen.trans h.wlen
  blen := hs.blen.trans h.blen
  kle := h.step_kle hs
  nofail := h.step_nofail hs
  mainOk := h.step_mainOk hs
  nones := h.step_nones hs
  shape := h.step_shape hs
  drained := h.step_drained hs
  capR := (h.step_caps hs).1
  capE := (h.step_caps hs).2.1
  capM := (h.step_caps hs).2.2

theorem InvC.of_reaches {p : Params} {s : State} (h : Reaches p s) : InvC p s := by
  induction h with
  | init => exact InvC.init p
  | step _ hstep ih => exact ih.step (Step_of_step hstep)

end FlacVerif.Par
