/-
Numbering invariant: frame numbers are handed out 0,1,2,… ; a buffer that is queued for encoding or
held by a worker is labelled `n < k` and holds block `n`; whatever a worker computed for `n` is
`enc n (blocks[n])`; the sink maps `n` to that value, the error map holds exactly invalid blocks;
every `n < k` is in flight, in the sink or in the error map.
-/
import FlacVerif.Lemmas.ParInvTok
namespace FlacVerif.Par

/-- buffer `id` is labelled `n` and holds block `n` -/
def Holds (p : Params) (s : State) (id n : Nat) : Prop :=
  ∃ x, s.bufs[id]? = some x ∧ x.num = some n ∧ n < s.k ∧ p.blocks[n]? = some x.blk

def WOk (p : Params) (s : State) : WPc → Prop
  | .got id => ∃ n, Holds p s id n
  | .encoded _ n res | .sent _ n res => n < s.k ∧ ∃ b, p.blocks[n]? = some b ∧ res = enc n b
  | _ => True

def MainBuf (p : Params) (s : State) : Prop :=
  match s.main with
  | .filledMd5 id => ∃ x, s.bufs[id]? = some x ∧ p.blocks[s.k]? = some x.blk
  | .enq id => ∃ x, s.bufs[id]? = some x ∧ x.num = some s.k ∧ p.blocks[s.k]? = some x.blk
  | _ => True

/-- frame number a worker is working on -/
def WPc.carries (s : State) (n : Nat) : WPc → Prop
  | .got id => ∃ x, s.bufs[id]? = some x ∧ x.num = some n
  | .encoded _ m _ | .sent _ m _ => m = n
  | _ => False

def InFlight (s : State) (n : Nat) : Prop :=
  (∃ id, some id ∈ s.encodeQ ∧ ∃ x, s.bufs[id]? = some x ∧ x.num = some n) ∨
  (∃ pc ∈ s.workers, pc.carries s n)

structure InvNum (p : Params) (s : State) : Prop where
  queue : ∀ id, some id ∈ s.encodeQ → ∃ n, Holds p s id n
  workers : ∀ pc ∈ s.workers, WOk p s pc
  mainBuf : MainBuf p s
  sink : ∀ n f, (n, f) ∈ s.sink → n < s.k ∧ ∃ b, p.blocks[n]? = some b ∧ enc n b = some f
  errs : ∀ n u, (n, u) ∈ s.errors → n < s.k ∧ ∃ b, p.blocks[n]? = some b ∧ enc n b = none
  sorted : (s.sink.map (·.1)).Pairwise (· < ·)
  esorted : (s.errors.map (·.1)).Pairwise (· < ·)
  cover : ∀ n, n < s.k → InFlight s n ∨ n ∈ s.sink.map (·.1) ∨ n ∈ s.errors.map (·.1)

theorem InvNum.init (p : Params) : InvNum p (init p) := by
  constructor <;> simp [Par.init, MainBuf, WOk]

/-- steps that touch neither buffers, encode queue, workers, `k`, sink nor errors -/
theorem InvNum.congr {p : Params} {s s' : State} (h : InvNum p s) (hb : s'.bufs = s.bufs)
    (hq : ∀ id, some id ∈ s'.encodeQ ↔ some id ∈ s.encodeQ) (hw : s'.workers = s.workers) (hk : s'.k = s.k)
    (hs : s'.sink = s.sink) (he : s'.errors = s.errors) (hm : MainBuf p s') : InvNum p s' := by
  obtain ⟨h1, h2, h3, h4, h5, h6, h6e, h7⟩ := h
  have hH : ∀ id n, Holds p s id n → Holds p s' id n := by
    intro id n ⟨x, hx⟩; exact ⟨x, by rw [hb, hk]; exact hx⟩
  have hC : ∀ n pc, WPc.carries s n pc → WPc.carries s' n pc := by
    intro n pc; cases pc <;> simp only [WPc.carries, hb] <;> exact id
  refine ⟨?_, ?_, hm, ?_, ?_, ?_, by rw [he]; exact h6e, ?_⟩
  · intro id hid; rw [hq] at hid
    obtain ⟨n, hn⟩ := h1 id hid; exact ⟨n, hH _ _ hn⟩
  · intro pc hpc; rw [hw] at hpc
    have := h2 pc hpc
    cases pc <;> simp only [WOk, hk] at this ⊢ <;> first | exact this | skip
    obtain ⟨n, hn⟩ := this; exact ⟨n, hH _ _ hn⟩
  · rw [hs, hk]; exact h4
  · rw [he, hk]; exact h5
  · rw [hs]; exact h6
  · intro n hn; rw [hk] at hn
    rcases h7 n hn with h | h
    · left
      rcases h with ⟨id, hid, x, hx⟩ | ⟨pc, hpc, hc⟩
      · exact Or.inl ⟨id, (hq id).2 hid, x, by rw [hb]; exact hx⟩
      · exact Or.inr ⟨pc, by rw [hw]; exact hpc, hC _ _ hc⟩
    · right; rw [hs, he]; exact h

/-- the main thread writes the buffer it holds: nothing in flight is affected -/
theorem InvNum.set_buf {p : Params} {s s' : State} (h : InvNum p s) (id0 : Nat) (y : Buf)
    (hnq : some id0 ∉ s.encodeQ) (hnw : ∀ pc ∈ s.workers, id0 ∉ pc.hand)
    (hb : s'.bufs = s.bufs.set id0 y)
    (hq : s'.encodeQ = s.encodeQ) (hw : s'.workers = s.workers) (hk : s'.k = s.k)
    (hs : s'.sink = s.sink) (he : s'.errors = s.errors) (hm : MainBuf p s') : InvNum p s' := by
  obtain ⟨h1, h2, h3, h4, h5, h6, h6e, h7⟩ := h
  have hget : ∀ id, id ≠ id0 → s'.bufs[id]? = s.bufs[id]? := by
    intro id hne; rw [hb, List.getElem?_set_ne (Ne.symm hne)]
  have hH : ∀ id n, id ≠ id0 → Holds p s id n → Holds p s' id n := by
    intro id n hne ⟨x, hx⟩; exact ⟨x, by rw [hget id hne, hk]; exact hx⟩
  have hC : ∀ n pc, pc ∈ s.workers → WPc.carries s n pc → WPc.carries s' n pc := by
    intro n pc hpc
    cases pc <;> simp only [WPc.carries] <;> try exact id
    rename_i id
    have hne : id ≠ id0 := by
      intro heq; subst heq; exact hnw _ hpc (by simp [WPc.hand])
    rw [hget id hne]; exact fun h => h
  refine ⟨?_, ?_, hm, ?_, ?_, ?_, by rw [he]; exact h6e, ?_⟩
  · intro id hid; rw [hq] at hid
    have hne : id ≠ id0 := by intro heq; subst heq; exact hnq hid
    obtain ⟨n, hn⟩ := h1 id hid; exact ⟨n, hH _ _ hne hn⟩
  · intro pc hpc; rw [hw] at hpc
    have := h2 pc hpc
    cases pc <;> simp only [WOk, hk] at this ⊢ <;> first | exact this | skip
    rename_i id
    have hne : id ≠ id0 := by
      intro heq; subst heq; exact hnw _ hpc (by simp [WPc.hand])
    obtain ⟨n, hn⟩ := this; exact ⟨n, hH _ _ hne hn⟩
  · rw [hs, hk]; exact h4
  · rw [he, hk]; exact h5
  · rw [hs]; exact h6
  · intro n hn; rw [hk] at hn
    rcases h7 n hn with h | h
    · left
      rcases h with ⟨id, hid, x, hx⟩ | ⟨pc, hpc, hc⟩
      · have hne : id ≠ id0 := by intro heq; subst heq; exact hnq hid
        exact Or.inl ⟨id, by rw [hq]; exact hid, x, by rw [hget id hne]; exact hx⟩
      · exact Or.inr ⟨pc, by rw [hw]; exact hpc, hC _ _ hpc hc⟩
    · right; rw [hs, he]; exact h

/-- generic worker step: worker `w` moves from pc `a` to pc `b`; buffers, `k` and the main pc are
unchanged; the encode queue may lose its head, sink and errors may grow -/
theorem InvNum.worker_step {p : Params} {s s' : State} (h : InvNum p s) {w : Nat} {a b : WPc}
    (hw : s.workers[w]? = some a)
    (hb : s'.bufs = s.bufs) (hk : s'.k = s.k) (hm : s'.main = s.main)
    (hws : s'.workers = s.workers.set w b)
    (hq : ∀ x ∈ s'.encodeQ, x ∈ s.encodeQ)
    (hqc : ∀ id, some id ∈ s.encodeQ → some id ∈ s'.encodeQ ∨ b = .got id)
    (hbok : WOk p s b)
    (hac : ∀ n, a.carries s n →
      b.carries s n ∨ n ∈ s'.sink.map (·.1) ∨ n ∈ s'.errors.map (·.1))
    (hsink : ∀ n f, (n, f) ∈ s'.sink → n < s.k ∧ ∃ b, p.blocks[n]? = some b ∧ enc n b = some f)
    (herrs : ∀ n u, (n, u) ∈ s'.errors → n < s.k ∧ ∃ b, p.blocks[n]? = some b ∧ enc n b = none)
    (hsorted : (s'.sink.map (·.1)).Pairwise (· < ·))
    (hesorted : (s'.errors.map (·.1)).Pairwise (· < ·))
    (hkeys : ∀ n, n ∈ s.sink.map (·.1) → n ∈ s'.sink.map (·.1))
    (hekeys : ∀ n, n ∈ s.errors.map (·.1) → n ∈ s'.errors.map (·.1)) : InvNum p s' := by
  obtain ⟨h1, h2, h3, h4, h5, h6, h6e, h7⟩ := h
  have hH : ∀ id n, Holds p s id n → Holds p s' id n := by
    intro id n ⟨x, hx⟩; exact ⟨x, by rw [hb, hk]; exact hx⟩
  have hC : ∀ n pc, WPc.carries s n pc → WPc.carries s' n pc := by
    intro n pc; cases pc <;> simp only [WPc.carries, hb] <;> exact id
  have hO : ∀ pc, WOk p s pc → WOk p s' pc := by
    intro pc this
    cases pc <;> simp only [WOk, hk] at this ⊢ <;> first | exact this | skip
    obtain ⟨n, hn⟩ := this; exact ⟨n, hH _ _ hn⟩
  refine ⟨?_, ?_, ?_, ?_, ?_, hsorted, hesorted, ?_⟩
  · intro id hid
    obtain ⟨n, hn⟩ := h1 id (hq _ hid); exact ⟨n, hH _ _ hn⟩
  · intro pc hpc; rw [hws] at hpc
    rcases List.mem_or_eq_of_mem_set hpc with hpc | rfl
    · exact hO _ (h2 pc hpc)
    · exact hO _ hbok
  · unfold MainBuf at h3 ⊢; rw [hm, hb, hk]; exact h3
  · rw [hk]; exact hsink
  · rw [hk]; exact herrs
  · intro n hn; rw [hk] at hn
    have hbmem : b ∈ s'.workers := by rw [hws]; exact mem_set_self hw
    rcases h7 n hn with h | h | h
    · rcases h with ⟨id, hid, x, hx⟩ | ⟨pc, hpc, hc⟩
      · rcases hqc id hid with h' | h'
        · exact Or.inl (Or.inl ⟨id, h', x, by rw [hb]; exact hx⟩)
        · subst h'
          exact Or.inl (Or.inr ⟨_, hbmem, hC _ _ (by simpa [WPc.carries] using ⟨x, hx⟩)⟩)
      · rcases mem_set_or_eq (b := b) hw hpc with rfl | hpc'
        · rcases hac n hc with h' | h' | h'
          · exact Or.inl (Or.inr ⟨_, hbmem, hC _ _ h'⟩)
          · exact Or.inr (Or.inl h')
          · exact Or.inr (Or.inr h')
        · exact Or.inl (Or.inr ⟨pc, by rw [hws]; exact hpc', hC _ _ hc⟩)
    · exact Or.inr (Or.inl (hkeys n h))
    · exact Or.inr (Or.inr (hekeys n h))

theorem InvNum.enc_send_some {p : Params} {s : State} (h : InvNum p s) {id0 : Nat}
    (hm : s.main = .enq id0) :
    InvNum p { s with main := .recv, k := s.k + 1, encodeQ := s.encodeQ ++ [some id0] } := by
  obtain ⟨h1, h2, h3, h4, h5, h6, h6e, h7⟩ := h
  simp only [MainBuf, hm] at h3
  obtain ⟨x0, hx0, hn0, hb0⟩ := h3
  have hH : ∀ id n, Holds p s id n →
      Holds p { s with main := .recv, k := s.k + 1, encodeQ := s.encodeQ ++ [some id0] } id n := by
    intro id n ⟨x, hx1, hx2, hx3, hx4⟩; exact ⟨x, hx1, hx2, Nat.lt_succ_of_lt hx3, hx4⟩
  refine ⟨?_, ?_, ?_, ?_, ?_, h6, h6e, ?_⟩
  · intro id hid
    rcases List.mem_append.1 hid with hid | hid
    · obtain ⟨n, hn⟩ := h1 id hid; exact ⟨n, hH _ _ hn⟩
    · simp at hid; subst hid
      exact ⟨s.k, x0, hx0, hn0, Nat.lt_succ_self _, hb0⟩
  · intro pc hpc
    have := h2 pc hpc
    cases pc <;> simp only [WOk] at this ⊢ <;> first | exact this | skip
    · obtain ⟨n, hn⟩ := this; exact ⟨n, hH _ _ hn⟩
    · exact ⟨Nat.lt_succ_of_lt this.1, this.2⟩
    · exact ⟨Nat.lt_succ_of_lt this.1, this.2⟩
  · simp [MainBuf]
  · intro n f hnf; have := h4 n f hnf; exact ⟨Nat.lt_succ_of_lt this.1, this.2⟩
  · intro n u hnu; have := h5 n u hnu; exact ⟨Nat.lt_succ_of_lt this.1, this.2⟩
  · intro n hn
    by_cases hnk : n = s.k
    · subst hnk
      exact Or.inl (Or.inl ⟨id0, by simp, x0, hx0, hn0⟩)
    · have hn' : n < s.k := by simp at hn; omega
      rcases h7 n hn' with h | h
      · left
        rcases h with ⟨id, hid, x, hx⟩ | ⟨pc, hpc, hc⟩
        · exact Or.inl ⟨id, by simp [hid], x, hx⟩
        · refine Or.inr ⟨pc, hpc, ?_⟩
          cases pc <;> simp only [WPc.carries] at hc ⊢ <;> exact hc
      · exact Or.inr h

theorem InvNum.step {p : Params} {s s' : State} {e : Ev} (hT : InvTok p s)
    (h : InvNum p s) (hs : Step p s e s') : InvNum p s' := by
  cases hs
  case refill_recv id rest hm hq => exact h.congr rfl (fun _ => Iff.rfl) rfl rfl rfl rfl (by simp [MainBuf])
  case md5_data id b x hm hnf hcap hb hx =>
    have hex := hT.excl_main (x := id) (by simp [hm, MPc.hand])
    refine h.set_buf id { x with blk := b } hex.2.1 hex.2.2.1 rfl rfl rfl rfl rfl rfl ?_
    have hlt := getElem?_some_lt hx
    simp [MainBuf, hb, hlt]
  case md5_eof id hm hnf hcap hb he => exact h.congr rfl (fun _ => Iff.rfl) rfl rfl rfl rfl (by simp [MainBuf])
  case md5_stop hm hcap => exact h.congr rfl (fun _ => Iff.rfl) rfl rfl rfl rfl (by simp [MainBuf])
  case f_filled id x hm hx =>
    have hex := hT.excl_main (x := id) (by simp [hm, MPc.hand])
    refine h.set_buf id { x with num := some s.k } hex.2.1 hex.2.2.1 rfl rfl rfl rfl rfl rfl ?_
    have hlt := getElem?_some_lt hx
    have h3 := h.mainBuf
    simp only [MainBuf, hm, hx] at h3
    simpa [MainBuf, hlt] using h3
  case f_eof_plain id hm hnf hk he =>
    refine h.congr rfl (fun _ => Iff.rfl) rfl rfl rfl rfl ?_
    unfold afterStop; split <;> simp [MainBuf]
  case f_eof_empty id hm =>
    refine h.congr rfl (fun _ => Iff.rfl) rfl rfl rfl rfl ?_
    unfold afterStop; split <;> simp [MainBuf]
  case f_read_err id hm hf =>
    refine h.congr rfl (fun _ => Iff.rfl) rfl rfl rfl rfl ?_
    unfold afterStop; split <;> simp [MainBuf]
  case enc_send_some id hm hcap => exact h.enc_send_some hm
  case enc_send_none r hm hcap =>
    refine h.congr rfl (fun _ => by simp) rfl rfl rfl rfl ?_
    unfold afterStop; split <;> simp [MainBuf]
  case joined_hasher hm hh =>
    refine h.congr rfl (fun _ => Iff.rfl) rfl rfl rfl rfl ?_
    split <;> simp [MainBuf]
  case joined_worker j hm hj =>
    refine h.congr rfl (fun _ => Iff.rfl) rfl rfl rfl rfl ?_
    split <;> simp [MainBuf]
  case md5_recv_stop rest hh hq =>
    have h3 := h.mainBuf
    exact h.congr rfl (fun _ => Iff.rfl) rfl rfl rfl rfl h3
  case md5_recv_data b rest hh hq hb =>
    have h3 := h.mainBuf
    exact h.congr rfl (fun _ => Iff.rfl) rfl rfl rfl rfl h3
  case enc_recv_some w id rest hw hq =>
    have hq0 := h.queue id (by simp [hq])
    refine h.worker_step hw rfl rfl rfl rfl ?_ ?_ hq0 ?_ h.sink h.errs h.sorted h.esorted
      (fun _ h => h) (fun _ h => h)
    · intro x hx; simp [hq, hx]
    · intro id' hid'
      simp only [hq, List.mem_cons, Option.some.injEq] at hid'
      rcases hid' with rfl | hid'
      · exact Or.inr rfl
      · exact Or.inl hid'
    · intro n hc; simp [WPc.carries] at hc
  case enc_recv_none w rest hw hq =>
    refine h.worker_step hw rfl rfl rfl rfl ?_ ?_ (by simp [WOk]) ?_ h.sink h.errs h.sorted h.esorted
      (fun _ h => h) (fun _ h => h)
    · intro x hx; simp [hq, hx]
    · intro id' hid'
      simp only [hq, List.mem_cons] at hid'
      rcases hid' with hid' | hid'
      · simp at hid'
      · exact Or.inl hid'
    · intro n hc; simp [WPc.carries] at hc
  case w_lock w id n x hw hx hn hl =>
    have hwo := h.workers _ (mem_of_getElem?_eq hw)
    simp only [WOk, Holds] at hwo
    obtain ⟨n', x', hx1, hx2, hx3, hx4⟩ := hwo
    rw [hx] at hx1
    cases hx1
    have hnn : n' = n := by rw [hn] at hx2; exact (Option.some.inj hx2).symm
    subst hnn
    refine h.worker_step hw rfl rfl rfl rfl (fun _ h => h) (fun _ h => Or.inl h) ?_ ?_
      h.sink h.errs h.sorted h.esorted (fun _ h => h) (fun _ h => h)
    · exact ⟨hx3, x.blk, hx4, rfl⟩
    · intro m hc
      simp only [WPc.carries] at hc
      obtain ⟨y, hy1, hy2⟩ := hc
      rw [hx] at hy1; cases hy1
      rw [hn] at hy2
      left; simpa [WPc.carries] using hy2
  case refill_send w id n res hw hcap =>
    have hwo := h.workers _ (mem_of_getElem?_eq hw)
    refine h.worker_step hw rfl rfl rfl rfl (fun _ h => h) (fun _ h => Or.inl h) ?_ ?_
      h.sink h.errs h.sorted h.esorted (fun _ h => h) (fun _ h => h)
    · simpa [WOk] using hwo
    · intro m hc; left; simpa [WPc.carries] using hc
  case w_push w id n f hw =>
    have hwo := h.workers _ (mem_of_getElem?_eq hw)
    simp only [WOk] at hwo
    refine h.worker_step hw rfl rfl rfl rfl (fun _ h => h) (fun _ h => Or.inl h) (by simp [WOk])
      ?_ ?_ h.errs (sorted_insertKey n f s.sink h.sorted) h.esorted ?_ (fun _ h => h)
    · intro m hc
      simp only [WPc.carries] at hc
      subst hc
      exact Or.inr (Or.inl ((keys_insertKey n f s.sink n).2 (Or.inl rfl)))
    · intro m g hmem
      rcases mem_insertKey hmem with heq | hmem
      · cases heq
        obtain ⟨h1, b, h2, h3⟩ := hwo
        exact ⟨h1, b, h2, h3.symm⟩
      · exact h.sink m g hmem
    · intro m hm
      exact (keys_insertKey n f s.sink m).2 (Or.inr hm)
  case w_err w id n hw =>
    have hwo := h.workers _ (mem_of_getElem?_eq hw)
    simp only [WOk] at hwo
    refine h.worker_step hw rfl rfl rfl rfl (fun _ h => h) (fun _ h => Or.inl h) (by simp [WOk])
      ?_ h.sink ?_ h.sorted (sorted_insertKey n () s.errors h.esorted) (fun _ h => h) ?_
    · intro m hc
      simp only [WPc.carries] at hc
      subst hc
      exact Or.inr (Or.inr ((keys_insertKey n () s.errors n).2 (Or.inl rfl)))
    · intro m g hmem
      rcases mem_insertKey hmem with heq | hmem
      · cases heq
        obtain ⟨h1, b, h2, h3⟩ := hwo
        exact ⟨h1, b, h2, h3.symm⟩
      · exact h.errs m g hmem
    · intro m hm
      exact (keys_insertKey n () s.errors m).2 (Or.inr hm)

theorem InvAll_of_reaches {p : Params} {s : State} (h : Reaches p s) :
    InvC p s ∧ InvTok p s ∧ InvNum p s := by
  induction h with
  | init => exact ⟨InvC.init p, InvTok.init p, InvNum.init p⟩
  | step _ hstep ih =>
    have hs := Step_of_step hstep
    exact ⟨ih.1.step hs, ih.2.1.step hs, ih.2.2.step ih.2.1 hs⟩

theorem InvNum.of_reaches {p : Params} {s : State} (h : Reaches p s) : InvNum p s :=
  (InvAll_of_reaches h).2.2

end FlacVerif.Par
