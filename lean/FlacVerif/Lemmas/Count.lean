/-
Helper lemmas for C08 (reported bit counts = written bits), part 1: finite sums over ranges,
list plumbing, and the residual.
-/
import FlacVerif.Model.Component
namespace FlacVerif.Count
open FlacVerif

/-! ### sums over `List.range` -/

/-- `Σ_{i<m} f i`. -/
def rsum (m : Nat) (f : Nat → Nat) : Nat := ((List.range m).map f).sum

@[simp] theorem rsum_zero (f : Nat → Nat) : rsum 0 f = 0 := by simp [rsum]

theorem rsum_succ (m : Nat) (f : Nat → Nat) : rsum (m + 1) f = rsum m f + f m := by
  simp [rsum, List.range_succ, List.sum_append]

theorem rsum_congr {m : Nat} {f g : Nat → Nat} (h : ∀ i, i < m → f i = g i) : rsum m f = rsum m g := by
  induction m with
  | zero => simp
  | succ m ih =>
    rw [rsum_succ, rsum_succ, ih (fun i hi => h i (by omega)), h m (by omega)]

theorem rsum_add (a b : Nat) (f : Nat → Nat) :
    rsum (a + b) f = rsum a f + rsum b (fun i => f (a + i)) := by
  induction b with
  | zero => simp
  | succ b ih => rw [← Nat.add_assoc, rsum_succ, rsum_succ, ih]; omega

theorem rsum_add_fn (m : Nat) (f g : Nat → Nat) :
    rsum m (fun i => f i + g i) = rsum m f + rsum m g := by
  induction m with
  | zero => simp
  | succ m ih => rw [rsum_succ, rsum_succ, rsum_succ, ih]; omega

theorem rsum_const (m c : Nat) : rsum m (fun _ => c) = m * c := by
  induction m with
  | zero => simp
  | succ m ih => rw [rsum_succ, ih, Nat.succ_mul]

theorem rsum_eq_zero {m : Nat} {f : Nat → Nat} (h : ∀ i, i < m → f i = 0) : rsum m f = 0 := by
  rw [rsum_congr h, rsum_const]; simp

theorem rsum_mul_left (m c : Nat) (f : Nat → Nat) : rsum m (fun i => c * f i) = c * rsum m f := by
  induction m with
  | zero => simp
  | succ m ih => rw [rsum_succ, rsum_succ, ih, Nat.mul_add]

/-- Splitting a sum over `K * L` indices into `K` blocks of length `L`. -/
theorem rsum_blocks (K L : Nat) (f : Nat → Nat) :
    rsum (K * L) f = rsum K (fun k => rsum L (fun i => f (k * L + i))) := by
  induction K with
  | zero => simp
  | succ K ih => rw [Nat.succ_mul, rsum_add, rsum_succ, ih]

theorem map_getD_range {α β : Type} (l : List α) (d : α) (g : α → β) :
    (List.range l.length).map (fun i => g (l.getD i d)) = l.map g := by
  induction l with
  | nil => simp
  | cons x l ih =>
    rw [List.length_cons, List.range_succ_eq_map, List.map_cons, List.map_map, List.map_cons, ← ih]
    simp [Function.comp_def]

theorem rsum_getD (l : List Nat) : rsum l.length (fun t => l.getD t 0) = l.sum := by
  have := map_getD_range l 0 id
  simp only [id, List.map_id] at this
  rw [rsum, this]

theorem foldl_add (l : List Nat) : l.foldl (· + ·) 0 = l.sum := by
  rw [List.sum_eq_foldl]

theorem length_flatMap_range {β : Type} (m : Nat) (f : Nat → List β) :
    ((List.range m).flatMap f).length = rsum m (fun i => (f i).length) := by
  rw [List.length_flatMap, rsum]

theorem length_flatMap_const {α β : Type} (l : List α) (f : α → List β) (c : Nat)
    (h : ∀ x, (f x).length = c) : (l.flatMap f).length = l.length * c := by
  induction l with
  | nil => simp
  | cons x l ih => rw [List.flatMap_cons, List.length_append, ih, h, List.length_cons, Nat.succ_mul]; omega

@[simp] theorem twoc_length (w : Nat) (v : Int) : (twoc w v).length = w := by simp [twoc]

@[simp] theorem bytesToBits_length (bs : List Nat) : (bytesToBits bs).length = 8 * bs.length := by
  rw [bytesToBits, length_flatMap_const _ _ 8 (fun x => natToBits_length 8 x), Nat.mul_comm]

theorem getD_zero_le_sum (l : List Nat) : l.getD 0 0 ≤ l.sum := by
  cases l with
  | nil => simp
  | cons x l => simp

/-! ### the residual -/

@[simp] theorem sampleBits_length (p q rem : Nat) : (Residual.sampleBits p q rem).length = q + (p + 1) := by
  simp [Residual.sampleBits]

theorem partBits_length (r : Residual) (k : Nat) :
    (r.partBits k).length =
      4 + (rsum ((k + 1) * r.partLen - max r.warmup (k * r.partLen))
            (fun i => r.quotients.getD (max r.warmup (k * r.partLen) + i) 0) +
          ((k + 1) * r.partLen - max r.warmup (k * r.partLen)) * (r.params.getD k 0 + 1)) := by
  simp only [Residual.partBits, List.length_append, natToBits_length, length_flatMap_range,
    sampleBits_length]
  rw [rsum_add_fn, rsum_const]

/-- Partition 0 pays for the warm-up it does not code. -/
theorem partBits_zero_length (r : Residual) (hw : r.warmup ≤ r.partLen)
    (hq : ∀ t, t < r.warmup → r.quotients.getD t 0 = 0) :
    (r.partBits 0).length + r.warmup * (r.params.getD 0 0 + 1) =
      4 + (rsum r.partLen (fun i => r.quotients.getD i 0) + r.partLen * (r.params.getD 0 0 + 1)) := by
  rw [partBits_length]
  simp only [Nat.zero_mul, Nat.zero_add, Nat.one_mul, Nat.max_zero]
  have hsplit : r.partLen = r.warmup + (r.partLen - r.warmup) := by omega
  have h1 : rsum r.partLen (fun i => r.quotients.getD i 0) =
      rsum (r.partLen - r.warmup) (fun i => r.quotients.getD (r.warmup + i) 0) := by
    conv => lhs; rw [hsplit]
    rw [rsum_add, rsum_eq_zero hq]; simp
  have h2 : (r.partLen - r.warmup) * (r.params.getD 0 0 + 1) + r.warmup * (r.params.getD 0 0 + 1) =
      r.partLen * (r.params.getD 0 0 + 1) := by
    rw [← Nat.add_mul, Nat.sub_add_cancel hw]
  rw [h1]; omega

theorem partBits_succ_length (r : Residual) (k : Nat) (hw : r.warmup ≤ r.partLen) :
    (r.partBits (k + 1)).length =
      4 + (rsum r.partLen (fun i => r.quotients.getD ((k + 1) * r.partLen + i) 0) +
        r.partLen * (r.params.getD (k + 1) 0 + 1)) := by
  rw [partBits_length]
  have hle : r.partLen ≤ (k + 1) * r.partLen := Nat.le_mul_of_pos_left _ (by omega)
  have hmax : max r.warmup ((k + 1) * r.partLen) = (k + 1) * r.partLen := by omega
  have hlen : (k + 1 + 1) * r.partLen - (k + 1) * r.partLen = r.partLen := by
    rw [Nat.succ_mul (k + 1)]; omega
  rw [hmax, hlen]

/-- Uniform form: every partition, with the warm-up correction on partition 0. -/
theorem partBits_length_unif (r : Residual) (k : Nat) (hw : r.warmup ≤ r.partLen)
    (hq : ∀ t, t < r.warmup → r.quotients.getD t 0 = 0) :
    (r.partBits k).length + (if k = 0 then r.warmup * (r.params.getD 0 0 + 1) else 0) =
      4 + (rsum r.partLen (fun i => r.quotients.getD (k * r.partLen + i) 0) +
        r.partLen * (r.params.getD k 0 + 1)) := by
  cases k with
  | zero => simpa using partBits_zero_length r hw hq
  | succ k => simpa using partBits_succ_length r k hw

theorem rsum_ite_zero (K c : Nat) (hK : 0 < K) : rsum K (fun k => if k = 0 then c else 0) = c := by
  obtain ⟨K, rfl⟩ : ∃ K', K = 1 + K' := ⟨K - 1, by omega⟩
  rw [rsum_add, rsum_succ, rsum_zero]
  rw [rsum_eq_zero (fun i _ => by simp)]
  simp

/-- The written length, up to the warm-up correction. -/
theorem bits_length_add (r : Residual) (hpl : r.params.length = 2 ^ r.order)
    (hdiv : 2 ^ r.order ∣ r.blockSize) (hw : r.warmup ≤ r.partLen)
    (hql : r.quotients.length = r.blockSize) (hq : ∀ t, t < r.warmup → r.quotients.getD t 0 = 0) :
    r.bits.length + r.warmup * (r.params.getD 0 0 + 1) =
      6 + 4 * 2 ^ r.order + r.quotients.sum + r.partLen * r.params.sum + r.blockSize := by
  have hn : 2 ^ r.order * r.partLen = r.blockSize := by
    rw [Residual.partLen, Nat.shiftRight_eq_div_pow]; exact Nat.mul_div_cancel' hdiv
  have hK : 0 < 2 ^ r.order := Nat.two_pow_pos _
  simp only [Residual.bits, Residual.nparts, List.length_append, natToBits_length, length_flatMap_range]
  have key : rsum (2 ^ r.order) (fun k => (r.partBits k).length) + r.warmup * (r.params.getD 0 0 + 1) =
      rsum (2 ^ r.order) (fun k => 4 + (rsum r.partLen (fun i => r.quotients.getD (k * r.partLen + i) 0) +
        r.partLen * (r.params.getD k 0 + 1))) := by
    rw [← rsum_congr (fun k _ => partBits_length_unif r k hw hq), rsum_add_fn, rsum_ite_zero _ _ hK]
  have hB : rsum (2 ^ r.order) (fun k => rsum r.partLen (fun i => r.quotients.getD (k * r.partLen + i) 0)) =
      rsum (2 ^ r.order * r.partLen) (fun t => r.quotients.getD t 0) :=
    (rsum_blocks _ _ (fun t => r.quotients.getD t 0)).symm
  rw [rsum_add_fn, rsum_add_fn, rsum_const, hB, hn, rsum_mul_left, rsum_add_fn, rsum_const] at key
  have hQ : rsum r.blockSize (fun t => r.quotients.getD t 0) = r.quotients.sum := by
    rw [← hql, rsum_getD]
  have hP : rsum (2 ^ r.order) (fun t => r.params.getD t 0) = r.params.sum := by
    rw [← hpl, rsum_getD]
  rw [hQ, hP, Nat.mul_one, Nat.mul_add r.partLen, Nat.mul_comm r.partLen (2 ^ r.order), hn] at key
  omega

/-- The five clauses of `Residual.WF` that `count = |bits|` really depends on (each is necessary:
see the counterexamples in `Theorems/C08.lean`). -/
theorem residual_count_min (r : Residual) (hpl : r.params.length = 2 ^ r.order)
    (hdiv : 2 ^ r.order ∣ r.blockSize) (hw : r.warmup ≤ r.partLen)
    (hql : r.quotients.length = r.blockSize) (hq : ∀ t, t < r.warmup → r.quotients.getD t 0 = 0) :
    r.count = some r.bits.length := by
  have hb := bits_length_add r hpl hdiv hw hql hq
  have hn : 2 ^ r.order * r.partLen = r.blockSize := by
    rw [Residual.partLen, Nat.shiftRight_eq_div_pow]; exact Nat.mul_div_cancel' hdiv
  have hK : 0 < 2 ^ r.order := Nat.two_pow_pos _
  have hLn : r.partLen ≤ r.blockSize := by
    rw [← hn]; exact Nat.le_mul_of_pos_left _ hK
  have hne : r.params.isEmpty = false := by
    cases hp : r.params with
    | nil => rw [hp] at hpl; simp at hpl; omega
    | cons x l => rfl
  have hX : r.warmup * r.params.getD 0 0 ≤ r.params.sum * r.partLen := by
    rw [Nat.mul_comm r.params.sum]
    exact Nat.mul_le_mul hw (getD_zero_le_sum _)
  simp only [Residual.count, foldl_add, Residual.nparts, hne]
  rw [if_neg (by omega), if_neg (by simp), if_neg (by omega)]
  rw [Nat.mul_add, Nat.mul_one] at hb
  rw [Nat.mul_comm r.partLen] at hb
  congr 1
  omega

theorem residual_count (r : Residual) (h : r.WF) : r.count = some r.bits.length := by
  obtain ⟨_, hpl, hdiv, hw, _, hql, _, _, hq0, _⟩ := h
  exact residual_count_min r hpl hdiv hw hql (fun t ht => (hq0 t ht).1)

end FlacVerif.Count
