/-
Strict round trip (C01/C02), part 17: the encoder side of a frame — the per-channel loop, the stereo
recombinations and their inverses on whole channels.
-/
import FlacVerif.Lemmas.StrictFrameDec
namespace FlacVerif

namespace Strict
open Rfc

/-- Mid signal of two channels. -/
abbrev midOf (l r : List Int) : List Int := (List.zipWith midSide l r).map (·.1)
/-- Side signal of two channels. -/
abbrev sideOf (l r : List Int) : List Int := (List.zipWith midSide l r).map (·.2)

/-- The per-channel loop of `encode_frame_impl`: every sub-frame is read back with the width of its
channel, and is well-formed. -/
theorem encodeChannels_strict (cfg : SubCfg) (asg : ChannelAssignment) (bps n : Nat) (hn : 1 ≤ n ∧ n < 2 ^ 16)
    (hmax : cfg.maxP ≤ 14) :
    ∀ (chans : List (List Int)) (ch : Nat) (log log' : List OEvent) (subs : List SubFrame),
      (∀ c ∈ chans, c.length = n) →
      (∀ i (h : i < chans.length), 1 ≤ bps + asg.bpsOffset (ch + i) ∧ bps + asg.bpsOffset (ch + i) ≤ 25 ∧
        ∀ x ∈ chans[i], SubFrame.inRange (bps + asg.bpsOffset (ch + i)) x = true) →
      (∀ e ∈ log, e.Ok) →
      encodeChannels cfg asg bps chans ch log = some (subs, log') →
      subs.length = chans.length ∧ (∀ e ∈ log', e ∈ log) ∧
      ∀ i (h1 : i < subs.length) (h2 : i < chans.length), subs[i].WF ∧ ∀ k, ∃ rep,
        readSubframe n (bps + asg.bpsOffset (ch + i)) (subs[i].bits ++ k) = .ok (rep, k) ∧
          rep.samples = chans[i] := by
  intro chans
  induction chans with
  | nil =>
    intro ch log log' subs _ _ _ h
    simp only [encodeChannels, Option.some.injEq, Prod.mk.injEq] at h
    obtain ⟨rfl, rfl⟩ := h
    exact ⟨rfl, fun e he => he, fun i h1 => absurd h1 (by simp)⟩
  | cons c cs ih =>
    intro ch log log' subs hlen hrng hlog h
    simp only [encodeChannels, Option.bind_eq_bind, Option.bind_eq_some_iff, Option.some.injEq, Prod.mk.injEq] at h
    obtain ⟨⟨s, l1⟩, hs, ⟨ss, l2⟩, hss, hsub, hl2⟩ := h
    subst hsub; subst hl2
    have hc : c.length = n := hlen c (by simp)
    obtain ⟨hb1, hb25, hx⟩ := hrng 0 (by simp)
    simp only [Nat.add_zero, List.getElem_cons_zero] at hb1 hb25 hx
    have hsub1 := encodeSubframe_sub cfg c _ log l1 s hs
    have hthis := fun k => subframe_strict cfg c _ log l1 s (by omega) (by omega) ⟨hb1, hb25⟩ hx hmax hlog hs k
    obtain ⟨hl, hsub2, hrest⟩ := ih (ch + 1) l1 l2 ss (fun x hx => hlen x (by simp [hx]))
      (fun i hi => by
        have := hrng (i + 1) (by simp; omega)
        simp only [List.getElem_cons_succ] at this
        rw [show ch + (i + 1) = ch + 1 + i by omega] at this
        exact this)
      (fun e he => hlog e (hsub1 e he)) hss
    refine ⟨by simp [hl], fun e he => hsub1 e (hsub2 e he), ?_⟩
    intro i h1 h2
    cases i with
    | zero =>
      simp only [List.getElem_cons_zero, Nat.add_zero]
      refine ⟨(hthis []).choose_spec.2.2.2, fun k => ?_⟩
      obtain ⟨rep, hr1, hr2, _, _⟩ := hthis k
      rw [hc] at hr1
      exact ⟨rep, hr1, hr2⟩
    | succ j =>
      simp only [List.getElem_cons_succ]
      have := hrest j (by simpa using h1) (by simpa using h2)
      rw [show ch + 1 + j = ch + (j + 1) by omega] at this
      exact this

/-! ### stereo on whole channels -/

theorem zip_recon (enc1 enc2 : Int → Int → Int) (dec : Int → Int → Int × Int)
    (h : ∀ a b, dec (enc1 a b) (enc2 a b) = (a, b)) :
    ∀ (l r : List Int), l.length = r.length →
      (List.zipWith dec (List.zipWith enc1 l r) (List.zipWith enc2 l r)).map (·.1) = l ∧
      (List.zipWith dec (List.zipWith enc1 l r) (List.zipWith enc2 l r)).map (·.2) = r := by
  intro l
  induction l with
  | nil =>
    intro r hr
    have : r = [] := List.eq_nil_of_length_eq_zero (by simpa using hr.symm)
    subst this
    exact ⟨rfl, rfl⟩
  | cons a l ih =>
    intro r hr
    match r, hr with
    | b :: r, hr =>
      obtain ⟨h1, h2⟩ := ih r (by simpa using hr)
      simp only [List.zipWith_cons_cons, List.map_cons, h a b, h1, h2, and_self]

theorem zipWith_left (l r : List Int) (h : l.length = r.length) : List.zipWith (fun a _ => a) l r = l := by
  induction l generalizing r with
  | nil => rfl
  | cons a l ih =>
    match r, h with
    | b :: r, h => simp only [List.zipWith_cons_cons, ih r (by simpa using h)]

theorem zipWith_right (l r : List Int) (h : l.length = r.length) : List.zipWith (fun _ b => b) l r = r := by
  induction l generalizing r with
  | nil =>
    have : r = [] := List.eq_nil_of_length_eq_zero (by simpa using h.symm)
    subst this; rfl
  | cons a l ih =>
    match r, h with
    | b :: r, h => simp only [List.zipWith_cons_cons, ih r (by simpa using h)]

theorem mid_eq (l r : List Int) :
    (List.zipWith midSide l r).map (·.1) = List.zipWith (fun (a b : Int) => (a + b) >>> (1 : Nat)) l r := by
  rw [List.map_zipWith]; rfl

theorem side_eq (l r : List Int) :
    (List.zipWith midSide l r).map (·.2) = List.zipWith (fun a b => a - b) l r := by
  rw [List.map_zipWith]; rfl

theorem recon_indep (k : Nat) (hk : k < 8) (raws : List (List Int)) : reconstruct k raws = raws := by
  unfold reconstruct; rw [if_pos hk]

theorem recon_left (l r : List Int) (h : l.length = r.length) :
    reconstruct 8 [l, sideOf l r] = [l, r] := by
  unfold reconstruct
  simp only [show ¬ (8 < 8) by decide, if_false, if_true, List.getD_cons_zero, List.getD_cons_succ, side_eq]
  have := zip_recon (fun a _ => a) (fun a b => a - b) unLeftSide (fun a b => unLeftSide_spec a b) l r h
  rw [zipWith_left l r h] at this
  rw [this.1, this.2]

theorem recon_right (l r : List Int) (h : l.length = r.length) :
    reconstruct 9 [sideOf l r, r] = [l, r] := by
  unfold reconstruct
  simp only [show ¬ (9 < 8) by decide, show ¬ (9 = 8) by decide, if_false, if_true, List.getD_cons_zero,
    List.getD_cons_succ, side_eq]
  have := zip_recon (fun a b => a - b) (fun _ b => b) unRightSide (fun a b => unRightSide_spec a b) l r h
  rw [zipWith_right l r h] at this
  rw [this.1, this.2]

theorem recon_mid (l r : List Int) (h : l.length = r.length) :
    reconstruct 10 [midOf l r, sideOf l r] = [l, r] := by
  unfold reconstruct
  simp only [show ¬ (10 < 8) by decide, show ¬ (10 = 8) by decide, show ¬ (10 = 9) by decide, if_false,
    List.getD_cons_zero, List.getD_cons_succ, mid_eq, side_eq]
  have := zip_recon (fun (a b : Int) => (a + b) >>> (1 : Nat)) (fun a b => a - b) unMidSide (fun a b => unMidSide_midSide a b) l r h
  rw [this.1, this.2]

/-- Mid and side signals of `bps`-bit channels: mid stays `bps` bits wide, side needs `bps + 1`. -/
theorem midSide_range (bps : Nat) (hb : 1 ≤ bps) (l r : List Int)
    (hl : ∀ x ∈ l, SubFrame.inRange bps x = true) (hr : ∀ x ∈ r, SubFrame.inRange bps x = true) :
    (∀ x ∈ midOf l r, SubFrame.inRange bps x = true) ∧
    (∀ x ∈ sideOf l r, SubFrame.inRange (bps + 1) x = true) := by
  have hcast : ((2 : Int) ^ (bps - 1)) = ((2 ^ (bps - 1) : Nat) : Int) := (Int.natCast_pow 2 (bps - 1)).symm
  have hcast2 : ((2 : Int) ^ (bps + 1 - 1)) = 2 * ((2 ^ (bps - 1) : Nat) : Int) := by
    have : bps + 1 - 1 = (bps - 1) + 1 := by omega
    rw [this, Int.pow_succ, hcast]; omega
  have key : ∀ p ∈ List.zipWith midSide l r, SubFrame.inRange bps p.1 = true ∧ SubFrame.inRange (bps + 1) p.2 = true := by
    intro p hp
    rw [List.mem_iff_getElem] at hp
    obtain ⟨i, hi, rfl⟩ := hp
    rw [List.getElem_zipWith]
    rw [List.length_zipWith] at hi
    have ha := (inRange_iff bps _).1 (hl _ (List.getElem_mem (show i < l.length by omega)))
    have hb' := (inRange_iff bps _).1 (hr _ (List.getElem_mem (show i < r.length by omega)))
    rw [hcast] at ha hb'
    simp only [midSide, inRange_iff, hcast, hcast2, Int.shiftRight_eq_div_pow]
    constructor <;> constructor <;> omega
  constructor
  · intro x hx
    obtain ⟨p, hp, rfl⟩ := List.mem_map.1 hx
    exact (key p hp).1
  · intro x hx
    obtain ⟨p, hp, rfl⟩ := List.mem_map.1 hx
    exact (key p hp).2

theorem chooseStereo_cases (st : StereoCfg) (cl cr cm cs : Nat) :
    chooseStereo st cl cr cm cs = .independent 2 ∨ chooseStereo st cl cr cm cs = .leftSide ∨
    chooseStereo st cl cr cm cs = .rightSide ∨ chooseStereo st cl cr cm cs = .midSide := by
  unfold chooseStereo
  simp only [List.foldl_cons, List.foldl_nil]
  have step : ∀ (best : ChannelAssignment) (c : Option ChannelAssignment),
      (best = .independent 2 ∨ best = .leftSide ∨ best = .rightSide ∨ best = .midSide) →
      (c = none ∨ c = some .leftSide ∨ c = some .rightSide ∨ c = some .midSide) →
      let r := (match c with
        | some a => if stereoCost cl cr cm cs a < stereoCost cl cr cm cs best then a else best
        | none => best)
      (r = .independent 2 ∨ r = .leftSide ∨ r = .rightSide ∨ r = .midSide) := by
    intro best c hb hc
    rcases hc with rfl | rfl | rfl | rfl
    · exact hb
    · simp only; split
      · exact Or.inr (Or.inl rfl)
      · exact hb
    · simp only; split
      · exact Or.inr (Or.inr (Or.inl rfl))
      · exact hb
    · simp only; split
      · exact Or.inr (Or.inr (Or.inr rfl))
      · exact hb
  refine step _ _ (step _ _ (step _ _ (Or.inl rfl) ?_) ?_) ?_
  · cases st.useLeftSide <;> simp
  · cases st.useRightSide <;> simp
  · cases st.useMidSide <;> simp

end Strict
end FlacVerif
