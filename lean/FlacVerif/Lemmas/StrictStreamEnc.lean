/-
Strict round trip (C01/C02), part 19: the frame loop of the stream encoder against the frame loop of
the stream decoder; the block structure of the input.
-/
import FlacVerif.Lemmas.StrictStreamSize
import FlacVerif.Model.EncodeStream
import FlacVerif.Model.RfcRec
namespace FlacVerif

namespace Strict
open Rfc

/-! ### the oracle log only shrinks -/

theorem encodeChannels_sub (cfg : SubCfg) (asg : ChannelAssignment) (bps : Nat) :
    ∀ (chans : List (List Int)) (ch : Nat) (log log' : List OEvent) (subs : List SubFrame),
      encodeChannels cfg asg bps chans ch log = some (subs, log') → ∀ e ∈ log', e ∈ log := by
  intro chans
  induction chans with
  | nil =>
    intro ch log log' subs h
    simp only [encodeChannels, Option.some.injEq, Prod.mk.injEq] at h
    obtain ⟨_, rfl⟩ := h
    exact fun e he => he
  | cons c cs ih =>
    intro ch log log' subs h
    simp only [encodeChannels, Option.bind_eq_bind, Option.bind_eq_some_iff, Option.some.injEq, Prod.mk.injEq] at h
    obtain ⟨⟨s, l1⟩, hs, ⟨ss, l2⟩, hss, _, rfl⟩ := h
    have h1 := encodeSubframe_sub cfg c _ log l1 s hs
    have h2 := ih (ch + 1) l1 l2 ss hss
    exact fun e he => h1 e (h2 e he)

theorem encodeFrame_sub (cfg : SubCfg) (st : StereoCfg) (chans : List (List Int)) (bps rate number : Nat)
    (log log' : List OEvent) (f : Frame) (h : encodeFrame cfg st chans bps rate number log = some (f, log')) :
    ∀ e ∈ log', e ∈ log := by
  unfold encodeFrame at h
  simp only [Option.bind_eq_some_iff] at h
  obtain ⟨⟨indep, l1⟩, hi, h⟩ := h
  have h1 := encodeChannels_sub cfg _ bps chans 0 log l1 indep hi
  split at h
  · simp only [Option.bind_eq_some_iff] at h
    obtain ⟨⟨msSubs, l2⟩, hm, h⟩ := h
    have h2 := encodeChannels_sub cfg _ bps _ 0 l1 l2 msSubs hm
    split at h
    · simp only [Option.map_eq_some_iff, Prod.mk.injEq] at h
      obtain ⟨_, _, _, rfl⟩ := h
      exact fun e he => h1 e (h2 e he)
    · exact absurd h (by simp)
  · split at h
    · exact absurd h (by simp)
    · simp only [Option.map_eq_some_iff, Prod.mk.injEq] at h
      obtain ⟨_, _, _, rfl⟩ := h
      exact h1

/-! ### blocks -/

/-- What a block handed to `encode_frame` satisfies. -/
structure BlockOk (nch bps bs : Nat) (b : List (List Int)) : Prop where
  nch : b.length = nch
  len : ∀ c ∈ b, c.length = (b.headD []).length
  pos : 1 ≤ (b.headD []).length
  le : (b.headD []).length ≤ bs
  range : ∀ c ∈ b, ∀ x ∈ c, SubFrame.inRange bps x = true

theorem frame_bits_ge16 (f : Frame) (fb : Bits) (h : f.bits rfcCrc8 rfcCrc16 = some fb) : 16 ≤ fb.length := by
  unfold Frame.bits at h
  simp only [Option.bind_eq_bind, Option.bind_eq_some_iff, Option.some.injEq] at h
  obtain ⟨hb, _, rfl⟩ := h
  simp only [List.length_append, natToBits_length]
  omega

/-- **The two frame loops.** Whatever `encodeFrames` returns is serialisable, and the decoder's frame
loop, started on the serialised frames with the same first frame number, reads all of them back
(`acc` = the frames read before, most recent first). -/
theorem readFrames_encodeFrames (cfg : SubCfg) (st : StereoCfg) (bps rate nch bs : Nat) (info : Info)
    (hinfo : info.rate = rate ∧ info.channels = nch ∧ info.bps = bps)
    (hnch : 1 ≤ nch ∧ nch ≤ 8) (hbs : bs < 2 ^ 16) (hb : 1 ≤ bps ∧ bps ≤ 24) (hmax : cfg.maxP ≤ 14) :
    ∀ (blocks : List (List (List Int))) (number : Nat) (log log' : List OEvent) (frames : List Frame),
      (∀ b ∈ blocks, BlockOk nch bps bs b) → number + blocks.length ≤ 2 ^ 31 →
      (∀ e ∈ log, e.Ok) →
      encodeFrames cfg st bps rate blocks number log = some (frames, log') →
      ∃ (fbs : List Bits) (reps : List FrameRep),
        frames.mapM (Frame.bits rfcCrc8 rfcCrc16) = some fbs ∧
        frames.mapM Frame.count = some (fbs.map List.length) ∧
        frames.length = blocks.length ∧
        (∀ fb ∈ fbs, fb.length % 8 = 0 ∧ fb.length < 2 ^ 24 ∧ 16 ≤ fb.length) ∧
        (∀ fuel acc, blocks.length ≤ fuel →
          readFrames info fuel (packBytes fbs.flatten) (bytesToBits (packBytes fbs.flatten)) number acc =
            .ok (reps.reverse ++ acc)) ∧
        reps.map (·.channels) = blocks ∧
        reps.map (·.blockSize) = blocks.map (fun b => (b.headD []).length) ∧
        reps.map (·.byteLen) = fbs.map (fun fb => fb.length / 8) := by
  intro blocks
  induction blocks with
  | nil =>
    intro number log log' frames _ _ _ h
    simp only [encodeFrames, Option.some.injEq, Prod.mk.injEq] at h
    obtain ⟨rfl, _⟩ := h
    refine ⟨[], [], rfl, rfl, rfl, fun fb hfb => by simp at hfb, ?_, rfl, rfl, rfl⟩
    intro fuel acc _
    have hp : packBytes ([] : List Bits).flatten = [] := by simp [packBytes_nil]
    rw [hp]
    cases fuel <;> rfl
  | cons b bs' ih =>
    intro number log log' frames hok hnum hlog h
    simp only [encodeFrames, Option.bind_eq_bind, Option.bind_eq_some_iff, Option.some.injEq, Prod.mk.injEq] at h
    obtain ⟨⟨f, l1⟩, hf, ⟨fs, l2⟩, hfs, rfl, _⟩ := h
    have hbk := hok b (by simp)
    have hsub := encodeFrame_sub cfg st b bps rate number log l1 f hf
    have hfr := fun more => frame_strict cfg st b bps rate number (b.headD []).length log l1 f
      (by rw [hbk.nch]; exact hnch) hbk.len ⟨hbk.pos, Nat.lt_of_le_of_lt hbk.le hbs⟩ hb hbk.range
      (by simp only [List.length_cons] at hnum; omega) hmax hlog hf info
      ⟨hinfo.1, by rw [hbk.nch]; exact hinfo.2.1, hinfo.2.2⟩ more
    obtain ⟨fbs, reps, hm1, hm2, hl, h8, hrd, hc1, hc2, hc3⟩ := ih (number + 1) l1 l2 fs
      (fun x hx => hok x (by simp [hx])) (by simp only [List.length_cons] at hnum; omega)
      (fun e he => hlog e (hsub e he)) hfs
    obtain ⟨fb, rep0, hfb, _, _, _, _, hlen0, hcount⟩ := hfr []
    have hfb8 : fb.length % 8 = 0 := by omega
    have hfb16 := frame_bits_ge16 f fb hfb
    -- the representation read for this frame, as a function of what follows
    have hrep : ∀ more, ∃ rep, readFrame info number (packBytes fb ++ more) (fb ++ bytesToBits more) =
        .ok (rep, more, bytesToBits more) ∧ rep.channels = b ∧ rep.blockSize = (b.headD []).length ∧
        rep.byteLen * 8 = fb.length := by
      intro more
      obtain ⟨fb', rep, hfb', h1, h2, h3, _, h5, _⟩ := hfr more
      rw [hfb] at hfb'
      simp only [Option.some.injEq] at hfb'
      subst hfb'
      exact ⟨rep, h1, h2, h3, h5⟩
    obtain ⟨rep, hr1, hr2, hr3, hr4⟩ := hrep (packBytes fbs.flatten)
    refine ⟨fb :: fbs, rep :: reps, ?_, ?_, by simp [hl], ?_, ?_, by simp [hr2, hc1], by simp [hr3, hc2], ?_⟩
    · simp [List.mapM_cons, hfb, hm1]
    · simp [List.mapM_cons, hcount, hm2]
    · intro x hx
      simp only [List.mem_cons] at hx
      rcases hx with rfl | hx
      · exact ⟨hfb8, frame_count_lt cfg st b bps rate number _ log l1 f _ (by rw [hbk.nch]; exact hnch.2) hbk.len
          ⟨hbk.pos, Nat.lt_of_le_of_lt hbk.le hbs⟩ hb.2 (by simp only [List.length_cons] at hnum; omega) hf hcount,
          hfb16⟩
      · exact h8 x hx
    · intro fuel acc hfuel
      simp only [List.length_cons] at hfuel
      obtain ⟨fuel', rfl⟩ : ∃ k, fuel = k + 1 := ⟨fuel - 1, by omega⟩
      have hpk : packBytes (fb :: fbs).flatten = packBytes fb ++ packBytes fbs.flatten := by
        rw [List.flatten_cons, packBytes_append (fb.length / 8) fb _ (by omega)]
      have hne : (packBytes fb ++ packBytes fbs.flatten).isEmpty = false := by
        have := (bits_as_bytes fb hfb8).2
        cases hp : packBytes fb with
        | nil => rw [hp] at this; simp at this; omega
        | cons _ _ => rfl
      rw [hpk, readFrames, hne]
      simp only [Bool.not_false, if_true]
      rw [Repo.bytesToBits_append, (bits_as_bytes fb hfb8).1, hr1]
      simp only [ok_bind]
      rw [hrd fuel' (rep :: acc) (by omega)]
      simp
    · simp only [List.map_cons, hc3]
      congr 1
      omega

end Strict
end FlacVerif
