/-
Extras, part 1: the written size of the residual `encode_residual_with_prc_parameter` builds
(`Residual.ofErrors`) is `6 + choiceCost` of the folded errors — the link between the
implementation-side size (`Residual.bits`, `Residual.count`) and the specification-side cost of C13.
-/
import FlacVerif.Lemmas.StrictSearch
import FlacVerif.Lemmas.Count
namespace FlacVerif
namespace Extras
open Count Strict

theorem getD_take_drop (es : List Nat) (a b i : Nat) (hi : a + i < b) :
    ((es.take b).drop a).getD i 0 = es.getD (a + i) 0 := by
  rw [List.getD_eq_getElem?_getD, List.getD_eq_getElem?_getD, List.getElem?_drop,
    List.getElem?_take_of_lt hi]

theorem length_take_drop (es : List Nat) (a b : Nat) (hb : b ≤ es.length) :
    ((es.take b).drop a).length = b - a := by
  rw [List.length_drop, List.length_take, Nat.min_eq_left hb]

theorem getD_take_of_lt (ps : List Nat) (m k : Nat) (h : k < m) : (ps.take m).getD k 0 = ps.getD k 0 := by
  rw [List.getD_eq_getElem?_getD, List.getD_eq_getElem?_getD, List.getElem?_take_of_lt h]

/-- `partCost` as a sum over positions. -/
theorem partCost_rsum (p : Nat) (l : List Nat) :
    partCost p l = 4 + (rsum l.length (fun i => l.getD i 0 >>> p) + l.length * (p + 1)) := by
  unfold partCost
  rw [foldl_add, ← map_getD_range l 0 (fun e => (e >>> p) + p + 1)]
  change 4 + rsum l.length (fun i => (l.getD i 0 >>> p) + p + 1) = _
  have : (fun i => (l.getD i 0 >>> p) + p + 1) = fun i => (l.getD i 0 >>> p) + (p + 1) := by
    funext i; omega
  rw [this, rsum_add_fn, rsum_const]

theorem div_eq_of_block (t k L : Nat) (h1 : k * L ≤ t) (h2 : t < (k + 1) * L) : t / L = k := by
  have hL : 0 < L := by
    rcases Nat.eq_zero_or_pos L with h | h
    · subst h; simp at h2
    · exact h
  apply Nat.div_eq_of_lt_le
  · rw [Nat.mul_comm] at h1; rw [Nat.mul_comm]; exact h1
  · rw [Nat.mul_comm] at h2; rw [Nat.mul_comm]; exact h2

/-- One partition: the written length is the specification-side `partCost`. -/
theorem partBits_ofErrors (errors : List Int) (w o : Nat) (ps : List Nat)
    (herr : ∀ e ∈ errors, -(2 ^ 31 : Int) < e ∧ e < (2 ^ 31 : Int)) (k : Nat) (hk : k < 2 ^ o) :
    ((Residual.ofErrors errors w o ps).partBits k).length =
      partCost (ps.getD k 0) (partErrors (errors.map fold) w o k) := by
  have hpow : 0 < 2 ^ o := Nat.two_pow_pos o
  have hstop : (k + 1) * (errors.length >>> o) ≤ errors.length := by
    rw [Nat.shiftRight_eq_div_pow]
    calc (k + 1) * (errors.length / 2 ^ o) ≤ 2 ^ o * (errors.length / 2 ^ o) :=
          Nat.mul_le_mul_right _ (by omega)
      _ ≤ errors.length := Nat.mul_div_le _ _
  rw [partBits_length, partCost_rsum]
  simp only [ofErrors_partLen, ofErrors_warmup, ofErrors_params]
  unfold partErrors
  simp only [List.length_map]
  rw [length_take_drop _ _ _ (by rw [List.length_map]; exact hstop), getD_take_of_lt _ _ _ hk]
  congr 2
  apply rsum_congr
  intro i hi
  have ht : max w (k * (errors.length >>> o)) + i < (k + 1) * (errors.length >>> o) := by omega
  rw [getD_take_drop _ _ _ _ ht]
  have htn : max w (k * (errors.length >>> o)) + i < errors.length := by omega
  rw [ofErrors_quot errors w o ps _ htn, if_neg (by omega),
    div_eq_of_block _ k _ (by omega) ht]
  have hmem := herr _ (getD_mem_int errors _ htn)
  rw [encodeSignbit_eq_fold _ hmem.1 hmem.2]
  congr 1
  rw [List.getD_eq_getElem?_getD, List.getD_eq_getElem?_getD, List.getElem?_map,
    List.getElem?_eq_getElem htn]
  rfl

/-- **Written size of an emitted residual.** For prediction errors strictly inside `(-2^31, 2^31)`
(where the `u32` sign folding is the mathematical one), any warm-up, order and parameter list:
`Residual::write` of `encode_residual_with_prc_parameter(errors, …)` emits exactly
`6 + choiceCost (folded errors) warm order params` bits (2 bits method + 4 bits order, then per
partition 4 bits of parameter and `q + p + 1` bits per coded sample). -/
theorem ofErrors_bits_length (errors : List Int) (w o : Nat) (ps : List Nat)
    (herr : ∀ e ∈ errors, -(2 ^ 31 : Int) < e ∧ e < (2 ^ 31 : Int)) :
    (Residual.ofErrors errors w o ps).bits.length = 6 + choiceCost (errors.map fold) w o ps := by
  unfold Residual.bits choiceCost
  rw [List.length_append, natToBits_length, length_flatMap_range, foldl_add]
  change 6 + rsum _ _ = 6 + rsum (2 ^ o) _
  congr 1
  exact rsum_congr (fun k hk => partBits_ofErrors errors w o ps herr k hk)

/-- … and, when the residual is well-formed, so is its reported `count_bits` (C08). -/
theorem ofErrors_count (errors : List Int) (w o : Nat) (ps : List Nat)
    (herr : ∀ e ∈ errors, -(2 ^ 31 : Int) < e ∧ e < (2 ^ 31 : Int))
    (hwf : (Residual.ofErrors errors w o ps).WF) :
    (Residual.ofErrors errors w o ps).count = some (6 + choiceCost (errors.map fold) w o ps) := by
  rw [residual_count _ hwf, ofErrors_bits_length errors w o ps herr]

end Extras
end FlacVerif
