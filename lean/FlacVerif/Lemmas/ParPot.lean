/-
Termination potential of the protocol model: a natural number that strictly decreases with every
step, from every state (no invariant needed). Hence every run is finite and bounded by the
potential of the initial state.
-/
import FlacVerif.Lemmas.ParStep
namespace FlacVerif.Par

/-- Work the main thread will still do or cause. `L` = number of workers, `E` = potential at the
start of `request_stop`. -/
def MPc.pot (W L N k : Nat) : MPc → Nat
  | .recv => 9 * (N - k) + 4 + (2 * W + 3 + L)
  | .locked _ => 9 * (N - k) + 3 + (2 * W + 3 + L)
  | .eofEmpty _ => 1 + (2 * W + 3 + L)
  | .filledMd5 _ => 9 * (N - (k + 1)) + 10 + (2 * W + 3 + L)
  | .enq _ => 9 * (N - (k + 1)) + 9 + (2 * W + 3 + L)
  | .stop r => 2 * r + 3 + L
  | .reqStop => 3 + L
  | .joinH => 1 + L
  | .joinW j => L - j
  | .done => 0

def WPc.pot : WPc → Nat
  | .idle => 0
  | .got _ => 3
  | .encoded _ _ _ => 2
  | .sent _ _ _ => 1
  | .exited => 0

def qpot : Option Nat → Nat
  | some _ => 4
  | none => 1

/-- The potential. -/
def potential (p : Params) (s : State) : Nat :=
  s.main.pot p.W s.workers.length p.blocks.length s.k + (s.workers.map WPc.pot).sum +
    (s.encodeQ.map qpot).sum + s.md5Q.length

theorem sum_set (l : List Nat) (i : Nat) (a b : Nat) (h : l[i]? = some a) :
    (l.set i b).sum + a = l.sum + b := by
  induction l generalizing i with
  | nil => simp at h
  | cons x l ih =>
    cases i with
    | zero => simp at h; subst h; simp; omega
    | succ i => simp at h; have := ih i h; simp; omega

theorem sum_map_set {α : Type} (f : α → Nat) (l : List α) (i : Nat) (a b : α)
    (h : l[i]? = some a) : ((l.set i b).map f).sum + f a = (l.map f).sum + f b := by
  rw [List.map_set]
  exact sum_set _ _ _ _ (by simp [h])

theorem afterStop_pot (W L N k r : Nat) : (afterStop r).pot W L N k = 2 * r + 3 + L := by
  unfold afterStop; split
  · subst_vars; simp [MPc.pot]
  · simp [MPc.pot]

theorem count_le_length' (s : State) : s.exitedCount ≤ s.workers.length := List.count_le_length

theorem potential_decreases {p : Params} {s s' : State} {e : Ev} (h : Step p s e s') :
    potential p s' < potential p s := by
  cases h
  case refill_recv id rest hm hq => simp [potential, hm, MPc.pot]
  case md5_data id b x hm hnf hcap hb hx =>
    have hk : s.k < p.blocks.length := by
      rcases Nat.lt_or_ge s.k p.blocks.length with h | h
      · exact h
      · simp [List.getElem?_eq_none h] at hb
    simp [potential, hm, MPc.pot]; omega
  case md5_eof id hm hnf hcap hb he => simp [potential, hm, MPc.pot]; omega
  case md5_stop hm hcap => simp [potential, hm, MPc.pot]; omega
  case f_filled id x hm hx => simp [potential, hm, MPc.pot]
  case f_eof_plain id hm hnf hk he =>
    simp only [potential, afterStop_pot, hm]; simp [MPc.pot] <;> omega
  case f_eof_empty id hm => simp only [potential, afterStop_pot, hm]; simp [MPc.pot]
  case f_read_err id hm hf => simp only [potential, afterStop_pot, hm]; simp [MPc.pot] <;> omega
  case enc_send_some id hm hcap => simp [potential, hm, MPc.pot, qpot]; omega
  case enc_send_none r hm hcap =>
    simp only [potential, afterStop_pot, hm]; simp [MPc.pot, qpot]; omega
  case joined_hasher hm hh =>
    simp only [potential, hm]
    split <;> simp [MPc.pot] <;> omega
  case joined_worker j hm hj =>
    have := count_le_length' s
    simp only [potential, hm]
    split <;> simp [MPc.pot] <;> omega
  case enc_recv_some w id rest hw hq =>
    have := sum_map_set WPc.pot s.workers w _ (.got id) hw
    simp [potential, hq, qpot, WPc.pot] at this ⊢; omega
  case enc_recv_none w rest hw hq =>
    have := sum_map_set WPc.pot s.workers w _ .exited hw
    simp [potential, hq, qpot, WPc.pot] at this ⊢; omega
  case w_lock w id n x hw hx hn hl =>
    have := sum_map_set WPc.pot s.workers w _ (.encoded id n (enc n x.blk)) hw
    simp [potential, WPc.pot] at this ⊢; omega
  case refill_send w id n res hw hcap =>
    have := sum_map_set WPc.pot s.workers w _ (.sent id n res) hw
    simp [potential, WPc.pot] at this ⊢; omega
  case w_push w id n f hw =>
    have := sum_map_set WPc.pot s.workers w _ .idle hw
    simp [potential, WPc.pot] at this ⊢; omega
  case w_err w id n hw =>
    have := sum_map_set WPc.pot s.workers w _ .idle hw
    simp [potential, WPc.pot] at this ⊢; omega
  case md5_recv_stop rest hh hq => simp [potential, hq]
  case md5_recv_data b rest hh hq hb => simp [potential, hq]

theorem run_length_le {p : Params} {s s' : State} {evs : List Ev} (h : run p s evs = some s') :
    potential p s' + evs.length ≤ potential p s := by
  induction evs generalizing s with
  | nil => simp only [run, Option.some.injEq] at h; subst h; simp
  | cons e evs ih =>
    simp only [run] at h
    cases hstep : step p s e with
    | none => simp [hstep] at h
    | some s1 =>
      rw [hstep] at h
      have h1 := ih h
      have h2 := potential_decreases (Step_of_step hstep)
      simp only [List.length_cons]; omega

theorem potential_init (p : Params) :
    potential p (init p) = 9 * p.blocks.length + 3 * p.W + 7 := by
  simp [potential, init, MPc.pot, WPc.pot]; 
  have : ∀ n, ((List.replicate n WPc.idle).map WPc.pot).sum = 0 := by
    intro n; induction n <;> simp_all [List.replicate, WPc.pot]
  omega

end FlacVerif.Par
