/-
Strict round trip (C01/C02), part 1: the primitive readers of the independent RFC 9639 decoder
(`Model/Rfc.lean`) against the primitive writers (`natToBits`, `twoc`, `unary`).
-/
import FlacVerif.Model.Rfc
import FlacVerif.Model.Component
namespace FlacVerif
namespace Strict
open Rfc

/-! ### the `Except String` monad -/

@[simp] theorem ok_bind {α β : Type} (a : α) (f : α → R β) : (Except.ok a >>= f) = f a := rfl
@[simp] theorem error_bind {α β : Type} (e : String) (f : α → R β) : ((Except.error e : R α) >>= f) = .error e := rfl
@[simp] theorem pure_eq {α : Type} (a : α) : (pure a : R α) = .ok a := rfl
@[simp] theorem throw_eq {α : Type} (e : String) : (throw e : R α) = .error e := rfl

/-! ### fixed-width naturals -/

theorem take_append_len {α : Type} (a b : List α) (n : Nat) (h : a.length = n) : (a ++ b).take n = a := by
  subst h; simp

theorem drop_append_len {α : Type} (a b : List α) (n : Nat) (h : a.length = n) : (a ++ b).drop n = b := by
  subst h; simp

theorem takeBits_append (a k : Bits) (n : Nat) (what : String) (h : a.length = n) :
    takeBits n (a ++ k) what = .ok (a, k) := by
  unfold takeBits
  have : ¬ (a ++ k).length < n := by simp [h]
  rw [if_neg this, take_append_len a k n h, drop_append_len a k n h]

theorem readNat_natToBits (c v : Nat) (k : Bits) (what : String) :
    readNat c (natToBits c v ++ k) what = .ok (v % 2 ^ c, k) := by
  unfold readNat
  rw [takeBits_append _ _ _ _ (natToBits_length c v)]
  simp [bitsToNat_natToBits]

theorem readNat_natToBits_lt (c v : Nat) (k : Bits) (what : String) (hv : v < 2 ^ c) :
    readNat c (natToBits c v ++ k) what = .ok (v, k) := by
  rw [readNat_natToBits, Nat.mod_eq_of_lt hv]

theorem natToBits_split (a b n : Nat) : natToBits (a + b) n = natToBits a (n / 2 ^ b) ++ natToBits b n := by
  induction a with
  | zero => simp [natToBits]
  | succ a ih =>
    have : a + 1 + b = (a + b) + 1 := by omega
    rw [this, natToBits, natToBits, ih, Nat.testBit_div_two_pow]
    first | rfl | (rw [Nat.add_comm b a]; rfl)

theorem natToBits_congr (w a b : Nat) (h : ∀ j, j < w → a.testBit j = b.testBit j) :
    natToBits w a = natToBits w b := by
  induction w with
  | zero => rfl
  | succ w ih =>
    rw [natToBits, natToBits, h w (by omega), ih (fun j hj => h j (by omega))]

theorem natToBits_stop (p rem : Nat) :
    natToBits (p + 1) (rem ||| (1 <<< p)) = true :: natToBits p rem := by
  rw [natToBits]
  congr 1
  · rw [Nat.testBit_or, Nat.testBit_shiftLeft]; simp
  · apply natToBits_congr
    intro j hj
    rw [Nat.testBit_or, Nat.testBit_shiftLeft]
    have : ¬ j ≥ p := by omega
    simp [this]

/-! ### two's complement -/

theorem inRange_iff (b : Nat) (v : Int) :
    SubFrame.inRange b v = true ↔ -(2 ^ (b - 1) : Int) ≤ v ∧ v < (2 ^ (b - 1) : Int) := by
  simp [SubFrame.inRange]

theorem rfc_inRange_eq (b : Nat) (v : Int) : Rfc.inRange b v = SubFrame.inRange b v := rfl

theorem testBit_top (w m : Nat) (h : m < 2 ^ (w + 1)) : m.testBit w = decide (2 ^ w ≤ m) := by
  rw [Nat.testBit_eq_decide_div_mod_eq]
  have hp := Nat.two_pow_pos w
  by_cases hm : 2 ^ w ≤ m
  · have : m / 2 ^ w = 1 := by
      apply Nat.div_eq_of_lt_le
      · omega
      · rw [Nat.pow_succ] at h; omega
    simp [this, hm]
  · have : m / 2 ^ w = 0 := Nat.div_eq_of_lt (by omega)
    simp [this, hm]

/-- `fromTwoc` inverts `twoc` on the range of a `b`-bit signed number. -/
theorem fromTwoc_twoc (b : Nat) (v : Int) (h1 : 1 ≤ b) (hv : SubFrame.inRange b v = true) :
    fromTwoc (twoc b v) = v := by
  rw [inRange_iff] at hv
  obtain ⟨hlo, hhi⟩ := hv
  obtain ⟨w, rfl⟩ : ∃ w, b = w + 1 := ⟨b - 1, by omega⟩
  simp only [Nat.add_sub_cancel] at hlo hhi
  have hcast : ((2 : Int) ^ (w + 1)) = ((2 ^ (w + 1) : Nat) : Int) := (Int.natCast_pow 2 (w + 1)).symm
  have hcast1 : ((2 : Int) ^ w) = ((2 ^ w : Nat) : Int) := (Int.natCast_pow 2 w).symm
  have hdbl : (2 : Nat) ^ (w + 1) = 2 * 2 ^ w := by rw [Nat.pow_succ]; omega
  have hpos := Nat.two_pow_pos w
  rw [hcast1] at hlo hhi
  unfold twoc
  rw [hcast]
  rw [natToBits]
  by_cases hneg : v < 0
  · have hm : v % ((2 ^ (w + 1) : Nat) : Int) = v + ((2 ^ (w + 1) : Nat) : Int) := by
      rw [← Int.add_emod_right v]
      exact Int.emod_eq_of_lt (by omega) (by omega)
    rw [hm]
    have hlt : (v + ((2 ^ (w + 1) : Nat) : Int)).toNat < 2 ^ (w + 1) := by omega
    rw [testBit_top _ _ hlt]
    have hge : 2 ^ w ≤ (v + ((2 ^ (w + 1) : Nat) : Int)).toNat := by omega
    simp only [hge, decide_true, fromTwoc, natToBits_length, bitsToNat_natToBits]
    have hmod : (v + ((2 ^ (w + 1) : Nat) : Int)).toNat % 2 ^ w = (v + ((2 ^ (w + 1) : Nat) : Int)).toNat - 2 ^ w := by
      rw [Nat.mod_eq_sub_mod hge, Nat.mod_eq_of_lt (by omega)]
    rw [hmod, hcast1]
    omega
  · have hm : v % ((2 ^ (w + 1) : Nat) : Int) = v := Int.emod_eq_of_lt (by omega) (by omega)
    rw [hm]
    have hlt : v.toNat < 2 ^ (w + 1) := by omega
    rw [testBit_top _ _ hlt]
    have hge : ¬ 2 ^ w ≤ v.toNat := by omega
    simp only [hge, decide_false, fromTwoc, bitsToNat_natToBits]
    rw [Nat.mod_eq_of_lt (by omega)]
    omega

@[simp] theorem twoc_length (w : Nat) (v : Int) : (twoc w v).length = w := by simp [twoc]

theorem readInt_twoc (b : Nat) (v : Int) (k : Bits) (what : String) (h1 : 1 ≤ b)
    (hv : SubFrame.inRange b v = true) : readInt b (twoc b v ++ k) what = .ok (v, k) := by
  unfold readInt
  rw [takeBits_append _ _ _ _ (twoc_length b v)]
  simp [fromTwoc_twoc b v h1 hv]

theorem readInts_twoc (b : Nat) (xs : List Int) (k : Bits) (what : String) (h1 : 1 ≤ b)
    (hx : ∀ x ∈ xs, SubFrame.inRange b x = true) :
    readInts xs.length b (xs.flatMap (twoc b) ++ k) what = .ok (xs, k) := by
  induction xs with
  | nil => rfl
  | cons x xs ih =>
    rw [List.length_cons, readInts, List.flatMap_cons, List.append_assoc,
      readInt_twoc b x _ what h1 (hx x (by simp))]
    simp only [ok_bind]
    rw [ih (fun y hy => hx y (by simp [hy]))]
    rfl

/-! ### unary codes -/

theorem readUnary_unary (q : Nat) (k : Bits) : readUnary (List.replicate q false ++ true :: k) = some (q, k) := by
  induction q with
  | zero => simp [readUnary]
  | succ q ih =>
    rw [List.replicate_succ, List.cons_append, readUnary, ih]
    rfl

end Strict
end FlacVerif
