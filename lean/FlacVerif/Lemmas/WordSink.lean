/-
Refinement lemmas for `MemSink<u64>` (model: `WordSink`). Core Lean only.
-/
import FlacVerif.Model.Sink
namespace FlacVerif
namespace WordSink

/-- Representation invariant: exactly `⌈len/64⌉` words, and every bit past `len` is zero. -/
structure Inv (s : WordSink) : Prop where
  size : s.storage.length = (s.len + 63) / 64
  tail : ∀ i, s.len ≤ i → s.bitAt i = false

theorem inv_empty : empty.Inv := ⟨rfl, fun i _ => by simp [bitAt, empty]⟩

@[simp] theorem getMsbD_zero' {w : Nat} (i : Nat) : (0 : BitVec w).getMsbD i = false := by
  simp [BitVec.getMsbD]

theorem bitAt_of_ge_storage (s : WordSink) (i : Nat) (h : s.storage.length ≤ i / 64) :
    s.bitAt i = false := by
  simp [bitAt, List.getElem?_eq_none h]

/-- Pointwise specification of `write_msbs_impl`. `val` carries its payload in its `n` most
significant bits and zeros below. -/
theorem writeMsbsImpl_spec (s : WordSink) (hs : s.Inv) (val : BitVec 64) (n : Nat) (hn64 : n ≤ 64)
    (hval : ∀ j, n ≤ j → val.getMsbD j = false) :
    (s.writeMsbsImpl val n).len = s.len + n ∧
    (s.writeMsbsImpl val n).storage.length = (s.len + n + 63) / 64 ∧
    ∀ i, (s.writeMsbsImpl val n).bitAt i = if i < s.len then s.bitAt i else val.getMsbD (i - s.len) := by
  have hsize := hs.size
  have htail := hs.tail
  refine ⟨rfl, ?_, ?_⟩
  · simp only [writeMsbsImpl, paddings]
    by_cases hr : (64 - s.len % 64) % 64 = 0
    · simp only [hr, ne_eq, not_true_eq_false, ↓reduceIte]
      by_cases hn : 0 < n
      · simp only [hn, ↓reduceIte, List.length_append, List.length_singleton]; omega
      · simp only [hn, ↓reduceIte]; omega
    · simp only [hr, ne_eq, not_false_eq_true, ↓reduceIte]
      by_cases hn : (64 - s.len % 64) % 64 < n
      · simp only [hn, ↓reduceIte, List.length_append, List.length_singleton, List.length_modify]; omega
      · simp only [hn, ↓reduceIte, List.length_modify]; omega
  · intro i
    simp only [writeMsbsImpl, paddings, bitAt]
    by_cases hr : (64 - s.len % 64) % 64 = 0
    · -- word aligned
      have hL : s.storage.length = s.len / 64 := by omega
      simp only [hr, ne_eq, not_true_eq_false, ↓reduceIte, Nat.zero_mod, BitVec.shiftLeft_zero]
      by_cases hi : i < s.len
      · have hlt : i / 64 < s.storage.length := by omega
        simp only [hi, ↓reduceIte]
        by_cases hn : 0 < n
        · simp only [hn, ↓reduceIte]; rw [List.getElem?_append_left hlt]
        · simp only [hn, ↓reduceIte]
      · simp only [hi, ↓reduceIte]
        by_cases hn : 0 < n
        · simp only [hn, ↓reduceIte]
          by_cases hq : i / 64 = s.storage.length
          · rw [hq, List.getElem?_append_right (Nat.le_refl _)]
            simp only [Nat.sub_self, List.getElem?_cons_zero, Option.getD_some]
            congr 1; omega
          · rw [List.getElem?_eq_none (by simp only [List.length_append, List.length_singleton]; omega)]
            simp only [Option.getD_none, getMsbD_zero']
            rw [BitVec.getMsbD_of_ge]; omega
        · simp only [hn, ↓reduceIte]
          have := htail i (by omega)
          simp only [bitAt] at this
          rw [this, hval _ (by omega)]
    · -- partial last word
      have hL : s.storage.length = s.len / 64 + 1 := by omega
      have hrv : (64 - s.len % 64) % 64 = 64 - s.len % 64 := by omega
      have hsh : (64 - (64 - s.len % 64)) % 64 = s.len % 64 := by omega
      simp only [hr, ne_eq, not_false_eq_true, ↓reduceIte]
      rw [hrv, hsh, hrv]
      -- bit `i` of the modified storage, before the optional push
      have key : i / 64 < s.storage.length →
          (((s.storage.modify (s.storage.length - 1) (· ||| val >>> (s.len % 64)))[i / 64]?).getD 0).getMsbD (i % 64) =
            if i < s.len then (s.storage[i / 64]?.getD 0).getMsbD (i % 64) else val.getMsbD (i - s.len) := by
        intro hlt
        rw [List.getElem?_modify]
        have hget : s.storage[i / 64]? = some (s.storage[i / 64]'hlt) := List.getElem?_eq_getElem hlt
        rw [hget]
        simp only [Option.map_eq_map, Option.map_some, Option.getD_some]
        by_cases hq : s.storage.length - 1 = i / 64
        · simp only [hq, ↓reduceIte, BitVec.getMsbD_or, BitVec.getMsbD_ushiftRight]
          by_cases hi : i < s.len
          · have : i % 64 < s.len % 64 := by omega
            simp [hi, this]
          · simp only [hi, ↓reduceIte]
            have ht := htail i (by omega)
            simp only [bitAt, hget, Option.getD_some] at ht
            rw [ht]
            have h1 : i % 64 < 64 := Nat.mod_lt _ (by omega)
            have h2 : ¬ i % 64 < s.len % 64 := by omega
            simp only [h1, h2, decide_true, decide_false, Bool.not_false, Bool.true_and, Bool.false_or]
            congr 1; omega
        · have hi : i < s.len := by omega
          simp [hq, hi]
      by_cases hlt : i / 64 < s.storage.length
      · have := key hlt
        by_cases hn : 64 - s.len % 64 < n
        · simp only [hn, ↓reduceIte]
          rw [List.getElem?_append_left (by simpa using hlt)]
          exact this
        · simp only [hn, ↓reduceIte]; exact this
      · have hi : ¬ i < s.len := by omega
        simp only [hi, ↓reduceIte]
        by_cases hn : 64 - s.len % 64 < n
        · simp only [hn, ↓reduceIte]
          by_cases hq : i / 64 = s.storage.length
          · rw [List.getElem?_append_right (by simp only [List.length_modify]; omega)]
            simp only [List.length_modify, hq, Nat.sub_self, List.getElem?_cons_zero, Option.getD_some,
              BitVec.getMsbD_shiftLeft]
            congr 1; omega
          · rw [List.getElem?_eq_none (by simp only [List.length_append, List.length_modify, List.length_singleton]; omega)]
            simp only [Option.getD_none, getMsbD_zero']
            rw [BitVec.getMsbD_of_ge]; omega
        · simp only [hn, ↓reduceIte]
          rw [List.getElem?_eq_none (by simp only [List.length_modify]; omega)]
          simp only [Option.getD_none, getMsbD_zero']
          by_cases h64 : i - s.len < 64
          · rw [hval _ (by omega)]
          · rw [BitVec.getMsbD_of_ge]; omega


end WordSink

/-! ### word-level helper lemmas shared by both sinks -/

theorem getElem_natToBits (w n j : Nat) (h : j < (natToBits w n).length) :
    (natToBits w n)[j] = n.testBit (w - 1 - j) := by
  induction w generalizing j with
  | zero => simp [natToBits] at h
  | succ w ih =>
    cases j with
    | zero => simp [natToBits]
    | succ j =>
      simp only [natToBits, List.getElem_cons_succ]
      rw [ih]; congr 1; omega

theorem lowMask_eq (w k : Nat) (hk : k < w) : (1#w <<< k) - 1#w = BitVec.ofNat w (2 ^ k - 1) := by
  apply BitVec.eq_of_toNat_eq
  have h1 : 1 < 2 ^ w := Nat.one_lt_two_pow (by omega)
  have hkw : 2 ^ k < 2 ^ w := Nat.pow_lt_pow_right (by omega) hk
  have hpos : 0 < 2 ^ k := Nat.two_pow_pos k
  simp only [BitVec.toNat_sub, BitVec.toNat_shiftLeft, BitVec.toNat_ofNat, Nat.shiftLeft_eq]
  rw [Nat.mod_eq_of_lt h1, Nat.one_mul, Nat.mod_eq_of_lt hkw]
  have : 2 ^ w - 1 + 2 ^ k = (2 ^ k - 1) + 2 ^ w := by omega
  rw [this, Nat.add_mod_right]

theorem getMsbD_lowMask (w k j : Nat) (hk : k < w) :
    ((1#w <<< k) - 1#w).getMsbD j = (decide (j < w) && decide (w - k ≤ j)) := by
  rw [lowMask_eq w k hk]
  simp only [BitVec.getMsbD, BitVec.getLsbD_ofNat, Nat.testBit_two_pow_sub_one]
  by_cases hj : j < w
  · simp only [hj, decide_true, Bool.true_and]
    by_cases h2 : w - k ≤ j
    · simp [h2]; omega
    · simp [h2]; omega
  · simp [hj]

/-- `maskMsbs` succeeds for `1 ≤ n ≤ w` and keeps exactly the `n` most significant bits. -/
theorem maskMsbs_spec {w : Nat} (val : BitVec w) (n : Nat) (h1 : 1 ≤ n) (hn : n ≤ w) :
    ∃ v, maskMsbs val n = some v ∧ ∀ j, v.getMsbD j = (decide (j < n) && val.getMsbD j) := by
  have hk : w - n < w := by omega
  refine ⟨val &&& ~~~((1#w <<< (w - n)) - 1#w), ?_, ?_⟩
  · simp [maskMsbs, chkSub, chkShl, hn, hk, bind, Option.bind]
  · intro j
    simp only [BitVec.getMsbD_and, BitVec.getMsbD_not, getMsbD_lowMask w (w - n) j hk]
    by_cases hj : j < w
    · by_cases h2 : j < n
      · have : ¬ (w - (w - n) ≤ j) := by omega
        simp [hj, h2, this]
      · have : w - (w - n) ≤ j := by omega
        simp [hj, h2, this]
    · rw [BitVec.getMsbD_of_ge _ _ (by omega)]; simp

theorem getMsbD_widen {w : Nat} (hw : w ≤ 64) (v : BitVec w) (j : Nat) :
    (WordSink.widen v).getMsbD j = v.getMsbD j := by
  simp only [WordSink.widen, BitVec.getMsbD_shiftLeft, BitVec.getMsbD_setWidth]
  by_cases hj : j < w
  · have : 64 - w ≤ j + (64 - w) := by omega
    simp only [this, decide_true, Bool.true_and]
    congr 1; omega
  · rw [BitVec.getMsbD_of_ge v j (by omega), BitVec.getMsbD_of_ge v _ (by omega)]; simp

end FlacVerif
