/-
Strict round trip (C01/C02), part 25: the stream theorem, assembled.
-/
import FlacVerif.Lemmas.StrictStreamInfo
import FlacVerif.Theorems.C04
namespace FlacVerif
namespace Strict
open Rfc

/-! ### STREAMINFO as the encoder assembles it -/

theorem fold_keep (frames : List (Nat × Nat)) (s0 : StreamInfo) :
    (frames.foldl (fun s f => s.addFrameCast f.1 f.2) s0).rate = s0.rate ∧
    (frames.foldl (fun s f => s.addFrameCast f.1 f.2) s0).channels = s0.channels ∧
    (frames.foldl (fun s f => s.addFrameCast f.1 f.2) s0).bps = s0.bps := by
  induction frames generalizing s0 with
  | nil => exact ⟨rfl, rfl, rfl⟩
  | cons f fs ih =>
    obtain ⟨h1, h2, h3⟩ := ih (s0.addFrameCast f.1 f.2)
    exact ⟨h1, h2, h3⟩

theorem assembleInfo_fields (rate channels bps bs : Nat) (frames : List (Nat × Nat)) (total : Nat) (md5 : List Nat) :
    let si := assembleInfo rate channels bps bs frames total md5
    si.minBlock = bs ∧ si.maxBlock = bs ∧ si.rate = rate ∧ si.channels = channels ∧ si.bps = bps ∧
    si.total = total ∧ si.md5 = md5 := by
  intro si
  obtain ⟨h1, h2, h3⟩ := fold_keep frames { StreamInfo.empty rate channels bps with minBlock := bs, maxBlock := bs }
  exact ⟨rfl, rfl, h1, h2, h3, rfl, rfl⟩

/-- The frame-size fields as `StreamInfo::write` emits them. -/
def writtenFrameSizes (si : StreamInfo) : Nat × Nat :=
  if si.minFrame > si.maxFrame then (0, 0) else (si.minFrame, si.maxFrame)

theorem info_bits (si : StreamInfo) :
    si.bits = natToBits 16 si.minBlock ++ (natToBits 16 si.maxBlock ++ (natToBits 24 (writtenFrameSizes si).1 ++
      (natToBits 24 (writtenFrameSizes si).2 ++ (natToBits 20 si.rate ++ (natToBits 3 (si.channels - 1) ++
        (natToBits 5 (si.bps - 1) ++ (natToBits 36 si.total ++ bytesToBits si.md5))))))) := by
  unfold StreamInfo.bits writtenFrameSizes
  by_cases h : si.minFrame > si.maxFrame
  · simp only [h, if_true, List.append_assoc]
  · simp only [h, if_false, List.append_assoc]

/-! ### bytes of the frames -/

theorem frames_bytes_length (fbs : List Bits) (h : ∀ fb ∈ fbs, fb.length % 8 = 0 ∧ fb.length < 2 ^ 24 ∧ 16 ≤ fb.length) :
    fbs.length ≤ (packBytes fbs.flatten).length := by
  induction fbs with
  | nil => simp
  | cons fb fbs ih =>
    obtain ⟨h8, _, h16⟩ := h fb (by simp)
    have := ih (fun x hx => h x (by simp [hx]))
    rw [List.flatten_cons, packBytes_append (fb.length / 8) fb _ (by omega), List.length_append,
      (bits_as_bytes fb h8).2, List.length_cons]
    omega

theorem marker_bits : bytesToBits [0x66, 0x4C, 0x61, 0x43] ++ Stream.blockHeader true 0 34 =
    bytesToBits [0x66, 0x4C, 0x61, 0x43, 0x80, 0, 0, 34] := by decide


/-- The decoder-side `Info` for a written STREAMINFO. -/
def readInfo (si : StreamInfo) : Info :=
  ⟨si.minBlock, si.maxBlock, (writtenFrameSizes si).1, (writtenFrameSizes si).2, si.rate, si.channels - 1 + 1,
    si.bps - 1 + 1, si.total, si.md5⟩

/-- **Stream level, decoder side.** `analyze` on marker + STREAMINFO (flagged last) + frames. -/
theorem analyzeRec_stream (md5 : List Nat → List Nat) (si : StreamInfo) (fbs : List Bits) (reps : List FrameRep)
    (chans : List (List Int)) (bps : Nat)
    (hl : si.md5.length = 16) (hb : ∀ b ∈ si.md5, b < 256)
    (b1 : si.minBlock < 2 ^ 16) (b2 : si.maxBlock < 2 ^ 16) (b3 : (writtenFrameSizes si).1 < 2 ^ 24)
    (b4 : (writtenFrameSizes si).2 < 2 ^ 24) (b5 : si.rate < 2 ^ 20) (b6 : si.channels - 1 < 2 ^ 3)
    (b7 : si.bps - 1 < 2 ^ 5) (b8 : si.total < 2 ^ 36)
    (c1 : 16 ≤ si.minBlock) (c2 : si.minBlock ≤ si.maxBlock) (c3 : si.rate ≠ 0) (c4 : 4 ≤ si.bps - 1 + 1)
    (hfbs : ∀ fb ∈ fbs, fb.length % 8 = 0 ∧ fb.length < 2 ^ 24 ∧ 16 ≤ fb.length)
    (hfr : ∀ fuel acc, fbs.length ≤ fuel →
      readFrames (readInfo si) fuel (packBytes fbs.flatten) (bytesToBits (packBytes fbs.flatten)) 0 acc =
        .ok (reps.reverse ++ acc))
    (hcons : ∀ j (hj : j < reps.length),
        (j + 1 < reps.length → reps[j].blockSize = si.maxBlock ∧ si.minBlock ≤ reps[j].blockSize) ∧
        (¬ j + 1 < reps.length → reps[j].blockSize ≤ si.maxBlock) ∧
        ((writtenFrameSizes si).2 ≠ 0 → (writtenFrameSizes si).1 ≤ reps[j].byteLen ∧
          reps[j].byteLen ≤ (writtenFrameSizes si).2))
    (hsum : (reps.map (·.blockSize)).sum = si.total)
    (haudio : (List.range (si.channels - 1 + 1)).map (fun c => reps.flatMap fun f => f.channels.getD c []) = chans)
    (hbps : si.bps - 1 + 1 = bps) (hmd5 : si.md5 = md5 (md5Input bps (interleave chans))) :
    analyzeRec md5 (packBytes (bytesToBits [0x66, 0x4C, 0x61, 0x43] ++ Stream.blockHeader true 0 34 ++ si.bits ++
        [] ++ fbs.flatten)) = .ok ⟨readInfo si, 0, reps, chans⟩ := by
  have hsl : si.bits.length = 272 := Count.streaminfo_length si hl
  have hbytes : packBytes (bytesToBits [0x66, 0x4C, 0x61, 0x43] ++ Stream.blockHeader true 0 34 ++ si.bits ++
        [] ++ fbs.flatten) =
      [0x66, 0x4C, 0x61, 0x43, 0x80, 0, 0, 34] ++ (packBytes si.bits ++ packBytes fbs.flatten) := by
    rw [marker_bits, List.append_nil, List.append_assoc,
      packBytes_append 8 _ _ (by decide), packBytes_bytesToBits _ (by decide),
      packBytes_append 34 _ _ (by rw [hsl])]
  have hpl : (packBytes si.bits).length = 34 := by
    have := (bits_as_bytes si.bits (by omega)).2
    omega
  have hwc : ¬ ((writtenFrameSizes si).2 ≠ 0 ∧ (writtenFrameSizes si).1 > (writtenFrameSizes si).2) := by
    unfold writtenFrameSizes
    split <;> simp <;> omega
  rw [hbytes, analyzeRec_eq]
  generalize hPI : packBytes si.bits = PI at hpl
  generalize hPF : packBytes fbs.flatten = PF
  have htake : ([0x66, 0x4C, 0x61, 0x43, 0x80, 0, 0, 34] ++ (PI ++ PF)).take 4 = [0x66, 0x4C, 0x61, 0x43] := rfl
  have hdrop : ([0x66, 0x4C, 0x61, 0x43, 0x80, 0, 0, 34] ++ (PI ++ PF)).drop 4 = [0x80, 0, 0, 34] ++ (PI ++ PF) := rfl
  rw [htake, hdrop]
  simp only [ne_eq, not_true_eq_false, if_false]
  have hlen : ([0x80, 0, 0, 34] ++ (PI ++ PF)).length = 38 + PF.length := by
    simp only [List.length_append, List.length_cons, List.length_nil, hpl]; omega
  rw [hlen]
  have hg0 : ([0x80, 0, 0, 34] ++ (PI ++ PF)).getD 0 0 = 0x80 := rfl
  have hg1 : ([0x80, 0, 0, 34] ++ (PI ++ PF)).getD 1 0 = 0 := rfl
  have hg2 : ([0x80, 0, 0, 34] ++ (PI ++ PF)).getD 2 0 = 0 := rfl
  have hg3 : ([0x80, 0, 0, 34] ++ (PI ++ PF)).getD 3 0 = 34 := rfl
  rw [hg0, hg1, hg2, hg3]
  rw [if_neg (by omega : ¬ 38 + PF.length < 4), if_neg (by decide : ¬ (0x80 % 128 ≠ 0)),
    if_neg (by decide : ¬ (0 * 65536 + 0 * 256 + 34 ≠ 34)), if_neg (by omega : ¬ 38 + PF.length < 38)]
  have hd4 : ([0x80, 0, 0, 34] ++ (PI ++ PF)).drop 4 = PI ++ PF := rfl
  have hsb : bytesToBits ((PI ++ PF).take 34) = si.bits := by
    rw [take_append_len PI PF 34 hpl, ← hPI]
    exact (bits_as_bytes si.bits (by omega)).1
  rw [hd4, hsb, info_bits si]
  have hd38 : ([0x80, 0, 0, 34] ++ (PI ++ PF)).drop 38 = PF := by
    rw [show (38 : Nat) = 4 + 34 from rfl, ← List.drop_drop, hd4, drop_append_len PI PF 34 hpl]
  have hfuel : fbs.length ≤ ([0x66, 0x4C, 0x61, 0x43, 0x80, 0, 0, 34] ++ (PI ++ PF)).length := by
    have := frames_bytes_length fbs hfbs
    rw [hPF] at this
    simp only [List.length_append]
    omega
  have hframes : readFrames (readInfo si) ([0x66, 0x4C, 0x61, 0x43, 0x80, 0, 0, 34] ++ (PI ++ PF)).length
      (([0x80, 0, 0, 34] ++ (PI ++ PF)).drop 38) (bytesToBits (([0x80, 0, 0, 34] ++ (PI ++ PF)).drop 38)) 0 [] =
      .ok reps.reverse := by
    rw [hd38]
    have := hfr ([0x66, 0x4C, 0x61, 0x43, 0x80, 0, 0, 34] ++ (PI ++ PF)).length [] hfuel
    rw [hPF, List.append_nil] at this
    exact this
  rw [analyzeInfo_ok md5 _ _ 0x80 si.minBlock si.maxBlock (writtenFrameSizes si).1 (writtenFrameSizes si).2 si.rate
    (si.channels - 1) (si.bps - 1) si.total si.md5 reps.reverse b1 b2 b3 b4 b5 b6 b7 b8 c1 c2 c3 c4 hwc (by decide)
    hl hb hframes]
  exact analyzeTail_ok md5 (readInfo si) si.minBlock si.maxBlock _ _ si.total si.md5 0 reps chans bps hcons hsum
    haudio hbps hmd5


/-! ### the frame-size fields -/

theorem lens_zip (sizes counts : List Nat) (h : counts.length ≤ sizes.length) :
    C04.lens (sizes.zip counts) = counts.map (· / 8) := by
  unfold C04.lens
  have : (sizes.zip counts).map (fun f => f.2 / 8) = ((sizes.zip counts).map Prod.snd).map (· / 8) := by
    rw [List.map_map]; rfl
  rw [this, List.map_snd_zip h]

/-- The frame-size fields the encoder writes bound every frame, fit 24 bits, and are consistent. -/
theorem written_sizes (rate channels bps bs total : Nat) (md5 : List Nat) (sizes counts : List Nat)
    (hlen : counts.length = sizes.length) (hc : ∀ c ∈ counts, c < 2 ^ 24) :
    let si := assembleInfo rate channels bps bs (sizes.zip counts) total md5
    (writtenFrameSizes si).1 < 2 ^ 24 ∧ (writtenFrameSizes si).2 < 2 ^ 24 ∧
    ∀ c ∈ counts, (writtenFrameSizes si).1 ≤ c / 8 ∧ c / 8 ≤ (writtenFrameSizes si).2 := by
  intro si
  cases hcs : counts with
  | nil =>
    subst hcs
    have hz : sizes.zip ([] : List Nat) = [] := by simp
    have he := C04.C04_empty rate channels bps bs total md5
    simp only [] at he
    have hsi : si = assembleInfo rate channels bps bs [] total md5 := by simp only [si, hz]
    have hw : writtenFrameSizes si = (0, 0) := by
      unfold writtenFrameSizes; rw [hsi, if_pos he.1]
    rw [hw]
    exact ⟨by decide, by decide, fun c hc' => by simp at hc'⟩
  | cons c0 cs =>
    rw [← hcs]
    have hne : sizes.zip counts ≠ [] := by
      rw [hcs]
      cases sizes with
      | nil => rw [hcs] at hlen; simp at hlen
      | cons _ _ => simp
    have hb : ∀ f ∈ sizes.zip counts, f.2 / 8 < 2 ^ 32 := by
      intro f hf
      have := hc f.2 (List.of_mem_zip hf).2
      omega
    obtain ⟨_, _, hall, hmin, hmax⟩ := C04.C04_bounds rate channels bps bs total md5 (sizes.zip counts) hne hb
    rw [lens_zip sizes counts (by omega)] at hall hmin hmax
    have hc0 : c0 / 8 ∈ counts.map (· / 8) := by rw [hcs]; simp
    have h0 := hall _ hc0
    have hle : ¬ si.minFrame > si.maxFrame := by
      have : si.minFrame ≤ si.maxFrame := Nat.le_trans h0.1 h0.2
      omega
    have hw : writtenFrameSizes si = (si.minFrame, si.maxFrame) := by
      unfold writtenFrameSizes; rw [if_neg hle]
    rw [hw]
    obtain ⟨cm, hcm, hcme⟩ := List.mem_map.1 hmax
    have hmx : si.maxFrame < 2 ^ 24 := by
      have := hc cm hcm
      have hcme' : cm / 8 = si.maxFrame := hcme
      omega
    refine ⟨by simp only []; omega, hmx, ?_⟩
    intro c hc'
    exact hall _ (List.mem_map.2 ⟨c, hc', rfl⟩)


/-! ### the stream theorem -/

theorem getElem_map_eq {α β : Type} (f : α → β) (l : List α) (m : List β) (h : l.map f = m) (j : Nat)
    (h1 : j < l.length) (h2 : j < m.length) : f l[j] = m[j] := by
  subst h
  rw [List.getElem_map]

theorem stream_strict (md5 : List Nat → List Nat) (cfg : SubCfg) (st : StereoCfg) (bs : Nat)
    (chans : List (List Int)) (bps rate : Nat) (log log' : List OEvent) (s : Stream) (total : Nat)
    (hmd5 : ∀ x, (md5 x).length = 16 ∧ ∀ b ∈ md5 x, b < 256)
    (hch : 1 ≤ chans.length ∧ chans.length ≤ 8) (hlen : ∀ c ∈ chans, c.length = total) (htot : total < 2 ^ 36)
    (hbs : 16 ≤ bs ∧ bs < 2 ^ 16) (hb : 4 ≤ bps ∧ bps ≤ 24) (hrate : 1 ≤ rate ∧ rate < 2 ^ 20)
    (hx : ∀ c ∈ chans, ∀ x ∈ c, SubFrame.inRange bps x = true) (hmax : cfg.maxP ≤ 14)
    (hnb : (total + bs - 1) / bs ≤ 2 ^ 31)
    (hlog : ∀ e ∈ log, e.Ok)
    (h : encodeStream md5 cfg st bs chans bps rate log = some (s, log')) :
    ∃ sb rep, s.bits rfcCrc8 rfcCrc16 = some sb ∧ analyzeRec md5 (packBytes sb) = .ok rep ∧
      rep.audio = chans ∧ rep.info.rate = rate ∧ rep.info.channels = chans.length ∧ rep.info.bps = bps ∧
      rep.info.total = total ∧ rep.info.md5 = md5 (md5Input bps (interleave chans)) ∧
      rep.info.minBlock = bs ∧ rep.info.maxBlock = bs ∧ rep.metadataBlocks = 0 ∧
      rep.frames.length = (total + bs - 1) / bs := by
  have hhead : (chans.headD []).length = total := by
    cases chans with
    | nil => simp at hch
    | cons c cs => exact hlen c (by simp)
  have hbs1 : 1 ≤ bs := by omega
  have hnbl := blocksOf_length bs chans total hch.1 hlen
  unfold encodeStream at h
  simp only [Option.bind_eq_bind, Option.bind_eq_some_iff, Option.some.injEq, Prod.mk.injEq] at h
  obtain ⟨⟨frames, l1⟩, hfr, counts, hcounts, hs, _⟩ := h
  rw [hhead] at hs
  subst hs
  generalize hsizes : (blocksOf bs chans).map (fun b => (b.headD []).length) = sizes
  generalize hsi : assembleInfo rate chans.length bps bs (sizes.zip counts) total
    (md5 (md5Input bps (interleave chans))) = si
  obtain ⟨f1, f2, f3, f4, f5, f6, f7⟩ := assembleInfo_fields rate chans.length bps bs (sizes.zip counts) total
    (md5 (md5Input bps (interleave chans)))
  rw [hsi] at f1 f2 f3 f4 f5 f6 f7
  have hri : (readInfo si).rate = rate ∧ (readInfo si).channels = chans.length ∧ (readInfo si).bps = bps := by
    refine ⟨f3, ?_, ?_⟩
    · show si.channels - 1 + 1 = chans.length
      omega
    · show si.bps - 1 + 1 = bps
      omega
  obtain ⟨fbs, reps, hm1, hm2, hfl, hfbs, hrd, hc1, hc2, hc3⟩ := readFrames_encodeFrames cfg st bps rate
    chans.length bs (readInfo si) hri hch hbs.2 ⟨by omega, hb.2⟩ hmax (blocksOf bs chans) 0 log l1 frames
    (blocksOf_ok bs chans total chans.length bps hbs1 hch.1 rfl hlen hx) (by rw [hnbl]; omega) hlog hfr
  have hcnt : counts = fbs.map List.length := by
    rw [hm2] at hcounts
    exact (Option.some.inj hcounts).symm
  have hrl : reps.length = (total + bs - 1) / bs := by
    have := congrArg List.length hc1
    rw [List.length_map, hnbl] at this
    exact this
  have hfbl : fbs.length = reps.length := by
    have := congrArg List.length hc3
    simpa using this.symm
  have hszl : sizes.length = (total + bs - 1) / bs := by rw [← hsizes, List.length_map, hnbl]
  obtain ⟨w1, w2, wall⟩ := written_sizes rate chans.length bps bs total (md5 (md5Input bps (interleave chans))) sizes counts
    (by rw [hcnt, List.length_map, hfbl, hrl, hszl])
    (by
      intro c hc
      rw [hcnt] at hc
      obtain ⟨fb, hfb, rfl⟩ := List.mem_map.1 hc
      exact (hfbs fb hfb).2.1)
  rw [hsi] at w1 w2 wall
  have hsz := blocksOf_sizes bs chans total hch.1 hlen
  rw [hsizes] at hsz
  have hc2' : reps.map (·.blockSize) = (List.range ((total + bs - 1) / bs)).map fun j => min bs (total - j * bs) := by
    rw [hc2, hsizes, hsz]
  -- serialisation
  have hsb : Stream.bits rfcCrc8 rfcCrc16 { info := si, metadata := [], frames := frames } =
      some (bytesToBits [0x66, 0x4C, 0x61, 0x43] ++ Stream.blockHeader true 0 34 ++ si.bits ++ [] ++ fbs.flatten) := by
    unfold Stream.bits
    simp only [hm1, Option.bind_eq_bind, Option.bind_some, List.length_nil, List.range_zero, List.flatMap_nil,
      decide_true]
  refine ⟨_, ⟨readInfo si, 0, reps, chans⟩, hsb, ?_, rfl, hri.1, hri.2.1, hri.2.2, f6, f7, f1, f2, rfl, hrl⟩
  apply analyzeRec_stream md5 si fbs reps chans bps
  · rw [f7]; exact (hmd5 _).1
  · rw [f7]; exact (hmd5 _).2
  · rw [f1]; exact hbs.2
  · rw [f2]; exact hbs.2
  · exact w1
  · exact w2
  · rw [f3]; exact hrate.2
  · rw [f4]; omega
  · rw [f5]; omega
  · rw [f6]; exact htot
  · rw [f1]; exact hbs.1
  · rw [f1, f2]; exact Nat.le_refl _
  · rw [f3]; omega
  · rw [f5]; omega
  · exact hfbs
  · intro fuel acc hfuel
    exact hrd fuel acc (by rw [hnbl, ← hrl, ← hfbl]; exact hfuel)
  · intro j hj
    have hbsz : reps[j].blockSize = min bs (total - j * bs) := by
      have := getElem_map_eq (·.blockSize) reps _ hc2' j hj (by simp; omega)
      rw [this, List.getElem_map, List.getElem_range]
    have hjt := lt_ceil total bs j hbs1 (by omega)
    rw [f1, f2]
    refine ⟨?_, ?_, ?_⟩
    · intro hj1
      have := nonfinal_full total bs j hbs1 (by omega)
      rw [Nat.succ_mul] at this
      rw [hbsz]
      omega
    · intro _
      rw [hbsz]; omega
    · intro _
      have hbl : reps[j].byteLen = fbs[j].length / 8 := by
        have := getElem_map_eq (·.byteLen) reps _ hc3 j hj (by simp; omega)
        rw [this, List.getElem_map]
      rw [hbl]
      apply wall
      rw [hcnt]
      exact List.mem_map.2 ⟨fbs[j], List.getElem_mem _, rfl⟩
  · rw [hc2', f6]
    exact sizes_sum bs total hbs1
  · rw [show si.channels - 1 + 1 = chans.length by omega]
    have : ∀ c, (reps.flatMap fun f => f.channels.getD c []) = (blocksOf bs chans).flatMap fun b => b.getD c [] := by
      intro c
      rw [← hc1, List.flatMap_map]
    simp only [this]
    exact blocksOf_audio bs chans total hbs1 hch.1 hlen
  · omega
  · exact f7

end Strict
end FlacVerif
