/-
Strict round trip (C01/C02), part 12: `packBytes` and `bytesToBits`.
-/
import FlacVerif.Lemmas.StrictUtf8
namespace FlacVerif
namespace Strict
open Repo (bytesToBits_packBytes packBytes_length bytesToBits_append bytesToBits_cons)

theorem packBytes_nil : packBytes [] = [] := by rw [packBytes]

theorem packBytes_append (n : Nat) : ∀ (a b : Bits), a.length = 8 * n → packBytes (a ++ b) = packBytes a ++ packBytes b := by
  induction n with
  | zero =>
    intro a b h
    have : a = [] := List.eq_nil_of_length_eq_zero (by omega)
    subst this
    rw [packBytes_nil]; rfl
  | succ n ih =>
    intro a b h
    match a, h with
    | a0 :: arest, h =>
      have hl : 8 ≤ (a0 :: arest).length := by omega
      rw [List.cons_append, packBytes, packBytes]
      have ht : List.take 8 (a0 :: (arest ++ b)) = List.take 8 (a0 :: arest) := by
        rw [← List.cons_append, List.take_append_of_le_length hl]
      have hd : List.drop 8 (a0 :: (arest ++ b)) = List.drop 8 (a0 :: arest) ++ b := by
        rw [← List.cons_append, List.drop_append_of_le_length hl]
      rw [ht, hd, ih (List.drop 8 (a0 :: arest)) b (by rw [List.length_drop]; omega)]
      rfl

theorem packBytes_byte (b : Nat) (hb : b < 256) : packBytes (natToBits 8 b) = [b] := by
  have h8 : (natToBits 8 b).length = 8 := natToBits_length 8 b
  match hn : natToBits 8 b, h8 with
  | x :: xs, h8 =>
    rw [packBytes]
    have ht : List.take 8 (x :: xs) = x :: xs := List.take_of_length_le (by omega)
    have hd : List.drop 8 (x :: xs) = [] := List.drop_of_length_le (by omega)
    rw [ht, hd, h8, packBytes_nil, ← hn]
    simp only [Nat.sub_self, List.replicate_zero, List.append_nil]
    rw [bitsToNat_natToBits, Nat.mod_eq_of_lt hb]

theorem packBytes_bytesToBits (bs : List Nat) (h : ∀ b ∈ bs, b < 256) : packBytes (bytesToBits bs) = bs := by
  induction bs with
  | nil => exact packBytes_nil
  | cons b bs ih =>
    rw [bytesToBits_cons, packBytes_append 1 _ _ (by simp), packBytes_byte b (h b (by simp)),
      ih (fun x hx => h x (by simp [hx]))]
    rfl

/-- Bits of a whole number of bytes, seen as bytes. -/
theorem bits_as_bytes (fb : Bits) (h : fb.length % 8 = 0) :
    bytesToBits (packBytes fb) = fb ∧ (packBytes fb).length = fb.length / 8 := by
  have hl : fb.length = 8 * (fb.length / 8) := by omega
  exact ⟨bytesToBits_packBytes _ fb hl, packBytes_length _ fb hl⟩

theorem take_packBytes (a b : Bits) (more : List Nat) (h : a.length % 8 = 0) :
    (packBytes (a ++ b) ++ more).take (a.length / 8) = packBytes a := by
  have hl : a.length = 8 * (a.length / 8) := by omega
  rw [packBytes_append _ a b hl, List.append_assoc, List.take_append_of_le_length (by rw [packBytes_length _ a hl]; omega),
    List.take_of_length_le (by rw [packBytes_length _ a hl]; omega)]

theorem drop_packBytes (a b : Bits) (more : List Nat) (h : a.length % 8 = 0) :
    (packBytes (a ++ b) ++ more).drop (a.length / 8) = packBytes b ++ more := by
  have hl : a.length = 8 * (a.length / 8) := by omega
  rw [packBytes_append _ a b hl, List.append_assoc, List.drop_append_of_le_length (by rw [packBytes_length _ a hl]; omega),
    List.drop_of_length_le (by rw [packBytes_length _ a hl]; omega)]
  rfl

end Strict
end FlacVerif
