/-
Helper lemmas for C10, site 3: `MSFRAMEBUF` (`Scratch.msFrameBuf`). Core Lean only.
-/
import FlacVerif.Model.Scratch
import FlacVerif.Lemmas.ScratchFinder
namespace FlacVerif.Scratch
open FlacVerif

namespace FrameBuf

/-- Invariant of the thread-local stereo buffer: two channels of `size > 0` cells. -/
def Inv (fb : FrameBuf) : Prop := 0 < fb.size ∧ fb.samples.length = 2 * fb.size

theorem inv_new : newStereoBuffer.Inv := by
  refine ⟨by decide, ?_⟩
  simp only [newStereoBuffer, List.length_replicate]

theorem channels_of_inv (fb : FrameBuf) (h : fb.Inv) : fb.channels = some 2 := by
  unfold channels
  rw [if_neg (by have := h.1; omega), h.2, Nat.mul_div_cancel _ h.1]

/-- `resize` keeps stale samples and the stale `filled_size`, but re-establishes the invariant. -/
theorem resize_spec (fb : FrameBuf) (h : fb.Inv) (n : Nat) (hn : 0 < n) :
    ∃ fb', fb.resize n = some fb' ∧ fb'.Inv ∧ fb'.size = n := by
  refine ⟨{ fb with size := n, samples := vecResize fb.samples (n * 2) 0 }, ?_, ?_, rfl⟩
  · simp [resize, channels_of_inv fb h]
  · exact ⟨hn, by simp only [vecResize_length]; omega⟩

theorem zipOverwrite_short {α : Type} (src dest : List α) (h : src.length ≤ dest.length) :
    zipOverwrite src dest = src ++ dest.drop src.length := by
  unfold zipOverwrite
  rw [List.take_of_length_le h]

/-- `fill_stereo_with_iter` resets `filled_size`, and the first `filled_size` cells of both channel
areas are overwritten. -/
theorem fill_spec (fb : FrameBuf) (h : fb.Inv) (it : List (Int × Int)) :
    ∃ fb', fb.fillStereoWithIter it = some fb' ∧ fb'.Inv ∧ fb'.size = fb.size ∧
      fb'.filled = (it.take fb.size).length ∧
      fb'.channelSlice 0 = some ((it.take fb.size).map (·.1)) ∧
      fb'.channelSlice 1 = some ((it.take fb.size).map (·.2)) := by
  obtain ⟨hpos, hlen⟩ := h
  generalize hJ : it.take fb.size = J
  have hJl : J.length ≤ fb.size := by rw [← hJ]; simp [List.length_take]; omega
  have hm : (fb.samples.take fb.size).length = fb.size := by simp [List.length_take]; omega
  have hs : (fb.samples.drop fb.size).length = fb.size := by simp [List.length_drop]; omega
  have hn : min J.length (min (fb.samples.take fb.size).length (fb.samples.drop fb.size).length) = J.length := by
    rw [hm, hs]; omega
  have hM : zipOverwrite ((J.take J.length).map (·.1)) (fb.samples.take fb.size)
      = J.map (·.1) ++ (fb.samples.take fb.size).drop J.length := by
    rw [List.take_length, zipOverwrite_short _ _ (by simp [hm]; omega)]; simp
  have hS : zipOverwrite ((J.take J.length).map (·.2)) (fb.samples.drop fb.size)
      = J.map (·.2) ++ (fb.samples.drop fb.size).drop J.length := by
    rw [List.take_length, zipOverwrite_short _ _ (by simp [hs]; omega)]; simp
  have hMl : (J.map (·.1) ++ (fb.samples.take fb.size).drop J.length).length = fb.size := by
    simp only [List.length_append, List.length_map, List.length_drop, hm]; omega
  have hSl : (J.map (·.2) ++ (fb.samples.drop fb.size).drop J.length).length = fb.size := by
    simp only [List.length_append, List.length_map, List.length_drop, hs]; omega
  refine ⟨{ fb with
      samples := (J.map (·.1) ++ (fb.samples.take fb.size).drop J.length) ++
                 (J.map (·.2) ++ (fb.samples.drop fb.size).drop J.length),
      filled := J.length }, ?_, ?_, rfl, rfl, ?_, ?_⟩
  · unfold fillStereoWithIter
    rw [channels_of_inv fb ⟨hpos, hlen⟩]
    simp only [Option.bind_eq_bind, Option.bind_some, ne_eq, not_true_eq_false, ↓reduceIte, hJ, hn, hM, hS]
  · exact ⟨hpos, by simp only [List.length_append, hMl, hSl]; omega⟩
  · unfold channelSlice
    simp only [Nat.zero_mul, Nat.zero_add, List.drop_zero]
    rw [if_pos (by simp only [List.length_append, hMl, hSl]; omega)]
    rw [List.append_assoc, List.take_append_of_le_length (by simp)]
    rw [List.take_of_length_le (by simp)]
  · unfold channelSlice
    simp only [Nat.one_mul]
    rw [if_pos (by simp only [List.length_append, hMl, hSl]; omega)]
    rw [List.drop_append_of_le_length (by omega), List.drop_of_length_le (by omega), List.nil_append,
      List.take_append_of_le_length (by simp)]
    rw [List.take_of_length_le (by simp)]

end FrameBuf

/-- The scratch part of `try_stereo_coding` on ANY stale stereo buffer: the reads of
`encode_frame_impl` are a function of `(size, l, r)` only. -/
theorem msFrameBuf_spec (stale : FrameBuf) (h : stale.Inv) (size : Nat) (hs : 0 < size) (l r : List Int) :
    ∃ fb, msFrameBuf stale size l r = some (fb,
        ⟨(((l.zip r).map fun p => midSide p.1 p.2).take size).length,
         (((l.zip r).map fun p => midSide p.1 p.2).take size).map (·.1),
         (((l.zip r).map fun p => midSide p.1 p.2).take size).map (·.2)⟩) ∧ fb.Inv := by
  obtain ⟨fb1, h1, hi1, hz1⟩ := FrameBuf.resize_spec stale h size hs
  obtain ⟨fb2, h2, hi2, _, hf2, hm2, hs2⟩ := FrameBuf.fill_spec fb1 hi1 ((l.zip r).map fun p => midSide p.1 p.2)
  rw [hz1] at hf2 hm2 hs2
  refine ⟨fb2, ?_, hi2⟩
  unfold msFrameBuf
  simp only [h1, h2, hm2, hs2, hf2, Option.bind_eq_bind, Option.bind_some]

end FlacVerif.Scratch
