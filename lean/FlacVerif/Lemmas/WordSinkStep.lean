/-
`WordSink.step` refines the ideal bit string for every valid op; lifted to op sequences.
-/
import FlacVerif.Lemmas.WordSinkOps
namespace FlacVerif
namespace WordSink

theorem testBit_emod_two_pow (v : Int) (n k : Nat) (hk : k < n) (hn : n ≤ 64) :
    (v % (2 ^ 64 : Int)).toNat.testBit k = (v % (2 ^ n : Int)).toNat.testBit k := by
  have hdvd : ((2 : Int) ^ n) ∣ (2 : Int) ^ 64 := by
    have : (64 : Nat) = n + (64 - n) := by omega
    rw [this, Int.pow_add]; exact Int.dvd_mul_right _ _
  have h1 : (v % (2 ^ 64 : Int)) % (2 ^ n : Int) = v % (2 ^ n : Int) := Int.emod_emod_of_dvd v hdvd
  have hnn : 0 ≤ v % (2 ^ 64 : Int) := Int.emod_nonneg _ (by decide)
  have h2 : (v % (2 ^ n : Int)).toNat = (v % (2 ^ 64 : Int)).toNat % 2 ^ n := by
    have hp : (0 : Int) ≤ 2 ^ n := Int.le_of_lt (Int.pow_pos (by decide))
    rw [← h1, Int.toNat_emod hnn hp]
    have : ((2 : Int) ^ n) = ((2 ^ n : Nat) : Int) := by simp
    rw [this, Int.toNat_natCast]
  rw [h2, Nat.testBit_mod_two_pow]
  simp [hk]

theorem writeTwoc_refines (s : WordSink) (hs : s.Inv) (v : Int) (n : Nat) (h1 : 1 ≤ n) (hn : n ≤ 64) :
    ∃ s', s.step (.writeTwoc v n) = some s' ∧ Refines s s' (twoc n v) := by
  have hk : 64 - n < 64 := by omega
  by_cases h0 : n = 0
  · omega
  · obtain ⟨m, hm, hmb⟩ := maskMsbs_spec (BitVec.ofInt 64 v <<< (64 - n)) n h1 hn
    refine ⟨s.writeMsbsImpl (widen m) n,
      by simp [step, writeMsbs, h0, chkSub, chkShl, hn, hk, hm, bind, Option.bind], ?_⟩
    apply writeMsbsImpl_refines s hs _ n hn
    · intro j hj
      rw [getMsbD_widen (Nat.le_refl _), hmb]
      simp [show ¬ j < n by omega]
    · simp [twoc]
    · intro j hj
      rw [getMsbD_widen (Nat.le_refl _), hmb, BitVec.getMsbD_shiftLeft]
      simp only [twoc]
      rw [natToBits_getD n _ j hj]
      simp only [hj, decide_true, Bool.true_and, BitVec.getMsbD, BitVec.getLsbD, BitVec.toNat_ofInt]
      have : j + (64 - n) < 64 := by omega
      simp only [this, decide_true, Bool.true_and]
      have e : 64 - 1 - (j + (64 - n)) = n - 1 - j := by omega
      rw [e]
      have := testBit_emod_two_pow v n (n - 1 - j) (by omega) hn
      simpa using this.symm

theorem writeBytes_refines (s : WordSink) (hs : s.Inv) (bs : List Nat) :
    ∃ s', bs.foldlM (fun (s : WordSink) b => s.writeMsbs (BitVec.ofNat 8 b) 8) s = some s' ∧
      Refines s s' (bytesToBits bs) := by
  induction bs generalizing s with
  | nil => exact ⟨s, rfl, by simpa [bytesToBits] using Refines.refl s hs⟩
  | cons b bs ih =>
    obtain ⟨s1, h1, r1⟩ := writeMsbs_refines s hs 8 b 8 (by decide) (Nat.le_refl _)
    obtain ⟨s2, h2, r2⟩ := ih s1 r1.inv
    refine ⟨s2, by simp [List.foldlM_cons, h1, h2, bind, Option.bind], ?_⟩
    have := r1.trans r2
    simpa [bytesToBits, List.take_of_length_le] using this

/-- Every valid operation succeeds on `MemSink<u64>` (no panic) and appends exactly the ideal bits. -/
theorem step_refines (s : WordSink) (hs : s.Inv) (op : Op) (hv : op.Valid) :
    ∃ s', s.step op = some s' ∧ Refines s s' (op.ideal s.len) := by
  cases op with
  | alignToByte => exact ⟨_, rfl, alignToByte_refines s hs⟩
  | writeLsbs w v n =>
    obtain ⟨hw, _, hn⟩ := hv
    exact writeLsbs_refines s hs w v n hw hn
  | writeMsbs w v n =>
    obtain ⟨hw, _, hn⟩ := hv
    exact writeMsbs_refines s hs w v n hw hn
  | write w v =>
    obtain ⟨hw, _⟩ := hv
    obtain ⟨s', h1, r⟩ := writeMsbs_refines s hs w v w hw (Nat.le_refl _)
    exact ⟨s', h1, by simpa [Op.ideal, List.take_of_length_le] using r⟩
  | writeTwoc v n =>
    obtain ⟨h1, hn, _⟩ := hv
    exact writeTwoc_refines s hs v n h1 hn
  | writeZeros n => exact ⟨_, rfl, writeZeros_refines s hs n⟩
  | writeBytesAligned bs =>
    have ra := alignToByte_refines s hs
    obtain ⟨s2, h2, r2⟩ := writeBytes_refines s.alignToByte ra.inv bs
    exact ⟨s2, by simpa [step] using h2, ra.trans r2⟩

/-- Any sequence of valid operations, from any reachable state. -/
theorem run_refines (s : WordSink) (hs : s.Inv) (ops : List Op) (hv : ∀ op ∈ ops, op.Valid) :
    ∃ s', s.run ops = some s' ∧ Refines s s' (idealRun s.len ops) := by
  induction ops generalizing s with
  | nil => exact ⟨s, rfl, Refines.refl s hs⟩
  | cons op ops ih =>
    obtain ⟨s1, h1, r1⟩ := step_refines s hs op (hv op (by simp))
    obtain ⟨s2, h2, r2⟩ := ih s1 r1.inv (fun o ho => hv o (by simp [ho]))
    refine ⟨s2, by simp [run, List.foldlM_cons, h1, bind, Option.bind]; exact h2, ?_⟩
    have := r1.trans r2
    simpa [idealRun, r1.len] using this

end WordSink
end FlacVerif
