/-
Lemmas for C14 — sample delivery (`Model/Source.lean`): little-endian round trip (for every byte
width `k ≥ 1`), shape and content of `deinterleave`, equivalence of the integer and packed-byte fills.
-/
import FlacVerif.Model.Source
import FlacVerif.Model.Encoder
import FlacVerif.Theorems.C03
namespace FlacVerif

/-- `v` is representable as a `k`-byte two's-complement integer. -/
def fitsBytes (k : Nat) (v : Int) : Prop :=
  -(2 ^ (8 * k - 1) : Int) ≤ v ∧ v < (2 ^ (8 * k - 1) : Int)

instance (k : Nat) (v : Int) : Decidable (fitsBytes k v) := by unfold fitsBytes; infer_instance

namespace SourceLemmas

/-- Equality of fill results is decidable (used by the `decide` examples of C14). -/
scoped instance {ε α : Type} [DecidableEq ε] [DecidableEq α] : DecidableEq (Except ε α)
  | .ok a, .ok b => if h : a = b then isTrue (by rw [h]) else isFalse (fun h' => h (Except.ok.inj h'))
  | .error a, .error b => if h : a = b then isTrue (by rw [h]) else isFalse (fun h' => h (Except.error.inj h'))
  | .ok _, .error _ => isFalse (fun h => nomatch h)
  | .error _, .ok _ => isFalse (fun h => nomatch h)

/-- The little-endian value of the first `j` bytes. -/
def leSum (bytes : List Nat) (j : Nat) : Nat :=
  (List.range j).foldl (fun acc i => acc + bytes.getD i 0 * 2 ^ (8 * i)) 0

theorem leSum_succ (bytes : List Nat) (j : Nat) :
    leSum bytes (j + 1) = leSum bytes j + bytes.getD j 0 * 2 ^ (8 * j) := by
  simp only [leSum, List.range_succ, List.foldl_append, List.foldl_cons, List.foldl_nil]

theorem toLeBytes_getD (k : Nat) (v : Int) (i : Nat) (hi : i < k) :
    (Rfc.toLeBytes k v).getD i 0 = ((v % (2 ^ (8 * k) : Int)).toNat >>> (8 * i)) % 256 := by
  simp [Rfc.toLeBytes, List.getD_eq_getElem?_getD, hi]

theorem leSum_toLeBytes (k : Nat) (v : Int) (j : Nat) (hj : j ≤ k) :
    leSum (Rfc.toLeBytes k v) j = (v % (2 ^ (8 * k) : Int)).toNat % 2 ^ (8 * j) := by
  induction j with
  | zero => simp [leSum, Nat.mod_one]
  | succ j ih =>
    rw [leSum_succ, ih (by omega), toLeBytes_getD k v j (by omega), Nat.shiftRight_eq_div_pow]
    have : 2 ^ (8 * (j + 1)) = 2 ^ (8 * j) * 256 := by
      rw [Nat.mul_add, Nat.pow_add]
    rw [this, Nat.mod_mul, Nat.mul_comm (2 ^ (8 * j))]

theorem leToInt_eq (bytes : List Nat) :
    leToInt bytes = if bytes.length = 0 then 0 else
      if leSum bytes bytes.length ≥ 2 ^ (8 * bytes.length - 1)
      then (leSum bytes bytes.length : Int) - 2 ^ (8 * bytes.length) else leSum bytes bytes.length := rfl

theorem le_roundtrip (k : Nat) (hk : 1 ≤ k) (v : Int) (hv : fitsBytes k v) :
    leToInt (Rfc.toLeBytes k v) = v := by
  obtain ⟨h1, h2⟩ := hv
  rw [leToInt_eq, C03.toLeBytes_length, leSum_toLeBytes k v k (Nat.le_refl k)]
  have hk0 : k ≠ 0 := by omega
  simp only [hk0, ↓reduceIte]
  have hpow : (2 : Int) ^ (8 * k) = 2 * 2 ^ (8 * k - 1) := by
    have : 8 * k = (8 * k - 1) + 1 := by omega
    rw [this, Int.pow_succ, Int.mul_comm]; simp
  have hpowN : (2 : Nat) ^ (8 * k) = 2 * 2 ^ (8 * k - 1) := by
    have : 8 * k = (8 * k - 1) + 1 := by omega
    rw [this, Nat.pow_succ, Nat.mul_comm]; simp
  have hcast : ((2 ^ (8 * k - 1) : Nat) : Int) = (2 : Int) ^ (8 * k - 1) := by simp
  generalize hP : (2 : Int) ^ (8 * k - 1) = P at *
  generalize hQ : (2 : Nat) ^ (8 * k - 1) = Q at *
  rw [hpow, hpowN]
  have hm : v % (2 * P) = if 0 ≤ v then v else v + 2 * P := by
    split
    · exact Int.emod_eq_of_lt (by omega) (by omega)
    · have : v % (2 * P) = (v + 2 * P) % (2 * P) := by simp
      rw [this]; exact Int.emod_eq_of_lt (by omega) (by omega)
  rw [hm]
  split <;> rename_i hs
  · have : v.toNat % (2 * Q) = v.toNat := Nat.mod_eq_of_lt (by omega)
    rw [this]
    split <;> omega
  · have : (v + 2 * P).toNat % (2 * Q) = (v + 2 * P).toNat := Nat.mod_eq_of_lt (by omega)
    rw [this]
    split <;> omega

/-! ### lists of samples -/

theorem i32sToLeBytes_cons (k : Nat) (x : Int) (xs : List Int) :
    i32sToLeBytes k (x :: xs) = Rfc.toLeBytes k x ++ i32sToLeBytes k xs := by
  simp [i32sToLeBytes]

theorem i32sToLeBytes_length (k : Nat) (xs : List Int) : (i32sToLeBytes k xs).length = k * xs.length := by
  induction xs with
  | nil => simp [i32sToLeBytes]
  | cons x xs ih =>
    rw [i32sToLeBytes_cons, List.length_append, C03.toLeBytes_length, ih, List.length_cons, Nat.mul_add, Nat.mul_one,
      Nat.add_comm]

theorem leBytesToInts_roundtrip (k : Nat) (hk : 1 ≤ k) (xs : List Int) (hx : ∀ x ∈ xs, fitsBytes k x)
    (fuel : Nat) (hf : xs.length ≤ fuel) : leBytesToInts k fuel (i32sToLeBytes k xs) = xs := by
  induction xs generalizing fuel with
  | nil =>
    cases fuel with
    | zero => rfl
    | succ f =>
      simp [leBytesToInts, i32sToLeBytes]
  | cons x xs ih =>
    cases fuel with
    | zero => simp at hf
    | succ f =>
      have hl := C03.toLeBytes_length k x
      have h1 : ¬ ((i32sToLeBytes k (x :: xs)).length < k ∨ k = 0) := by
        rw [i32sToLeBytes_length, List.length_cons, Nat.mul_add]; omega
      rw [leBytesToInts, if_neg h1, i32sToLeBytes_cons, List.take_left' hl, List.drop_left' hl,
        le_roundtrip k hk x (hx x (by simp)), ih (fun y hy => hx y (by simp [hy])) f (by simpa using hf)]

theorem leBytesToI32s_roundtrip (k : Nat) (hk : 1 ≤ k) (xs : List Int) (hx : ∀ x ∈ xs, fitsBytes k x) :
    leBytesToI32s k (i32sToLeBytes k xs) = xs := by
  apply leBytesToInts_roundtrip k hk xs hx
  rw [i32sToLeBytes_length]
  exact Nat.le_mul_of_pos_left _ hk

/-! ### `deinterleave` -/

theorem deinterleave_length (src : List Int) (ch stride : Nat) (dest : List Int) :
    (deinterleave src ch stride dest).length = dest.length := by
  unfold deinterleave
  split
  · simp only [List.length_append, List.length_take, List.length_drop]; omega
  · simp

theorem range_map_getD (xs : List Int) : (List.range xs.length).map (fun t => xs.getD t 0) = xs := by
  apply List.ext_getElem
  · simp
  · intro i h1 h2
    simp [List.getD_eq_getElem?_getD, h2]

/-- Mono: the first `src.length` cells are the samples. -/
theorem deinterleave_mono_take (src dest : List Int) (stride : Nat) (h : src.length ≤ dest.length) :
    (deinterleave src 1 stride dest).take src.length = src := by
  simp only [deinterleave, ↓reduceIte, Nat.min_eq_right h, List.take_length]
  exact List.take_left' rfl

/-- General: cell `c * stride + t` (`c < ch`, `t < src.length / ch`) is sample `ch * t + c`. -/
theorem deinterleave_slice (src dest : List Int) (ch stride : Nat) (hch : 1 ≤ ch) (hne : ch ≠ 1)
    (hdest : dest.length = stride * ch) (hsrc : src.length ≤ dest.length) (c : Nat) (hc : c < ch) :
    ((deinterleave src ch stride dest).drop (c * stride)).take (src.length / ch)
      = (List.range (src.length / ch)).map (fun t => src.getD (ch * t + c) 0) := by
  have hq : src.length / ch ≤ stride := by
    apply Nat.div_le_of_le_mul; rw [Nat.mul_comm]; omega
  have hcs : c * stride + stride ≤ stride * ch := by
    have : (c + 1) * stride ≤ ch * stride := Nat.mul_le_mul_right _ hc
    rw [Nat.add_mul, Nat.one_mul, Nat.mul_comm ch] at this; exact this
  have hds : dest.length / ch = stride := by rw [hdest]; exact Nat.mul_div_cancel _ hch
  apply List.ext_getElem
  · simp only [List.length_take, List.length_drop, deinterleave_length, List.length_map, List.length_range]
    omega
  · intro t h1 h2
    simp only [List.length_map, List.length_range] at h2
    have hts : t < stride := by omega
    have hsp : 0 < stride := by omega
    have hdiv : (c * stride + t) / stride = c := by
      rw [Nat.add_comm, Nat.add_mul_div_right _ _ hsp, Nat.div_eq_of_lt hts, Nat.zero_add]
    have hmod : (c * stride + t) % stride = t := by
      rw [Nat.add_comm, Nat.add_mul_mod_self_right, Nat.mod_eq_of_lt hts]
    simp only [deinterleave, if_neg hne, List.getElem_take, List.getElem_drop, List.getElem_map, List.getElem_range,
      hdiv, hmod, hds, hc, hts, h2, and_self, ↓reduceIte]

/-! ### `FrameBuf` -/

/-- Fields of the result of an accepted fill. -/
theorem fillInterleaved_ok (fb fb' : FrameBuf) (xs : List Int) (h : fb.fillInterleaved xs = .ok fb') :
    xs.length ≤ fb.samples.length ∧ xs.length % fb.channels = 0 ∧
      fb' = { fb with samples := deinterleave xs fb.channels fb.size fb.samples, filled := xs.length / fb.channels } := by
  unfold FrameBuf.fillInterleaved at h
  split at h
  · cases h
  · rename_i hno
    simp only [Except.ok.injEq] at h
    exact ⟨by omega, by omega, h.symm⟩

/-! ### data for the non-vacuity examples of C14 -/

/-- A 3-channel buffer of size 4. -/
def exBuf : FrameBuf := ⟨List.replicate 12 0, 4, 3, 0⟩
def exFull : List Int := [1, 2, 3, 4, 5, 6, 7, 8, 9, 10, 11, 12]
def exShort : List Int := [-8388608, 8388607, -1, -8388608, 8388607, -1]

end SourceLemmas
end FlacVerif
