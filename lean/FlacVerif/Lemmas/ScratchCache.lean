/-
Helper lemmas for C10, site 6: the window cache of `lpc.rs` (`Scratch.Cache`). Core Lean only.
-/
import FlacVerif.Model.Scratch
namespace FlacVerif.Scratch

/-- `fingerprint_window` separates windows whose `alpha` bit patterns are `u32` values. -/
theorem fingerprint_injective (w1 w2 : Win) (h1 : w1.Valid) (h2 : w2.Valid)
    (h : fingerprint w1 = fingerprint w2) : w1 = w2 := by
  cases w1 with
  | rectangle =>
    cases w2 with
    | rectangle => rfl
    | tukey b =>
      simp only [Win.Valid] at h2
      simp only [fingerprint] at h
      omega
  | tukey a =>
    cases w2 with
    | rectangle =>
      simp only [Win.Valid] at h1
      simp only [fingerprint] at h
      omega
    | tukey b =>
      simp only [Win.Valid] at h1 h2
      simp only [fingerprint] at h
      have : a = b := by omega
      rw [this]

theorem key_injective (s1 s2 : Nat) (w1 w2 : Win) (h1 : w1.Valid) (h2 : w2.Valid)
    (h : Key.mk s1 (fingerprint w1) = Key.mk s2 (fingerprint w2)) : s1 = s2 ∧ w1 = w2 := by
  injection h with hs hf
  exact ⟨hs, fingerprint_injective w1 w2 h1 h2 hf⟩

namespace Cache

/-- Every stored entry was computed for the `(size, window)` its key stands for. -/
def Inv (c : Cache) : Prop := ∀ e ∈ c, e.1 = Key.mk e.2.1 (fingerprint e.2.2) ∧ e.2.2.Valid

theorem inv_empty : Cache.empty.Inv := by
  intro e he; cases he

theorem get_insert_self (c : Cache) (k : Key) (v : Prov) : (c.insert k v).get k = some v := by
  simp [get, insert]

theorem get_some_mem (c : Cache) (k : Key) (p : Prov) (h : c.get k = some p) : (k, p) ∈ c := by
  unfold get at h
  cases hf : c.find? (fun e => e.1 == k) with
  | none => rw [hf] at h; cases h
  | some e =>
    rw [hf] at h
    simp only [Option.map_some, Option.some.injEq] at h
    have hm := List.mem_of_find?_eq_some hf
    have hk := List.find?_some hf
    simp only [beq_iff_eq] at hk
    have : e = (k, p) := by
      cases e with
      | mk a b => simp only at hk h; rw [hk, h]
    rw [← this]; exact hm

theorem inv_insert (c : Cache) (hinv : c.Inv) (size : Nat) (w : Win) (hw : w.Valid) :
    (c.insert ⟨size, fingerprint w⟩ (size, w)).Inv := by
  intro e he
  simp only [insert, List.mem_cons, List.mem_filter] at he
  rcases he with he | ⟨he, _⟩
  · rw [he]; exact ⟨rfl, hw⟩
  · exact hinv e he

/-- One call of `get_window`: the weights handed out were computed for exactly the requested
`(size, window)`, whatever earlier calls put into the cache; and the invariant is kept. -/
theorem lookupOrInsert_spec (c : Cache) (hinv : c.Inv) (size : Nat) (w : Win) (hw : w.Valid) :
    (c.lookupOrInsert size w).2 = (size, w) ∧ (c.lookupOrInsert size w).1.Inv := by
  simp only [lookupOrInsert, lookupOrInsertWith]
  cases hg : c.get ⟨size, fingerprint w⟩ with
  | none =>
    simp only [Option.isNone_none, ↓reduceIte, get_insert_self, Option.getD_some, true_and]
    exact inv_insert c hinv size w hw
  | some p =>
    simp only [Option.isNone_some, Bool.false_eq_true, ↓reduceIte, hg, Option.getD_some]
    refine ⟨?_, hinv⟩
    have hm := get_some_mem c _ p hg
    obtain ⟨hk, hv⟩ := hinv _ hm
    simp only at hk hv
    obtain ⟨hs, hw'⟩ := key_injective size p.1 w p.2 hw hv hk
    cases p with
    | mk a b => simp only at hs hw'; rw [hs, hw']

/-- History form: from any cache satisfying the invariant, every call of a history returns the
requested provenance. -/
theorem run_spec (c : Cache) (hinv : c.Inv) (reqs : List (Nat × Win)) (hv : ∀ r ∈ reqs, r.2.Valid) :
    c.run reqs = reqs := by
  unfold run
  induction reqs generalizing c with
  | nil => rfl
  | cons r rest ih =>
    cases r with
    | mk size w =>
      have hw : w.Valid := hv (size, w) (by simp)
      obtain ⟨h1, h2⟩ := lookupOrInsert_spec c hinv size w hw
      unfold lookupOrInsert at h1 h2
      simp only [runWith, h1]
      rw [ih _ h2 (fun r hr => hv r (by simp [hr]))]

end Cache
end FlacVerif.Scratch
