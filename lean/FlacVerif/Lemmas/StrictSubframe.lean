/-
Strict round trip (C01/C02), part 9: the sub-frame theorem, assembled.
-/
import FlacVerif.Lemmas.StrictSubEnc
namespace FlacVerif
namespace Strict
open Rfc

theorem isConstant_replicate (xs : List Int) (h : isConstant xs = true) :
    xs = List.replicate xs.length (xs.headD 0) := by
  cases xs with
  | nil => rfl
  | cons x rest =>
    simp only [isConstant, List.all_eq_true, beq_iff_eq] at h
    simp only [List.headD_cons, List.length_cons, List.replicate_succ, List.cons.injEq, true_and]
    exact List.eq_replicate_iff.2 ⟨rfl, h⟩

theorem headD_mem (xs : List Int) (h : 1 ≤ xs.length) : xs.headD 0 ∈ xs := by
  cases xs with
  | nil => simp at h
  | cons x rest => simp

theorem fits_of_range (l : List Int) (h : ∀ e ∈ l, -(2 ^ 31 : Int) < e ∧ e < (2 ^ 31 : Int)) :
    ∀ e ∈ l, fitsI32 e = true := by
  intro e he
  have := h e he
  rw [fitsI32_iff]; omega

theorem subframe_fixed (cfg : SubCfg) (xs : List Int) (bps : Nat) (s : SubFrame)
    (hn : 64 ≤ xs.length) (hlen : xs.length < 2 ^ 16) (hb : 1 ≤ bps ∧ bps ≤ 25)
    (hx : ∀ x ∈ xs, SubFrame.inRange bps x = true) (hmax : cfg.maxP ≤ 14)
    (hs : FixedShape cfg xs bps s) (k : Bits) :
    ∃ rep, readSubframe xs.length bps (s.bits ++ k) = .ok (rep, k) ∧ rep.samples = xs ∧
      rep.bitLen = s.bits.length ∧ s.WF := by
  obtain ⟨kord, prc, hk4, hsearch, rfl⟩ := hs
  obtain ⟨hdl, hdr, hdd⟩ := diffs_fixed bps hb xs hx kord hk4 (by omega)
  obtain ⟨hwf, hrd⟩ := residual_of_search (diffs kord xs) kord cfg.maxP prc (fits_of_range _ hdr)
    (by rw [hdl]; omega) (by rw [hdl]; exact hlen) hmax (by omega) hsearch k
  rw [hdl, hdd] at hrd
  obtain ⟨rep, h1, h2, h3⟩ := readSubframe_fixed xs bps kord _ _ _ k hb.1 hx hk4 (by omega) hrd
  refine ⟨rep, h1, h2, h3, ?_⟩
  have hwl : (xs.take kord).length = kord := by rw [List.length_take]; omega
  refine ⟨by omega, by rw [hwl]; rfl, hwf, ?_, hb.1, by omega, fun x hxm => hx x (List.mem_of_mem_take hxm)⟩
  rw [hwl, ofErrors_blockSize, hdl]; omega

theorem subframe_lpc (cfg : SubCfg) (xs : List Int) (bps : Nat) (log : List OEvent) (s : SubFrame)
    (hn : 64 ≤ xs.length) (hlen : xs.length < 2 ^ 16) (hb : 1 ≤ bps ∧ bps ≤ 32)
    (hx : ∀ x ∈ xs, SubFrame.inRange bps x = true) (hmax : cfg.maxP ≤ 14)
    (hlog : ∀ e ∈ log, e.Ok)
    (hs : LpcShape cfg xs bps log s) (k : Bits) :
    ∃ rep, readSubframe xs.length bps (s.bits ++ k) = .ok (rep, k) ∧ rep.samples = xs ∧
      rep.bitLen = s.bits.length ∧ s.WF := by
  obtain ⟨coefs, shift, precision, errors, prc, hmem, hce, hsearch, rfl⟩ := hs
  obtain ⟨hc1, hc24, hp1, hp15, hs0, hs15, hcr⟩ := hlog _ hmem
  have hc32 : coefs.length ≤ 32 := by unfold maxLpcOrder at hc24; omega
  obtain ⟨hel, hef, hed⟩ := computeError_spec coefs shift.toNat xs errors hce
  obtain ⟨hwf, hrd⟩ := residual_of_search errors coefs.length cfg.maxP prc hef
    (by rw [hel]; omega) (by rw [hel]; exact hlen) hmax (by omega) hsearch k
  rw [hel, hed] at hrd
  obtain ⟨rep, h1, h2, h3⟩ := readSubframe_lpc xs bps coefs shift precision _ _ _ k hb.1 hx hc1 hc32 (by omega)
    hp1 hp15 hs0 hs15 hcr hrd
  refine ⟨rep, h1, h2, h3, ?_⟩
  have hwl : (xs.take coefs.length).length = coefs.length := by rw [List.length_take]; omega
  refine ⟨hc1, hc32, hwl, by rw [hwl]; rfl, hwf, ?_, hp1, hp15, hs0, hs15, hcr, hb.1, hb.2,
    fun x hxm => hx x (List.mem_of_mem_take hxm)⟩
  rw [hwl, ofErrors_blockSize, hel]; omega

/-- The sub-frame theorem (see `C01_subframe_strict`). -/
theorem subframe_strict (cfg : SubCfg) (xs : List Int) (bps : Nat) (log log' : List OEvent) (s : SubFrame)
    (hn : 1 ≤ xs.length) (hlen : xs.length < 2 ^ 16) (hb : 1 ≤ bps ∧ bps ≤ 25)
    (hx : ∀ x ∈ xs, SubFrame.inRange bps x = true) (hmax : cfg.maxP ≤ 14)
    (hlog : ∀ e ∈ log, e.Ok)
    (h : encodeSubframe cfg xs bps log = some (s, log')) (k : Bits) :
    ∃ rep, readSubframe xs.length bps (s.bits ++ k) = .ok (rep, k) ∧ rep.samples = xs ∧
      rep.bitLen = s.bits.length ∧ s.WF := by
  rcases encodeSubframe_shape cfg xs bps log log' s h with ⟨hc, rfl⟩ | rfl | ⟨h64, hs⟩ | ⟨h64, log1, hsub, hs⟩
  · have hdc := hx _ (headD_mem xs hn)
    obtain ⟨rep, h1, h2, h3⟩ := readSubframe_constant xs.length bps (xs.headD 0) k hb.1 hdc
    exact ⟨rep, h1, by rw [h2, ← isConstant_replicate xs hc], h3, hn, hb.1, by omega, hdc⟩
  · obtain ⟨rep, h1, h2, h3⟩ := readSubframe_verbatim xs bps k hb.1 hx
    exact ⟨rep, h1, h2, h3, hn, hb.1, by omega, hx⟩
  · exact subframe_fixed cfg xs bps s h64 hlen hb hx hmax hs k
  · exact subframe_lpc cfg xs bps log1 s h64 hlen ⟨hb.1, by omega⟩ hx hmax
      (fun e he => hlog e (hsub e he)) hs k

end Strict
end FlacVerif
