/-
Wrapping decoder (C01, release build), part 1: the 32-bit reductions of the repository's decoder
mirror (`Repo.asSigned 32`, `Repo.i32op false`) are the encoder model's `wrap32`; algebra of `wrap32`.
-/
import FlacVerif.Model.RepoParser
import FlacVerif.Model.Predict
import FlacVerif.Lemmas.StrictLpc
namespace FlacVerif
namespace Wrap
open Repo

theorem asSigned32_eq_wrap32 (v : Int) : asSigned 32 v = wrap32 v := by
  unfold asSigned wrap32
  simp only []
  split <;> omega

theorem inI32_iff (v : Int) : inI32 v = true ↔ -(2 ^ 31 : Int) ≤ v ∧ v < (2 ^ 31 : Int) := by
  simp [inI32]

theorem wrap32_id (v : Int) (h1 : -(2 ^ 31 : Int) ≤ v) (h2 : v < (2 ^ 31 : Int)) : wrap32 v = v := by
  unfold wrap32; omega

/-- The release build's `i32` arithmetic: the exact result reduced to 32 bits. -/
theorem i32op_false (site : String) (v : Int) : i32op false site v = .ok (wrap32 v) := by
  unfold i32op
  split
  · rename_i h
    rw [inI32_iff] at h
    rw [wrap32_id v h.1 h.2]
  · simp [asSigned32_eq_wrap32]

/-- In range, both builds agree and nothing wraps. -/
theorem i32op_inRange (debug : Bool) (site : String) (v : Int) (h1 : -(2 ^ 31 : Int) ≤ v) (h2 : v < (2 ^ 31 : Int)) :
    i32op debug site v = .ok v := by
  unfold i32op
  rw [if_pos ((inI32_iff v).2 ⟨h1, h2⟩)]

theorem wrap32_add_wrap32 (a b : Int) : wrap32 (wrap32 a + wrap32 b) = wrap32 (a + b) := by
  unfold wrap32; omega

theorem wrap32_sub_wrap32 (a b : Int) : wrap32 (wrap32 a - wrap32 b) = wrap32 (a - b) := by
  unfold wrap32; omega

theorem wrap32_add_left (a b : Int) : wrap32 (wrap32 a + b) = wrap32 (a + b) := by
  unfold wrap32; omega

theorem wrap32_range (v : Int) : -(2 ^ 31 : Int) ≤ wrap32 v ∧ wrap32 v < (2 ^ 31 : Int) := by
  unfold wrap32; omega

/-- The reconstruction step: residual `wrap32 (x - p)` plus the 32-bit prediction gives `x` back. -/
theorem wrap32_recon (x p : Int) (h1 : -(2 ^ 31 : Int) ≤ x) (h2 : x < (2 ^ 31 : Int)) :
    wrap32 (wrap32 (x - p) + wrap32 p) = x := by
  rw [wrap32_add_wrap32, show x - p + p = x by omega, wrap32_id x h1 h2]

end Wrap
end FlacVerif
