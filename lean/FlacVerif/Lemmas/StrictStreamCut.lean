/-
Strict round trip (C01/C02), part 20: `Rfc.analyzeRec` cut into pieces (each a verbatim copy of the
corresponding part; `analyzeRec_eq` is proved by unfolding and `rfl`).
-/
import FlacVerif.Lemmas.StrictStreamEnc
namespace FlacVerif
namespace Strict
open Rfc

/-- Body of the stream-level consistency loop of `analyze`. -/
def checkFrame (minBlock maxBlock minFrame maxFrame nfr : Nat) (x : FrameRep × Nat) (_ : PUnit.{1}) :
    R (ForInStep PUnit.{1}) :=
  match x with
  | (f, i) => do
    if i + 1 < nfr then
      if f.blockSize ≠ maxBlock then throw s!"stream: non-final frame {i} does not hold the fixed block size"
      if f.blockSize < minBlock then throw s!"stream: non-final frame {i} is shorter than the minimum block size"
    else
      if f.blockSize > maxBlock then throw "stream: final frame larger than the maximum block size"
    if maxFrame ≠ 0 ∧ (f.byteLen < minFrame ∨ f.byteLen > maxFrame) then
      throw s!"stream: frame {i} has {f.byteLen} bytes, outside STREAMINFO's frame size bounds"
    pure (ForInStep.yield PUnit.unit)

/-- The stream-level consistency loop of `analyze`. -/
def consistency (minBlock maxBlock minFrame maxFrame : Nat) (framesR : List FrameRep) : R PUnit.{1} :=
  forIn framesR.zipIdx PUnit.unit (checkFrame minBlock maxBlock minFrame maxFrame framesR.length)

/-- `analyze` after the frame loop. -/
def analyzeTail (md5 : List Nat → List Nat) (info : Info) (minBlock maxBlock minFrame maxFrame totalSamples : Nat)
    (md5v : List Nat) (nblocks : Nat) (frames : List FrameRep) : R Report := do
  let framesR := frames.reverse
  consistency minBlock maxBlock minFrame maxFrame framesR
  let sumN := (framesR.map (·.blockSize)).foldl (· + ·) 0
  if totalSamples ≠ 0 ∧ sumN ≠ totalSamples then throw "stream: total sample count differs from the frames"
  let audio : List (List Int) := (List.range info.channels).map fun c => framesR.flatMap fun f => f.channels.getD c []
  if md5v.any (· ≠ 0) then
    let k := (info.bps + 7) / 8
    let pcm := (interleave audio).flatMap (toLeBytes k)
    if md5 pcm ≠ md5v then throw "stream: MD5 signature differs from the decoded audio"
  pure ⟨info, nblocks, framesR, audio⟩

/-- `analyze` from the STREAMINFO fields on. -/
def analyzeInfo (md5 : List Nat → List Nat) (bytes rest : List Nat) (h0 : Nat) (sb : Bits) : R Report := do
  let (minBlock, sb) ← readNat 16 sb "min block size"
  let (maxBlock, sb) ← readNat 16 sb "max block size"
  let (minFrame, sb) ← readNat 24 sb "min frame size"
  let (maxFrame, sb) ← readNat 24 sb "max frame size"
  let (rate, sb) ← readNat 20 sb "sample rate"
  let (ch1, sb) ← readNat 3 sb "channels"
  let (bps1, sb) ← readNat 5 sb "bits per sample"
  let (totalSamples, sb) ← readNat 36 sb "total samples"
  let md5v := (List.range 16).map fun i => bitsToNat ((sb.drop (8 * i)).take 8)
  let info : Info := ⟨minBlock, maxBlock, minFrame, maxFrame, rate, ch1 + 1, bps1 + 1, totalSamples, md5v⟩
  if minBlock < 16 then throw "STREAMINFO: minimum block size below 16"
  if maxBlock < 16 then throw "STREAMINFO: maximum block size below 16"
  if minBlock > maxBlock then throw "STREAMINFO: minimum block size above maximum"
  if rate = 0 then throw "STREAMINFO: sample rate 0"
  if info.bps < 4 then throw "STREAMINFO: bits per sample below 4"
  if maxFrame ≠ 0 ∧ minFrame > maxFrame then throw "STREAMINFO: minimum frame size above maximum"
  let (rest, last, nblocks) ← skipMetadata bytes.length (rest.drop 38) (decide (h0 ≥ 128)) 0
  if !last then throw "stream: no metadata block is flagged last"
  let frames ← readFrames info bytes.length rest (bytesToBits rest) 0 []
  analyzeTail md5 info minBlock maxBlock minFrame maxFrame totalSamples md5v nblocks frames

theorem analyzeRec_eq (md5 : List Nat → List Nat) (bytes : List Nat) :
    analyzeRec md5 bytes = (do
      if bytes.take 4 ≠ [0x66, 0x4C, 0x61, 0x43] then throw "stream: missing fLaC marker"
      let rest := bytes.drop 4
      if rest.length < 4 then throw "stream: truncated metadata header"
      let h0 := rest.getD 0 0
      if h0 % 128 ≠ 0 then throw "stream: first metadata block is not STREAMINFO"
      let len0 := rest.getD 1 0 * 65536 + rest.getD 2 0 * 256 + rest.getD 3 0
      if len0 ≠ 34 then throw "stream: STREAMINFO length is not 34"
      if rest.length < 38 then throw "stream: truncated STREAMINFO"
      analyzeInfo md5 bytes rest h0 (bytesToBits ((rest.drop 4).take 34))) := by
  unfold analyzeRec analyzeInfo analyzeTail consistency checkFrame
  rfl

end Strict
end FlacVerif
